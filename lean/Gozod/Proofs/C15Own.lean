/-
  C15 for EVERY schema-owned cell (`Gozod.Model.Owned`): not only the default / prefault handed out by Parse(nil), but
  the members of literals, the defaults of member schemas, and every schema embedded in an object / slice / record / union.

    own_parse_ext         Parse of any input with any schema writes nothing that existed (schema cells, caller cells)
    own_result_fresh      the code as it is (no literal hands out its declared member): every cell of a result is either
                          allocated by this call or a cell of the caller's own input — never a schema-owned cell
                          (generalises `g_result_fresh` from the default cell to all schema-owned cells)
    own_mutate_reach      deep in-place mutation changes no reference: what is reachable from any value is what it was
    own_hist              ANY history of Parse calls (any schema of the family, on a newly built equal copy of any input) and
                          deep mutations of any earlier result: every cell that existed at the start — everything the
                          schemas hold, and the caller's original inputs — holds bit-for-bit what it held
                          (generalises `g_hist`; no hypothesis about where the caller writes)
    own_hist_schema_look  … hence every literal member / default of the family looks the same and stays schema-owned
    lit_member_shared     witness: a literal that continues with its declared member (`retMember`, the class of seeded/C15c)
                          returns a schema-owned cell; one store through the result and the same input is refused
-/
import Gozod.Model.Owned
import Gozod.Proofs.C15Agg

namespace Gozod.C15
open Gozod.Graph

/-- every cell the schema holds (literal members, defaults, those of every embedded schema) lies below `n` -/
def OwnedS (n : Nat) (h : GHeap) : GSchema → Prop
  | .any => True
  | .str _ => True
  | .lit _ ms => ∀ m ∈ ms, ∀ x ∈ reach gdepth h m, x < n
  | .dflt d t => (∀ x ∈ reach gdepth h d, x < n) ∧ OwnedS n h t
  | .obj _ _ kids => ∀ k, OwnedS n h (kids k)
  | .slice t => OwnedS n h t
  | .record t => OwnedS n h t
  | .union a b => OwnedS n h a ∧ OwnedS n h b

/-- the code as it is: no literal of the schema hands out its declared member -/
def NoRet : GSchema → Prop
  | .any => True
  | .str _ => True
  | .lit rm _ => rm = false
  | .dflt _ t => NoRet t
  | .obj _ _ kids => ∀ k, NoRet (kids k)
  | .slice t => NoRet t
  | .record t => NoRet t
  | .union a b => NoRet a ∧ NoRet b

/-- the owned region stays owned (same cells, same look) under any extension that writes nothing below `n` -/
theorem owned_ext (n : Nat) (σ σ' : GStore) (he : GExt n σ σ') : ∀ s, OwnedS n σ.heap s → OwnedS n σ'.heap s := by
  intro s
  induction s with
  | any => intro _; trivial
  | str _ => intro _; trivial
  | lit rm ms =>
    intro h m hm x hx
    rw [(g_graph_frame gdepth n σ σ' m he (h m hm)).1] at hx
    exact h m hm x hx
  | dflt d t ih =>
    intro h
    refine ⟨fun x hx => ?_, ih h.2⟩
    rw [(g_graph_frame gdepth n σ σ' d he h.1).1] at hx
    exact h.1 x hx
  | obj _ _ kids ih => intro h k; exact ih k (h k)
  | slice t ih => exact ih
  | record t ih => exact ih
  | union a b iha ihb => intro h; exact ⟨iha h.1, ihb h.2⟩

/-! ### Parse writes nothing that existed -/

/-- a container's entries one after the other: if every step only extends the store (given that the store so far is an
    extension of `σ` that wrote nothing below `n`), so does the whole pass -/
theorem fold_ext (n : Nat) (σ : GStore) (step : GStore → Nat × GVal → StepRes)
    (hs : ∀ (σ' : GStore) (p : Nat × GVal), GExt n σ σ' → n ≤ σ'.next → GExt σ'.next σ' (step σ' p).1) (es : Entries) :
    ∀ (σ' : GStore), GExt n σ σ' → n ≤ σ'.next → GExt σ'.next σ' (foldEntries step es σ').1 := by
  induction es with
  | nil => intro σ' _ _; exact GExt.refl _ _
  | cons p ps ih =>
    intro σ' he hn
    have e1 := hs σ' p he hn
    unfold foldEntries
    split
    · exact e1
    · exact e1.trans ((ih (step σ' p).1 (he.trans (e1.mono hn)) (Nat.le_trans hn e1.1)).mono e1.1)

/-- what comes out of a container pass are entries of the input -/
theorem fold_out_sub (step : GStore → Nat × GVal → StepRes)
    (hs : ∀ (σ : GStore) (p : Nat × GVal) (e : Nat × GVal), (step σ p).2 = some (some e) → e = p) (es : Entries) :
    ∀ (σ : GStore) (out : Entries), (foldEntries step es σ).2 = some out → ∀ e ∈ out, e ∈ es := by
  induction es with
  | nil =>
    intro σ out h e he
    simp only [foldEntries, Option.some.injEq] at h
    subst h
    cases he
  | cons p ps ih =>
    intro σ out h e he
    unfold foldEntries at h
    split at h
    · cases h
    · next e' hstep =>
      simp only at h
      cases hrest : (foldEntries step ps (step σ p).1).2 with
      | none => rw [hrest] at h; cases h
      | some out' =>
        rw [hrest] at h
        simp only [Option.some.injEq] at h
        subst h
        cases e' with
        | none => exact List.mem_cons_of_mem _ (ih _ out' hrest e he)
        | some x =>
          simp only [List.mem_cons] at he
          rcases he with rfl | he
          · rw [hs σ p e hstep]; exact List.mem_cons_self ..
          · exact List.mem_cons_of_mem _ (ih _ out' hrest e he)

theorem finish_ext (n : Nat) (σ : GStore) (r : GStore × Option Entries) (he : GExt n σ r.1) (hn : n ≤ r.1.next) :
    GExt n σ (finish r).1 := by
  unfold finish
  split
  · exact he
  · exact he.trans (galloc_ext n _ _ hn)

def ParseExt (s : GSchema) : Prop :=
  ∀ (σ : GStore) (v : GVal) (n : Nat), n ≤ σ.next → OwnedS n σ.heap s → GExt σ.next σ (parseS s σ v).1

/-- **own_parse_ext**: Parse — of any value, with any schema of the language, accepted or refused — only allocates:
    every cell that existed before the call (the schema's, the caller's) holds what it held. -/
theorem own_parse_ext : ∀ s, ParseExt s := by
  intro s
  induction s with
  | any => intro σ v n _ _; exact GExt.refl _ _
  | str ss =>
    intro σ v n _ _
    unfold parseS
    split <;> exact GExt.refl _ _
  | lit rm ms =>
    intro σ v n _ _
    unfold parseS
    split
    · exact GExt.refl _ _
    · split <;> exact GExt.refl _ _
  | dflt d t ih =>
    intro σ v n hn ho
    unfold parseS
    split
    · exact (g_copyOK gdepth σ d n hn ho.1).1
    · exact ih σ v n hn ho.2
  | obj mode fields kids ih =>
    intro σ v n hn ho
    unfold parseS
    split
    · next l =>
      split
      · have e := fold_ext n σ (objStep mode fields (fun k => parseS (kids k))) (fun σ' p he hn' => by
          unfold objStep
          split
          · exact ih p.1 σ' p.2 n hn' (owned_ext n σ σ' he _ (ho p.1))
          · unfold unknownStep
            split <;> exact GExt.refl _ _) (readG σ.heap l) σ (GExt.refl _ _) hn
        exact finish_ext σ.next σ _ e e.1
      · exact GExt.refl _ _
    all_goals exact GExt.refl _ _
  | slice t ih =>
    intro σ v n hn ho
    unfold parseS
    split
    · next l =>
      split
      · have e := fold_ext n σ (valStep (parseS t)) (fun σ' p he hn' =>
          ih σ' p.2 n hn' (owned_ext n σ σ' he _ ho)) (readG σ.heap l) σ (GExt.refl _ _) hn
        unfold validated
        split <;> exact e
      · exact GExt.refl _ _
    all_goals exact GExt.refl _ _
  | record t ih =>
    intro σ v n hn ho
    unfold parseS
    split
    · next l =>
      split
      · have e := fold_ext n σ (valStep (parseS t)) (fun σ' p he hn' =>
          ih σ' p.2 n hn' (owned_ext n σ σ' he _ ho)) (readG σ.heap l) σ (GExt.refl _ _) hn
        unfold validated
        split <;> exact e
      · exact GExt.refl _ _
    all_goals exact GExt.refl _ _
  | union a b iha ihb =>
    intro σ v n hn ho
    unfold parseS
    split
    · exact GExt.refl _ _
    · have ea := iha σ v n hn ho.1
      split
      · exact ea
      · exact ea.trans ((ihb _ v n (Nat.le_trans hn ea.1) (owned_ext n σ _ (ea.mono hn) b ho.2)).mono ea.1)

/-! ### results are made of new cells and of the caller's own cells -/

theorem reach_gdepth_ref (h : GHeap) (l : Loc) :
    reach gdepth h (.ref l) = l :: (readG h l).flatMap (fun p => reach 15 h p.2) := rfl

theorem objStep_keeps (mode : ObjMode) (fields : List Nat) (pk : Nat → GStore → GVal → GStore × Option GVal)
    (σ : GStore) (p e : Nat × GVal) (h : (objStep mode fields pk σ p).2 = some (some e)) : e = p := by
  unfold objStep at h
  split at h
  · cases hp : (pk p.1 σ p.2).2 with
    | none => simp [hp] at h
    | some r => simp [hp] at h; exact h.symm
  · unfold unknownStep at h
    split at h <;> simp at h
    exact h.symm

def ResultOK (s : GSchema) : Prop :=
  ∀ (σ : GStore) (v : GVal) (n : Nat), n ≤ σ.next → OwnedS n σ.heap s →
    (∀ x ∈ reach gdepth σ.heap v, x < σ.next) →
    ∀ (σ' : GStore) (r : GVal), parseS s σ v = (σ', some r) → ∀ x ∈ reach gdepth σ'.heap r,
      (σ.next ≤ x ∧ x < σ'.next) ∨ x ∈ reach gdepth σ.heap v

theorem validated_result (t : GSchema) (σ : GStore) (v : GVal) (n : Nat) (hn : n ≤ σ.next) (ho : OwnedS n σ.heap t)
    (hv : ∀ x ∈ reach gdepth σ.heap v, x < σ.next) (es : Entries) (σ' : GStore) (r : GVal)
    (hp : validated (foldEntries (valStep (parseS t)) es σ) v = (σ', some r)) :
    ∀ x ∈ reach gdepth σ'.heap r, (σ.next ≤ x ∧ x < σ'.next) ∨ x ∈ reach gdepth σ.heap v := by
  have e := fold_ext n σ (valStep (parseS t)) (fun σ' p he hn' =>
    own_parse_ext t σ' p.2 n hn' (owned_ext n σ σ' he _ ho)) es σ (GExt.refl _ _) hn
  unfold validated at hp
  split at hp
  · simp only [Prod.mk.injEq, Option.some.injEq] at hp
    obtain ⟨rfl, rfl⟩ := hp
    intro x hx
    rw [(g_graph_frame gdepth σ.next σ _ _ e hv).1] at hx
    exact Or.inr hx
  · simp at hp

theorem own_result_fresh' : ∀ s, NoRet s → ResultOK s := by
  intro s
  induction s with
  | any =>
    intro _ σ v n _ _ _ σ' r hp x hx
    simp only [parseS, Prod.mk.injEq, Option.some.injEq] at hp
    obtain ⟨rfl, rfl⟩ := hp
    exact Or.inr hx
  | str ss =>
    intro _ σ v n _ _ _ σ' r hp x hx
    unfold parseS at hp
    split at hp
    · split at hp
      · simp only [Prod.mk.injEq, Option.some.injEq] at hp
        obtain ⟨rfl, rfl⟩ := hp
        exact Or.inr hx
      · simp at hp
    · simp at hp
  | lit rm ms =>
    intro hnr σ v n _ _ _ σ' r hp x hx
    simp only [NoRet] at hnr
    subst hnr
    unfold parseS at hp
    split at hp
    · simp at hp
    · split at hp
      · simp only [Bool.false_eq_true, ↓reduceIte, Prod.mk.injEq, Option.some.injEq] at hp
        obtain ⟨rfl, rfl⟩ := hp
        exact Or.inr hx
      · simp at hp
  | dflt d t ih =>
    intro hnr σ v n hn ho hv σ' r hp x hx
    unfold parseS at hp
    split at hp
    · simp only [Prod.mk.injEq, Option.some.injEq] at hp
      obtain ⟨rfl, rfl⟩ := hp
      exact Or.inl ((g_copyOK gdepth σ d n hn ho.1).2.2 x hx)
    · exact ih hnr σ v n hn ho.2 hv σ' r hp x hx
  | obj mode fields kids _ =>
    intro _ σ v n hn ho hv σ' r hp x hx
    unfold parseS at hp
    split at hp
    · next l =>
      split at hp
      · have e1 := fold_ext n σ (objStep mode fields (fun k => parseS (kids k))) (fun σ' p he hn' => by
          unfold objStep
          split
          · exact own_parse_ext (kids p.1) σ' p.2 n hn' (owned_ext n σ σ' he _ (ho p.1))
          · unfold unknownStep
            split <;> exact GExt.refl _ _) (readG σ.heap l) σ (GExt.refl _ _) hn
        unfold finish at hp
        split at hp
        · simp at hp
        · next out hout =>
          simp only [Prod.mk.injEq, Option.some.injEq] at hp
          obtain ⟨rfl, rfl⟩ := hp
          have hext : GExt σ.next σ (galloc (foldEntries (objStep mode fields (fun k => parseS (kids k))) (readG σ.heap l) σ).1 out).1 :=
            e1.trans (galloc_ext _ _ _ e1.1)
          rw [reach_gdepth_ref] at hx
          simp only [List.mem_cons, List.mem_flatMap] at hx
          rcases hx with rfl | ⟨e, he, hx⟩
          · exact Or.inl ⟨e1.1, by simp [galloc]⟩
          · -- an entry of the new map is an entry of the caller's map: its cells are the caller's
            simp only [galloc, readG, gupd, ↓reduceIte] at he
            have hin : e ∈ readG σ.heap l :=
              fold_out_sub _ (fun σ' p e' h => objStep_keeps mode fields _ σ' p e' h) (readG σ.heap l) σ out hout e he
            have hb : ∀ y ∈ reach 15 σ.heap e.2, y < σ.next := by
              intro y hy
              apply hv
              rw [reach_gdepth_ref]
              simp only [List.mem_cons, List.mem_flatMap]
              exact Or.inr ⟨e, hin, hy⟩
            rw [(g_graph_frame 15 σ.next σ _ e.2 hext hb).1] at hx
            right
            rw [reach_gdepth_ref]
            simp only [List.mem_cons, List.mem_flatMap]
            exact Or.inr ⟨e, hin, hx⟩
      · simp at hp
    all_goals simp at hp
  | slice t _ =>
    intro _ σ v n hn ho hv σ' r hp
    unfold parseS at hp
    split at hp
    · split at hp
      · exact validated_result t σ _ n hn ho hv _ σ' r hp
      · simp at hp
    all_goals simp at hp
  | record t _ =>
    intro _ σ v n hn ho hv σ' r hp
    unfold parseS at hp
    split at hp
    · split at hp
      · exact validated_result t σ _ n hn ho hv _ σ' r hp
      · simp at hp
    all_goals simp at hp
  | union a b iha ihb =>
    intro hnr σ v n hn ho hv σ' r hp x hx
    have ea := own_parse_ext a σ v n hn ho.1
    unfold parseS at hp
    split at hp
    · simp at hp
    · split at hp
      · next r' ha =>
        simp only [Prod.mk.injEq, Option.some.injEq] at hp
        obtain ⟨rfl, rfl⟩ := hp
        exact iha hnr.1 σ v n hn ho.1 hv _ r' (Prod.ext rfl ha) x hx
      · have hfr := g_graph_frame gdepth σ.next σ _ v ea hv
        have hv' : ∀ y ∈ reach gdepth (parseS a σ v).1.heap v, y < (parseS a σ v).1.next := by
          intro y hy
          rw [hfr.1] at hy
          exact Nat.lt_of_lt_of_le (hv y hy) ea.1
        rcases ihb hnr.2 _ v n (Nat.le_trans hn ea.1) (owned_ext n σ _ (ea.mono hn) b ho.2) hv' σ' r hp x hx with h | h
        · exact Or.inl ⟨Nat.le_trans ea.1 h.1, h.2⟩
        · rw [hfr.1] at h
          exact Or.inr h

/-- **own_result_fresh** (the code as it is: `NoRet`): every cell reachable from what Parse returns — whatever the
    schema, whatever the input — was either allocated by this call or is reachable from the caller's own input.
    With the schema's cells below `n ≤ σ.next` and the input's cells not among them, no schema-owned cell is handed out. -/
theorem own_result_fresh (s : GSchema) (hnr : NoRet s) (σ : GStore) (v : GVal) (n : Nat) (hn : n ≤ σ.next)
    (ho : OwnedS n σ.heap s) (hv : ∀ x ∈ reach gdepth σ.heap v, x < σ.next) (r : GVal)
    (hr : (parseS s σ v).2 = some r) :
    ∀ x ∈ reach gdepth (parseS s σ v).1.heap r,
      (σ.next ≤ x ∧ x < (parseS s σ v).1.next) ∨ x ∈ reach gdepth σ.heap v :=
  own_result_fresh' s hnr σ v n hn ho hv _ r (Prod.ext rfl hr)

/-! ### deep mutation changes no reference -/

theorem reach_scalar (F : Nat) (h : GHeap) (k : Nat) : reach F h (.scalar k) = [] := by
  cases F <;> rfl

theorem scrub_reach (F : Nat) : ∀ (G : Nat) (h : GHeap) (v : GVal), reach F h (scrub G v) = reach F h v := by
  induction F with
  | zero => intro G h v; rfl
  | succ F ih =>
    intro G h v
    cases G with
    | zero => rfl
    | succ G =>
      cases v with
      | scalar k => rfl
      | nil => rfl
      | ref l => rfl
      | agg fs =>
        simp only [scrub, reach, List.flatMap_map]
        exact gflatMap_congr _ _ _ (fun p _ => ih G h p.2)

/-- one cell scrubbed in place: the cells reachable from ANY value are the ones that were -/
theorem assign_scrub_reach (σ : GStore) (l : Loc) (F : Nat) : ∀ (v : GVal),
    reach F (assign σ l (scrubCell (readG σ.heap l))).heap v = reach F σ.heap v := by
  induction F with
  | zero => intro v; rfl
  | succ F ih =>
    intro v
    cases v with
    | scalar k => rfl
    | nil => rfl
    | agg fs =>
      simp only [reach]
      exact gflatMap_congr _ _ _ (fun p _ => ih p.2)
    | ref l' =>
      simp only [reach]
      congr 1
      by_cases hl : l' = l
      · subst hl
        have : readG (assign σ l' (scrubCell (readG σ.heap l'))).heap l' = scrubCell (readG σ.heap l') := by
          simp [readG, assign, gupd]
        rw [this]
        simp only [scrubCell, List.flatMap_append, List.flatMap_map, List.flatMap_cons, List.flatMap_nil,
          reach_scalar, List.append_nil]
        exact gflatMap_congr _ _ _ (fun p _ => (ih _).trans (scrub_reach F gdepth σ.heap p.2))
      · have : readG (assign σ l (scrubCell (readG σ.heap l))).heap l' = readG σ.heap l' := by
          simp [readG, assign, gupd, hl]
        rw [this]
        exact gflatMap_congr _ _ _ (fun p _ => ih p.2)

theorem scrubAll_reach (F : Nat) (w : GVal) (ls : List Loc) : ∀ (σ : GStore),
    reach F (ls.foldl (fun σ l => assign σ l (scrubCell (readG σ.heap l))) σ).heap w = reach F σ.heap w ∧
    (ls.foldl (fun σ l => assign σ l (scrubCell (readG σ.heap l))) σ).next = σ.next := by
  induction ls with
  | nil => intro σ; exact ⟨rfl, rfl⟩
  | cons l ls ih =>
    intro σ
    simp only [List.foldl_cons]
    obtain ⟨h1, h2⟩ := ih (assign σ l (scrubCell (readG σ.heap l)))
    exact ⟨by rw [h1, assign_scrub_reach], by rw [h2]; rfl⟩

/-- **own_mutate_reach**: the deep in-place mutation of everything reachable from `v` (every scalar at every nesting
    changed, an entry added to every cell) changes no reference: from any value `w` the same cells are reachable. -/
theorem own_mutate_reach (σ : GStore) (v w : GVal) :
    reach gdepth (mutateAll σ v).heap w = reach gdepth σ.heap w ∧ (mutateAll σ v).next = σ.next :=
  scrubAll_reach gdepth w _ σ

/-! ### histories -/

/-- what holds at every point of a caller's history that started in `σ0`: nothing that existed then has been written,
    and every value Parse returned consists of cells allocated since -/
def HInv (σ0 : GStore) (st : CState) : Prop :=
  GExt σ0.next σ0 st.σ ∧
  ∀ r : GVal, some r ∈ st.results → ∀ x ∈ reach gdepth st.σ.heap r, σ0.next ≤ x ∧ x < st.σ.next

theorem hinv_step (fam : List GSchema) (ins : List GVal) (σ0 : GStore)
    (hfam : ∀ s ∈ fam, NoRet s ∧ OwnedS σ0.next σ0.heap s)
    (hins : ∀ v ∈ ins, ∀ x ∈ reach gdepth σ0.heap v, x < σ0.next)
    (st : CState) (hi : HInv σ0 st) (c : CStep) : HInv σ0 (stepC fam ins st c) := by
  obtain ⟨he, hres⟩ := hi
  cases c with
  | mutate k =>
    cases hk : st.results[k]? with
    | none => simp only [stepC, hk]; exact ⟨he, hres⟩
    | some o =>
      cases o with
      | none => simp only [stepC, hk]; exact ⟨he, hres⟩
      | some v =>
        simp only [stepC, hk]
        have hv : some v ∈ st.results := List.mem_of_getElem? hk
        have hmr := fun w => own_mutate_reach st.σ v w
        refine ⟨he.trans (mutateAll_ext σ0.next st.σ v (fun x hx => (hres v hv x hx).1)), fun r hr x hx => ?_⟩
        simp only at hx ⊢
        rw [(hmr r).1] at hx
        rw [(hmr r).2]
        exact hres r hr x hx
  | parse j i =>
    cases hj : fam[j]? with
    | none => simp only [stepC, hj]; exact ⟨he, hres⟩
    | some s =>
    cases hi' : ins[i]? with
    | none => simp only [stepC, hj, hi']; exact ⟨he, hres⟩
    | some v =>
      simp only [stepC, hj, hi']
      have hs := hfam s (List.mem_of_getElem? hj)
      have hv0 := hins v (List.mem_of_getElem? hi')
      -- the caller's new copy of the input
      have hv : ∀ x ∈ reach gdepth st.σ.heap v, x < st.σ.next := by
        intro x hx
        rw [(g_graph_frame gdepth σ0.next σ0 st.σ v he hv0).1] at hx
        exact Nat.lt_of_lt_of_le (hv0 x hx) he.1
      obtain ⟨ec, _, hcr⟩ := g_copyOK gdepth st.σ v st.σ.next (Nat.le_refl _) hv
      have he1 : GExt σ0.next σ0 (copy true gdepth st.σ v).1 := he.trans (ec.mono he.1)
      have ho := owned_ext σ0.next σ0 _ he1 s hs.2
      have hn1 : σ0.next ≤ (copy true gdepth st.σ v).1.next := he1.1
      have hcv : ∀ x ∈ reach gdepth (copy true gdepth st.σ v).1.heap (copy true gdepth st.σ v).2,
          x < (copy true gdepth st.σ v).1.next := fun x hx => (hcr x hx).2
      have ep := own_parse_ext s (copy true gdepth st.σ v).1 (copy true gdepth st.σ v).2 σ0.next hn1 ho
      refine ⟨he1.trans (ep.mono hn1), fun r hr x hx => ?_⟩
      simp only [List.mem_append, List.mem_singleton] at hr
      simp only at hx ⊢
      rcases hr with hr | hr
      · -- an earlier result: its cells existed, so they are as they were
        have hb : ∀ y ∈ reach gdepth st.σ.heap r, y < st.σ.next := fun y hy => (hres r hr y hy).2
        have e2 : GExt st.σ.next st.σ (parseS s (copy true gdepth st.σ v).1 (copy true gdepth st.σ v).2).1 :=
          ec.trans (ep.mono ec.1)
        rw [(g_graph_frame gdepth st.σ.next st.σ _ r e2 hb).1] at hx
        exact ⟨(hres r hr x hx).1, Nat.lt_of_lt_of_le (hres r hr x hx).2 e2.1⟩
      · -- the new result: new cells and cells of the caller's new copy
        rcases own_result_fresh s hs.1 _ _ σ0.next hn1 ho hcv r hr.symm x hx with h | h
        · exact ⟨Nat.le_trans hn1 h.1, h.2⟩
        · exact ⟨Nat.le_trans he.1 (hcr x h).1, Nat.lt_of_lt_of_le (hcr x h).2 ep.1⟩

/-- **own_hist**: ANY history — Parse with any schema of the family of a newly built copy of any input, deep in-place
    mutation of any earlier result, in any order, any number of times. Every cell that existed at the start — all that
    the schemas hold (literal members, defaults, those of embedded schemas) and the caller's original inputs — holds
    bit-for-bit what it held, and every result consists of cells allocated during the history.  Nothing is assumed about
    where the caller writes: that it cannot reach a schema-owned cell is part of what is proved. -/
theorem own_hist (fam : List GSchema) (ins : List GVal) (σ0 : GStore)
    (hfam : ∀ s ∈ fam, NoRet s ∧ OwnedS σ0.next σ0.heap s)
    (hins : ∀ v ∈ ins, ∀ x ∈ reach gdepth σ0.heap v, x < σ0.next) (steps : List CStep) :
    HInv σ0 (runC fam ins { σ := σ0, results := [] } steps) := by
  suffices h : ∀ st, HInv σ0 st → HInv σ0 (runC fam ins st steps) from
    h _ ⟨GExt.refl _ _, fun r hr => by cases hr⟩
  induction steps with
  | nil => intro st hi; exact hi
  | cons c cs ih =>
    intro st hi
    simp only [runC, List.foldl_cons]
    exact ih _ (hinv_step fam ins σ0 hfam hins st hi c)

/-- **own_hist_schema_look**: after any history every value that lay in the initial store — every literal member, every
    default, every original input — consists of the same cells and looks the same, and every schema of the family still
    owns exactly what it owned. -/
theorem own_hist_schema_look (fam : List GSchema) (ins : List GVal) (σ0 : GStore)
    (hfam : ∀ s ∈ fam, NoRet s ∧ OwnedS σ0.next σ0.heap s)
    (hins : ∀ v ∈ ins, ∀ x ∈ reach gdepth σ0.heap v, x < σ0.next) (steps : List CStep) :
    (∀ l, l < σ0.next → (runC fam ins { σ := σ0, results := [] } steps).σ.heap l = σ0.heap l) ∧
    (∀ w, (∀ x ∈ reach gdepth σ0.heap w, x < σ0.next) →
      reach gdepth (runC fam ins { σ := σ0, results := [] } steps).σ.heap w = reach gdepth σ0.heap w ∧
      ser gdepth (runC fam ins { σ := σ0, results := [] } steps).σ.heap w = ser gdepth σ0.heap w) ∧
    (∀ s ∈ fam, OwnedS σ0.next (runC fam ins { σ := σ0, results := [] } steps).σ.heap s) := by
  have h := (own_hist fam ins σ0 hfam hins steps).1
  exact ⟨h.2, fun w hw => g_graph_frame gdepth σ0.next σ0 _ w h hw, fun s hs => owned_ext σ0.next σ0 _ h s (hfam s hs).2⟩

/-! ### witness and non-vacuity -/

/-- cell 1 = the schema's literal member `[7]`; cells 2 and 3 = two equal inputs `[7]` the caller built -/
def σw : GStore :=
  { heap := gupd (gupd (gupd (fun _ => none) 1 [(0, .scalar 7)]) 2 [(0, .scalar 7)]) 3 [(0, .scalar 7)], next := 4 }

/-- **Witness (a literal that continues with its declared member — the class of seeded/C15c)**: the result of the first
    Parse is the schema's own cell 1; one store through it, and the equal input 3 is refused by the same schema. -/
def isRef (o : Option GVal) (l : Loc) : Bool :=
  match o with
  | some (.ref x) => x == l
  | _ => false

theorem lit_member_shared :
    let s := GSchema.lit true [.ref 1]
    let r := parseS s σw (.ref 2)
    isRef r.2 1 = true ∧
    (parseS s σw (.ref 3)).2.isSome = true ∧
    (parseS s (assign r.1 1 [(0, .scalar 99)]) (.ref 3)).2.isSome = false := by decide

/-- the code as it is: the caller's own value comes back; mutating everything reachable from it leaves the literal alone -/
example :
    let s := GSchema.lit false [.ref 1]
    let r := parseS s σw (.ref 2)
    isRef r.2 2 = true ∧ isRef (parseS s (mutateAll r.1 (.ref 2)) (.ref 3)).2 3 = true := by decide

/-- the hypotheses of `own_hist` are satisfiable: an object schema embedding the literal, a defaulted slice of it -/
example :
    let fam := [GSchema.lit false [.ref 1], .obj .strip [9] (fun _ => .lit false [.ref 1]), .dflt (.ref 1) (.slice (.lit false [.ref 1]))]
    (∀ s ∈ fam, NoRet s ∧ OwnedS σw.next σw.heap s) ∧ (∀ v ∈ [GVal.ref 2, .ref 3], ∀ x ∈ reach gdepth σw.heap v, x < σw.next) := by
  have h1 : ∀ m ∈ [GVal.ref 1], ∀ x ∈ reach gdepth σw.heap m, x < σw.next := by decide
  have h2 : ∀ x ∈ reach gdepth σw.heap (.ref 1), x < σw.next := by decide
  refine ⟨fun s hs => ?_, by decide⟩
  simp only [List.mem_cons, List.not_mem_nil, or_false] at hs
  rcases hs with rfl | rfl | rfl
  · exact ⟨rfl, h1⟩
  · exact ⟨fun _ => rfl, fun _ => h1⟩
  · exact ⟨rfl, h2, h1⟩

end Gozod.C15
