/-
  C15 — the relational half of the property for the `own` language (`Gozod.Model.Owned`).

  `own_hist` (C15Own) says: after any history every cell a schema holds contains what it contained.  The property's words
  are about ANSWERS: "mutating a value returned by Parse never changes what any later Parse returns".  The step from the
  first to the second is a congruence: what `parseS` answers depends only on how the schema's cells and the input LOOK.

    Tree / unfold        what a caller can see of a value, as a tree (no addresses), to a given depth
    Look                 two values (each in its own store) unfold to the same tree at EVERY depth
    Agree                every literal member / default of a schema looks the same (`ser gdepth`) in two stores
    own_parse_congr      same schema, stores in which the schema's cells look the same, inputs that look the same:
                         the same verdict, and answers that look the same (`ser gdepth` — the renaming of the cells allocated
                         by the two calls is what `ser` forgets)
    copy_look            the deep copy a caller makes of a value looks like the value at every depth
    own_hist_same_answer in ANY history of `parse j i` / `mutate k` steps, two parses of (schema j, a new copy of input i) —
                         however many parses and deep mutations of earlier results lie between them — give the same
                         verdict and answers that look the same
-/
import Gozod.Proofs.C15Own

namespace Gozod.C15
open Gozod.Graph

/-- what a caller sees of a value: scalars, nils, containers (cells: maps / slices / pointees) and aggregates with their
    keys — no locations -/
inductive Tree where
  | scalar (n : Nat)
  | nil
  | cut
  | node (es : List (Nat × Tree))
  | agg (es : List (Nat × Tree))

def unfold : Nat → GHeap → GVal → Tree
  | 0, _, _ => .cut
  | _ + 1, _, .scalar n => .scalar n
  | _ + 1, _, .nil => .nil
  | f + 1, h, .ref l => .node ((readG h l).map (fun p => (p.1, unfold f h p.2)))
  | f + 1, h, .agg fs => .agg (fs.map (fun p => (p.1, unfold f h p.2)))

/-- the two values look the same at every depth -/
def Look (h1 : GHeap) (v1 : GVal) (h2 : GHeap) (v2 : GVal) : Prop := ∀ f, unfold f h1 v1 = unfold f h2 v2

/-- everything reachable from `v`, at any depth, is allocated -/
def Below (σ : GStore) (v : GVal) : Prop := ∀ f, ∀ x ∈ reach f σ.heap v, x < σ.next

/-- entries of two containers: same keys, values that look the same -/
def ERel (h1 h2 : GHeap) (p q : Nat × GVal) : Prop := p.1 = q.1 ∧ Look h1 p.2 h2 q.2

theorem gmap_congr {α β : Type} (l : List α) (f g : α → β) (h : ∀ a ∈ l, f a = g a) : l.map f = l.map g :=
  List.map_congr_left h

/-- what a caller sees depends only on the cells it reaches -/
theorem unfold_congr (f : Nat) : ∀ (h h' : GHeap) (v : GVal),
    (∀ x ∈ reach f h v, h' x = h x) → unfold f h' v = unfold f h v := by
  induction f with
  | zero => intro h h' v _; rfl
  | succ f ih =>
    intro h h' v e
    cases v with
    | scalar n => rfl
    | nil => rfl
    | ref l =>
      have hl : readG h' l = readG h l := readG_congr l (e l (by simp [reach]))
      simp only [unfold, hl]
      congr 1
      apply gmap_congr
      intro p hp
      congr 1
      apply ih
      intro x hx
      apply e
      simp only [reach, List.mem_cons, List.mem_flatMap]
      exact Or.inr ⟨p, hp, hx⟩
    | agg fs =>
      simp only [unfold]
      congr 1
      apply gmap_congr
      intro p hp
      congr 1
      apply ih
      intro x hx
      apply e
      simp only [reach, List.mem_flatMap]
      exact ⟨p, hp, hx⟩

theorem unfold_frame (f n : Nat) (σ σ' : GStore) (v : GVal) (he : GExt n σ σ') (hb : ∀ x ∈ reach f σ.heap v, x < n) :
    unfold f σ'.heap v = unfold f σ.heap v :=
  unfold_congr f σ.heap σ'.heap v (fun x hx => he.2 x (hb x hx))

theorem Below.ext {σ σ' : GStore} {v : GVal} (hb : Below σ v) (he : GExt σ.next σ σ') : Below σ' v := by
  intro f x hx
  rw [(g_graph_frame f σ.next σ σ' v he (hb f)).1] at hx
  exact Nat.lt_of_lt_of_le (hb f x hx) he.1

theorem look_frame {σ1 σ1' σ2 σ2' : GStore} {v1 v2 : GVal} (hl : Look σ1.heap v1 σ2.heap v2)
    (h1 : Below σ1 v1) (h2 : Below σ2 v2) (e1 : GExt σ1.next σ1 σ1') (e2 : GExt σ2.next σ2 σ2') :
    Look σ1'.heap v1 σ2'.heap v2 := by
  intro f
  rw [unfold_frame f σ1.next σ1 σ1' v1 e1 (h1 f), unfold_frame f σ2.next σ2 σ2' v2 e2 (h2 f)]
  exact hl f

/-- two lists related element by element -/
inductive All2 {α β : Type} (R : α → β → Prop) : List α → List β → Prop where
  | nil : All2 R [] []
  | cons {a : α} {b : β} {l1 : List α} {l2 : List β} : R a b → All2 R l1 l2 → All2 R (a :: l1) (b :: l2)

/-- lists mapped to equal lists: related pointwise -/
theorem forall2_of_map_eq {α β : Type} (g1 g2 : α → β) : ∀ (l1 l2 : List α), l1.map g1 = l2.map g2 →
    All2 (fun a b => g1 a = g2 b) l1 l2 := by
  intro l1
  induction l1 with
  | nil =>
    intro l2 h
    cases l2 with
    | nil => exact .nil
    | cons b l2 => simp at h
  | cons a l1 ih =>
    intro l2 h
    cases l2 with
    | nil => simp at h
    | cons b l2 =>
      simp only [List.map_cons, List.cons.injEq] at h
      exact .cons h.1 (ih l2 h.2)

/-- the ser of a value is a function of its unfolding -/
theorem ser_of_unfold (f : Nat) : ∀ (h1 h2 : GHeap) (v1 v2 : GVal), unfold f h1 v1 = unfold f h2 v2 → ser f h1 v1 = ser f h2 v2 := by
  induction f with
  | zero => intro h1 h2 v1 v2 _; rfl
  | succ f ih =>
    intro h1 h2 v1 v2 hu
    have key : ∀ (l1 l2 : Entries), l1.map (fun p => (p.1, unfold f h1 p.2)) = l2.map (fun p => (p.1, unfold f h2 p.2)) →
        l1.flatMap (fun p => p.1 :: ser f h1 p.2) = l2.flatMap (fun p => p.1 :: ser f h2 p.2) := by
      intro l1 l2 hm
      have hf := forall2_of_map_eq _ _ l1 l2 hm
      clear hm
      induction hf with
      | nil => rfl
      | cons hab _ ih2 =>
        simp only [List.flatMap_cons]
        simp only [Prod.mk.injEq] at hab
        rw [hab.1, ih _ _ _ _ hab.2, ih2]
    cases v1 <;> cases v2 <;> simp only [unfold, Tree.scalar.injEq, Tree.node.injEq, Tree.agg.injEq, reduceCtorEq] at hu
    · subst hu; rfl
    · rfl
    · simp only [ser]; rw [key _ _ hu]
    · simp only [ser]; rw [key _ _ hu]

/-! ### the entries of two containers that look the same -/

theorem all2_of_maps (h1 h2 : GHeap) : ∀ (l1 l2 : Entries),
    (∀ f, l1.map (fun p => (p.1, unfold f h1 p.2)) = l2.map (fun p => (p.1, unfold f h2 p.2))) → All2 (ERel h1 h2) l1 l2 := by
  intro l1
  induction l1 with
  | nil =>
    intro l2 h
    cases l2 with
    | nil => exact .nil
    | cons b l2 => have := h 0; simp at this
  | cons a l1 ih =>
    intro l2 h
    cases l2 with
    | nil => have := h 0; simp at this
    | cons b l2 =>
      have hh : ∀ f, (a.1 = b.1 ∧ unfold f h1 a.2 = unfold f h2 b.2) ∧
          l1.map (fun p => (p.1, unfold f h1 p.2)) = l2.map (fun p => (p.1, unfold f h2 p.2)) := by
        intro f
        have := h f
        simpa only [List.map_cons, List.cons.injEq, Prod.mk.injEq] using this
      exact .cons ⟨(hh 0).1.1, fun f => (hh f).1.2⟩ (ih l2 (fun f => (hh f).2))

theorem look_nil_iff {h1 h2 : GHeap} {v1 v2 : GVal} (hl : Look h1 v1 h2 v2) : v1 = .nil ↔ v2 = .nil := by
  have := hl 1
  cases v1 <;> cases v2 <;> simp [unfold] at this ⊢

/-- two values that look the same have the same shape -/
theorem look_cases {h1 h2 : GHeap} {v1 v2 : GVal} (hl : Look h1 v1 h2 v2) :
    (∃ n, v1 = .scalar n ∧ v2 = .scalar n) ∨ (v1 = .nil ∧ v2 = .nil) ∨
    (∃ l1 l2, v1 = .ref l1 ∧ v2 = .ref l2 ∧ All2 (ERel h1 h2) (readG h1 l1) (readG h2 l2)) ∨
    (∃ f1 f2, v1 = .agg f1 ∧ v2 = .agg f2) := by
  have h1' := hl 1
  cases v1 <;> cases v2 <;> simp only [unfold, Tree.scalar.injEq, reduceCtorEq] at h1'
  · subst h1'; exact Or.inl ⟨_, rfl, rfl⟩
  · exact Or.inr (Or.inl ⟨rfl, rfl⟩)
  · next l1 l2 =>
    refine Or.inr (Or.inr (Or.inl ⟨l1, l2, rfl, rfl, all2_of_maps h1 h2 _ _ (fun f => ?_)⟩))
    have := hl (f + 1)
    simpa only [unfold, Tree.node.injEq] using this
  · exact Or.inr (Or.inr (Or.inr ⟨_, _, rfl, rfl⟩))

theorem all2_all_keys {R : Nat × GVal → Nat × GVal → Prop} (hk : ∀ p q, R p q → p.1 = q.1) (P : Nat → Bool) :
    ∀ {l1 l2 : Entries}, All2 R l1 l2 → l1.all (fun p => P p.1) = l2.all (fun p => P p.1) := by
  intro l1 l2 h
  induction h with
  | nil => rfl
  | cons hab _ ih => simp only [List.all_cons, hk _ _ hab, ih]

theorem all2_any_keys {R : Nat × GVal → Nat × GVal → Prop} (hk : ∀ p q, R p q → p.1 = q.1) (P : Nat → Bool) :
    ∀ {l1 l2 : Entries}, All2 R l1 l2 → l1.any (fun p => P p.1) = l2.any (fun p => P p.1) := by
  intro l1 l2 h
  induction h with
  | nil => rfl
  | cons hab _ ih => simp only [List.any_cons, hk _ _ hab, ih]

theorem all2_strengthen {α β : Type} {R : α → β → Prop} {P : α → Prop} {Q : β → Prop} :
    ∀ {l1 : List α} {l2 : List β}, All2 R l1 l2 → (∀ a ∈ l1, P a) → (∀ b ∈ l2, Q b) →
      All2 (fun a b => R a b ∧ P a ∧ Q b) l1 l2 := by
  intro l1 l2 h
  induction h with
  | nil => intro _ _; exact .nil
  | cons hab _ ih =>
    intro hp hq
    exact .cons ⟨hab, hp _ (List.mem_cons_self ..), hq _ (List.mem_cons_self ..)⟩
      (ih (fun a ha => hp a (List.mem_cons_of_mem _ ha)) (fun b hb => hq b (List.mem_cons_of_mem _ hb)))

theorem below_entry {σ : GStore} {l : Loc} (hb : Below σ (.ref l)) : ∀ p ∈ readG σ.heap l, Below σ p.2 := by
  intro p hp f x hx
  apply hb (f + 1)
  simp only [reach, List.mem_cons, List.mem_flatMap]
  exact Or.inr ⟨p, hp, hx⟩

/-! ### schemas whose cells look the same in two stores -/

/-- every literal member / default of the schema looks the same in the two stores -/
def Agree (h1 h2 : GHeap) : GSchema → Prop
  | .any => True
  | .str _ => True
  | .lit _ ms => ∀ m ∈ ms, ser gdepth h1 m = ser gdepth h2 m
  | .dflt d t => ser gdepth h1 d = ser gdepth h2 d ∧ Agree h1 h2 t
  | .obj _ _ kids => ∀ k, Agree h1 h2 (kids k)
  | .slice t => Agree h1 h2 t
  | .record t => Agree h1 h2 t
  | .union a b => Agree h1 h2 a ∧ Agree h1 h2 b

theorem agree_ext (n1 n2 : Nat) (σ1 σ1' σ2 σ2' : GStore) (e1 : GExt n1 σ1 σ1') (e2 : GExt n2 σ2 σ2') :
    ∀ s, OwnedS n1 σ1.heap s → OwnedS n2 σ2.heap s → Agree σ1.heap σ2.heap s → Agree σ1'.heap σ2'.heap s := by
  intro s
  induction s with
  | any => intro _ _ _; trivial
  | str _ => intro _ _ _; trivial
  | lit rm ms =>
    intro o1 o2 ha m hm
    rw [(g_graph_frame gdepth n1 σ1 σ1' m e1 (o1 m hm)).2, (g_graph_frame gdepth n2 σ2 σ2' m e2 (o2 m hm)).2]
    exact ha m hm
  | dflt d t ih =>
    intro o1 o2 ha
    refine ⟨?_, ih o1.2 o2.2 ha.2⟩
    rw [(g_graph_frame gdepth n1 σ1 σ1' d e1 o1.1).2, (g_graph_frame gdepth n2 σ2 σ2' d e2 o2.1).2]
    exact ha.1
  | obj _ _ kids ih => intro o1 o2 ha k; exact ih k (o1 k) (o2 k) (ha k)
  | slice t ih => exact ih
  | record t ih => exact ih
  | union a b iha ihb => intro o1 o2 ha; exact ⟨iha o1.1 o2.1 ha.1, ihb o1.2 o2.2 ha.2⟩

/-! ### container passes over entries that look the same -/

def StepRel (R : Nat × GVal → Nat × GVal → Prop) : Option (Option (Nat × GVal)) → Option (Option (Nat × GVal)) → Prop
  | none, none => True
  | some none, some none => True
  | some (some a), some (some b) => R a b
  | _, _ => False

def OutRel (R : Nat × GVal → Nat × GVal → Prop) : Option Entries → Option Entries → Prop
  | none, none => True
  | some a, some b => All2 R a b
  | _, _ => False

theorem foldEntries_cons_none (step : GStore → Nat × GVal → StepRes) (p : Nat × GVal) (ps : Entries) (σ : GStore)
    (h : (step σ p).2 = none) : foldEntries step (p :: ps) σ = ((step σ p).1, none) := by
  rw [foldEntries]
  split
  · rfl
  · next e he => rw [h] at he; cases he

theorem foldEntries_cons_skip (step : GStore → Nat × GVal → StepRes) (p : Nat × GVal) (ps : Entries) (σ : GStore)
    (h : (step σ p).2 = some none) :
    foldEntries step (p :: ps) σ = ((foldEntries step ps (step σ p).1).1,
      match (foldEntries step ps (step σ p).1).2 with
      | none => none
      | some out => some out) := by
  rw [foldEntries]
  split
  · next he => rw [h] at he; cases he
  · next e' he =>
    rw [h] at he
    cases he
    rfl

theorem foldEntries_cons_keep (step : GStore → Nat × GVal → StepRes) (p : Nat × GVal) (ps : Entries) (σ : GStore)
    (x : Nat × GVal) (h : (step σ p).2 = some (some x)) :
    foldEntries step (p :: ps) σ = ((foldEntries step ps (step σ p).1).1,
      match (foldEntries step ps (step σ p).1).2 with
      | none => none
      | some out => some (x :: out)) := by
  rw [foldEntries]
  split
  · next he => rw [h] at he; cases he
  · next e' he =>
    rw [h] at he
    cases he
    rfl

theorem fold_congr (R : Nat × GVal → Nat × GVal → Prop) (Inv : GStore → GStore → Prop)
    (step1 step2 : GStore → Nat × GVal → StepRes)
    (hs : ∀ σ1 σ2 p q, Inv σ1 σ2 → R p q →
      Inv (step1 σ1 p).1 (step2 σ2 q).1 ∧ StepRel R (step1 σ1 p).2 (step2 σ2 q).2) :
    ∀ {es1 es2 : Entries}, All2 R es1 es2 → ∀ σ1 σ2, Inv σ1 σ2 →
      Inv (foldEntries step1 es1 σ1).1 (foldEntries step2 es2 σ2).1 ∧
      OutRel R (foldEntries step1 es1 σ1).2 (foldEntries step2 es2 σ2).2 := by
  intro es1 es2 h
  induction h with
  | nil => intro σ1 σ2 hi; exact ⟨hi, .nil⟩
  | @cons a b l1 l2 hab _ ih =>
    intro σ1 σ2 hi
    obtain ⟨hi', hr⟩ := hs σ1 σ2 a b hi hab
    cases h1 : (step1 σ1 a).2 with
    | none =>
      cases h2 : (step2 σ2 b).2 with
      | none =>
        rw [foldEntries_cons_none _ _ _ _ h1, foldEntries_cons_none _ _ _ _ h2]
        exact ⟨hi', trivial⟩
      | some e2 => rw [h1, h2] at hr; exact hr.elim
    | some e1 =>
      cases h2 : (step2 σ2 b).2 with
      | none => rw [h1, h2] at hr; cases e1 <;> exact hr.elim
      | some e2 =>
        obtain ⟨hi'', ho⟩ := ih _ _ hi'
        rw [h1, h2] at hr
        cases e1 with
        | none =>
          cases e2 with
          | some _ => exact hr.elim
          | none =>
            rw [foldEntries_cons_skip _ _ _ _ h1, foldEntries_cons_skip _ _ _ _ h2]
            refine ⟨hi'', ?_⟩
            cases o1 : (foldEntries step1 l1 (step1 σ1 a).1).2 <;> cases o2 : (foldEntries step2 l2 (step2 σ2 b).1).2 <;>
              rw [o1, o2] at ho <;> first | exact ho | exact ho.elim
        | some x =>
          cases e2 with
          | none => exact hr.elim
          | some y =>
            rw [foldEntries_cons_keep _ _ _ _ x h1, foldEntries_cons_keep _ _ _ _ y h2]
            refine ⟨hi'', ?_⟩
            cases o1 : (foldEntries step1 l1 (step1 σ1 a).1).2 <;> cases o2 : (foldEntries step2 l2 (step2 σ2 b).1).2 <;>
              rw [o1, o2] at ho <;> first | exact ho | exact ho.elim | exact All2.cons hr ho

/-! ### the congruence -/

theorem find_congr {α : Type} (p q : α → Bool) : ∀ (l : List α), (∀ a ∈ l, p a = q a) → l.find? p = l.find? q := by
  intro l
  induction l with
  | nil => intro _; rfl
  | cons a l ih =>
    intro h
    simp only [List.find?_cons, h a (List.mem_cons_self ..)]
    rw [ih (fun b hb => h b (List.mem_cons_of_mem _ hb))]

theorem ser_gdepth_ref (h : GHeap) (l : Loc) :
    ser gdepth h (.ref l) = [1] ++ (readG h l).flatMap (fun p => p.1 :: ser 15 h p.2) ++ [3] := rfl

theorem lit_parse (rm : Bool) (ms : List GVal) (σ : GStore) (v : GVal) (hv : v ≠ .nil) :
    parseS (.lit rm ms) σ v =
      match litFind σ.heap ms v with
      | some m => (σ, some (if rm then m else v))
      | none => (σ, none) := by
  cases v <;> first | exact absurd rfl hv | rfl

theorem dflt_parse (d : GVal) (t : GSchema) (σ : GStore) (v : GVal) (hv : v ≠ .nil) :
    parseS (.dflt d t) σ v = parseS t σ v := by
  cases v <;> first | exact absurd rfl hv | simp only [parseS]

theorem union_parse (a b : GSchema) (σ : GStore) (v : GVal) (hv : v ≠ .nil) :
    parseS (.union a b) σ v =
      match (parseS a σ v).2 with
      | some r => ((parseS a σ v).1, some r)
      | none => parseS b (parseS a σ v).1 v := by
  cases v <;> first | exact absurd rfl hv | (simp only [parseS]; cases (parseS a σ _).2 <;> rfl)

/-- the statement of `own_parse_congr` for one schema -/
def Congr (s : GSchema) : Prop :=
  ∀ (σ1 σ2 : GStore) (v1 v2 : GVal) (n1 n2 : Nat), n1 ≤ σ1.next → n2 ≤ σ2.next →
    OwnedS n1 σ1.heap s → OwnedS n2 σ2.heap s → Agree σ1.heap σ2.heap s →
    Look σ1.heap v1 σ2.heap v2 → Below σ1 v1 → Below σ2 v2 →
    (parseS s σ1 v1).2.isSome = (parseS s σ2 v2).2.isSome ∧
    ∀ r1 r2, (parseS s σ1 v1).2 = some r1 → (parseS s σ2 v2).2 = some r2 →
      ser gdepth (parseS s σ1 v1).1.heap r1 = ser gdepth (parseS s σ2 v2).1.heap r2

/-- relation between the entries of the two inputs of a container pass, stated in the stores at the container's entry -/
def CRel (σ1 σ2 : GStore) (p q : Nat × GVal) : Prop :=
  ERel σ1.heap σ2.heap p q ∧ Below σ1 p.2 ∧ Below σ2 q.2

def CInv (σ1 σ2 σ1' σ2' : GStore) : Prop := GExt σ1.next σ1 σ1' ∧ GExt σ2.next σ2 σ2'

/-- one validated member (object field, slice element, record value) on both sides -/
theorem kid_step (t : GSchema) (ih : Congr t) (σ1 σ2 : GStore) (n1 n2 : Nat) (hn1 : n1 ≤ σ1.next) (hn2 : n2 ≤ σ2.next)
    (o1 : OwnedS n1 σ1.heap t) (o2 : OwnedS n2 σ2.heap t) (ha : Agree σ1.heap σ2.heap t)
    (σ1' σ2' : GStore) (hi : CInv σ1 σ2 σ1' σ2') (p q : Nat × GVal) (hr : CRel σ1 σ2 p q) :
    CInv σ1 σ2 (parseS t σ1' p.2).1 (parseS t σ2' q.2).1 ∧
    (parseS t σ1' p.2).2.isSome = (parseS t σ2' q.2).2.isSome := by
  obtain ⟨e1, e2⟩ := hi
  obtain ⟨⟨_, hl⟩, b1, b2⟩ := hr
  have o1' := owned_ext n1 σ1 σ1' (e1.mono hn1) t o1
  have o2' := owned_ext n2 σ2 σ2' (e2.mono hn2) t o2
  have hn1' : n1 ≤ σ1'.next := Nat.le_trans hn1 e1.1
  have hn2' : n2 ≤ σ2'.next := Nat.le_trans hn2 e2.1
  have p1 := own_parse_ext t σ1' p.2 n1 hn1' o1'
  have p2 := own_parse_ext t σ2' q.2 n2 hn2' o2'
  refine ⟨⟨e1.trans (p1.mono e1.1), e2.trans (p2.mono e2.1)⟩, ?_⟩
  exact (ih σ1' σ2' p.2 q.2 n1 n2 hn1' hn2' o1' o2' (agree_ext n1 n2 σ1 σ1' σ2 σ2' (e1.mono hn1) (e2.mono hn2) t o1 o2 ha)
    (look_frame hl b1 b2 e1 e2) (b1.ext e1) (b2.ext e2)).1

/-- a validating pass (slice elements, record values) over two containers that look the same -/
theorem validated_congr (t : GSchema) (ih : Congr t) (σ1 σ2 : GStore) (n1 n2 : Nat) (hn1 : n1 ≤ σ1.next) (hn2 : n2 ≤ σ2.next)
    (o1 : OwnedS n1 σ1.heap t) (o2 : OwnedS n2 σ2.heap t) (ha : Agree σ1.heap σ2.heap t)
    (v1 v2 : GVal) (hl : Look σ1.heap v1 σ2.heap v2) (b1 : Below σ1 v1) (b2 : Below σ2 v2)
    (es1 es2 : Entries) (hes : All2 (CRel σ1 σ2) es1 es2) :
    let r1 := validated (foldEntries (valStep (parseS t)) es1 σ1) v1
    let r2 := validated (foldEntries (valStep (parseS t)) es2 σ2) v2
    r1.2.isSome = r2.2.isSome ∧ ∀ x1 x2, r1.2 = some x1 → r2.2 = some x2 → ser gdepth r1.1.heap x1 = ser gdepth r2.1.heap x2 := by
  have hf := fold_congr (CRel σ1 σ2) (CInv σ1 σ2) (valStep (parseS t)) (valStep (parseS t)) (fun σ1' σ2' p q hi hr => by
    obtain ⟨hi', hv⟩ := kid_step t ih σ1 σ2 n1 n2 hn1 hn2 o1 o2 ha σ1' σ2' hi p q hr
    refine ⟨hi', ?_⟩
    simp only [valStep]
    cases h1 : (parseS t σ1' p.2).2 <;> cases h2 : (parseS t σ2' q.2).2 <;> rw [h1, h2] at hv <;> simp at hv <;> trivial)
    hes σ1 σ2 ⟨GExt.refl _ _, GExt.refl _ _⟩
  obtain ⟨⟨e1, e2⟩, ho⟩ := hf
  simp only [validated]
  cases h1 : (foldEntries (valStep (parseS t)) es1 σ1).2 <;> cases h2 : (foldEntries (valStep (parseS t)) es2 σ2).2 <;>
    rw [h1, h2] at ho
  · exact ⟨rfl, fun _ _ h => by cases h⟩
  · exact ho.elim
  · exact ho.elim
  · refine ⟨rfl, fun x1 x2 hx1 hx2 => ?_⟩
    simp only [Option.some.injEq] at hx1 hx2
    subst hx1 hx2
    exact ser_of_unfold gdepth _ _ _ _ (look_frame hl b1 b2 e1 e2 gdepth)

theorem all2_flatMap_ser {h1 h2 : GHeap} : ∀ {l1 l2 : Entries},
    All2 (fun p q => p.1 = q.1 ∧ ser 15 h1 p.2 = ser 15 h2 q.2) l1 l2 →
    l1.flatMap (fun p => p.1 :: ser 15 h1 p.2) = l2.flatMap (fun p => p.1 :: ser 15 h2 p.2) := by
  intro l1 l2 h
  induction h with
  | nil => rfl
  | cons hab _ ih => simp only [List.flatMap_cons, hab.1, hab.2, ih]

theorem all2_mono {α β : Type} {R S : α → β → Prop} (hrs : ∀ a b, R a b → S a b) :
    ∀ {l1 : List α} {l2 : List β}, All2 R l1 l2 → All2 S l1 l2 := by
  intro l1 l2 h
  induction h with
  | nil => exact .nil
  | cons hab _ ih => exact .cons (hrs _ _ hab) ih

/-- **own_parse_congr**: Parse with the same schema, in two stores in which every cell the schema holds looks the same,
    of two inputs that look the same (whatever cells they are made of): the same verdict, and answers that look the same.
    The cells the two calls allocate are different cells — `ser` is what remains when their names are forgotten. -/
theorem own_parse_congr : ∀ s, Congr s := by
  intro s
  induction s with
  | any =>
    intro σ1 σ2 v1 v2 n1 n2 _ _ _ _ _ hl _ _
    refine ⟨rfl, fun r1 r2 h1 h2 => ?_⟩
    simp only [parseS, Option.some.injEq] at h1 h2
    subst h1 h2
    exact ser_of_unfold gdepth _ _ _ _ (hl gdepth)
  | str ss =>
    intro σ1 σ2 v1 v2 n1 n2 _ _ _ _ _ hl _ _
    rcases look_cases hl with ⟨n, rfl, rfl⟩ | ⟨rfl, rfl⟩ | ⟨l1, l2, rfl, rfl, _⟩ | ⟨f1, f2, rfl, rfl⟩
    · refine ⟨by simp only [parseS], fun r1 r2 h1 h2 => ?_⟩
      simp only [parseS] at h1 h2
      split at h1
      · next hc =>
        rw [if_pos hc] at h2
        simp only [Option.some.injEq] at h1 h2
        subst h1 h2
        rfl
      · cases h1
    all_goals exact ⟨rfl, fun _ _ h => by simp [parseS] at h⟩
  | lit rm ms =>
    intro σ1 σ2 v1 v2 n1 n2 _ _ _ _ ha hl _ _
    by_cases hv : v1 = .nil
    · have hv2 := (look_nil_iff hl).1 hv
      subst hv hv2
      exact ⟨rfl, fun _ _ h => by simp [parseS] at h⟩
    · have hv2 : v2 ≠ .nil := fun h => hv ((look_nil_iff hl).2 h)
      have hs : ser gdepth σ1.heap v1 = ser gdepth σ2.heap v2 := ser_of_unfold gdepth _ _ _ _ (hl gdepth)
      have hfind : litFind σ1.heap ms v1 = litFind σ2.heap ms v2 := by
        unfold litFind
        apply find_congr
        intro m hm
        rw [ha m hm, hs]
      rw [lit_parse rm ms σ1 v1 hv, lit_parse rm ms σ2 v2 hv2, hfind]
      cases hf : litFind σ2.heap ms v2 with
      | none => exact ⟨rfl, fun _ _ h => by cases h⟩
      | some m =>
        refine ⟨rfl, fun r1 r2 h1 h2 => ?_⟩
        simp only [Option.some.injEq] at h1 h2
        subst h1 h2
        cases rm
        · exact hs
        · exact ha m (List.mem_of_find?_eq_some hf)
  | dflt d t ih =>
    intro σ1 σ2 v1 v2 n1 n2 hn1 hn2 o1 o2 ha hl b1 b2
    by_cases hv : v1 = .nil
    · have hv2 := (look_nil_iff hl).1 hv
      subst hv hv2
      simp only [parseS]
      refine ⟨rfl, fun r1 r2 h1 h2 => ?_⟩
      simp only [Option.some.injEq] at h1 h2
      subst h1 h2
      rw [(g_copyOK gdepth σ1 d n1 hn1 o1.1).2.1, (g_copyOK gdepth σ2 d n2 hn2 o2.1).2.1]
      exact ha.1
    · have hv2 : v2 ≠ .nil := fun h => hv ((look_nil_iff hl).2 h)
      rw [dflt_parse d t σ1 v1 hv, dflt_parse d t σ2 v2 hv2]
      exact ih σ1 σ2 v1 v2 n1 n2 hn1 hn2 o1.2 o2.2 ha.2 hl b1 b2
  | obj mode fields kids ih =>
    intro σ1 σ2 v1 v2 n1 n2 hn1 hn2 o1 o2 ha hl b1 b2
    rcases look_cases hl with ⟨n, rfl, rfl⟩ | ⟨rfl, rfl⟩ | ⟨l1, l2, rfl, rfl, hes⟩ | ⟨f1, f2, rfl, rfl⟩
    · exact ⟨rfl, fun _ _ h => by simp [parseS] at h⟩
    · exact ⟨rfl, fun _ _ h => by simp [parseS] at h⟩
    · have hkeys : ∀ p q, ERel σ1.heap σ2.heap p q → p.1 = q.1 := fun _ _ h => h.1
      have hc : (isMapCell (readG σ1.heap l1) && fields.all (fun k => (readG σ1.heap l1).any (fun p => p.1 == k))) =
          (isMapCell (readG σ2.heap l2) && fields.all (fun k => (readG σ2.heap l2).any (fun p => p.1 == k))) := by
        have hany : ∀ k, (readG σ1.heap l1).any (fun p => p.1 == k) = (readG σ2.heap l2).any (fun p => p.1 == k) :=
          fun k => all2_any_keys hkeys (fun x => x == k) hes
        unfold isMapCell
        rw [all2_all_keys hkeys (fun k => decide (8 ≤ k)) hes]
        simp only [hany]
      simp only [parseS]
      rw [hc]
      split
      · have hes' := all2_strengthen hes (below_entry b1) (below_entry b2)
        have hf := fold_congr (CRel σ1 σ2) (CInv σ1 σ2) (objStep mode fields (fun k => parseS (kids k)))
          (objStep mode fields (fun k => parseS (kids k))) (fun σ1' σ2' p q hi hr => by
            have hk : p.1 = q.1 := hr.1.1
            simp only [objStep]
            rw [← hk]
            split
            · obtain ⟨hi', hv⟩ := kid_step (kids p.1) (ih p.1) σ1 σ2 n1 n2 hn1 hn2 (o1 p.1) (o2 p.1) (ha p.1) σ1' σ2' hi p q hr
              refine ⟨hi', ?_⟩
              cases h1 : (parseS (kids p.1) σ1' p.2).2 <;> cases h2 : (parseS (kids p.1) σ2' q.2).2 <;>
                rw [h1, h2] at hv <;> simp at hv
              · trivial
              · exact hr
            · cases mode <;> simp only [unknownStep]
              · exact ⟨hi, trivial⟩
              · exact ⟨hi, hr⟩
              · exact ⟨hi, trivial⟩)
          hes' σ1 σ2 ⟨GExt.refl _ _, GExt.refl _ _⟩
        obtain ⟨⟨e1, e2⟩, ho⟩ := hf
        simp only [finish]
        cases h1 : (foldEntries (objStep mode fields (fun k => parseS (kids k))) (readG σ1.heap l1) σ1).2 <;>
          cases h2 : (foldEntries (objStep mode fields (fun k => parseS (kids k))) (readG σ2.heap l2) σ2).2 <;>
          rw [h1, h2] at ho
        · exact ⟨rfl, fun _ _ h => by cases h⟩
        · exact ho.elim
        · exact ho.elim
        · next out1 out2 =>
          refine ⟨rfl, fun r1 r2 hr1 hr2 => ?_⟩
          simp only [Option.some.injEq] at hr1 hr2
          subst hr1 hr2
          generalize hz1 : foldEntries (objStep mode fields (fun k => parseS (kids k))) (readG σ1.heap l1) σ1 = z1 at *
          generalize hz2 : foldEntries (objStep mode fields (fun k => parseS (kids k))) (readG σ2.heap l2) σ2 = z2 at *
          have a1 : GExt σ1.next σ1 (galloc z1.1 out1).1 := e1.trans (galloc_ext _ _ _ e1.1)
          have a2 : GExt σ2.next σ2 (galloc z2.1 out2).1 := e2.trans (galloc_ext _ _ _ e2.1)
          rw [ser_gdepth_ref, ser_gdepth_ref]
          have hr1 : readG (galloc z1.1 out1).1.heap (galloc z1.1 out1).2 = out1 := by simp [readG, galloc, gupd]
          have hr2 : readG (galloc z2.1 out2).1.heap (galloc z2.1 out2).2 = out2 := by simp [readG, galloc, gupd]
          rw [hr1, hr2]
          congr 2
          apply all2_flatMap_ser
          exact all2_mono (fun p q hpq => ⟨hpq.1.1,
            ser_of_unfold 15 _ _ _ _ (look_frame hpq.1.2 hpq.2.1 hpq.2.2 a1 a2 15)⟩) ho
      · exact ⟨rfl, fun _ _ h => by cases h⟩
    · exact ⟨rfl, fun _ _ h => by simp [parseS] at h⟩
  | slice t ih =>
    intro σ1 σ2 v1 v2 n1 n2 hn1 hn2 o1 o2 ha hl b1 b2
    rcases look_cases hl with ⟨n, rfl, rfl⟩ | ⟨rfl, rfl⟩ | ⟨l1, l2, rfl, rfl, hes⟩ | ⟨f1, f2, rfl, rfl⟩
    · exact ⟨rfl, fun _ _ h => by simp [parseS] at h⟩
    · exact ⟨rfl, fun _ _ h => by simp [parseS] at h⟩
    · have hkeys : ∀ p q, ERel σ1.heap σ2.heap p q → p.1 = q.1 := fun _ _ h => h.1
      have hc : isSliceCell (readG σ1.heap l1) = isSliceCell (readG σ2.heap l2) := by
        unfold isSliceCell
        exact all2_all_keys hkeys (fun k => decide (k < 8)) hes
      simp only [parseS]
      rw [hc]
      split
      · exact validated_congr t ih σ1 σ2 n1 n2 hn1 hn2 o1 o2 ha _ _ hl b1 b2 _ _
          (all2_strengthen hes (below_entry b1) (below_entry b2))
      · exact ⟨rfl, fun _ _ h => by cases h⟩
    · exact ⟨rfl, fun _ _ h => by simp [parseS] at h⟩
  | record t ih =>
    intro σ1 σ2 v1 v2 n1 n2 hn1 hn2 o1 o2 ha hl b1 b2
    rcases look_cases hl with ⟨n, rfl, rfl⟩ | ⟨rfl, rfl⟩ | ⟨l1, l2, rfl, rfl, hes⟩ | ⟨f1, f2, rfl, rfl⟩
    · exact ⟨rfl, fun _ _ h => by simp [parseS] at h⟩
    · exact ⟨rfl, fun _ _ h => by simp [parseS] at h⟩
    · have hkeys : ∀ p q, ERel σ1.heap σ2.heap p q → p.1 = q.1 := fun _ _ h => h.1
      have hc : isMapCell (readG σ1.heap l1) = isMapCell (readG σ2.heap l2) := by
        unfold isMapCell
        exact all2_all_keys hkeys (fun k => decide (8 ≤ k)) hes
      simp only [parseS]
      rw [hc]
      split
      · exact validated_congr t ih σ1 σ2 n1 n2 hn1 hn2 o1 o2 ha _ _ hl b1 b2 _ _
          (all2_strengthen hes (below_entry b1) (below_entry b2))
      · exact ⟨rfl, fun _ _ h => by cases h⟩
    · exact ⟨rfl, fun _ _ h => by simp [parseS] at h⟩
  | union a b iha ihb =>
    intro σ1 σ2 v1 v2 n1 n2 hn1 hn2 o1 o2 ha hl b1 b2
    by_cases hv : v1 = .nil
    · have hv2 := (look_nil_iff hl).1 hv
      subst hv hv2
      exact ⟨rfl, fun _ _ h => by simp [parseS] at h⟩
    · have hv2 : v2 ≠ .nil := fun h => hv ((look_nil_iff hl).2 h)
      rw [union_parse a b σ1 v1 hv, union_parse a b σ2 v2 hv2]
      obtain ⟨hva, hra⟩ := iha σ1 σ2 v1 v2 n1 n2 hn1 hn2 o1.1 o2.1 ha.1 hl b1 b2
      have e1 := own_parse_ext a σ1 v1 n1 hn1 o1.1
      have e2 := own_parse_ext a σ2 v2 n2 hn2 o2.1
      cases h1 : (parseS a σ1 v1).2 <;> cases h2 : (parseS a σ2 v2).2 <;> rw [h1, h2] at hva <;> simp at hva
      · exact ihb _ _ v1 v2 n1 n2 (Nat.le_trans hn1 e1.1) (Nat.le_trans hn2 e2.1)
          (owned_ext n1 σ1 _ (e1.mono hn1) b o1.2) (owned_ext n2 σ2 _ (e2.mono hn2) b o2.2)
          (agree_ext n1 n2 σ1 _ σ2 _ (e1.mono hn1) (e2.mono hn2) b o1.2 o2.2 ha.2)
          (look_frame hl b1 b2 e1 e2) (b1.ext e1) (b2.ext e2)
      · next r1' r2' =>
        refine ⟨rfl, fun r1 r2 hr1 hr2 => ?_⟩
        simp only [Option.some.injEq] at hr1 hr2
        subst hr1 hr2
        exact hra r1' r2' h1 h2

/-! ### the copy a caller makes looks like the original at every depth -/

theorem all2_mono_mem {α β : Type} {R S : α → β → Prop} : ∀ {l1 : List α} {l2 : List β},
    All2 R l1 l2 → (∀ a b, b ∈ l2 → R a b → S a b) → All2 S l1 l2 := by
  intro l1 l2 h
  induction h with
  | nil => intro _; exact .nil
  | cons hab _ ih =>
    intro hrs
    exact .cons (hrs _ _ (List.mem_cons_self ..) hab) (ih (fun a b hb => hrs a b (List.mem_cons_of_mem _ hb)))

theorem all2_map_eq {α β γ : Type} {g1 : α → γ} {g2 : β → γ} : ∀ {l1 : List α} {l2 : List β},
    All2 (fun a b => g1 a = g2 b) l1 l2 → l1.map g1 = l2.map g2 := by
  intro l1 l2 h
  induction h with
  | nil => rfl
  | cons hab _ ih => simp only [List.map_cons, hab, ih]

theorem below_field {σ : GStore} {fs : Entries} (hb : Below σ (.agg fs)) : ∀ p ∈ fs, Below σ p.2 := by
  intro p hp f x hx
  apply hb (f + 1)
  simp only [reach, List.mem_flatMap]
  exact ⟨p, hp, hx⟩

def CopyLook (F : Nat) : Prop :=
  ∀ (σ : GStore) (v : GVal), Below σ v →
    GExt σ.next σ (copy true F σ v).1 ∧ Look (copy true F σ v).1.heap (copy true F σ v).2 σ.heap v ∧
    Below (copy true F σ v).1 (copy true F σ v).2

/-- the copied entries: same keys, each looks like its original (seen in the store the pass started in) -/
def CopyRel (σ z : GStore) (q p : Nat × GVal) : Prop := q.1 = p.1 ∧ Look z.heap q.2 σ.heap p.2 ∧ Below z q.2

theorem look_fold_spec (F : Nat) (hc : CopyLook F) (ps : Entries) :
    ∀ (σ : GStore) (out : Entries), (∀ p ∈ ps, Below σ p.2) →
      GExt σ.next σ (ps.foldl (gstep F) (σ, out)).1 ∧
      ∃ new, (ps.foldl (gstep F) (σ, out)).2 = out ++ new ∧ All2 (CopyRel σ (ps.foldl (gstep F) (σ, out)).1) new ps := by
  induction ps with
  | nil => intro σ out _; exact ⟨GExt.refl _ _, [], by simp, .nil⟩
  | cons p ps ih =>
    intro σ out hb
    obtain ⟨e1, l1, b1⟩ := hc σ p.2 (hb p (List.mem_cons_self ..))
    have hb1 : ∀ p' ∈ ps, Below (copy true F σ p.2).1 p'.2 :=
      fun p' hp' => (hb p' (List.mem_cons_of_mem _ hp')).ext e1
    obtain ⟨e2, new, hout, hall⟩ := ih (copy true F σ p.2).1 (out ++ [(p.1, (copy true F σ p.2).2)]) hb1
    simp only [List.foldl_cons, gstep] at *
    refine ⟨e1.trans (e2.mono e1.1), (p.1, (copy true F σ p.2).2) :: new, by rw [hout]; simp, ?_⟩
    refine .cons ⟨rfl, fun f => ?_, b1.ext e2⟩ (all2_mono_mem hall (fun q p' hp' hq => ⟨hq.1, fun f => ?_, hq.2.2⟩))
    · rw [unfold_frame f _ _ _ _ e2 (b1 f)]
      exact l1 f
    · rw [hq.2.1 f]
      exact unfold_frame f _ _ _ _ e1 (hb p' (List.mem_cons_of_mem _ hp') f)

/-- **copy_look**: the deep copy (`deepCloneValue`, what a caller does when it builds an equal input again) looks like the
    original at EVERY depth, whatever the fuel of the copy, and everything reachable from it is allocated. -/
theorem copy_look (F : Nat) : CopyLook F := by
  induction F with
  | zero => intro σ v hb; exact ⟨GExt.refl _ _, fun _ => rfl, hb⟩
  | succ F ih =>
    intro σ v hb
    cases v with
    | scalar k => exact ⟨GExt.refl _ _, fun _ => rfl, hb⟩
    | nil => exact ⟨GExt.refl _ _, fun _ => rfl, hb⟩
    | ref l =>
      obtain ⟨e1, new, hout, hall⟩ := look_fold_spec F ih (readG σ.heap l) σ [] (below_entry hb)
      rw [copy_ref]
      generalize hz : (readG σ.heap l).foldl (gstep F) (σ, []) = z at *
      simp only [List.nil_append] at hout
      have ea : GExt z.1.next z.1 (galloc z.1 z.2).1 := galloc_ext _ _ _ (Nat.le_refl _)
      have hnode : readG (galloc z.1 z.2).1.heap z.1.next = new := by simp [readG, galloc_get, hout]
      refine ⟨e1.trans (ea.mono e1.1), fun f => ?_, fun f x hx => ?_⟩
      · cases f with
        | zero => rfl
        | succ f =>
          simp only [unfold, hnode]
          congr 1
          apply all2_map_eq
          exact all2_mono (fun q p hq => by
            simp only [Prod.mk.injEq]
            exact ⟨hq.1, by rw [unfold_frame f _ _ _ _ ea (hq.2.2 f)]; exact hq.2.1 f⟩) hall
      · cases f with
        | zero => cases hx
        | succ f =>
          simp only [reach, hnode, List.mem_cons, List.mem_flatMap] at hx
          rcases hx with rfl | ⟨q, hq, hx⟩
          · simp [galloc]
          · have hqb : Below z.1 q.2 := by
              have : ∀ {l1 : Entries} {l2 : Entries}, All2 (CopyRel σ z.1) l1 l2 → ∀ q ∈ l1, Below z.1 q.2 := by
                intro l1 l2 h
                induction h with
                | nil => intro q hq; cases hq
                | cons hab _ ih2 =>
                  intro q hq
                  simp only [List.mem_cons] at hq
                  rcases hq with rfl | hq
                  · exact hab.2.2
                  · exact ih2 q hq
              exact this hall q hq
            rw [(g_graph_frame f z.1.next z.1 _ q.2 ea (hqb f)).1] at hx
            exact Nat.lt_of_lt_of_le (hqb f x hx) ea.1
    | agg fs =>
      obtain ⟨e1, new, hout, hall⟩ := look_fold_spec F ih fs σ [] (below_field hb)
      rw [copy_agg]
      generalize hz : fs.foldl (gstep F) (σ, []) = z at *
      simp only [List.nil_append] at hout
      refine ⟨e1, fun f => ?_, fun f x hx => ?_⟩
      · cases f with
        | zero => rfl
        | succ f =>
          simp only [unfold, hout]
          congr 1
          apply all2_map_eq
          exact all2_mono (fun q p hq => by
            simp only [Prod.mk.injEq]
            exact ⟨hq.1, hq.2.1 f⟩) hall
      · cases f with
        | zero => cases hx
        | succ f =>
          simp only [reach, hout, List.mem_flatMap] at hx
          obtain ⟨q, hq, hx⟩ := hx
          have : ∀ {l1 : Entries} {l2 : Entries}, All2 (CopyRel σ z.1) l1 l2 → ∀ q ∈ l1, Below z.1 q.2 := by
            intro l1 l2 h
            induction h with
            | nil => intro q hq; cases hq
            | cons hab _ ih2 =>
              intro q hq
              simp only [List.mem_cons] at hq
              rcases hq with rfl | hq
              · exact hab.2.2
              · exact ih2 q hq
          exact this hall q hq f x hx

/-! ### histories: a later Parse of an equal input answers what an earlier one answered -/

theorem agree_refl (h : GHeap) : ∀ s, Agree h h s := by
  intro s
  induction s with
  | any => trivial
  | str _ => trivial
  | lit _ ms => intro m _; rfl
  | dflt d t ih => exact ⟨rfl, ih⟩
  | obj _ _ kids ih => intro k; exact ih k
  | slice t ih => exact ih
  | record t ih => exact ih
  | union a b iha ihb => exact ⟨iha, ihb⟩

theorem runC_append (fam : List GSchema) (ins : List GVal) (st : CState) (a b : List CStep) :
    runC fam ins st (a ++ b) = runC fam ins (runC fam ins st a) b := by
  simp [runC, List.foldl_append]

/-- **own_hist_same_answer** — the property's third sentence for the `own` language, about ANSWERS: take any history of
    Parse calls and deep in-place mutations of earlier results (`steps1`), let the caller parse a newly built copy of
    input `i` with schema `j`, let any further history follow (`steps2`: more parses with any schema of the family, deep
    mutation of ANY result obtained so far), and let the caller parse a newly built copy of input `i` with schema `j` again:
    the verdict is the same and the two answers look the same. -/
theorem own_hist_same_answer (fam : List GSchema) (ins : List GVal) (σ0 : GStore)
    (hfam : ∀ s ∈ fam, NoRet s ∧ OwnedS σ0.next σ0.heap s) (hins : ∀ v ∈ ins, Below σ0 v)
    (steps1 steps2 : List CStep) (j i : Nat) (s : GSchema) (v : GVal) (hj : fam[j]? = some s) (hi : ins[i]? = some v) :
    let st1 := runC fam ins { σ := σ0, results := [] } steps1
    let st2 := runC fam ins st1 steps2
    let a1 := parseS s (copy true gdepth st1.σ v).1 (copy true gdepth st1.σ v).2
    let a2 := parseS s (copy true gdepth st2.σ v).1 (copy true gdepth st2.σ v).2
    a1.2.isSome = a2.2.isSome ∧
    ∀ r1 r2, a1.2 = some r1 → a2.2 = some r2 → ser gdepth a1.1.heap r1 = ser gdepth a2.1.heap r2 := by
  intro st1 st2 a1 a2
  have hs := List.mem_of_getElem? hj
  have hv := List.mem_of_getElem? hi
  have hins' : ∀ v ∈ ins, ∀ x ∈ reach gdepth σ0.heap v, x < σ0.next := fun v hv => hins v hv gdepth
  have e1 : GExt σ0.next σ0 st1.σ := (own_hist fam ins σ0 hfam hins' steps1).1
  have e2 : GExt σ0.next σ0 st2.σ := by
    have := (own_hist fam ins σ0 hfam hins' (steps1 ++ steps2)).1
    rwa [runC_append] at this
  have b0 := hins v hv
  obtain ⟨c1, l1, bc1⟩ := copy_look gdepth st1.σ v (b0.ext e1)
  obtain ⟨c2, l2, bc2⟩ := copy_look gdepth st2.σ v (b0.ext e2)
  have E1 : GExt σ0.next σ0 (copy true gdepth st1.σ v).1 := e1.trans (c1.mono e1.1)
  have E2 : GExt σ0.next σ0 (copy true gdepth st2.σ v).1 := e2.trans (c2.mono e2.1)
  have ho := (hfam s hs).2
  exact own_parse_congr s _ _ _ _ σ0.next σ0.next E1.1 E2.1 (owned_ext _ _ _ E1 s ho) (owned_ext _ _ _ E2 s ho)
    (agree_ext _ _ σ0 _ σ0 _ E1 E2 s ho ho (agree_refl _ s))
    (fun f => by rw [l1 f, l2 f, unfold_frame f _ _ _ v e1 (b0 f), unfold_frame f _ _ _ v e2 (b0 f)]) bc1 bc2

/-- the hypotheses are satisfiable, and the conclusion speaks about an accepted input (the family of `own_hist`'s example) -/
example :
    let fam := [GSchema.lit false [.ref 1], .obj .strip [9] (fun _ => .lit false [.ref 1]), .dflt (.ref 1) (.slice (.lit false [.ref 1]))]
    (∀ v ∈ [GVal.ref 2, .ref 3], Below σw v) ∧ (parseS (GSchema.lit false [.ref 1]) σw (.ref 2)).2.isSome = true ∧ fam.length = 3 := by
  refine ⟨fun v hv => ?_, by decide, rfl⟩
  have hr : ∀ f l, l = 2 ∨ l = 3 → reach (f + 1) σw.heap (.ref l) = [l] := by
    intro f l hl
    rcases hl with rfl | rfl <;> simp [reach, readG, σw, gupd, reach_scalar]
  have hb : ∀ l, l = 2 ∨ l = 3 → Below σw (.ref l) := by
    intro l hl f x hx
    cases f with
    | zero => cases hx
    | succ f =>
      rw [hr f l hl] at hx
      simp only [List.mem_singleton] at hx
      rw [hx]
      show l < 4
      rcases hl with rfl | rfl <;> decide
  simp only [List.mem_cons, List.not_mem_nil, or_false] at hv
  rcases hv with rfl | rfl
  · exact hb 2 (Or.inl rfl)
  · exact hb 3 (Or.inr rfl)

end Gozod.C15
