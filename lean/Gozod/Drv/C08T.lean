/-
  Line handler for C08, round 4: `Gozod.Drv.C08` (abstract histories against the store model; shared with the C12 driver)
  plus the tie of every step to the regenerated method table `Gen/MethodOps.lean`.

  A step may carry a 10th token `L:<Field>=<s|f|n|N>,…` (what the call did to each type-local reference field of the
  result: same reference as the receiver's / a different one / nil where the receiver's is not / nil in both), and the
  output gets a third section `T:<ok|…>;…`: the row of the table for the step's (type, method) must exist, its route must
  admit the op class the run showed (with the row's number of appended checks), and its origins must admit what the run
  showed for every type-local field.  `c08bad` prints the rows that `table_classified` rejects (aims the history search
  when that theorem stops checking), `c08exceptions` the rows of the two exception classes.
-/
import Gozod.Drv.C08
import Gozod.Drv.C08H
import Gozod.Model.StoreC08
import Gozod.Gen.MethodOps
namespace Gozod.Drv.C08T
open Gozod.Store Gozod.StoreC08 Gozod.Drv.C08

/-! ### the regenerated method table against the run -/

/-- does a result-row admit the op class the run showed (and `k` appended checks)? -/
def admits (row : MethodRow) (r : MethodResult) (cls : String) (k : Nat) : Bool :=
  match r.route with
  | .clone =>
    (cls == "derive" && !r.bag && !r.refilter && r.addsOk k) || (cls == "bagwrite" && r.bag) || (cls == "refilter" && r.refilter)
      || (cls == "derive" && r.refilter && r.addsOk k)       -- a re-made slice that happens to keep every check
  | .structcopy => cls == "copymeta"
  | .self => if row.regRecv then cls == "metaself" else (cls == "self" || cls == "alias" || cls == "access")
  | .ctor | .wrap => cls == "rebuild" || cls == "wrap" || cls == "derive" || cls == "refilter" || cls == "access" || cls == "alias"
  | .access => cls == "access" || cls == "alias" || cls == "derive" || cls == "rebuild" || cls == "wrap" || cls == "refilter" || cls == "copymeta"
  | .none => false
  | .recvptr | .unknown => false

def letters : Origin → List String
  | .shared _ | .sharedCore _ => ["s", "N"]
  | .fresh | .ctor => ["f"]
  | .nil => ["n", "N"]
  | .arg => ["f", "n", "N"]
  | .value => ["s", "f", "n", "N"]
  | .append _ | .unknown => []

/-- every observed `Field=letter` is admitted by the origins the result-row lists for that field (fields the row does not
    list — results of another type — are not predicted) -/
def localsAdmit (memo : List String) (r : MethodResult) (obsd : List (String × String)) : Bool :=
  obsd.all (fun fl => memo.contains fl.1 || match r.locals.find? (fun f => f.1 == fl.1) with
    | some f => f.2.any (fun o => (letters o).contains fl.2)
    | none => true)

def parseLocals (tok : String) : List (String × String) :=
  if !tok.startsWith "L:" || tok == "L:-" then [] else
  ((tok.drop 2).toString.splitOn ",").filterMap (fun kv => match kv.splitOn "=" with
    | [k, v] => some (k, v)
    | _ => none)

def routeName : Route → String
  | .clone => "clone" | .structcopy => "structcopy" | .recvptr => "recvptr" | .self => "self" | .ctor => "ctor"
  | .wrap => "wrap" | .access => "access" | .none => "none" | .unknown => "unknown"

/-- the `T:` verdict of one step -/
def tableVerdict (methodAt : String) (cls : String) (k : Nat) (ltok : String) : String :=
  match methodAt.splitOn "@" with
  | [m, t] =>
    match findRow Gozod.Gen.methodOps t m with
    | none => s!"norow:{t}.{m}"
    | some row =>
      let cands := row.results.filter (fun r => admits row r cls k)
      if cands.isEmpty then s!"class:{t}.{m}:{",".intercalate (row.results.map (fun r => routeName r.route))}/{cls}+{k}"
      else
        let obsd := parseLocals ltok
        -- fields that some method of the type fills inside sync.Once.Do (ZodLazy.innerType) are caches: the run may or
        -- may not have filled them by the time it looks
        let memo := (Gozod.Gen.methodOps.filter (fun x => x.typ == t)).flatMap (fun x => x.recvWrites.filterMap (fun w =>
          match w with
          | .onceMemo path => (path.splitOn ".").getLast?
          | .write _ => none))
        if cands.any (fun r => localsAdmit memo r obsd) then "ok" else s!"local:{t}.{m}:{ltok}"
  | _ => "badmethod"

def badRows : List String :=
  (Gozod.Gen.methodOps.filter (fun r => r.cls == .bad || r.cls == .metaSelf)).map (fun r => s!"{r.typ}.{r.method}")

def exceptionRows : List String :=
  (Gozod.Gen.methodOps.filter (fun r => r.cls == .metaSelf || r.cls == .memo)).map
    (fun r => s!"{if r.cls == .memo then "memo" else "metaself"}:{r.typ}.{r.method}")


def split10 (toks : List String) : List String × String :=
  match toks with
  | [a, b, c, d, e, f, g, h, i, l] => ([a, b, c, d, e, f, g, h, i], l)
  | _ => (toks, "L:-")

def stepT (toks : List String) : String :=
  match split10 toks with
  | ([_, cls, k, _, _, _, _, _, m], ltok) => tableVerdict m cls (k.toNat?.getD 0) ltok
  | _ => "badstep"

/-! ### object histories at the level of content (`c08 OBJ …`) -/

def natList (s : String) : List Nat :=
  if s == "-" || s == "" then [] else (s.splitOn ",").filterMap String.toNat?

def pairList (s : String) : List (Nat × Nat) :=
  if s == "-" || s == "" then [] else
  (s.splitOn ",").filterMap (fun kv => match kv.splitOn "=" with
    | [k, v] => match k.toNat?, v.toNat? with
      | some a, some b => some (a, b)
      | _, _ => none
    | _ => none)

/-- member identities live outside the allocated range (they are never dereferenced) -/
def memLoc (i : Nat) : Loc := 100000 + i
def memIdx (l : Loc) : Nat := l - 100000

structure OSt where
  σ : Store
  live : List OSchema
  verdicts : List String := []
  structs : List String := []
  spec : List String := []

def keyUniverse : List Nat := [1, 2, 3, 4, 9]

def renderKeys (ks : List Nat) : String :=
  let s := String.join ((keyUniverse.filter (fun k => ks.contains k)).map toString)
  if s == "" then "o" else s

def sortedKeys (ks : List Nat) : List Nat := (List.range 10).filter (fun k => ks.contains k)

/-- the rendering of `look` in harness/cmd/c08/objhist.go -/
def lookO (mem : List (Nat × Nat)) (h : Loc → Option Cell) (x : OSchema) : String :=
  let o := obsO h x
  let sh := o.base.shape.getD []
  let memberOpt : Loc → Bool := fun l => match mem.find? (fun p => p.1 == memIdx l) with | some p => p.2 / 10 == 1 | none => false
  let memberOk : Loc → Nat → Bool := fun l _ => match mem.find? (fun p => p.1 == memIdx l) with | some p => p.2 % 10 == 1 | none => false
  let shs := ",".intercalate ((sortedKeys (shapeKeys sh)).map (fun k => s!"{k}={memIdx ((shapeGet sh k).getD 0)}"))
  let exc := match o.exc with
    | none => "-"
    | some ks => "{" ++ ",".intercalate ((sortedKeys ks).map toString) ++ "}"
  let ca := match o.v.catchall with | none => "-" | some c => toString (memIdx c)
  let req := match o.req with
    | none => "-"
    | some ks => "{" ++ ",".intercalate ((sortedKeys ks).map toString) ++ "}"
  let content := s!"{shs}|{exc}|{o.v.mode}|{if o.v.isPartial then 1 else 0}|{ca}|{req}"
  let verdicts := ",".intercalate ((List.range 32).map (fun mask =>
    let present := (List.range 5).filterMap (fun i => if (mask >>> i) % 2 == 1 then keyUniverse[i]? else none)
    match objParse o memberOk memberOpt ⟨present⟩ with
    | none => "x"
    | some ks => renderKeys ks))
  let d := objDoc o memberOpt
  let ap := match d.additional.1 with | 0 => "F" | 1 => "T" | _ => "S"
  let dots (xs : List Nat) := ".".intercalate ((sortedKeys xs).map toString)
  s!"{content}/{verdicts}/{dots d.required}!{ap}!{dots (shapeKeys d.props)}"

def objOpOf (st : OSt) (op arg : String) : Option ObjOp :=
  if op == "extend" then some (.extend ((pairList arg).map (fun p => (p.1, memLoc p.2))) false)
  else if op == "merge" then
    (arg.toNat?.bind (fun i => st.live[i]?)).map (fun other => .extend ((readShape st.σ.heap other.s.shape).getD []) false)
  else if op == "pick" then some (.pick (natList arg))
  else if op == "omit" then some (.omitKeys (natList arg))
  else if op == "partial" then some .partialAll
  else if op == "partialkeys" then some (.partialKeys (natList arg))
  else if op == "required" then some .requiredAll
  else if op == "requiredkeys" then some (.requiredKeys (natList arg))
  else if op == "mode" then arg.toNat?.map .mode
  else if op == "catchall" then arg.toNat?.map (fun i => .catchall (memLoc i))
  else if op == "describe" then some (.common (.derive 0 [] (some 7)))
  else if op == "default" || op == "prefault" then some (.common (.derive 1 [] none))
  else none

def stepO (mem : List (Nat × Nat)) (st : OSt) : List String → Option OSt
  | [recv, op, arg] => do
    let i ← recv.toNat?
    let r ← st.live[i]?
    let o ← objOpOf st op arg
    match applyObjOp fixed st.σ r o with
    | none => some { st with verdicts := st.verdicts ++ ["e:"], structs := st.structs ++ ["e"], spec := st.spec ++ ["e:"] }
    | some (σ', x) =>
      let before := st.live.map (lookO mem st.σ.heap)
      let after := st.live.map (lookO mem σ'.heap)
      let changed := (List.range st.live.length).filter (fun j => before[j]? != after[j]?)
      let fresh := !(st.live.any (fun y => y.s.self == x.s.self))
      some { σ := σ', live := st.live ++ [x],
             verdicts := st.verdicts ++ [s!"{if fresh then 1 else 0}:{idxList changed}"],
             structs := st.structs ++ [lookO mem σ'.heap x], spec := st.spec ++ ["1:"] }
  | _ => none

def runO (mem : List (Nat × Nat)) (st : OSt) : List (List String) → Option OSt
  | [] => some st
  | s :: rest => match stepO mem st s with
    | some st' => runO mem st' rest
    | none => none

def handleObj (toks : List String) : String :=
  match splitOnBar toks with
  | [_obj, m, b] :: steps =>
    let mem := pairList (m.drop 2).toString
    let base := (pairList (b.drop 2).toString).map (fun p => (p.1, memLoc p.2))
    let (σ, x) := objConstruct { heap := fun _ => none, next := 1 } 3 base []
    match runO mem { σ := σ, live := [x] } steps with
    | some st =>
      s!"V:{";".intercalate st.verdicts} S:{lookO mem σ.heap x};{";".intercalate st.structs}\tV:{";".intercalate st.spec}"
    | none => "bad-op"
  | _ => "bad-op"

def handle (toks : List String) : String :=
  match toks with
  | "OBJ" :: _ => handleObj toks
  | "HOLD" :: _ => Gozod.Drv.C08H.handleHold toks
  | ["bad"] => s!"bad:{",".intercalate badRows}\tbad:"
  | ["exceptions"] => s!"{",".intercalate exceptionRows}\t-"
  | _ =>
    match splitOnBar toks with
    | hd :: steps =>
      -- the store model runs on the 9-token steps (Drv.C08.handle re-splits the same token list)
      let core := hd ++ (steps.map (fun s => "|" :: (split10 s).1)).flatten
      let base := Gozod.Drv.C08.handle core
      match base.splitOn "\t" with
      | [m, spec] => s!"{m} T:{";".intercalate (steps.map stepT)}\t{spec}"
      | _ => base
    | _ => "bad-op"

end Gozod.Drv.C08T
