package main

// `harness-c11 -reads <repo> <dir of github.com/kaptinlin/jsonschema>`: a go/ast translator.
//
// For every function of jsonschema/from.go it lists the JSON Schema KEYWORDS the function reads: the selector expressions
// v.Field where v is a variable holding a *lib.Schema (a parameter of that type, or a variable defined / ranged from an
// expression rooted at such a variable) and Field is a field of lib.Schema; the field is reported by its JSON name
// (struct tag of lib.Schema, read from the library's own source), or as ~Field when it has none (Boolean, ResolvedRef).
// vlib/c11.py turns the output into lean/Gozod/Gen/FromReads.lean; Proofs/C11Reads.lean proves over the whole table
// that every Lean conversion function depends on exactly the keywords its Go original reads, that the converting
// functions read exactly the documented keyword set, and that checkUnsupportedFeatures reads exactly what strict mode
// rejects.  A keyword newly read or no longer read by from.go changes a proof obligation.

import (
	"encoding/json"
	"fmt"
	"go/ast"
	"go/parser"
	"go/token"
	"os"
	"path/filepath"
	"reflect"
	"strings"
)

func schemaFieldTags(libdir string) (map[string]string, error) {
	fset := token.NewFileSet()
	pkgs, err := parser.ParseDir(fset, libdir, func(fi os.FileInfo) bool { return !strings.HasSuffix(fi.Name(), "_test.go") }, 0)
	if err != nil {
		return nil, err
	}
	tags := map[string]string{}
	for _, p := range pkgs {
		for _, f := range p.Files {
			for _, d := range f.Decls {
				gd, ok := d.(*ast.GenDecl)
				if !ok {
					continue
				}
				for _, sp := range gd.Specs {
					ts, ok := sp.(*ast.TypeSpec)
					if !ok || ts.Name.Name != "Schema" {
						continue
					}
					st, ok := ts.Type.(*ast.StructType)
					if !ok {
						continue
					}
					for _, fl := range st.Fields.List {
						name := ""
						if fl.Tag != nil {
							tag := reflect.StructTag(strings.Trim(fl.Tag.Value, "`")).Get("json")
							name = strings.Split(tag, ",")[0]
						}
						for _, id := range fl.Names {
							if name == "" || name == "-" {
								tags[id.Name] = "~" + id.Name
							} else {
								tags[id.Name] = name
							}
						}
					}
				}
			}
		}
	}
	if len(tags) < 40 {
		return nil, fmt.Errorf("type Schema of %s: only %d fields found", libdir, len(tags))
	}
	return tags, nil
}

func isSchemaType(e ast.Expr) bool {
	switch x := e.(type) {
	case *ast.StarExpr:
		if se, ok := x.X.(*ast.SelectorExpr); ok {
			if id, ok := se.X.(*ast.Ident); ok {
				return id.Name == "lib" && se.Sel.Name == "Schema"
			}
		}
	case *ast.ArrayType:
		return isSchemaType(x.Elt)
	}
	return false
}

// root: the identifier an expression is rooted at (through selectors, derefs, indexing, parentheses, slicing).
func root(e ast.Expr) *ast.Ident {
	for {
		switch x := e.(type) {
		case *ast.Ident:
			return x
		case *ast.SelectorExpr:
			e = x.X
		case *ast.StarExpr:
			e = x.X
		case *ast.IndexExpr:
			e = x.X
		case *ast.ParenExpr:
			e = x.X
		case *ast.SliceExpr:
			e = x.X
		case *ast.UnaryExpr:
			e = x.X
		default:
			return nil
		}
	}
}

type fnReads struct {
	Func  string   `json:"func"`
	Reads []string `json:"reads"`
}

func readsMain(repo, libdir string) int {
	tags, err := schemaFieldTags(libdir)
	if err != nil {
		fmt.Fprintln(os.Stderr, err)
		return 2
	}
	fset := token.NewFileSet()
	f, err := parser.ParseFile(fset, filepath.Join(repo, "jsonschema", "from.go"), nil, 0)
	if err != nil {
		fmt.Fprintln(os.Stderr, err)
		return 2
	}
	var out []fnReads
	for _, d := range f.Decls {
		fd, ok := d.(*ast.FuncDecl)
		if !ok || fd.Body == nil {
			continue
		}
		vars := map[string]bool{}
		for _, p := range fd.Type.Params.List {
			if isSchemaType(p.Type) {
				for _, id := range p.Names {
					vars[id.Name] = true
				}
			}
		}
		// variables defined / ranged from an expression rooted at a schema variable (to a fixpoint)
		for changed := true; changed; {
			changed = false
			def := func(lhs ast.Expr, rhs ast.Expr) {
				id, ok := lhs.(*ast.Ident)
				if !ok || id.Name == "_" || vars[id.Name] {
					return
				}
				if r := root(rhs); r != nil && vars[r.Name] {
					vars[id.Name] = true
					changed = true
				}
			}
			ast.Inspect(fd.Body, func(n ast.Node) bool {
				switch x := n.(type) {
				case *ast.RangeStmt:
					if x.Value != nil {
						def(x.Value, x.X)
					}
				case *ast.AssignStmt:
					if len(x.Lhs) == len(x.Rhs) {
						for i := range x.Lhs {
							def(x.Lhs[i], x.Rhs[i])
						}
					} else if len(x.Rhs) == 1 && len(x.Lhs) > 0 {
						def(x.Lhs[0], x.Rhs[0])
					}
				}
				return true
			})
		}
		seen := map[string]bool{}
		var reads []string
		ast.Inspect(fd.Body, func(n ast.Node) bool {
			se, ok := n.(*ast.SelectorExpr)
			if !ok {
				return true
			}
			id, ok := se.X.(*ast.Ident)
			if !ok || !vars[id.Name] {
				return true
			}
			if kw, ok := tags[se.Sel.Name]; ok && !seen[kw] {
				seen[kw] = true
				reads = append(reads, kw)
			}
			return true
		})
		out = append(out, fnReads{fd.Name.Name, reads})
	}
	if len(out) < 15 {
		fmt.Fprintf(os.Stderr, "jsonschema/from.go: only %d functions found\n", len(out))
		return 2
	}
	b, _ := json.Marshal(out)
	fmt.Println(string(b))
	return 0
}
