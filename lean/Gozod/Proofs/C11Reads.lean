/-
  C11 — which keywords jsonschema/from.go READS, tied to the Lean transcription.

  `Gen.fromReads` is regenerated on every run by a go/ast translator (harness/cmd/c11/reads.go): for every function of
  from.go, the fields of lib.Schema it reads, by JSON keyword name.  This file proves, over the WHOLE regenerated table,
  * frame theorems: each Lean conversion function depends on the named fields of `Parts` only, and the Go function it
    transcribes reads exactly the keywords of those fields (a keyword newly read, or no longer read, by from.go changes
    a `decide`d obligation here);
  * the converting functions together read exactly the keywords the documentation lists as supported
    (`Gen.keywordTable`, regenerated behaviourally);
  * `checkUnsupportedFeatures` reads exactly the keywords strict mode rejects.
-/
import Gozod.Model.FromJson
import Gozod.Gen.FromReads
import Gozod.Gen.KeywordTable
namespace Gozod.C11
open Gozod.Jsc

/-- the keywords a function of from.go reads (`[]` for an unknown function). -/
def readsOf (f : String) : List String := ((Gen.fromReads.find? (fun r => r.1 == f)).map (·.2)).getD []

def sameSet (a b : List String) : Bool := a.all b.contains && b.all a.contains

/-! ### frame theorems: what each Lean conversion function depends on, and what its Go original reads -/

/-- `convString` depends on format / minLength / maxLength / pattern only … -/
theorem convString_frame (p q : Parts) (h1 : p.format = q.format) (h2 : p.minLength = q.minLength)
    (h3 : p.maxLength = q.maxLength) (h4 : p.pattern = q.pattern) : convString fx p = convString fx q := by
  simp [convString, strCks, h1, h2, h3, h4]

/-- … and `convertString` reads exactly these keywords. -/
theorem reads_convertString : sameSet (readsOf "convertString") ["format", "minLength", "maxLength", "pattern"] = true := by decide

theorem convNumber_frame (p q : Parts) (h1 : p.minimum = q.minimum) (h2 : p.maximum = q.maximum) (h3 : p.exMin = q.exMin)
    (h4 : p.exMax = q.exMax) (h5 : p.mul = q.mul) : convNumber p = convNumber q := by
  simp [convNumber, h1, h2, h3, h4, h5]

theorem reads_convertNumber : sameSet (readsOf "convertNumber")
    ["minimum", "maximum", "exclusiveMinimum", "exclusiveMaximum", "multipleOf"] = true := by decide

theorem convInteger_frame (p q : Parts) (h1 : p.minimum = q.minimum) (h2 : p.maximum = q.maximum) (h3 : p.exMin = q.exMin)
    (h4 : p.exMax = q.exMax) (h5 : p.mul = q.mul) : convInteger fx p = convInteger fx q := by
  simp [convInteger, h1, h2, h3, h4, h5]

theorem reads_convertInteger : sameSet (readsOf "convertInteger")
    ["minimum", "maximum", "exclusiveMinimum", "exclusiveMaximum", "multipleOf"] = true := by decide

/-- `convArray` is `convertArray` + `convertTuple`. -/
theorem convArray_frame (p q : Parts) (h1 : p.prefixItems = q.prefixItems) (h2 : p.items = q.items)
    (h3 : p.minItems = q.minItems) (h4 : p.maxItems = q.maxItems) : convArray fx p = convArray fx q := by
  simp [convArray, h1, h2, h3, h4]

theorem reads_convertArray : sameSet (readsOf "convertArray" ++ readsOf "convertTuple")
    ["prefixItems", "items", "minItems", "maxItems"] = true := by decide

/-- the tuple path reads neither minItems nor maxItems (finding tuple-items-all-required). -/
theorem reads_convertTuple :
    sameSet (readsOf "convertTuple") (["prefixItems", "items"] ++ (if cur.tupOpen then ["maxItems"] else [])) = true := by decide

theorem convObject_frame (p q : Parts) (h1 : p.properties = q.properties) (h2 : p.required = q.required)
    (h3 : p.addl = q.addl) : convObject fx se p = convObject fx se q := by
  simp [convObject, objOf, addlValue, h1, h2, h3]

theorem reads_convertObject : sameSet (readsOf "convertObject") ["properties", "required", "additionalProperties"] = true := by
  decide

/-- `convByType` (= `convertByType` + `convertMultiType`) adds the `type` keyword to what the per-type converters read. -/
theorem convByType_frame (p q : Parts) (ht : p.types = q.types)
    (h : ∀ t, convOneType fx se p t = convOneType fx se q t) : convByType fx se p = convByType fx se q := by
  have hm : ∀ l : List TypeName, l.map (convOneType fx se p) = l.map (convOneType fx se q) := fun l => by simp [h]
  simp only [convByType, ht, hm]
  cases q.types with
  | nil => rfl
  | cons t ts => cases ts <;> simp [h]

theorem reads_convertByType : sameSet (readsOf "convertByType" ++ readsOf "convertMultiType") ["type"] = true := by decide

/-- `assemble` (= `convert` after the sub-schemas are converted) looks at `$ref`, the strict-mode keywords, allOf, anyOf,
    oneOf, const, enum — and at nothing else before it hands over to `convByType`. -/
theorem assemble_frame (T : Str → Bool) (st : Bool) (p q : Parts) (h0 : p.ref = q.ref) (h1 : p.others = q.others)
    (h2 : p.allOf = q.allOf) (h3 : p.anyOf = q.anyOf) (h4 : p.oneOf = q.oneOf) (h5 : p.const = q.const)
    (h6 : p.enum = q.enum) (h7 : ∀ se, convByType fx se p = convByType fx se q) : assemble fx T st p = assemble fx T st q := by
  simp only [assemble, h0, h1, h2, h3, h4, h5, h6, h7]

/-- `convert` reads the boolean-schema flag, the resolved `$ref`, and the five dispatch keywords, in this order. -/
theorem reads_convert : readsOf "convert" = ["~Boolean", "~ResolvedRef", "allOf", "anyOf", "oneOf", "const", "enum"] := by decide

theorem reads_dispatch_members : readsOf "convertAllOf" = ["allOf"] ∧ readsOf "convertAnyOf" = ["anyOf"]
    ∧ readsOf "convertOneOf" = ["oneOf"] ∧ readsOf "convertConst" = ["const"] ∧ readsOf "convertEnum" = ["enum"] := by decide

/-- annotations are read by `attachMeta` only (they never reach the produced schema's verdicts). -/
theorem reads_attachMeta : readsOf "attachMeta" = ["$id", "title", "description", "examples"] := by decide

/-! ### the two regenerated tables agree: source reads (go/ast) vs. behaviour (strict-mode runs) vs. documentation -/

/-- every keyword read by a CONVERTING function (everything except the strict-mode test and the metadata pass). -/
def converterReads : List String :=
  ((Gen.fromReads.filter (fun r => r.1 != "checkUnsupportedFeatures" && r.1 != "attachMeta")).map (·.2)).flatten

def documentedKw (k : String) : Bool := Gen.keywordTable.any (fun r => r.kw == k && r.documented)

/-- every keyword a converting function reads is documented as supported (`~Boolean` / `~ResolvedRef` are the boolean
    schema and the resolved `$ref`; they have no JSON field of their own, and a `$ref` needs a target, so the one-keyword
    documents of the behavioural table have no row for it) … -/
theorem converter_reads_documented :
    converterReads.all (fun k => documentedKw k || k == "~Boolean" || k == "~ResolvedRef") = true := by
  decide

/-- … and every keyword documented as supported is read by a converting function: none is documented and ignored. -/
theorem documented_are_read :
    Gen.keywordTable.all (fun r => !r.documented || converterReads.contains r.kw
      || (r.kw == "$ref" && converterReads.contains "~ResolvedRef")) = true := by decide

/-- strict mode rejects a keyword of the table exactly when `checkUnsupportedFeatures` reads it: the behavioural table
    and the source agree row by row. -/
theorem strict_rejects_iff_read :
    Gen.keywordTable.all (fun r => r.strictRejects == (readsOf "checkUnsupportedFeatures").contains r.kw) = true := by decide

/-- … and everything `checkUnsupportedFeatures` reads has a row in the table (so the previous theorem speaks about all of
    it), except `$dynamicRef`, which the harness cannot put into a compilable one-keyword document. -/
theorem strict_reads_in_table :
    (readsOf "checkUnsupportedFeatures").all (fun k => Gen.keywordTable.any (fun r => r.kw == k) || k == "$dynamicRef") = true := by
  decide

/-- no keyword is both converted and rejected. -/
theorem converted_not_rejected :
    converterReads.all (fun k => !(readsOf "checkUnsupportedFeatures").contains k) = true := by decide

end Gozod.C11
