/-
  Value graphs with value-typed aggregates (C15) — extends the `node`/`UVal` graphs of `Gozod.Model.Store`.

  A Go value stored in a slot (a variable, a map entry, a slice element, a pointee, a struct field) is

    scalar n      a number, string, bool (content id n)
    nil           a nil map / slice / pointer / interface
    ref l         a map, slice or pointer: a reference to the cell at location `l` (entries key ↦ value)
    agg fs        a struct or array held BY VALUE: its fields / elements live inside the slot that holds it; copying the
                  slot by assignment copies the fields, and the references among them keep pointing at the same cells

  (`any` holding a value is transparent: the boxed value is the value.)  A cell is the list of its entries.

  Mirrors:
    copy true     internal/engine/modifiers.go deepCloneValue: Map / Slice / Pointer → fresh cell with cloned entries;
                  Struct / Array → the aggregate with every field / element cloned; Interface → the boxed value cloned
    copy false    the same with aggregates copied by assignment (what a "bulk copy of elements whose kind is not a
                  reference kind" does) — only used by the witness `bulk_agg_copy_shared`
    parseNilG     resolveDefault: Parse(nil) hands out `copy` of DefaultValue / PrefaultValue
    rebuild rw    Parse of a by-value container input (types/object.go, record.go, slice.go, …): the result is built in
                  fresh cells; every entry goes through `rw` (strip, key canonicalisation, coercion, defaults); the
                  input's cells are only read
    assign        the caller storing arbitrary new contents into a cell it can reach
-/
namespace Gozod.Graph

abbrev Loc := Nat

inductive GVal where
  | scalar (n : Nat)
  | nil
  | ref (l : Loc)
  | agg (fs : List (Nat × GVal))

abbrev Entries := List (Nat × GVal)
abbrev GHeap := Loc → Option Entries

structure GStore where
  heap : GHeap
  next : Loc

def gupd (h : GHeap) (l : Loc) (c : Entries) : GHeap := fun x => if x = l then some c else h x

def galloc (σ : GStore) (c : Entries) : GStore × Loc :=
  ({ heap := gupd σ.heap σ.next c, next := σ.next + 1 }, σ.next)

/-- the caller stores new contents into the cell at `l` -/
def assign (σ : GStore) (l : Loc) (c : Entries) : GStore := { σ with heap := gupd σ.heap l c }

def readG (h : GHeap) (l : Loc) : Entries :=
  match h l with
  | some c => c
  | none => []

/-- the cells seen through a value, down to `fuel` levels (reference and aggregate levels both count) -/
def reach : Nat → GHeap → GVal → List Loc
  | 0, _, _ => []
  | _ + 1, _, .scalar _ => []
  | _ + 1, _, .nil => []
  | f + 1, h, .ref l => l :: (readG h l).flatMap (fun p => reach f h p.2)
  | f + 1, h, .agg fs => fs.flatMap (fun p => reach f h p.2)

/-- what a caller sees of a value (no addresses): scalar n ↦ [0,n]; nil ↦ [4]; cell ↦ [1] (key :: child)* [3];
    aggregate ↦ [5] (key :: child)* [6]; depth cut ↦ [2] -/
def ser : Nat → GHeap → GVal → List Nat
  | 0, _, _ => [2]
  | _ + 1, _, .scalar n => [0, n]
  | _ + 1, _, .nil => [4]
  | f + 1, h, .ref l => [1] ++ (readG h l).flatMap (fun p => p.1 :: ser f h p.2) ++ [3]
  | f + 1, h, .agg fs => [5] ++ fs.flatMap (fun p => p.1 :: ser f h p.2) ++ [6]

/-- `deepCloneValue` (`deepAgg = true`); with `deepAgg = false` aggregates are copied by assignment -/
def copy (deepAgg : Bool) : Nat → GStore → GVal → GStore × GVal
  | 0, σ, v => (σ, v)
  | _ + 1, σ, .scalar n => (σ, .scalar n)
  | _ + 1, σ, .nil => (σ, .nil)
  | f + 1, σ, .ref l =>
    let acc := (readG σ.heap l).foldl
      (fun (acc : GStore × Entries) p => let r := copy deepAgg f acc.1 p.2; (r.1, acc.2 ++ [(p.1, r.2)])) (σ, [])
    let r := galloc acc.1 acc.2
    (r.1, .ref r.2)
  | f + 1, σ, .agg fs =>
    if deepAgg then
      let acc := fs.foldl
        (fun (acc : GStore × Entries) p => let r := copy deepAgg f acc.1 p.2; (r.1, acc.2 ++ [(p.1, r.2)])) (σ, [])
      (acc.1, .agg acc.2)
    else (σ, .agg fs)

/-- depth to which graphs are followed (the harness builds graphs of ≤ 12 nested levels) -/
def gdepth : Nat := 16

/-- `resolveDefault`: Parse(nil) on a schema holding the default / prefault value `d` -/
def parseNilG (deepAgg : Bool) (σ : GStore) (d : GVal) : GStore × GVal := copy deepAgg gdepth σ d

/-- Parse of a by-value container input: children first, then every entry through `rw`
    (`none` = dropped, e.g. an unknown key in strip mode; a changed key = canonicalised; a changed value = coerced). -/
def rebuild (rw : Nat → GVal → Option (Nat × GVal)) : Nat → GStore → GVal → GStore × GVal
  | 0, σ, v => (σ, v)
  | _ + 1, σ, .scalar n => (σ, .scalar n)
  | _ + 1, σ, .nil => (σ, .nil)
  | f + 1, σ, .ref l =>
    let acc := (readG σ.heap l).foldl
      (fun (acc : GStore × Entries) p =>
        let r := rebuild rw f acc.1 p.2
        match rw p.1 r.2 with
        | some e => (r.1, acc.2 ++ [e])
        | none => (r.1, acc.2)) (σ, [])
    let r := galloc acc.1 acc.2
    (r.1, .ref r.2)
  | f + 1, σ, .agg fs =>
    let acc := fs.foldl
      (fun (acc : GStore × Entries) p =>
        let r := rebuild rw f acc.1 p.2
        match rw p.1 r.2 with
        | some e => (r.1, acc.2 ++ [e])
        | none => (r.1, acc.2)) (σ, [])
    (acc.1, .agg acc.2)

/-- every scalar inside a slot value replaced (references kept) — what the harness mutator does to a slot -/
def scrub : Nat → GVal → GVal
  | 0, v => v
  | _ + 1, .scalar _ => .scalar 99
  | _ + 1, .nil => .nil
  | _ + 1, .ref l => .ref l
  | f + 1, .agg fs => .agg (fs.map (fun p => (p.1, scrub f p.2)))

/-- the harness mutator on one cell: every scalar at any aggregate depth changed, one entry added -/
def scrubCell (c : Entries) : Entries := c.map (fun p => (p.1, scrub gdepth p.2)) ++ [(998, .scalar 99)]

/-- deep in-place mutation of everything reachable from `v` -/
def mutateAll (σ : GStore) (v : GVal) : GStore :=
  (reach gdepth σ.heap v).foldl (fun σ l => assign σ l (scrubCell (readG σ.heap l))) σ

end Gozod.Graph
