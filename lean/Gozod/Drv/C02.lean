/-
  Line handler for C02: `c02 CFG NODE V TABLE` → "<model verdict>\t<spec verdict>\t<reason>"
  (verdict = ok | err; reason = failure-class hint used when the two differ).
  model: the container over what it SEES of its members (`c.env`); spec: the law over the members' OWN verdicts (`c.own`).
-/
import Gozod.Model.Containers
import Gozod.Model.ContainersSpec
import Gozod.Drv.ContParse
namespace Gozod.Drv.C02
open Gozod.Cont Gozod.Drv.ContParse

def verdict (b : Bool) : String := if b then "ok" else "err"

def handle (ts : List String) : String :=
  match parseCase ts with
  | none => "bad-op"
  | some c =>
    let m := (run c.cfg c.env c.node c.input).isOk
    let s := Spec.accepts c.own c.written c.input
    -- a member the container cannot call, whose own verdict would have changed the composite's
    let why := if !c.skip.isEmpty && Spec.accepts c.env c.node c.input != s then "member-schema-never-asked"
               else Spec.reason c.own c.written c.input
    s!"{verdict m}\t{verdict s}\t{why}"

end Gozod.Drv.C02
