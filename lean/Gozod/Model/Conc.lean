/-
  Small shared-state protocols of the library as atomic steps on a state (C14, round 4): the registry
  (core/registry.go: Add / Get / Has / Remove / Range under one RWMutex) and the global configuration
  (core/config.go: Config / SetConfig on one atomic.Pointer).  Schemas and metadata are numbers (identities).

  * `apply` is the sequential specification: what each call does and returns when it runs alone.
  * the code: every registry call is ONE atomic step (its whole body runs inside the critical section — lock-set
    table, C14.c14_racefree) and so are Config() and SetConfig(nil); SetConfig(cfg) is `globalConfig.Load()` and,
    later, `globalConfig.CompareAndSwap(loaded, merge(loaded, cfg))`, repeated until the swap succeeds
    (`Act.load` / `Act.casStore`; since /repo d02a8cd).  Before that fix the second step was an unconditional
    `Store` (`Act.store`, kept as the legacy definition the lost-update witness is about).
  * histories: calls with invocation and response times; `search` looks for a linearization against `apply`
    (sound and complete: C14.search_sound / search_complete); the driver runs it on histories recorded from the
    real code.
-/
namespace Gozod.Conc

structure St where
  reg : List (Nat × Nat)   -- schema ↦ metadata, at most one entry per schema
  custom : Nat             -- CustomError map identity, 0 = nil
  locale : Nat             -- LocaleError map identity, 0 = nil
deriving DecidableEq, Repr

def St.init : St := ⟨[], 0, 0⟩

inductive Op
  | add (k v : Nat)
  | get (k : Nat)
  | has (k : Nat)
  | remove (k : Nat)
  | rangeKeys               -- Range collecting the keys (sorted by the observer)
  | cfgGet                  -- Config()
  | cfgReset                -- SetConfig(nil)
  | cfgSet (c l : Nat)      -- SetConfig(&ZodConfig{CustomError: c, LocaleError: l}); 0 = field left nil
deriving DecidableEq, Repr

inductive Res
  | unit
  | found (v : Nat)
  | missing
  | bool (b : Bool)
  | keys (ks : List Nat)
  | cfg (c l : Nat)
deriving DecidableEq, Repr

def lookup (k : Nat) : List (Nat × Nat) → Option Nat
  | [] => none
  | (k', v) :: r => if k' = k then some v else lookup k r

def insertSorted (k : Nat) : List Nat → List Nat
  | [] => [k]
  | x :: r => if k ≤ x then k :: x :: r else x :: insertSorted k r

def sortKeys : List Nat → List Nat
  | [] => []
  | x :: r => insertSorted x (sortKeys r)

/-- SetConfig's merge: fields that are set in the argument replace the current ones -/
def merge (cur : Nat × Nat) (c l : Nat) : Nat × Nat :=
  (if c = 0 then cur.1 else c, if l = 0 then cur.2 else l)

/-- the sequential specification -/
def apply (σ : St) : Op → St × Res
  | .add k v => ({ σ with reg := (k, v) :: σ.reg.filter (fun e => e.1 != k) }, .unit)
  | .get k => (σ, match lookup k σ.reg with | some v => .found v | none => .missing)
  | .has k => (σ, .bool (lookup k σ.reg).isSome)
  | .remove k => ({ σ with reg := σ.reg.filter (fun e => e.1 != k) }, .unit)
  | .rangeKeys => (σ, .keys (sortKeys (σ.reg.map (·.1))))
  | .cfgGet => (σ, .cfg σ.custom σ.locale)
  | .cfgReset => ({ σ with custom := 0, locale := 0 }, .cfg 0 0)
  | .cfgSet c l => let m := merge (σ.custom, σ.locale) c l
                   ({ σ with custom := m.1, locale := m.2 }, .cfg m.1 m.2)

def run (σ : St) (ops : List Op) : St := ops.foldl (fun s o => (apply s o).1) σ

/-- results of a sequential run -/
def results : St → List Op → List Res
  | _, [] => []
  | σ, o :: r => (apply σ o).2 :: results (apply σ o).1 r

def Op.readOnly : Op → Bool
  | .get _ | .has _ | .rangeKeys | .cfgGet => true
  | _ => false

/-- the schema a registry call is about -/
def Op.key : Op → Option Nat
  | .add k _ | .get k | .has k | .remove k => some k
  | _ => none

/-! ### the code as atomic steps -/

inductive Act
  | atomic (tid : Nat) (op : Op)          -- a call whose body is one critical section / one atomic access
  | load (tid : Nat)                      -- SetConfig: current := globalConfig.Load()
  | store (tid : Nat) (c l : Nat)         -- legacy SetConfig: globalConfig.Store(merge(current, cfg)); returns the merge
  | casStore (tid : Nat) (c l : Nat)      -- SetConfig: CompareAndSwap(current, merge(current, cfg)),
                                          -- a failed swap reloads (the step is then only a `load`)
deriving DecidableEq, Repr

structure CState where
  σ : St
  loaded : List (Nat × (Nat × Nat))       -- per thread: the configuration its last Load returned
deriving DecidableEq, Repr

def loadedOf (tid : Nat) (l : List (Nat × (Nat × Nat))) : Nat × Nat :=
  match l.find? (fun e => e.1 == tid) with
  | some e => e.2
  | none => (0, 0)

def setLoaded (tid : Nat) (v : Nat × Nat) (l : List (Nat × (Nat × Nat))) : List (Nat × (Nat × Nat)) :=
  (tid, v) :: l.filter (fun e => e.1 != tid)

/-- one atomic step of the code; the result is what the step makes its call return (none: the call goes on) -/
def stepC (s : CState) : Act → CState × Option Res
  | .atomic _ op => let (σ', r) := apply s.σ op; ({ s with σ := σ' }, some r)
  | .load tid => ({ s with loaded := setLoaded tid (s.σ.custom, s.σ.locale) s.loaded }, none)
  | .store tid c l =>
      let m := merge (loadedOf tid s.loaded) c l
      ({ s with σ := { s.σ with custom := m.1, locale := m.2 } }, some (.cfg m.1 m.2))
  | .casStore tid c l =>
      let cur := loadedOf tid s.loaded
      if cur = (s.σ.custom, s.σ.locale) then
        let m := merge cur c l
        ({ s with σ := { s.σ with custom := m.1, locale := m.2 } }, some (.cfg m.1 m.2))
      else ({ s with loaded := setLoaded tid (s.σ.custom, s.σ.locale) s.loaded }, none)

def runC : CState → List Act → CState × List (Option Res)
  | s, [] => (s, [])
  | s, a :: r => let (s', o) := stepC s a; let (s'', os) := runC s' r; (s'', o :: os)

/-! ### sync.RWMutex sections (round 4b)

  The registry's readers (Get / Has / Range) run under `RLock`: several of them may be inside their critical sections
  at once, and one section reads the map several times (Range walks it).  `RWAct` is that finer-grained code:
  a reader enters (`rlock`), reads the shared state any number of times (`read`: each read answers from the state as
  it is at that moment) and leaves (`runlock`); a writer's whole Lock … Unlock section is one step that is only
  possible while no reader is inside (`write`).  C14.rw_reads_stable / rw_section_result / rw_run_atomic show that
  this code is an execution of the atomic-step model above (`Act.atomic`), i.e. that treating the RWMutex as if every
  section were one atomic step loses nothing. -/

inductive RWAct
  | rlock (tid : Nat)
  | read (tid : Nat) (op : Op)
  | runlock (tid : Nat)
  | write (tid : Nat) (op : Op)
deriving DecidableEq, Repr

structure RWState where
  σ : St
  readers : List Nat        -- threads inside a read section
deriving DecidableEq, Repr

/-- one step under sync.RWMutex semantics; `none`: the step is not possible in this state (a writer while readers are
    inside, a read outside the thread's own section, a read section running a mutating operation) -/
def stepRW (s : RWState) : RWAct → Option (RWState × Option Res)
  | .rlock tid => some ({ s with readers := tid :: s.readers }, none)
  | .read tid op => if s.readers.contains tid && op.readOnly then some (s, some (apply s.σ op).2) else none
  | .runlock tid => if s.readers.contains tid then some ({ s with readers := s.readers.erase tid }, none) else none
  | .write _ op => if s.readers.isEmpty then some ({ s with σ := (apply s.σ op).1 }, some (apply s.σ op).2) else none

def runRW : RWState → List RWAct → Option (RWState × List (Option Res))
  | s, [] => some (s, [])
  | s, a :: r =>
    match stepRW s a with
    | none => none
    | some (s', o) =>
      match runRW s' r with
      | none => none
      | some (s'', os) => some (s'', o :: os)

/-- the same code seen by the atomic-step model: every read and every write section is one `Act.atomic`; entering and
    leaving a read section are not steps -/
def atomise : List RWAct → List Act
  | [] => []
  | .rlock _ :: r => atomise r
  | .runlock _ :: r => atomise r
  | .read tid op :: r => .atomic tid op :: atomise r
  | .write tid op :: r => .atomic tid op :: atomise r

/-- the results of the calls, in the order they were produced -/
def outputs (os : List (Option Res)) : List Res := os.filterMap id

/-! ### histories and linearizability -/

structure Call where
  id : Nat
  op : Op
  res : Res
  inv : Nat     -- time of the invocation
  ret : Nat     -- time of the response
deriving DecidableEq, Repr

/-- a finished before b started -/
def precedes (a b : Call) : Bool := a.ret < b.inv

def seqValid : St → List Call → Bool
  | _, [] => true
  | σ, c :: r => (apply σ c.op).2 == c.res && seqValid (apply σ c.op).1 r

/-- the order never puts a call before one that had finished before it started -/
def rtOrdered : List Call → Bool
  | [] => true
  | c :: r => r.all (fun d => !precedes d c) && rtOrdered r

def Linearizable (σ : St) (h : List Call) : Prop := ∃ l : List Call, l.Perm h ∧ rtOrdered l = true ∧ seqValid σ l = true

/-- exhaustive search for a linearization (Wing–Gong): take any call no other remaining call precedes, whose recorded
    result is what the specification gives in the current state, and go on with the rest -/
def search : Nat → St → List Call → Bool
  | _, _, [] => true
  | 0, _, _ => false
  | fuel + 1, σ, h =>
    h.any (fun c => h.all (fun d => !precedes d c) && ((apply σ c.op).2 == c.res && search fuel (apply σ c.op).1 (h.erase c)))

def linearizable (σ : St) (h : List Call) : Bool := search h.length σ h

/-! ### the machine replayed on a recorded history (round 4b, after the audit)

  `search` above asks whether a history has a linearization against the SPECIFICATION `apply`.  `replay` asks whether the
  history is a behaviour of the CODE MODEL: every call is run as the atomic steps of the code (`stepC`: registry calls,
  Config(), SetConfig(nil) one step; SetConfig(cfg) a `load` and then `casStore`s until one succeeds), the steps of the
  pending calls interleaved in every way the recorded invocation / response times allow, and every step that makes a
  call return must return the recorded result.  The driver runs BOTH on every recorded history.
  C14.exec_linearizable: every execution of the machine that `replay` can find is linearizable (so the machine refines
  the specification over all interleavings, failed swaps included). -/

/-- a call being replayed; `loaded`: its SetConfig has done a Load (the next step is a CompareAndSwap) -/
structure PCall where
  c : Call
  loaded : Bool
deriving DecidableEq, Repr

/-- the next atomic step of the code for a pending call (the thread id is the call's id) -/
def PCall.act (p : PCall) : Act :=
  match p.c.op with
  | .cfgSet c l => if p.loaded then .casStore p.c.id c l else .load p.c.id
  | op => .atomic p.c.id op

def replay : Nat → CState → List PCall → Bool
  | _, _, [] => true
  | 0, _, _ => false
  | fuel + 1, s, ps =>
    ps.any (fun p =>
      -- every call that had returned before p was invoked has finished (it is no longer pending)
      ps.all (fun d => !precedes d.c p.c) &&
      (match (stepC s p.act).2 with
       | some r => r == p.c.res && replay fuel (stepC s p.act).1 (ps.erase p)
       | none => replay fuel (stepC s p.act).1 (ps.erase p ++ [{ p with loaded := true }])))

/-- can the code model produce the history? (fuel: every call takes at most one step per other call and two of its own) -/
def replayable (σ : St) (h : List Call) : Bool :=
  replay ((h.length + 2) * (h.length + 2)) ⟨σ, []⟩ (h.map (fun c => ⟨c, false⟩))

/-! ### which operations take effect along a schedule -/

def Act.isStore : Act → Bool
  | .store _ _ _ => true
  | _ => false

/-- the operations that take effect along a run of the machine, in the order in which they take effect: an atomic call at
    its step, a SetConfig(cfg) at its SUCCESSFUL CompareAndSwap; loads and failed swaps are no effect -/
def effOps : CState → List Act → List Op
  | _, [] => []
  | s, a :: r =>
    (match a with
     | .atomic _ op => [op]
     | .casStore tid c l => if loadedOf tid s.loaded = (s.σ.custom, s.σ.locale) then [.cfgSet c l] else []
     | _ => []) ++ effOps (stepC s a).1 r

end Gozod.Conc
