/-
  Line handler for C14:  c14 race <scenario>  →  "norace ok<TAB>norace ok".
  The model's prediction is the theorem's content: no unsynchronised conflicting accesses (outside the
  locations listed in `Gozod.C14.knownRacy`), results equal to the run-alone results.
-/
namespace Gozod.Drv.C14

def handle : List String → String
  | ["race", _] => "norace ok\tnorace ok"
  | _ => "bad-op"

end Gozod.Drv.C14
