/-
  Line handler for C01.
    c01 str <ctorPtr> <n> <check>*n | <hex>[*|**] | foreign           (checks as in C10, no when)
    c01 num <kind> <ctorPtr> <n> <ncheck>*n | <kind> <val>[ *] | foreign
        ncheck := cmp <op> <kind> <val> | mul <kind> <val>
    c01 enum <ctorPtr> <n> <ty>:<repr>*n | <ty>:<repr>[*]
  raw line: "<op> @ <implementation observation>", observation := ok:<value token> | rej:type | rej:checks:<p,…> | rej:value
  output: "<model observation>\t<spec verdict>" — the spec verdict is computed from the documented
  meaning alone (type ∧ every check under `specHolds` / byte-level string semantics / membership).
-/
import Gozod.Model.Prim
import Gozod.Model.Str
import Gozod.Model.StrU
import Gozod.Model.PrimMethodsSpec
import Gozod.Model.Regex
import Gozod.Model.NumChecks
import Gozod.Model.GoEq
import Gozod.Model.StrSpec
import Gozod.Drv.C10
import Gozod.Drv.C16
namespace Gozod.Drv.C01
open Gozod Gozod.Prim Gozod.Drv.C10

def renderOut {V} (rv : V → String) : Out V → String
  | .okVal v => "ok:" ++ rv v
  | .okNil => "ok:nil"
  | .errChecks ps => "rej:checks:" ++ ",".intercalate (ps.map toString)
  | .errNonOptional => "rej:nonoptional"
  | .errType => "rej:type"

def renderNum (kind : String) : Num → String
  | .i v => s!"{kind}:{v}"
  | .u v => s!"{kind}:{v}"
  | .f _ => s!"{kind}:float"

/-- Spec verdict given what the spec says (accept with value token / reject) and the implementation's observation. -/
def specVerdict (acceptTok : Option String) (impl : Option String) : String :=
  match impl with
  | none => "-"
  | some io =>
    match acceptTok with
    | some tok => if io == "ok:" ++ tok then io else "spec-rejects:should-accept:" ++ tok
    | none => if io.startsWith "rej:" then io else "spec-rejects:should-reject"

def parseNChecks : Nat → List String → Option (List (Check NumChecks.NPred Unit) × List String)
  | 0, r => some ([], r)
  | n + 1, "cmp" :: op :: k :: v :: r => do
    let op ← CmpOp.ofString? op
    let b ← Gozod.Drv.C16.parseNum k v
    let (cs, r) ← parseNChecks n r
    pure (.pred (.cmp op b) false none :: cs, r)
  | n + 1, "mul" :: k :: v :: r => do
    let d ← Gozod.Drv.C16.parseNum k v
    let (cs, r) ← parseNChecks n r
    pure (.pred (.mult d) false none :: cs, r)
  | n + 1, "mulf" :: v :: r => do
    let b ← v.toNat?
    let (cs, r) ← parseNChecks n r
    pure (.pred (.multF (F.ofBits b)) false none :: cs, r)
  | n + 1, "isint" :: r => do
    let (cs, r) ← parseNChecks n r
    pure (.pred .isInt false none :: cs, r)
  | n + 1, "finite" :: r => do
    let (cs, r) ← parseNChecks n r
    pure (.pred .finite false none :: cs, r)
  | n + 1, "safe" :: r => do
    let (cs, r) ← parseNChecks n r
    pure (.pred .safe false none :: cs, r)
  | _, _ => none

/-- The spec environment for strings: every check decided from its documented meaning by `Str.specHolds`
    (lengths; prefix / suffix / infix / letter-case / patterns as regular languages through the derivative matcher of
    Model/Regex.lean) — not through `Str.holds`, which `holds_iff_spec` ties to the same meaning (`Str.Spec`) by
    theorem; overwrites with Go's Unicode behaviour. -/
def specEnvStr : Env Str.SPred Str.SOw Nat Bytes := ⟨Str.specHolds, StrU.apply, Str.customTr⟩

/-- The numeric checks as they evaluate on a value of a NAMED numeric type: every one is false. -/
def namedEnv : Env NumChecks.NPred Unit Unit Num := ⟨fun _ _ => false, fun _ v => v, fun _ v => v⟩

/-- A value token `<dynamic type>:<payload>` of the harness (`dynTok`) as a Go interface value. -/
def parseGo (tok : String) : GoEq.GoVal :=
  match tok.splitOn ":" with
  | ty :: rest =>
    let repr := ":".intercalate rest
    if ty == "string" || ty == "main.myStr" then .str ty ((unhex repr).getD [])
    else if ty == "float64" || ty == "float32" then
      match repr.toNat? with
      | some b => .float ty (F.ofBits b)
      | none => .opaque ty repr
    else if ty == "bool" then .bool ty (repr == "true")
    else match repr.toInt? with
      | some v => .int ty v
      | none => .opaque ty repr
  | [] => .opaque "" tok

def specAll {P O T V} (env : Env P O T V) (cs : List (Check P O)) (v : V) : Bool :=
  (List.range cs.length).all fun k => !failsAt env cs k v

def handleLine (line : String) : String :=
  if line.startsWith "c01 methods" then
    let off := Gozod.PrimMethodsSpec.methodOffenders
    (if off.isEmpty then "methods-ok" else " ; ".intercalate off) ++ "\t-"
  else
  let (lhs, impl) := match line.splitOn " @ " with
    | [a, b] => (a, some b)
    | _ => (line, none)
  match lhs.splitOn " | " with
  | [schema, input] =>
    let inToks := (input.splitOn " ").filter (· ≠ "")
    -- families ending in `N`: the schema is a generic constructor of package types instantiated with a NAMED Go type
    -- (types.StringTyped[myStr], IntegerTyped[myInt], FloatTyped[myF64], BoolTyped[myBool]) and the input is a value of
    -- that named type (or a pointer to one): the schema's own Go type
    let toks0 := (schema.splitOn " ").filter (· ≠ "")
    let (named, toks1) : Bool × List String := match toks0 with
      | "c01" :: "strN" :: r => (true, "c01" :: "str" :: r)
      | "c01" :: "numN" :: r => (true, "c01" :: "num" :: r)
      | "c01" :: "boolN" :: r => (true, "c01" :: "bool" :: r)
      | t => (false, t)
    match toks1 with
    | "c01" :: "str" :: cp :: n :: ctoks =>
      match n.toNat?.bind (fun n => parseChecks n ctoks) with
      | some (cs, []) =>
        let i : Internals Str.SPred Str.SOw Bytes := { checks := cs, ptrSchema := cp == "1", ctorPtr := cp == "1" }
        let inp : Option (Input Bytes) := match inToks with
          | ["foreign"] => some .foreign
          | [h] => if h.endsWith "**" then some .foreign
                   else if h.endsWith "*" then (unhex (h.dropEnd 1).toString).map .ptr
                   else (unhex h).map .val
          | _ => none
        match inp with
        | none => "bad-op"
        | some x =>
          -- `strN` = types.StringTyped[myStr]: ZodString parses the base type `string` whatever T is
          -- (engine.ParsePrimitive[string, T]): a value of the named type — the schema's own Go type — is a
          -- foreign kind for `parsePrimitiveValue`
          let m := renderOut hex (parse StrU.env i (if named then .foreign else x))
          let acc := match x with
            | .val v | .ptr v => if specAll specEnvStr cs v then some (hex (seenAt specEnvStr cs cs.length v)) else none
            | _ => none
          m ++ "\t" ++ specVerdict acc impl
      | _ => "bad-op"
    | "c01" :: "num" :: kind :: cp :: n :: ctoks =>
      match n.toNat?.bind (fun n => parseNChecks n ctoks) with
      | some (cs, []) =>
        let i : Internals NumChecks.NPred Unit Num := { checks := cs, ptrSchema := cp == "1", ctorPtr := cp == "1" }
        let inp : Option (Input Num) := match inToks with
          | ["foreign"] => some .foreign
          | [k, v] => if k == kind then (Gozod.Drv.C16.parseNum k v).map .val else some .foreign
          | [k, v, "*"] => if k == kind then (Gozod.Drv.C16.parseNum k v).map .ptr else some .foreign
          | _ => none
        match inp with
        | none => "bad-op"
        | some x =>
          let rv := fun (_ : Num) => match inToks with | _ :: v :: _ => s!"{kind}:{v}" | _ => "?"
          -- named operand: `reflectx.IsNumeric` / the type switches of `validate.toNum`, `Float.Finite`, `Float.Int` list
          -- the predeclared types only, so every built-in check takes its `default: false` branch (`namedEnv`)
          let m := renderOut rv (parse (if named then namedEnv else NumChecks.env) i x)
          let acc := match x with
            | .val v | .ptr v => if specAll NumChecks.specEnv cs v then some (rv v) else none
            | _ => none
          m ++ "\t" ++ specVerdict acc impl
      | _ => "bad-op"
    | "c01" :: "bool" :: cp :: n :: ctoks =>
      -- Bool()/BoolPtr(): `Prim.parse` itself; refinements of the fixed family (0: v, 1: ¬v, 2: true)
      let ks := (ctoks.filter (· ≠ "ref")).filterMap String.toNat?
      if n.toNat? != some ks.length then "bad-op" else
      let env : Env Nat Unit Unit Bool := ⟨fun k v => match k % 3 with | 0 => v | 1 => !v | _ => true, fun _ v => v, fun _ v => v⟩
      let cs : List (Check Nat Unit) := ks.map fun k => .pred k false none
      let i : Internals Nat Unit Bool := { checks := cs, ptrSchema := cp == "1", ctorPtr := cp == "1", isRefine := fun _ => true }
      let inp : Option (Input Bool × Bool) := match inToks with
        | ["foreign"] => some (.foreign, false)
        | [t] =>
          let core := ((t.replace "*" ""))
          let v := core == "bool:true"
          if !(core == "bool:true" || core == "bool:false") then none
          else if t.endsWith "**" then some (.foreign, v)
          else if t.endsWith "*" then some (.ptr v, v)
          else some (.val v, v)
        | _ => none
      match inp with
      | none => "bad-op"
      | some (x, _) =>
        let rv := fun (b : Bool) => if b then "bool:true" else "bool:false"
        -- BoolTyped[myBool]: ZodBool parses the base type `bool` whatever T is — the named value is a foreign kind
        let m := renderOut rv (parse env i (if named then .foreign else x))
        let acc := match x with
          | .val v | .ptr v => if specAll env cs v then some (rv v) else none
          | _ => none
        m ++ "\t" ++ specVerdict acc impl
    | "c01" :: "enum" :: _cp :: _n :: vals =>
      match inToks with
      | [x] =>
        let isPtr := x.endsWith "*"
        let x := if isPtr then (x.dropEnd 1).toString else x
        -- model: Go's `==` on interface values (`GoEq.enumAccepts`: map lookup / slices.ContainsFunc literalEqual);
        -- spec: "one of the listed values" decided without `goEq` (`GoEq.specOneOf`); c01_enum_iff / c01_enum_spec_iff
        let ms := vals.map parseGo
        let gx := parseGo x
        let m := if GoEq.enumAccepts ms gx then "ok:" ++ x else "rej:value"
        m ++ "\t" ++ specVerdict (if GoEq.specOneOf ms gx then some x else none) impl
      | ["foreign", _] => "rej:value\t" ++ specVerdict none impl
      | _ => "bad-op"
    | _ => "bad-op"
  | _ => "bad-op"

end Gozod.Drv.C01
