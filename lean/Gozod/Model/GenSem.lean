/-
  C13, round 4c — what an emitted schema expression MEANS, over the structure `GenEmit.emitChain` produces.

  There is ONE type of emitted call (`GenEmit.Call`: method name + classified arguments) and one type of constructor
  expression (`GenEmit.CExpr`).  The writer model builds them (`emitChain`), the typing judgement reads them
  (`GenTyped.wellTyped`), and `denoteChain` below gives their verdict on a probe under the primitive-schema semantics
  (C01 reading: `Min/Max/Length` = bound on value / byte length / element count, `Email/UUID/URL/Regex` = format,
  `Optional/Nilable` = nil accepted).  `denoteChain` is PARTIAL: a call, a constructor, an argument or a (rule, probe)
  combination it does not know yields `none` — never `true` — and every user has to deal with that `none`.

  The matrix side: `tyOf` (field type of a matrix block as a type expression) and `ruleOf` (a matrix rule as the tag rule
  gozodgen's parser hands to the writer), so that the equivalence theorem is stated from the INPUT of a cell
  (field type × rules) through `emitChain` to `denoteChain`; `Gen.genTable` (regenerated) only contributes the text
  found in the generated file — proved equal to the rendering of `emitChain` on every cell — and the compile status.
-/
import Gozod.Model.Tags
import Gozod.Model.GenEmit
namespace Gozod.GenSem
open Gozod.Tags Gozod.GenEmit Gozod.TagParser
open Gozod.GenChain (Status emitRegex)

/-! ### the matrix cell as the writer's input -/

def inner : Ty := .named (asc "Inner")
def innerT : Ty := .named (asc "InnerT")

/-- Go type of a matrix block (harness/cmd/c13/zz_matrix.go `GoType`) -/
def tyOfBase : Base → Ty
  | .string => .basic .string
  | .int => .basic .int | .int8 => .basic .int8 | .int16 => .basic .int16 | .int32 => .basic .int32 | .int64 => .basic .int64
  | .uint => .basic .uint | .uint8 => .basic .uint8 | .uint16 => .basic .uint16 | .uint32 => .basic .uint32 | .uint64 => .basic .uint64
  | .float32 => .basic .float32 | .float64 => .basic .float64
  | .bool => .basic .bool
  | .slice_string => .slice (.basic .string) | .slice_int => .slice (.basic .int) | .slice_int64 => .slice (.basic .int64)
  | .slice_float64 => .slice (.basic .float64) | .slice_bool => .slice (.basic .bool) | .slice_int32 => .slice (.basic .int32)
  | .slice_uint8 => .slice (.basic .uint8) | .slice_slice_string => .slice (.slice (.basic .string))
  | .slice_struct => .slice innerT | .slice_ptr_string => .slice (.ptr (.basic .string))
  | .map_string_string => .map (.basic .string) (.basic .string) | .map_string_int => .map (.basic .string) (.basic .int)
  | .map_string_any => .map (.basic .string) (.named (asc "any")) | .map_string_float64 => .map (.basic .string) (.basic .float64)
  | .struct => inner | .structT => innerT

def tyOf (t : FTy) : Ty := if t.ptr then .ptr (tyOfBase t.base) else tyOfBase t.base

/-- the pattern of every `regex=` cell of the matrix -/
def matrixRegex : Str := asc "^aa*$"

def r0 (n : String) : Rule := ⟨asc n, none⟩
def r1 (n : String) (p : String) : Rule := ⟨asc n, some [asc p]⟩

/-- a matrix rule as gozodgen's tag parser reads it from the tag text the harness writes (`min=3`, `regex=^aa*$`, `required`) -/
def ruleOf : TRule → Rule
  | .required => r0 "required"
  | .min n => r1 "min" (toString n) | .max n => r1 "max" (toString n) | .length n => r1 "length" (toString n)
  | .gt n => r1 "gt" (toString n) | .gte n => r1 "gte" (toString n) | .lt n => r1 "lt" (toString n) | .lte n => r1 "lte" (toString n)
  | .email => r0 "email" | .url => r0 "url" | .uuid => r0 "uuid"
  | .regex => ⟨asc "regex", some [matrixRegex]⟩
  | .positive => r0 "positive" | .negative => r0 "negative" | .nonnegative => r0 "nonnegative" | .nonpositive => r0 "nonpositive"
  | .nonempty => r0 "nonempty"

/-- what gozodgen (/repo HEAD) writes for a matrix cell -/
def emitCell (t : FTy) (rules : List TRule) : Option Chain := emitChain .head (tyOf t) [] (rules.map ruleOf)

/-! ### semantics -/

/-- what one emitted call contributes -/
inductive Sem
  | rule (r : TRule)        -- a check
  | optional | nilable      -- nil accepted
  | dflt                    -- .Default(v) / .Prefault(v): nil is replaced; no effect on a present value
  deriving DecidableEq, Repr

def isDig (c : Nat) : Bool := 0x30 ≤ c && c ≤ 0x39
def natOf (ds : Str) : Nat := ds.foldl (fun acc d => acc * 10 + (d - 0x30)) 0

/-- an integer literal as the writer emits it (`strconv.FormatInt`): digits, optional `-`; anything else is not read -/
def intOf (s : Str) : Option Int :=
  match s with
  | 0x2D :: r => if !r.isEmpty && r.all isDig then some (-(natOf r : Int)) else none
  | r => if !r.isEmpty && r.all isDig then some (natOf r) else none

def argInt : List Arg → Option Int
  | [.raw t] => intOf t
  | _ => none

/-- the meaning of a call; `none`: a method / argument shape this semantics does not know -/
def callSem (c : Call) : Option Sem :=
  if c.name == "Min" then (argInt c.args).map fun n => .rule (.min n)
  else if c.name == "Max" then (argInt c.args).map fun n => .rule (.max n)
  else if c.name == "Gt" then (argInt c.args).map fun n => .rule (.gt n)
  else if c.name == "Gte" then (argInt c.args).map fun n => .rule (.gte n)
  else if c.name == "Lt" then (argInt c.args).map fun n => .rule (.lt n)
  else if c.name == "Lte" then (argInt c.args).map fun n => .rule (.lte n)
  else if c.name == "Length" then (argInt c.args).bind fun n => if 0 ≤ n then some (.rule (.length n.toNat)) else none
  else if c.name == "Positive" ∧ c.args.isEmpty then some (.rule .positive)
  else if c.name == "Negative" ∧ c.args.isEmpty then some (.rule .negative)
  else if c.name == "NonNegative" ∧ c.args.isEmpty then some (.rule .nonnegative)
  else if c.name == "NonPositive" ∧ c.args.isEmpty then some (.rule .nonpositive)
  else if c.name == "Email" ∧ c.args.isEmpty then some (.rule .email)
  else if c.name == "Regex" then
    -- `TRule.regex` stands for the matrix pattern only: any other pattern is not read
    (match c.args with | [.regexp l] => if l = emitRegex matrixRegex then some (.rule .regex) else none | _ => none)
  else if c.name == "Optional" ∧ c.args.isEmpty then some .optional
  else if c.name == "Nilable" ∧ c.args.isEmpty then some .nilable
  else if (c.name == "Default" ∨ c.name == "Prefault") ∧ c.args.length = 1 then some .dflt
  else none

/-- the checks a constructor expression carries by itself; `none`: a constructor this semantics does not know
    (gozod.Any / Time / Lazy / Enum — no matrix cell has them) -/
def ctorSem : CExpr → Option (List TRule)
  | .prim _ => some []
  | .uuid => some [.uuid]
  | .url => some [.url]
  | .fromStruct _ => some []
  | .slice _ (some _) _ => some []
  | .record _ (some _) _ => some []
  | _ => none

/-- documented meaning of one rule on one present value — `Tags.Spec.ruleHolds` without its `| _, _ => true`:
    a (rule, probe) pair outside the table is `none` -/
def ruleHolds? (r : TRule) (p : Probe) : Option Bool :=
  match r, p with
  | .required, _ => some true
  | .min n, .num t => some (decide (2 * n ≤ t))
  | .max n, .num t => some (decide (t ≤ 2 * n))
  | .gt n, .num t => some (decide (2 * n < t))
  | .gte n, .num t => some (decide (2 * n ≤ t))
  | .lt n, .num t => some (decide (t < 2 * n))
  | .lte n, .num t => some (decide (t ≤ 2 * n))
  | .min n, .str _ l => some (decide (n ≤ (l : Int)))
  | .max n, .str _ l => some (decide ((l : Int) ≤ n))
  | .length n, .str _ l => some (decide (l = n))
  | .min n, .elems k => some (decide (n ≤ (k : Int)))
  | .max n, .elems k => some (decide ((k : Int) ≤ n))
  | .length n, .elems k => some (decide (k = n))
  | .email, .str k _ => some (decide (k = .email))
  | .url, .str k _ => some (decide (k = .url))
  | .uuid, .str k _ => some (decide (k = .uuid))
  | .regex, .str k _ => some (decide (k = .plain))
  | .positive, .num t => some (decide (0 < t))
  | .negative, .num t => some (decide (t < 0))
  | .nonnegative, .num t => some (decide (0 ≤ t))
  | .nonpositive, .num t => some (decide (t ≤ 0))
  | _, _ => none

def allHold : List (Option Bool) → Option Bool
  | [] => some true
  | none :: _ => none
  | some b :: rest => (allHold rest).map (b && ·)

def mapAll {α β} (f : α → Option β) : List α → Option (List β)
  | [] => some []
  | x :: xs => match f x, mapAll f xs with | some y, some ys => some (y :: ys) | _, _ => none

/-- the nested struct type of the matrix whose own field is tagged (`InnerT`): an invalid inner value is rejected -/
def innerTagged : CExpr → Bool
  | .fromStruct t => t = asc "InnerT"
  | _ => false

/-- **verdict of an emitted schema expression on a probe**; `none` = not judged -/
def denoteChain (c : Chain) (p : Probe) : Option Bool :=
  match mapAll callSem c.calls, ctorSem c.ctor with
  | some sems, some base =>
    match p with
    | .nil =>
      -- a default turns nil into a value that is validated by the rest of the chain: not read here
      if sems.contains .dflt then none else some (sems.contains .optional || sems.contains .nilable)
    | .inner ok => if sems.all (fun s => match s with | .rule _ => false | _ => true) then some (ok || !innerTagged c.ctor) else none
    | _ => allHold ((base ++ sems.filterMap fun s => match s with | .rule r => some r | _ => none).map (ruleHolds? · p))
  | _, _ => none

/-! ### the regenerated table -/

/-- one struct of the matrix as found on disk: status of the generated file (go/parser, `go build`) and the text of its
    field's schema expression (code points; `[]` when the file does not parse) -/
structure GenCell where
  rules : List TRule
  status : Status
  expr : Str
  deriving Repr

structure GenBlock where
  fty : FTy
  cells : List GenCell
  deriving Repr

end Gozod.GenSem
