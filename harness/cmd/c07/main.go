package main

// C07 — ToJSONSchema describes exactly what Parse accepts.
//
// Op lines (model side: lean/Gozod/Drv/C07.lean):
//
//	c07 doc <S>        impl: "<wf> <canonical JSON of the real ToJSONSchema output>"
//	                   wf = 1 iff the independent validator library compiles the document and every
//	                   $ref in it resolves inside the document
//	c07 inst <S> <J>   impl: "<P> <VR> <VI>"
//	                   P  = real Parse verdict on the schema-directed embedding of J (1/0; a panic counts as 0)
//	                   VR = independent validator (kaptinlin/jsonschema, compiled from the REAL emitted
//	                        document) on the value Parse RETURNED (1/0, "-" when P≠1)
//	                   VI = independent validator on the input instance J (1/0)
//
//	c07 hdoc <K> <OPTS> <S>      the K-th conversion of ONE LIVE schema instance (K ≥ 2, or K = 1 with a
//	c07 hinst <K> <OPTS> <S> <J> non-default option set), made after conversions of other schemas, of the
//	                   instance's children / parents / siblings, and with other option sets in between.
//	                   OPTS = io=…,unrep=…,reused=…,cycles=…,target=…,meta=…,dup=0|1 (dup: one live instance
//	                   occurs twice inside S).  Observations as for doc / inst; P is the verdict of the LIVE
//	                   instance that has just been converted.  The document is compared after inlining
//	                   `{"$ref":"#/$defs/X"}` nodes (IDs from the metadata registry, reused:"ref"); wf, VR and VI
//	                   are computed on the document as emitted.
//
// The property on the implementation alone: P=1 ⇒ VR=1 (sound), VI=1 ⇒ P=1 (complete), wf=1; and the
// document is a function of (schema, options): every conversion of one instance under one option set
// yields the document of the first such conversion (checked in vlib/c07.py).

import (
	"bytes"
	"context"
	"encoding/json"
	"fmt"
	"math/big"
	"os"
	"os/exec"
	"runtime/debug"
	"sort"
	"strings"
	"time"

	"github.com/kaptinlin/gozod"
	"github.com/kaptinlin/gozod/core"
	gzjs "github.com/kaptinlin/gozod/jsonschema"
	"github.com/kaptinlin/gozod/types"
	lib "github.com/kaptinlin/jsonschema"

	"verifharness/hx"
)

func main() {
	// translator mode: C07_GEN=<path of Gen/ToJsonCases.lean>  (the library tree is $VERIF_REPO, default /repo)
	if target := os.Getenv("C07_GEN"); target != "" {
		repo := os.Getenv("VERIF_REPO")
		if repo == "" {
			repo = "/repo"
		}
		if err := genCases(repo, target); err != nil {
			fmt.Fprintln(os.Stderr, "translator error:", err)
			os.Exit(4)
		}
		return
	}
	// child mode: convert ONE self-referential schema and serialise the document; a conversion that builds an unbounded
	// schema tree or a pointer-cyclic document dies with a fatal (unrecoverable) stack overflow, so this runs in a
	// process of its own with a small stack limit (see cycleProbe)
	if name := os.Getenv("C07_CYC"); name != "" {
		cycleChild(name)
		return
	}
	if err := runC07(hx.ParseFlags()); err != nil {
		fmt.Fprintln(os.Stderr, "harness error:", err)
		os.Exit(3)
	}
}

// canonical JSON: sorted keys, no spaces, numbers as integers or exact fractions "n/d".
func canon(v any, b *strings.Builder) {
	switch x := v.(type) {
	case nil:
		b.WriteString("null")
	case bool:
		if x {
			b.WriteString("true")
		} else {
			b.WriteString("false")
		}
	case json.Number:
		r, ok := new(big.Rat).SetString(string(x))
		if !ok {
			b.WriteString("NaN:" + string(x))
		} else if r.IsInt() {
			b.WriteString(r.Num().String())
		} else {
			b.WriteString(r.Num().String() + "/" + r.Denom().String())
		}
	case string:
		b.WriteString(jq(x))
	case []any:
		b.WriteByte('[')
		for i, e := range x {
			if i > 0 {
				b.WriteByte(',')
			}
			canon(e, b)
		}
		b.WriteByte(']')
	case map[string]any:
		keys := make([]string, 0, len(x))
		for k := range x {
			keys = append(keys, k)
		}
		sort.Strings(keys)
		b.WriteByte('{')
		for i, k := range keys {
			if i > 0 {
				b.WriteByte(',')
			}
			b.WriteString(jq(k))
			b.WriteByte(':')
			canon(x[k], b)
		}
		b.WriteByte('}')
	default:
		fmt.Fprintf(b, "?%T", v)
	}
}

// jq: JSON string literal without HTML escaping.
func jq(s string) string {
	var buf bytes.Buffer
	e := json.NewEncoder(&buf)
	e.SetEscapeHTML(false)
	_ = e.Encode(s)
	return strings.TrimRight(buf.String(), "\n")
}

func canonBytes(doc []byte) (string, any, error) {
	d := json.NewDecoder(bytes.NewReader(doc))
	d.UseNumber()
	var v any
	if err := d.Decode(&v); err != nil {
		return "", nil, err
	}
	var b strings.Builder
	canon(v, &b)
	return b.String(), v, nil
}

// refsResolve: every "$ref" is "#" or "#/$defs/<name>" with <name> present in the root's $defs.
func refsResolve(root any) bool {
	defs := map[string]any{}
	if m, ok := root.(map[string]any); ok {
		if d, ok := m["$defs"].(map[string]any); ok {
			defs = d
		}
	}
	ok := true
	var walk func(v any)
	walk = func(v any) {
		switch x := v.(type) {
		case []any:
			for _, e := range x {
				walk(e)
			}
		case map[string]any:
			if r, has := x["$ref"]; has {
				rs, isStr := r.(string)
				switch {
				case !isStr:
					ok = false
				case rs == "#":
				case strings.HasPrefix(rs, "#/$defs/"):
					if _, has := defs[strings.TrimPrefix(rs, "#/$defs/")]; !has {
						ok = false
					}
				default:
					ok = false
				}
			}
			for k, e := range x {
				if k == "const" || k == "enum" || k == "default" || k == "examples" {
					continue
				}
				walk(e)
			}
		}
	}
	walk(root)
	return ok
}

type compiled struct {
	tree  any    // the raw document, decoded
	doc   string // canonical, $ref nodes inlined
	raw   []byte
	wf    bool
	v     *lib.Schema
	err   string
	panic string
}

// inlineRefs: replace every node that is exactly {"$ref":"#/$defs/X"} by (the inlined) definition X and
// drop the root's $defs.  Semantics-preserving for non-recursive references; anything else is left alone.
func inlineRefs(root any) any {
	m, ok := root.(map[string]any)
	if !ok {
		return root
	}
	defs, _ := m["$defs"].(map[string]any)
	if defs == nil {
		return root
	}
	// a definition that reaches itself through $ref is recursive: it stays a definition (inlining would not end)
	refsOf := func(v any) []string {
		var out []string
		var w func(v any)
		w = func(v any) {
			switch x := v.(type) {
			case []any:
				for _, e := range x {
					w(e)
				}
			case map[string]any:
				if r, has := x["$ref"].(string); has && strings.HasPrefix(r, "#/$defs/") {
					out = append(out, strings.TrimPrefix(r, "#/$defs/"))
				}
				for k, e := range x {
					if k != "const" && k != "enum" && k != "default" && k != "examples" {
						w(e)
					}
				}
			}
		}
		w(v)
		return out
	}
	recursive := map[string]bool{}
	for name := range defs {
		seen := map[string]bool{}
		stack := refsOf(defs[name])
		for len(stack) > 0 {
			n := stack[len(stack)-1]
			stack = stack[:len(stack)-1]
			if n == name {
				recursive[name] = true
				break
			}
			if seen[n] {
				continue
			}
			seen[n] = true
			if d, ok := defs[n]; ok {
				stack = append(stack, refsOf(d)...)
			}
		}
	}
	var walk func(v any, fuel int) any
	walk = func(v any, fuel int) any {
		switch x := v.(type) {
		case []any:
			out := make([]any, len(x))
			for i, e := range x {
				out[i] = walk(e, fuel)
			}
			return out
		case map[string]any:
			if r, has := x["$ref"].(string); has && len(x) == 1 && strings.HasPrefix(r, "#/$defs/") && fuel > 0 && !recursive[strings.TrimPrefix(r, "#/$defs/")] {
				if d, ok := defs[strings.TrimPrefix(r, "#/$defs/")]; ok {
					return walk(d, fuel-1)
				}
			}
			out := make(map[string]any, len(x))
			for k, e := range x {
				if k == "const" || k == "enum" || k == "default" || k == "examples" {
					out[k] = e
					continue
				}
				out[k] = walk(e, fuel)
			}
			return out
		}
		return v
	}
	top := make(map[string]any, len(m))
	for k, e := range m {
		if k != "$defs" {
			top[k] = e
		}
	}
	res := walk(top, 40)
	if len(recursive) > 0 {
		if rm, ok := res.(map[string]any); ok {
			kept := map[string]any{}
			for name := range recursive {
				kept[name] = walk(defs[name], 40)
			}
			rm["$defs"] = kept
		}
	}
	return res
}

// Opt: one option set of ToJSONSchema.
type Opt struct{ IO, Unrep, Reused, Cycles, Target, Meta string }

var defaultOpt = Opt{"-", "-", "-", "-", "-", "global"}

func (o Opt) token(dup bool) string {
	return "io=" + o.IO + ",unrep=" + o.Unrep + ",reused=" + o.Reused + ",cycles=" + o.Cycles + ",target=" + o.Target + ",meta=" + o.Meta + ",dup=" + b01(dup)
}

func dash(s string) string {
	if s == "-" {
		return ""
	}
	return s
}

func (o Opt) real() []gzjs.Options {
	if o == defaultOpt {
		return nil // the zero-argument call
	}
	ro := gzjs.Options{IO: dash(o.IO), Unrepresentable: dash(o.Unrep), Reused: dash(o.Reused), Cycles: dash(o.Cycles), Target: dash(o.Target)}
	if o.Meta == "private" {
		ro.Metadata = core.NewRegistry[core.GlobalMeta]() // an empty private registry: no schema is named
	}
	return []gzjs.Options{ro}
}

func (g *gen) randomOpt() Opt {
	o := defaultOpt
	if g.r.Chance(35) {
		o.IO = hx.Pick(g.r, []string{"input", "output"})
	}
	if g.r.Chance(30) {
		o.Unrep = hx.Pick(g.r, []string{"any", "throw"})
	}
	if g.r.Chance(40) {
		o.Reused = hx.Pick(g.r, []string{"ref", "ref", "inline"})
	}
	if g.r.Chance(20) {
		o.Cycles = hx.Pick(g.r, []string{"throw", "ref"})
	}
	if g.r.Chance(25) {
		o.Target = hx.Pick(g.r, []string{"draft-07", "draft-2020-12"})
	}
	if g.r.Chance(30) {
		o.Meta = "private"
	}
	return o
}

func convertReal(real core.ZodSchema, o Opt) (c compiled) {
	c.panic = hx.Safely(func() {
		js, err := gozod.ToJSONSchema(real, o.real()...)
		if err != nil {
			c.err = "error"
			return
		}
		raw, err := json.Marshal(js)
		if err != nil {
			c.err = "marshal-error"
			return
		}
		c.raw = raw
		_, tree, err := canonBytes(raw)
		if err != nil {
			c.err = "decode-error"
			return
		}
		c.tree = tree
		var b strings.Builder
		canon(inlineRefs(tree), &b)
		c.doc = b.String()
		v, err := lib.NewCompiler().Compile(raw)
		c.wf = err == nil && refsResolve(tree)
		if err == nil {
			c.v = v
		}
	})
	return c
}

func b01(b bool) string { return hx.B01(b) }

// cycNode: a self-referential struct type for FromStruct (the field schema of Next is a Lazy built by
// types.createLazySchemaForType).
type cycNode struct {
	Val  int      `gozod:"required,min=1"`
	Next *cycNode `gozod:"optional"`
}

var cycNames = []string{"selfdirect", "selfopt", "fromstruct"}

func cycSchema(name string) core.ZodSchema {
	switch name {
	case "selfdirect": // the Lazy resolves to an object that holds the Lazy itself
		var l *types.ZodLazy[any]
		l = types.LazyAny(func() any { return gozod.Object(core.ObjectSchema{"v": gozod.Int(), "next": l}) })
		return l
	case "selfopt": // … that holds an Optional() copy of the Lazy
		var l *types.ZodLazy[any]
		l = types.LazyAny(func() any { return gozod.Object(core.ObjectSchema{"v": gozod.Int(), "next": l.Optional()}) })
		return l
	case "fromstruct":
		return types.FromStruct[cycNode]()
	}
	panic("cycSchema " + name)
}

func cycleChild(name string) {
	debug.SetMaxStack(64 << 20)
	js, err := gozod.ToJSONSchema(cycSchema(name))
	if err != nil {
		fmt.Println("error")
		return
	}
	raw, err := json.Marshal(js)
	if err != nil {
		fmt.Println("marshal-error")
		return
	}
	_, tree, err := canonBytes(raw)
	if err != nil {
		fmt.Println("decode-error")
		return
	}
	_, cerr := lib.NewCompiler().Compile(raw)
	fmt.Println(b01(cerr == nil && refsResolve(tree)) + " finite-document")
}

// cycleProbe: "1 finite-document" when ToJSONSchema returns a document that serialises, compiles and whose references
// resolve; "crash:<name>" when the child process dies (fatal stack overflow) or does not finish.
func cycleProbe(name string) string {
	ctx, cancel := context.WithTimeout(context.Background(), 90*time.Second)
	defer cancel()
	cmd := exec.CommandContext(ctx, os.Args[0])
	cmd.Env = append(os.Environ(), "C07_CYC="+name)
	outb, err := cmd.Output()
	if err != nil {
		return "crash:" + name
	}
	return strings.TrimSpace(string(outb))
}

// jsonable: the value Parse returned, with map[any]any (ZodMap's result type) turned into map[string]any.
func jsonable(v any) any {
	switch x := v.(type) {
	case map[any]any:
		out := make(map[string]any, len(x))
		for k, e := range x {
			out[fmt.Sprint(k)] = jsonable(e)
		}
		return out
	case map[string]any:
		out := make(map[string]any, len(x))
		for k, e := range x {
			out[k] = jsonable(e)
		}
		return out
	case []any:
		out := make([]any, len(x))
		for i, e := range x {
			out[i] = jsonable(e)
		}
		return out
	}
	return v
}

var panics int

// runInst: parse with `real` (a fresh build for the first conversion, the live converted instance for
// later ones), validate the returned value and the input against the compiled document.
func runInst(s *Sch, real core.ZodSchema, c *compiled, j *J) string {
	var p, vr, vi string
	var ret any
	var perr error
	pm := hx.Safely(func() {
		ret, perr = real.ParseAny(embed(s, j))
	})
	switch {
	case pm != "":
		// C07's projection: a panic is "not accepted" (the crash itself is C04's business); counted.
		p = "0"
		panics++
	case perr != nil:
		p = "0"
	default:
		p = "1"
	}
	vr = "-"
	if p == "1" {
		rb, err := json.Marshal(jsonable(ret))
		if err != nil {
			vr = "unmarshalable"
		} else {
			vm := hx.Safely(func() { vr = b01(c.v.ValidateJSON(rb).IsValid()) })
			if vm != "" {
				vr = "vpanic"
			}
		}
	}
	vm := hx.Safely(func() { vi = b01(c.v.ValidateJSON([]byte(j.JSON())).IsValid()) })
	if vm != "" {
		vi = "vpanic"
	}
	return p + " " + vr + " " + vi
}

// live: one schema instance and its conversion history.
type live struct {
	s      *Sch
	text   string
	real   core.ZodSchema
	dup    bool
	insts  []*J
	convs  []string        // option tokens of the conversions made so far, in order
	judged map[string]bool // emitted documents whose whole instance set has been judged
	kids   []*live         // earlier top-level schemas embedded in this one (same live instances)
	plain  bool            // converted with default options only (recursive family: the $defs names depend on the options)
}

// hasDup: one AST node (= one live instance) occurs twice inside s.
func hasDup(s *Sch) bool {
	seen := map[*Sch]bool{}
	dup := false
	var walk func(s *Sch)
	walk = func(s *Sch) {
		if s == nil || dup {
			return
		}
		if seen[s] {
			dup = true
			return
		}
		seen[s] = true
		// Optional() / Nilable() / Meta() return a modified COPY of the schema (not a wrapper object holding it): the
		// converter visits the copy, never the node below — so the node below is no visit of ITS live instance, and two
		// different wrappers around one node are two instances.  What the copy shares with the original are the children.
		for s.K == "opt" || s.K == "nul" || s.K == "id" {
			s = s.Elem
		}
		walk(s.Elem)
		walk(s.Key)
		walk(s.Catch)
		walk(s.Rest)
		for _, f := range s.Fields {
			walk(f.S)
		}
		for _, it := range s.Items {
			walk(it)
		}
	}
	walk(s)
	return dup
}

type runner struct {
	out     *hx.Out
	g       *gen
	bld     *builder
	clock   int
	rawDocs *os.File
}

// convert: one ToJSONSchema call on the live instance, judged like every other.
func (r *runner) convert(lv *live, o Opt) {
	if lv.plain {
		o = defaultOpt
	}
	r.clock++
	k := len(lv.convs) + 1
	first := k == 1 && o == defaultOpt
	tok := o.token(lv.dup)
	var docOp, instOp, note string
	if first {
		docOp, instOp = "c07 doc "+lv.text, "c07 inst "+lv.text+" "
	} else {
		docOp, instOp = fmt.Sprintf("c07 hdoc %d %s %s", k, tok, lv.text), fmt.Sprintf("c07 hinst %d %s %s ", k, tok, lv.text)
		var prior []string
		for _, p := range lv.convs {
			if p == defaultOpt.token(lv.dup) {
				p = "default"
			}
			prior = append(prior, p)
		}
		if len(prior) > 5 {
			prior = append([]string{"…"}, prior[len(prior)-5:]...)
		}
		note = fmt.Sprintf(" #call %d of the run; earlier conversions of this instance: [%s]", r.clock, strings.Join(prior, " ; "))
		r.out.Count(fmt.Sprintf("history:conversion-%d", min(k, 6)))
		if o != defaultOpt {
			r.out.Count("history:non-default-options")
		}
	}
	lv.convs = append(lv.convs, tok)
	c := convertReal(lv.real, o)
	// the reference bookkeeping of this very call: the model's convertTop on the instance graph must name the same
	// $defs entries and $ref targets (an error must be an error)
	if !lv.plain && !hasRecv(lv.s) {
		if gt := r.graphText(lv.s, o.Meta == "private"); gt != "" {
			obs := "error"
			if c.panic != "" {
				obs = "panic"
			} else if c.err == "" {
				obs = refsObservation(c.tree)
			}
			r.out.Count("refs:" + strings.SplitN(obs, "=", 2)[0])
			if strings.Contains(obs, "refs=") && !strings.HasSuffix(obs, "refs=") {
				r.out.Count("refs:document-with-references")
			}
			r.out.Emit("c07 refs "+tok+" "+gt+note, obs)
		}
	}
	switch {
	case c.panic != "":
		r.out.Emit(docOp+note, "panic")
		return
	case c.err != "":
		r.out.Emit(docOp+note, c.err)
		return
	}
	r.out.Emit(docOp+note, b01(c.wf)+" "+c.doc)
	if r.rawDocs != nil {
		fmt.Fprintf(r.rawDocs, "%s\t%s\n", lv.text, c.raw)
	}
	if c.v == nil {
		return
	}
	insts := lv.insts
	parser := lv.real
	if first {
		// a fresh schema for the first Parse: what a caller who never converted anything observes
		parser = build(lv.s)
	} else if lv.judged[string(c.raw)] {
		// this very document has been judged on the whole instance set: a rotating sample suffices
		n := 6
		if len(insts) < n {
			n = len(insts)
		}
		rot := make([]*J, 0, n)
		for i := 0; i < n; i++ {
			rot = append(rot, insts[(k*5+i)%len(insts)])
		}
		insts = rot
	}
	lv.judged[string(c.raw)] = true
	seenI := map[string]bool{}
	for _, j := range insts {
		jt := j.String()
		if seenI[jt] {
			continue
		}
		seenI[jt] = true
		obs := runInst(lv.s, parser, &c, j)
		r.out.Count("verdict:" + obs)
		r.out.Emit(instOp+jt+note, obs)
	}
}

func runC07(cfg hx.Config) error {
	out, err := hx.NewOut(cfg.OutDir)
	if err != nil {
		return err
	}
	rng := hx.NewRng(cfg.Seed)
	g := &gen{r: rng, thorough: cfg.Thorough()}
	nSchemas := 700
	if cfg.Thorough() {
		nSchemas = 9000
	}
	r := &runner{out: out, g: g, bld: newBuilder()}
	// thorough tier: the raw emitted documents, one per line, for the Python metaschema check
	if p := os.Getenv("C07_RAWDOCS"); p != "" {
		r.rawDocs, _ = os.Create(p)
		defer r.rawDocs.Close()
	}
	// self-referential schemas whose conversion must end in a finite document (judged on the implementation alone)
	for _, name := range cycNames {
		out.Count("schema:cyc")
		out.Emit("c07 doc ( cyc "+name+" )", cycleProbe(name))
	}
	// the schema types without a model: judged on the implementation alone by the independent validator
	runUnmodelled(out)
	corpus := corpusSchemas()
	seen := map[string]bool{}
	liveOf := map[*Sch]*live{}
	var lives []*live
	for i := 0; i < len(corpus)+nSchemas; i++ {
		var s *Sch
		g.used = nil
		if i < len(corpus) {
			s = corpus[i]
		} else {
			s = g.schema(3, true)
			// a Partial(keys…) / Required(keys…) call history on an object at the top of the schema (the model has per-field
			// state at the top only; nested objects get the plain Partial() flag)
			if s.K == "obj" && len(s.Fields) > 0 && rng.Chance(45) {
				s.Part = false
				s.Ops = g.objOps(s)
			}
			// a recursive schema (3 %): leaf = a string / bool / enum schema
			if rng.Chance(3) {
				leaf := g.strSchema()
				switch rng.Intn(4) {
				case 0:
					leaf = &Sch{K: "bool"}
				case 1:
					leaf = &Sch{K: "enum", Strs: []string{"a", "b"}}
				}
				s = &Sch{K: "recv", Kind: hx.Pick(rng, []string{"root", "field", "field", "slice"}), Elem: leaf}
			}
			// Map at the top of the schema (5 %): string key schema with or without checks, any value schema, size checks
			if rng.Chance(5) {
				s = &Sch{K: "map", Key: g.strSchema(), Elem: g.schema(2, false)}
				if rng.Chance(35) {
					s.Key = &Sch{K: "str"}
				}
				if rng.Chance(25) {
					s.Cks = g.sizeCks()
				}
			}
			// Lazy on top of the schema (the model has Lazy at the top only): once or twice, with the lazy schema's own
			// Optional()/Nilable() flags
			if rng.Chance(12) && s.K != "recv" {
				s = lazy(hx.Pick(rng, []string{"--", "--", "--", "-n", "o-", "on"}), s)
				if rng.Chance(25) {
					s = lazy(hx.Pick(rng, []string{"--", "--", "-n", "o-"}), s)
				}
			}
		}
		text := s.String()
		if seen[text] {
			continue
		}
		seen[text] = true
		if s.K != "lazy" && s.K != "map" && s.K != "recv" && len(s.Ops) == 0 {
			g.pool = append(g.pool, s) // a lazy schema / an object with a call history is never embedded in a later schema
		}
		lv := &live{s: s, text: text, dup: hasDup(s), judged: map[string]bool{}, plain: s.K == "recv"}
		for _, u := range g.used {
			if k := liveOf[u]; k != nil {
				lv.kids = append(lv.kids, k)
			}
		}
		if pm := hx.Safely(func() { lv.real = r.bld.get(s) }); pm != "" {
			out.Emit("c07 doc "+text, "panic")
			continue
		}
		lv.insts = g.instances(s)
		liveOf[s] = lv
		lives = append(lives, lv)
		out.Count("schema:" + s.K)
		g.countFeatures(out, s)
		if lv.dup {
			out.Count("history:instance-shared-inside-schema")
		}
		if len(lv.kids) > 0 {
			out.Count("history:embeds-earlier-top-level-instance")
		}
		// conversion 1, right after construction, default options
		r.convert(lv, defaultOpt)
		// the same instance again at once
		if rng.Chance(30) {
			r.convert(lv, defaultOpt)
		}
		// a child that was converted on its own before, again after its parent
		for _, kid := range lv.kids {
			if rng.Chance(60) {
				r.convert(kid, defaultOpt)
			}
		}
		// earlier schemas again, after everything converted in between, under some option set
		for n := 0; n < 2 && len(lives) > 1; n++ {
			var old *live
			if rng.Bool() {
				old = lives[len(lives)-1-rng.Intn(min(8, len(lives)))]
			} else {
				old = lives[rng.Intn(len(lives))]
			}
			if rng.Chance(45) {
				r.convert(old, defaultOpt)
			} else {
				r.convert(old, g.randomOpt())
			}
		}
	}
	// closing sweep: every instance is converted at least three times, the last time with default options
	for _, lv := range lives {
		if rng.Chance(50) {
			r.convert(lv, g.randomOpt())
		}
		if lv.dup || len(lv.kids) > 0 {
			// instances met twice (inside this schema, or here and in an earlier run of their own) are what
			// reused:"ref" turns into $defs / $ref
			o := defaultOpt
			o.Reused = "ref"
			r.convert(lv, o)
		}
		for len(lv.convs) < 3 {
			r.convert(lv, defaultOpt)
		}
	}
	return out.Close(map[string]any{"schemas": len(seen), "parse_panics": panics, "conversions": r.clock})
}
