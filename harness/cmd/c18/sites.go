package main

// C18 — static catalogue of issue sites (go/ast, source only).
//
//	harness-c18 -out <dir> gen-sites <repo>
//
// lists EVERY call in the library (non-test files) that creates an issue or reaches FinalizeIssue:
//
//	finalize   issues.FinalizeIssue(raw, ctx, config)
//	helper     a function of internal/issues that itself calls FinalizeIssue (Create*Error, CreateArrayValidationIssues,
//	           ConvertRawIssuesToIssues, MapPropertiesToIssue): its summary (which parameter becomes FinalizeIssue's ctx /
//	           config, whether it builds the raw issue itself, whether it takes the schema instance / a message) is
//	           derived from ITS source, and every call of it is classified through that summary
//	nested     a nested schema's Parse / ParseAny / StrictParse (also through reflection): is the caller's context an argument?
//	ctxcopy    a ParseContext built field by field (a copy of the caller's): is the Error map among the fields?
//	raw        a raw issue is created and flows to a finaliser elsewhere (issues.Create*Issue, NewRawIssue*, CreateIssue,
//	           payload.AddIssue*, a core.ZodRawIssue{…} literal)
//
// and records for each which of the message sources the call hands on:
//
//	ctx   caller (an expression derived from a parameter of the enclosing function) | nil | fresh (core.NewParseContext(),
//	      &core.ParseContext{}) | unknown
//	cfg   fallback (nil: FinalizeIssue falls back to core.Config()) | global (core.Config()) | param | unknown
//	inst  set (raw.Inst assigned / helper takes the instance) | unset (raw built here, no instance) | flow (raw comes from elsewhere)
//	msg   empty | preset (a non-empty message is written before the chain runs) | flow
//
// Output <dir>/sites.json.  Nothing is type-checked: it works on any tree that parses.

import (
	"encoding/json"
	"fmt"
	"go/ast"
	"go/parser"
	"go/token"
	"os"
	"path/filepath"
	"reflect"
	"sort"
	"strings"
	"unicode"
)

type StaticSite struct {
	Key    string `json:"key"` // file:func:callee#k — stable under line shifts
	File   string `json:"file"`
	Func   string `json:"func"`
	Line   int    `json:"line"`
	End    int    `json:"end"`
	Callee string `json:"callee"`
	Class  string `json:"class"`
	Code   string `json:"code"`
	Param  string `json:"param"` // origin / format / expected literal when the call names it, else ""
	Ctx    string `json:"ctx"`
	Cfg    string `json:"cfg"`
	Inst   string `json:"inst"`
	Msg    string `json:"msg"`
	HasCtx bool   `json:"has_ctx"` // the enclosing function has a *ParseContext at hand (a parameter or a local derived from one)
	Dead   string `json:"dead"`    // non-empty: the enclosing function cannot be reached from the public API (reason); see deadFuncs
}

// summary of a function of package issues that reaches FinalizeIssue
type helperSum struct {
	ctxParam, cfgParam  int    // index of the parameter that becomes FinalizeIssue's ctx / config, or -1
	ctxConst, cfgConst  string // classification when not a parameter
	buildsRaw           bool   // the raw issue is built inside the helper
	instParam, msgParam int
	code                string
	paramArg            int // index of the parameter that is the origin / format / expected type
	variadicCtx         bool
}

func snake(s string) string {
	var b strings.Builder
	for i, r := range s {
		if unicode.IsUpper(r) {
			if i > 0 {
				b.WriteByte('_')
			}
			b.WriteRune(unicode.ToLower(r))
		} else {
			b.WriteRune(r)
		}
	}
	return b.String()
}

// issue code named by a creator function
var creatorCode = map[string]string{
	"CreateInvalidTypeIssue": "invalid_type", "CreateInvalidTypeWithMsg": "invalid_type", "CreateMissingKeyIssue": "invalid_type",
	"CreateNonOptionalIssue": "invalid_type", "CreateInvalidValueIssue": "invalid_value", "CreateTooBigIssue": "too_big",
	"CreateTooSmallIssue": "too_small", "CreateFixedLengthArrayIssue": "too_big|too_small", "CreateInvalidFormatIssue": "invalid_format",
	"CreateNotMultipleOfIssue": "not_multiple_of", "CreateUnrecognizedKeysIssue": "unrecognized_keys", "CreateInvalidKeyIssue": "invalid_key",
	"CreateInvalidUnionIssue": "invalid_union", "CreateInvalidUnionIssueWithResults": "invalid_union", "CreateInvalidElementIssue": "invalid_element",
	"CreateElementValidationIssue": "invalid_element", "CreateCustomIssue": "custom", "CreateMissingRequiredIssue": "missing_required",
	"CreateTypeConversionIssue": "type_conversion", "CreateInvalidSchemaIssue": "invalid_schema", "CreateIncompatibleTypesIssue": "incompatible_types",
	"NewRawIssueFromMessage": "custom",
}

// index of the argument that names origin / format / expected type
var creatorParam = map[string]int{
	"CreateInvalidTypeIssue": 0, "CreateInvalidTypeWithMsg": 0, "CreateTooBigIssue": 2, "CreateTooSmallIssue": 2,
	"CreateInvalidFormatIssue": 0, "CreateNotMultipleOfIssue": 1, "CreateInvalidKeyIssue": 1, "CreateInvalidElementIssue": 1,
	"CreateElementValidationIssue": 1,
}

// index of the message argument of raw creators that take one
var creatorMsg = map[string]int{"CreateIssue": 1, "CreateCustomIssue": 0, "CreateInvalidTypeWithMsg": 1, "NewRawIssueFromMessage": 0,
	"AddIssueWithMessage": 0, "AddIssueWithCode": 1}

func exprText(e ast.Expr) string {
	switch x := e.(type) {
	case *ast.Ident:
		return x.Name
	case *ast.SelectorExpr:
		return exprText(x.X) + "." + x.Sel.Name
	case *ast.BasicLit:
		return x.Value
	case *ast.CallExpr:
		return exprText(x.Fun) + "()"
	case *ast.StarExpr:
		return "*" + exprText(x.X)
	case *ast.UnaryExpr:
		return x.Op.String() + exprText(x.X)
	case *ast.IndexExpr:
		return exprText(x.X) + "[]"
	case *ast.CompositeLit:
		return exprText(x.Type) + "{}"
	case *ast.ParenExpr:
		return exprText(x.X)
	}
	return "?"
}

func litParam(e ast.Expr) string {
	switch x := e.(type) {
	case *ast.BasicLit:
		if x.Kind == token.STRING {
			return strings.Trim(x.Value, "\"`")
		}
	case *ast.SelectorExpr: // core.ZodTypeString → string
		n := x.Sel.Name
		if strings.HasPrefix(n, "ZodType") {
			return strings.ToLower(strings.TrimPrefix(n, "ZodType"))
		}
		return n
	}
	return ""
}

func codeOf(e ast.Expr) string {
	switch x := e.(type) {
	case *ast.SelectorExpr:
		return snake(x.Sel.Name)
	case *ast.Ident:
		if x.Name != "" && unicode.IsUpper(rune(x.Name[0])) {
			return snake(x.Name)
		}
	}
	return "?"
}

// ---- per-function environment: which identifiers denote the caller's ParseContext

type fnEnv struct {
	params    map[string]int // parameter name → index
	ctxLike   map[string]string
	instSet   map[string]bool   // identifiers X with an assignment X.Inst = …
	rawFrom   map[string]string // identifier → creator callee that built it in this function
	msgSet    map[string]bool   // identifiers X with an assignment X.Message = …
	hasCtx    bool
	variadic  map[string]bool
	parseMeth map[string]bool // locals holding reflect's MethodByName("Parse"/"ParseAny")
	reflCtx   bool            // the body hands reflect.ValueOf(<caller's context>) to a reflective call
	rawCode   map[string]string
}

func isCtxType(t ast.Expr) bool {
	s := exprText(t)
	return strings.HasSuffix(s, "ParseContext")
}

func newEnv(ft *ast.FuncType, body *ast.BlockStmt, outer *fnEnv) *fnEnv {
	env := &fnEnv{params: map[string]int{}, ctxLike: map[string]string{}, instSet: map[string]bool{}, rawFrom: map[string]string{},
		msgSet: map[string]bool{}, variadic: map[string]bool{}, parseMeth: map[string]bool{}, rawCode: map[string]string{}}
	if outer != nil { // closures see the enclosing function's context
		for k, v := range outer.ctxLike {
			env.ctxLike[k] = v
		}
		env.hasCtx = outer.hasCtx
	}
	i := 0
	if ft.Params != nil {
		for _, f := range ft.Params.List {
			t := f.Type
			variadic := false
			if el, ok := t.(*ast.Ellipsis); ok {
				t, variadic = el.Elt, true
			}
			names := f.Names
			if len(names) == 0 {
				i++
				continue
			}
			for _, n := range names {
				env.params[n.Name] = i
				if isCtxType(t) {
					env.ctxLike[n.Name] = "caller"
					env.variadic[n.Name] = variadic
					env.hasCtx = true
				}
				// a RefinementContext / payload carrying the context
				if strings.HasSuffix(exprText(t), "RefinementContext") {
					env.ctxLike[n.Name+".ParseContext"] = "caller"
					env.hasCtx = true
				}
				i++
			}
		}
	}
	if body == nil {
		return env
	}
	// locals: x := f(ctx...) / x := ctx[0] / x = core.NewParseContext() ; X.Inst = … ; X := issues.CreateYIssue(…)
	ast.Inspect(body, func(n ast.Node) bool {
		switch s := n.(type) {
		case *ast.FuncLit:
			return false
		case *ast.CallExpr:
			if calleeName(s, "") == "ValueOf" && len(s.Args) == 1 && env.classCtx(s.Args[0]) == "caller" {
				env.reflCtx = true
			}
		case *ast.AssignStmt:
			for k, lhs := range s.Lhs {
				if sel, ok := lhs.(*ast.SelectorExpr); ok {
					if sel.Sel.Name == "Inst" {
						env.instSet[exprText(sel.X)] = true
					}
					if sel.Sel.Name == "Message" {
						env.msgSet[exprText(sel.X)] = true
					}
					continue
				}
				id, ok := lhs.(*ast.Ident)
				if !ok || k >= len(s.Rhs) && len(s.Rhs) != 1 {
					continue
				}
				rhs := s.Rhs[0]
				if len(s.Rhs) == len(s.Lhs) {
					rhs = s.Rhs[k]
				}
				if c := env.classCtx(rhs); c != "unknown" {
					if _, isParam := env.params[id.Name]; !isParam || c == "caller" {
						if prev, seen := env.ctxLike[id.Name]; !seen || prev == c {
							env.ctxLike[id.Name] = c
						} else if prev != c {
							env.ctxLike[id.Name] = "caller|" + c // assigned on some path only: still derived from the caller's when present
							if prev == "caller" || c == "caller" {
								env.ctxLike[id.Name] = "caller"
							}
						}
						if c == "caller" {
							env.hasCtx = true
						}
					}
				}
				if call, ok := rhs.(*ast.CallExpr); ok {
					name := calleeName(call, "")
					if _, isCreator := creatorCode[name]; isCreator || name == "CreateIssue" || name == "NewRawIssue" {
						env.rawFrom[id.Name] = name
						env.rawCode[id.Name] = creatorCode[name]
						if (name == "CreateIssue" || name == "NewRawIssue") && len(call.Args) > 0 {
							env.rawCode[id.Name] = codeOf(call.Args[0])
						}
					}
					if name == "MethodByName" && len(call.Args) == 1 {
						if m := litParam(call.Args[0]); m == "Parse" || m == "ParseAny" || m == "StrictParse" {
							env.parseMeth[id.Name] = true
						}
					}
				}
			}
		}
		return true
	})
	return env
}

// classCtx classifies an expression in the position of a *ParseContext
func (env *fnEnv) classCtx(e ast.Expr) string {
	switch x := e.(type) {
	case *ast.Ident:
		if x.Name == "nil" {
			return "nil"
		}
		if c, ok := env.ctxLike[x.Name]; ok {
			return c
		}
	case *ast.SelectorExpr:
		if c, ok := env.ctxLike[exprText(x)]; ok {
			return c
		}
		if x.Sel.Name == "ParseContext" { // refCtx.ParseContext
			if id, ok := x.X.(*ast.Ident); ok {
				if _, isParam := env.params[id.Name]; isParam {
					return "caller"
				}
			}
		}
	case *ast.IndexExpr: // ctx[0]
		return env.classCtx(x.X)
	case *ast.ParenExpr:
		return env.classCtx(x.X)
	case *ast.UnaryExpr: // &core.ParseContext{}
		if cl, ok := x.X.(*ast.CompositeLit); ok && isCtxType(cl.Type) {
			return "fresh"
		}
	case *ast.CallExpr:
		name := calleeName(x, "")
		if name == "NewParseContext" {
			return "fresh"
		}
		// f(ctx...) / f(ctx) : a context derived from the caller's (getOrCreateContext, firstContext, Clone, With…)
		for _, a := range x.Args {
			if env.classCtx(a) == "caller" {
				return "caller"
			}
		}
		if sel, ok := x.Fun.(*ast.SelectorExpr); ok && env.classCtx(sel.X) == "caller" {
			return "caller"
		}
	}
	return "unknown"
}

func classCfg(env *fnEnv, e ast.Expr, cfgLocals map[string]string) string {
	switch x := e.(type) {
	case *ast.Ident:
		if x.Name == "nil" {
			return "fallback"
		}
		if c, ok := cfgLocals[x.Name]; ok {
			return c
		}
		if _, ok := env.params[x.Name]; ok {
			return "param"
		}
	case *ast.CallExpr:
		if calleeName(x, "") == "Config" {
			return "global"
		}
	}
	return "unknown"
}

func calleeName(c *ast.CallExpr, pkg string) string {
	switch f := c.Fun.(type) {
	case *ast.Ident:
		return f.Name
	case *ast.SelectorExpr:
		return f.Sel.Name
	case *ast.IndexExpr: // generic instantiation
		if s, ok := f.X.(*ast.SelectorExpr); ok {
			return s.Sel.Name
		}
		if s, ok := f.X.(*ast.Ident); ok {
			return s.Name
		}
	}
	return ""
}

func calleeQual(c *ast.CallExpr) string {
	if s, ok := c.Fun.(*ast.SelectorExpr); ok {
		if id, ok := s.X.(*ast.Ident); ok {
			return id.Name
		}
		return exprText(s.X)
	}
	return ""
}

func recvOf(fd *ast.FuncDecl) string {
	if fd.Recv == nil || len(fd.Recv.List) == 0 {
		return ""
	}
	t := fd.Recv.List[0].Type
	for {
		switch x := t.(type) {
		case *ast.StarExpr:
			t = x.X
		case *ast.IndexExpr:
			t = x.X
		case *ast.IndexListExpr:
			t = x.X
		case *ast.ParenExpr:
			t = x.X
		case *ast.Ident:
			return x.Name + "."
		default:
			return ""
		}
	}
}

func cfgLocalsOf(body *ast.BlockStmt) map[string]string {
	m := map[string]string{}
	if body == nil {
		return m
	}
	ast.Inspect(body, func(n ast.Node) bool {
		if s, ok := n.(*ast.AssignStmt); ok && len(s.Lhs) == 1 && len(s.Rhs) == 1 {
			if id, ok := s.Lhs[0].(*ast.Ident); ok {
				if c, ok := s.Rhs[0].(*ast.CallExpr); ok && calleeName(c, "") == "Config" {
					m[id.Name] = "global"
				}
			}
		}
		return true
	})
	return m
}

func genSites(repo, outDir string) error {
	fset := token.NewFileSet()
	type fileT struct {
		rel string
		f   *ast.File
	}
	var files []fileT
	for _, top := range []string{".", "core", "internal", "types", "coerce", "jsonschema", "pkg", "cmd", "locales"} {
		root := filepath.Join(repo, top)
		if _, err := os.Stat(root); err != nil {
			continue
		}
		err := filepath.Walk(root, func(p string, info os.FileInfo, err error) error {
			if err != nil {
				return err
			}
			if info.IsDir() {
				if top == "." && p != root {
					return filepath.SkipDir
				}
				n := info.Name()
				if p != root && (strings.HasPrefix(n, ".") || strings.HasPrefix(n, "_") || n == "testdata" || n == "examples") {
					return filepath.SkipDir
				}
				return nil
			}
			if !strings.HasSuffix(p, ".go") || strings.HasSuffix(p, "_test.go") {
				return nil
			}
			f, err := parser.ParseFile(fset, p, nil, parser.SkipObjectResolution)
			if err != nil {
				return fmt.Errorf("%s does not parse: %v", p, err)
			}
			rel, _ := filepath.Rel(repo, p)
			files = append(files, fileT{rel, f})
			return nil
		})
		if err != nil {
			return err
		}
	}
	sort.Slice(files, func(i, j int) bool { return files[i].rel < files[j].rel })

	// ---- 1. summaries of the functions of internal/issues that reach FinalizeIssue
	helpers := map[string]*helperSum{}
	for _, ft := range files {
		if filepath.Dir(ft.rel) != "internal/issues" {
			continue
		}
		for _, d := range ft.f.Decls {
			fd, ok := d.(*ast.FuncDecl)
			if !ok || fd.Body == nil || fd.Recv != nil || fd.Name.Name == "FinalizeIssue" {
				continue
			}
			env := newEnv(fd.Type, fd.Body, nil)
			cfgL := cfgLocalsOf(fd.Body)
			var sum *helperSum
			ast.Inspect(fd.Body, func(n ast.Node) bool {
				c, ok := n.(*ast.CallExpr)
				if !ok || calleeName(c, "") != "FinalizeIssue" || len(c.Args) != 3 {
					return true
				}
				s := &helperSum{ctxParam: -1, cfgParam: -1, instParam: -1, msgParam: -1, paramArg: -1}
				if id, ok := c.Args[1].(*ast.Ident); ok {
					if i, isP := env.params[id.Name]; isP && env.ctxLike[id.Name] == "caller" {
						s.ctxParam = i
						s.variadicCtx = env.variadic[id.Name]
					}
				}
				if s.ctxParam < 0 {
					s.ctxConst = env.classCtx(c.Args[1])
					if s.ctxConst == "caller" { // derived from a (variadic) parameter: find it
						for name, cl := range env.ctxLike {
							if i, isP := env.params[name]; isP && cl == "caller" {
								s.ctxParam, s.variadicCtx = i, env.variadic[name]
							}
						}
					}
				}
				if id, ok := c.Args[2].(*ast.Ident); ok {
					if i, isP := env.params[id.Name]; isP {
						s.cfgParam = i
					}
				}
				if s.cfgParam < 0 {
					s.cfgConst = classCfg(env, c.Args[2], cfgL)
				}
				if id, ok := c.Args[0].(*ast.Ident); ok {
					if _, built := env.rawFrom[id.Name]; built {
						s.buildsRaw = true
						s.code = env.rawCode[id.Name]
					}
				}
				sum = s
				return true
			})
			if sum == nil {
				continue
			}
			for name, i := range env.params {
				switch name {
				case "inst":
					sum.instParam = i
				case "message":
					sum.msgParam = i
				case "origin", "format", "expectedType", "expected":
					sum.paramArg = i
				case "code":
					if sum.code == "" {
						sum.code = "@" + fmt.Sprint(i)
					}
				}
			}
			helpers[fd.Name.Name] = sum
		}
	}
	// a function of internal/issues that only DELEGATES to a helper (CreateInvalidUnionError -> CreateInvalidUnionErrorWithInst
	// since 455c79d) is a helper itself: its summary is the callee's, with the parameter positions mapped through the call
	for changed := true; changed; {
		changed = false
		for _, ft := range files {
			if filepath.Dir(ft.rel) != "internal/issues" {
				continue
			}
			for _, d := range ft.f.Decls {
				fd, ok := d.(*ast.FuncDecl)
				if !ok || fd.Body == nil || fd.Recv != nil || helpers[fd.Name.Name] != nil || fd.Name.Name == "FinalizeIssue" {
					continue
				}
				env := newEnv(fd.Type, fd.Body, nil)
				ast.Inspect(fd.Body, func(n ast.Node) bool {
					c, ok := n.(*ast.CallExpr)
					if !ok || helpers[fd.Name.Name] != nil {
						return true
					}
					h := helpers[calleeName(c, "")]
					if h == nil || calleeQual(c) != "" {
						return true
					}
					s := *h
					mapArg := func(i int) int {
						if i < 0 || i >= len(c.Args) {
							return -1
						}
						if id, ok := c.Args[i].(*ast.Ident); ok {
							if j, isP := env.params[id.Name]; isP {
								return j
							}
						}
						return -1
					}
					if h.ctxParam >= 0 {
						s.ctxParam = mapArg(h.ctxParam)
						if s.ctxParam < 0 && h.ctxParam < len(c.Args) {
							s.ctxConst = env.classCtx(c.Args[h.ctxParam])
						}
					}
					if h.cfgParam >= 0 {
						s.cfgParam = mapArg(h.cfgParam)
						if s.cfgParam < 0 {
							s.cfgConst = "fallback"
						}
					}
					if h.instParam >= 0 {
						s.instParam = mapArg(h.instParam) // -1: the delegating call passes nil / a constant: no instance
					}
					if h.msgParam >= 0 {
						s.msgParam = mapArg(h.msgParam)
					}
					if h.paramArg >= 0 {
						s.paramArg = mapArg(h.paramArg)
					}
					helpers[fd.Name.Name] = &s
					changed = true
					return false
				})
			}
		}
	}
	if len(helpers) < 15 {
		return fmt.Errorf("only %d functions of internal/issues reach FinalizeIssue: the translator no longer recognises the helpers", len(helpers))
	}

	// ---- 2. every call site
	var sites []StaticSite
	counter := map[string]int{}
	for _, ft := range files {
		inIssues := filepath.Dir(ft.rel) == "internal/issues"
		var visit func(fnName string, ftype *ast.FuncType, body *ast.BlockStmt, outer *fnEnv)
		visit = func(fnName string, ftype *ast.FuncType, body *ast.BlockStmt, outer *fnEnv) {
			if body == nil {
				return
			}
			env := newEnv(ftype, body, outer)
			cfgL := cfgLocalsOf(body)
			ast.Inspect(body, func(n ast.Node) bool {
				switch x := n.(type) {
				case *ast.FuncLit:
					visit(fnName, x.Type, x.Body, env)
					return false
				case *ast.CompositeLit:
					if x.Type != nil && isCtxType(x.Type) && !strings.HasPrefix(exprText(x.Type), "[]") && len(x.Elts) > 0 {
						// a ParseContext built field by field (a COPY of the caller's): does the error map travel with it?
						s := StaticSite{File: ft.rel, Func: fnName, Line: fset.Position(x.Pos()).Line, End: fset.Position(x.End()).Line,
							Callee: "ParseContext{}", Class: "ctxcopy", Code: "?", Ctx: "nil", Cfg: "-", Inst: "-", Msg: "-", HasCtx: env.hasCtx}
						for _, el := range x.Elts {
							if kv, ok := el.(*ast.KeyValueExpr); ok && exprText(kv.Key) == "Error" {
								s.Ctx = "caller"
							}
						}
						sites = append(sites, s)
					}
					if x.Type != nil && strings.HasSuffix(exprText(x.Type), "ZodRawIssue") && !strings.HasPrefix(exprText(x.Type), "[]") {
						s := StaticSite{File: ft.rel, Func: fnName, Line: fset.Position(x.Pos()).Line, End: fset.Position(x.End()).Line,
							Callee: "ZodRawIssue{}", Class: "raw", Code: "?", Ctx: "-", Cfg: "-", Inst: "unset", Msg: "empty", HasCtx: env.hasCtx}
						for _, el := range x.Elts {
							if kv, ok := el.(*ast.KeyValueExpr); ok {
								switch exprText(kv.Key) {
								case "Code":
									s.Code = codeOf(kv.Value)
								case "Message":
									s.Msg = classMsg(kv.Value)
								case "Inst":
									s.Inst = "set"
								}
							}
						}
						sites = append(sites, s)
					}
					return true
				case *ast.CallExpr:
					name := calleeName(x, "")
					qual := calleeQual(x)
					fromIssues := qual == "issues" || (inIssues && qual == "")
					s := StaticSite{File: ft.rel, Func: fnName, Line: fset.Position(x.Pos()).Line, End: fset.Position(x.End()).Line,
						Callee: name, Code: "?", Ctx: "-", Cfg: "-", Inst: "-", Msg: "-", HasCtx: env.hasCtx}
					switch {
					case name == "FinalizeIssue" && fromIssues && len(x.Args) == 3:
						s.Class = "finalize"
						s.Ctx = env.classCtx(x.Args[1])
						s.Cfg = classCfg(env, x.Args[2], cfgL)
						s.Inst, s.Msg = "flow", "flow"
						if id, ok := x.Args[0].(*ast.Ident); ok {
							if cr, built := env.rawFrom[id.Name]; built {
								s.Code = env.rawCode[id.Name]
								s.Inst, s.Msg = "unset", "empty"
								if _, hasMsg := creatorMsg[cr]; hasMsg {
									s.Msg = "flow"
								}
							}
							if env.instSet[id.Name] {
								s.Inst = "set"
							}
						}
					case fromIssues && helpers[name] != nil:
						h := helpers[name]
						s.Class = "helper"
						arg := func(i int) ast.Expr {
							if i >= 0 && i < len(x.Args) {
								return x.Args[i]
							}
							return nil
						}
						if h.ctxParam >= 0 {
							if a := arg(h.ctxParam); a != nil {
								s.Ctx = env.classCtx(a)
							} else if h.variadicCtx {
								s.Ctx = "nil" // optional context not given
							} else {
								s.Ctx = "unknown"
							}
						} else {
							s.Ctx = h.ctxConst
						}
						if h.cfgParam >= 0 {
							if a := arg(h.cfgParam); a != nil {
								s.Cfg = classCfg(env, a, cfgL)
							}
						} else {
							s.Cfg = h.cfgConst
						}
						s.Inst, s.Msg = "flow", "flow"
						if h.buildsRaw {
							s.Inst, s.Msg = "unset", "empty"
						}
						if h.instParam >= 0 {
							s.Inst = "set"
						}
						if h.msgParam >= 0 {
							if a := arg(h.msgParam); a != nil {
								s.Msg = classMsg(a)
							}
						}
						s.Code = h.code
						if strings.HasPrefix(h.code, "@") {
							var i int
							fmt.Sscan(h.code[1:], &i)
							if a := arg(i); a != nil {
								s.Code = codeOf(a)
							}
						}
						if a := arg(h.paramArg); a != nil {
							s.Param = litParam(a)
						}
					case fromIssues && (creatorCode[name] != "" || name == "CreateIssue" || name == "NewRawIssue"):
						s.Class = "raw"
						s.Code = creatorCode[name]
						s.Inst, s.Msg = "unset", "empty"
						if name == "CreateIssue" || name == "NewRawIssue" {
							if len(x.Args) > 0 {
								s.Code = codeOf(x.Args[0])
							}
						}
						if i, ok := creatorParam[name]; ok && i < len(x.Args) {
							s.Param = litParam(x.Args[i])
						}
						if i, ok := creatorMsg[name]; ok && i < len(x.Args) {
							s.Msg = classMsg(x.Args[i])
						}
						if name == "NewRawIssueFromMessage" {
							s.Inst = "set"
						}
					case name == "AddIssueWithMessage" || name == "AddIssueWithCode":
						s.Class = "raw"
						s.Inst = "unset"
						s.Code = "custom"
						if name == "AddIssueWithCode" && len(x.Args) > 0 {
							s.Code = codeOf(x.Args[0])
						}
						if i := creatorMsg[name]; i < len(x.Args) {
							s.Msg = classMsg(x.Args[i])
						}
					case isNestedParse(x, name, qual, ft.rel, env):
						// a nested schema is parsed: does the caller's context travel with it?
						s.Class = "nested"
						s.Ctx = "nil"
						for _, a := range x.Args {
							if c := env.classCtx(a); c == "caller" || c == "fresh" {
								s.Ctx = c
							}
						}
						if name == "Call" && env.reflCtx {
							s.Ctx = "caller"
						}
						s.Cfg = "global"
					default:
						return true
					}
					sites = append(sites, s)
				}
				return true
			})
		}
		for _, d := range ft.f.Decls {
			if fd, ok := d.(*ast.FuncDecl); ok {
				visit(recvOf(fd)+fd.Name.Name, fd.Type, fd.Body, nil)
			}
		}
	}
	sort.SliceStable(sites, func(i, j int) bool {
		if sites[i].File != sites[j].File {
			return sites[i].File < sites[j].File
		}
		return sites[i].Line < sites[j].Line
	})
	for i := range sites {
		k := sites[i].File + ":" + sites[i].Func + ":" + sites[i].Callee
		counter[k]++
		sites[i].Key = fmt.Sprintf("%s#%d", k, counter[k])
	}
	nFinal := 0
	for _, s := range sites {
		if s.Class != "raw" && s.Class != "nested" {
			nFinal++
		}
	}
	if nFinal < 40 || len(sites) < 150 {
		return fmt.Errorf("the translator found only %d sites (%d reaching FinalizeIssue)", len(sites), nFinal)
	}
	hs := map[string]any{}
	for n, h := range helpers {
		hs[n] = map[string]any{"ctxParam": h.ctxParam, "ctxConst": h.ctxConst, "cfgParam": h.cfgParam, "cfgConst": h.cfgConst,
			"buildsRaw": h.buildsRaw, "instParam": h.instParam, "msgParam": h.msgParam, "code": h.code}
	}
	// ---- 3. the keys the locale files name: dictionaries Sizable* / FormatNouns* / TypeDictionary*, and the string cases of
	// their switch statements (format names such as "starts_with")
	lk := map[string]map[string]bool{"sizable": {}, "formats": {}, "types": {}}
	for _, ft := range files {
		if filepath.Dir(ft.rel) != "locales" {
			continue
		}
		for _, d := range ft.f.Decls {
			switch x := d.(type) {
			case *ast.GenDecl:
				for _, sp := range x.Specs {
					vs, ok := sp.(*ast.ValueSpec)
					if !ok || len(vs.Names) != 1 || len(vs.Values) != 1 {
						continue
					}
					grp := ""
					switch n := vs.Names[0].Name; {
					case strings.HasPrefix(n, "Sizable"):
						grp = "sizable"
					case strings.HasPrefix(n, "FormatNouns"):
						grp = "formats"
					case strings.HasPrefix(n, "TypeDictionary"):
						grp = "types"
					}
					cl, ok := vs.Values[0].(*ast.CompositeLit)
					if grp == "" || !ok {
						continue
					}
					for _, el := range cl.Elts {
						if kv, ok := el.(*ast.KeyValueExpr); ok {
							if k := litParam(kv.Key); k != "" {
								lk[grp][k] = true
							}
						}
					}
				}
			case *ast.FuncDecl:
				if x.Body == nil {
					continue
				}
				ast.Inspect(x.Body, func(n ast.Node) bool {
					sw, ok := n.(*ast.SwitchStmt)
					if !ok || exprText(sw.Tag) != "format" {
						return true
					}
					for _, c := range sw.Body.List {
						for _, e := range c.(*ast.CaseClause).List {
							if l, ok := e.(*ast.BasicLit); ok && l.Kind == token.STRING {
								lk["formats"][strings.Trim(l.Value, "\"`")] = true
							}
						}
					}
					return true
				})
			}
		}
	}
	// the type codes the library declares (core: const ZodTypeX ZodTypeCode = "x"): every value an `expected` can take
	for _, ft := range files {
		if filepath.Dir(ft.rel) != "core" {
			continue
		}
		for _, d := range ft.f.Decls {
			gd, ok := d.(*ast.GenDecl)
			if !ok || gd.Tok != token.CONST {
				continue
			}
			for _, sp := range gd.Specs {
				vs := sp.(*ast.ValueSpec)
				for i, n := range vs.Names {
					if strings.HasPrefix(n.Name, "ZodType") && i < len(vs.Values) {
						if l, ok := vs.Values[i].(*ast.BasicLit); ok && l.Kind == token.STRING {
							lk["types"][strings.Trim(l.Value, "\"`")] = true
						}
					}
				}
			}
		}
	}
	lkOut := map[string][]string{}
	for g, m := range lk {
		for k := range m {
			lkOut[g] = append(lkOut[g], k)
		}
		sort.Strings(lkOut[g])
	}
	if len(lkOut["sizable"]) < 4 || len(lkOut["formats"]) < 20 || len(lkOut["types"]) < 8 {
		return fmt.Errorf("the translator found too few locale dictionary keys: %d sizable, %d formats, %d types", len(lkOut["sizable"]), len(lkOut["formats"]), len(lkOut["types"]))
	}
	// unreachable functions (by name, over-approximating liveness): the rows inside them are dead code
	deadFn := map[string]string{}
	{
		var dfs []struct {
			rel string
			f   *ast.File
		}
		for _, ft := range files {
			dfs = append(dfs, struct {
				rel string
				f   *ast.File
			}{ft.rel, ft.f})
		}
		deadFn = deadFuncs(dfs)
	}
	for i := range sites {
		if why, ok := deadFn[sites[i].File+":"+sites[i].Func]; ok {
			sites[i].Dead = why
		}
	}
	b, _ := json.MarshalIndent(map[string]any{"sites": sites, "helpers": hs, "locale_keys": lkOut}, "", " ")
	return os.WriteFile(filepath.Join(outDir, "sites.json"), b, 0o644)
}

var stdParsers = map[string]bool{"time": true, "url": true, "netip": true, "strconv": true, "json": true, "uuid": true, "mail": true,
	"big": true, "net": true, "regexp": true, "template": true, "semver": true, "jwt": true, "parser": true, "flag": true}

// isNestedParse: schema.Parse / ParseAny / StrictParse (or a reflective call of one of them) inside the library's schema code
func isNestedParse(x *ast.CallExpr, name, qual, rel string, env *fnEnv) bool {
	if !(strings.HasPrefix(rel, "types/") || strings.HasPrefix(rel, "internal/engine/") || strings.HasPrefix(rel, "internal/checks/") || strings.HasPrefix(rel, "core/")) {
		return false
	}
	if name == "Call" {
		if s, ok := x.Fun.(*ast.SelectorExpr); ok {
			if id, ok := s.X.(*ast.Ident); ok && env.parseMeth[id.Name] {
				return true
			}
		}
		return false
	}
	if name != "Parse" && name != "ParseAny" && name != "StrictParse" {
		return false
	}
	if _, ok := x.Fun.(*ast.SelectorExpr); !ok {
		return false
	}
	return !stdParsers[qual]
}

func classMsg(e ast.Expr) string {
	if l, ok := e.(*ast.BasicLit); ok && l.Kind == token.STRING {
		if strings.Trim(l.Value, "\"`") == "" {
			return "empty"
		}
		return "preset"
	}
	if c, ok := e.(*ast.CallExpr); ok && (calleeName(c, "") == "Sprintf" || calleeName(c, "") == "Error") {
		return "preset"
	}
	return "flow"
}

// deadFuncs: the functions and methods that cannot be reached from the library's public API, decided by NAME (source only,
// no type information), so that liveness is over-approximated: a function is LIVE when it is exported and declared in a
// public package (users can call it; an exported method may also satisfy an interface), when it is init/main, when its name
// occurs in a package-level initialiser, or when its name occurs in the body of a live function of a package that can see it
// (same package for unexported names; any package for exported ones).  Everything else is dead: an unexported function no
// live code names, or an exported function of an internal/ package that no live code names.  Key "file:Recv.Name".
func deadFuncs(files []struct {
	rel string
	f   *ast.File
}) map[string]string {
	type fn struct {
		key, pkg, name string
		typed          string // Recv.Name for a method
		exported, root bool
		refs           map[string]bool
	}
	var fns []*fn
	pkgRefs := map[string]map[string]bool{} // package dir -> names used outside function bodies (var initialisers, type decls)
	// methods declared per receiver type: `z.m` inside a method of T names T.m when T declares m itself (the shallowest
	// method wins in Go), otherwise it may be a promoted method of an embedded type: then the reference stays untyped
	declared := map[string]bool{}
	for _, ft := range files {
		for _, d := range ft.f.Decls {
			if x, ok := d.(*ast.FuncDecl); ok && x.Recv != nil {
				declared[filepath.Dir(ft.rel)+":"+recvOf(x)+x.Name.Name] = true
			}
		}
	}
	namesIn := func(n ast.Node, pkg, recvName, recvType string) map[string]bool {
		m := map[string]bool{}
		if n == nil || reflect.ValueOf(n).IsNil() {
			return m
		}
		ast.Inspect(n, func(x ast.Node) bool {
			switch v := x.(type) {
			case *ast.Ident:
				m[v.Name] = true
			case *ast.SelectorExpr:
				if id, ok := v.X.(*ast.Ident); ok && recvName != "" && id.Name == recvName && declared[pkg+":"+recvType+v.Sel.Name] {
					m[recvType+v.Sel.Name] = true // a typed reference: the receiver's own method
					return false
				}
				m[v.Sel.Name] = true
			}
			return true
		})
		return m
	}
	names := func(n ast.Node) map[string]bool { return namesIn(n, "", "", "") }
	for _, ft := range files {
		pkg := filepath.Dir(ft.rel)
		internal := strings.HasPrefix(pkg, "internal") || strings.Contains(pkg, "/internal")
		if pkgRefs[pkg] == nil {
			pkgRefs[pkg] = map[string]bool{}
		}
		for _, d := range ft.f.Decls {
			switch x := d.(type) {
			case *ast.FuncDecl:
				f := &fn{key: ft.rel + ":" + recvOf(x) + x.Name.Name, pkg: pkg, name: x.Name.Name, exported: ast.IsExported(x.Name.Name), typed: recvOf(x) + x.Name.Name}
				rn := ""
				if x.Recv != nil && len(x.Recv.List) > 0 && len(x.Recv.List[0].Names) > 0 {
					rn = x.Recv.List[0].Names[0].Name
				}
				f.refs = namesIn(x.Body, pkg, rn, recvOf(x))
				f.root = (f.exported && !internal) || x.Name.Name == "init" || x.Name.Name == "main"
				fns = append(fns, f)
			case *ast.GenDecl:
				for n := range names(x) {
					pkgRefs[pkg][n] = true
				}
			}
		}
	}
	live := map[*fn]bool{}
	seenExported := map[string]bool{}          // exported names referenced by live code anywhere
	seenLocal := map[string]map[string]bool{} // pkg -> names referenced by live code of that package
	add := func(pkg string, refs map[string]bool) {
		if seenLocal[pkg] == nil {
			seenLocal[pkg] = map[string]bool{}
		}
		for n := range refs {
			seenLocal[pkg][n] = true
			if ast.IsExported(n) {
				seenExported[n] = true
			}
		}
	}
	for pkg, refs := range pkgRefs {
		add(pkg, refs)
	}
	for changed := true; changed; {
		changed = false
		for _, f := range fns {
			if live[f] {
				continue
			}
			if f.root || seenLocal[f.pkg][f.name] || seenLocal[f.pkg][f.typed] || (f.exported && seenExported[f.name]) {
				live[f] = true
				add(f.pkg, f.refs)
				changed = true
			}
		}
	}
	dead := map[string]string{}
	for _, f := range fns {
		if !live[f] {
			if f.exported {
				dead[f.key] = "exported function of an internal package that no live code of the library names"
			} else {
				dead[f.key] = "unexported function that no live code of its package names"
			}
		}
	}
	return dead
}
