/-
  Gozod.Model.NumBig — the operands of `pkg/validate.compareNumeric` / `MultipleOf` that `toNum` does
  not hold: `*big.Int` (compared and divided exactly since /repo 4945548: `isBig`, `toBig`, `cmpBig`),
  complex64/128 (the magnitude through `coerce.ToFloat64`), named numeric types
  (`reflectx.IsNumeric` says no), and `uintptr` (held by `toNum` as a uint64, but without a case in
  `coerce.ToFloat64`).

  Round 4c: these definitions lived in `Drv/C16.lean` only (audit: "the big-integer and complex path
  lives in Drv/"); they are the model now, the driver runs exactly these (`Drv/C16.lean` keeps only the
  token parsing), and `Proofs/C16Big.lean` states their exactness (`c16_big_cmp`, `c16_big_multiple`).

  Transcribed functions (pkg/validate/validate.go):
    toFloat64        → `xval`       (= coerce.ToFloat64, false on an error)
    isBig            → `isBigOp`
    toBig            → `Opnd.toBig?`
    cmpBig           → `cmpBigOp`   (bigVsFloat: NaN unordered, ±Inf by sign, else big.Float.Cmp — exact)
    compareNumeric   → `xcmpOrd`    (the part before «switch» of `C16D.frames`; the switch is `cmpNum`)
    Lt/Lte/Gt/Gte    → `xcmp`
    MultipleOf       → `xmul`       (`y.Sign() != 0 && new(big.Int).Rem(x, y).Sign() == 0` → `bigRemZero`)
  Core-only.
-/
import Gozod.Model.Num
import Gozod.Model.NumFloat
namespace Gozod.NumBig
open Gozod

/-- An operand of `compareNumeric` / `MultipleOf` in general. -/
inductive Opnd where
  | num (n : Num)
  | uptr (v : Int)         -- a uintptr: `toNum` holds it as a uint64, `coerce.ToFloat64` has no case for it
  | named                  -- a named numeric type: `reflectx.IsNumeric` says no
  | cplx (mag : F)         -- complex64/128: `coerce.ToFloat64` returns the magnitude (shipped as Go computed it)
  | big (v : Int)          -- *big.Int
  deriving Repr, Inhabited

/-- What `toNum` holds (the exact payload), if anything. -/
def Opnd.toNum? : Opnd → Option Num
  | .num n => some n
  | .uptr v => some (.u v)
  | _ => none

/-- `toFloat64` of pkg/validate (= `coerce.ToFloat64`, false on an error): NaN floats, big
    integers beyond MaxFloat64 and uintptr values have no reading; a complex NaN magnitude is
    returned as it is. -/
def xval : Opnd → Option F
  | .num (.f x) => if x.isNaN then none else some x
  | .num n => some (NumFloat.numToF n)
  | .uptr _ => none
  | .named => none
  | .cplx m => some m
  | .big v => match Coerce.finOrOverflow (Coerce.bigToF64 v) with
    | .ok x => some x
    | .error _ => none

/-- `toBig`: the exact value of a big integer or of a built-in integer. -/
def Opnd.toBig? : Opnd → Option Int
  | .big v => some v
  | .num (.i v) => some v
  | .num (.u v) => some v
  | .uptr v => some v
  | _ => none

/-- `isBig`. -/
def isBigOp : Opnd → Bool
  | .big _ => true
  | _ => false

/-- `bigVsFloat(n, v)` of `cmpBig`: `none` = not done (the other operand is no float64),
    `some none` = done and unordered (NaN), `some (some o)` = the order of `n` against the float. -/
def bigVsFloat (n : Int) : Opnd → Option (Option Ordering)
  | .num (.f .nan) => some none
  | .num (.f .pinf) => some (some .lt)
  | .num (.f .ninf) => some (some .gt)
  | .num (.f (.fin a k)) => some (some (compare (n * 2 ^ k) a))      -- big.Float.Cmp: exact
  | _ => none

/-- `cmpBig` (at least one operand is a big integer): integers by `big.Int.Cmp`, a big integer
    against a float64 exactly; `none` = not decided here (a complex operand: the magnitude path). -/
def cmpBigOp (a b : Opnd) : Option (Option Ordering) :=
  match a.toBig?, b.toBig? with
  | some x, some y => some (some (compare x y))
  | some x, none => bigVsFloat x b
  | none, some y => (bigVsFloat y a).map (fun r => r.map Ordering.flip)   -- `return -c, ok, done`
  | none, none => none

def isNamed : Opnd → Bool
  | .named => true
  | _ => false

def isFloatNum : Num → Bool
  | .f _ => true
  | _ => false

/-- `compareNumeric`: `IsNumeric` on both; the exact switch (`cmpNum`) when `toNum` holds both;
    otherwise `cmpBig` when one is a big integer and it decides; otherwise `toFloat64Pair`, `cmpFloats`. -/
def xcmpOrd (a b : Opnd) : Option Ordering :=
  if isNamed a || isNamed b then none else
  match a.toNum?, b.toNum? with
  | some x, some y => cmpNum x y
  | _, _ =>
    match (if isBigOp a || isBigOp b then cmpBigOp a b else none) with
    | some r => r
    | none =>
      match xval a, xval b with
      | some x, some y => F.cmp x y
      | _, _ => none

/-- `ok && c <rel> 0`. -/
def verdict (op : CmpOp) : Option Ordering → Bool
  | none => false
  | some o => op.ofOrdering o

/-- `validate.Lt/Lte/Gt/Gte`: `ok && c <rel> 0`. -/
def xcmp (op : CmpOp) (a b : Opnd) : Bool := verdict op (xcmpOrd a b)

/-- `y.Sign() != 0 && new(big.Int).Rem(x, y).Sign() == 0` (`Rem` truncates, like Go's `%`). -/
def bigRemZero (x y : Int) : Bool := y != 0 && Int.tmod x y == 0

/-- `if a, ok := toNum(value); ok && a.kind != numFloat { if b, ok := toNum(divisor); ok && b.kind != numFloat {
    return multipleOfInts(a, b) } }`. -/
def intsBranch (a b : Opnd) : Option Bool :=
  match a.toNum?, b.toNum? with
  | some x, some y => if isFloatNum x || isFloatNum y then none else some (multipleOfInts x y)
  | _, _ => none

/-- `if isBig(value) || isBig(divisor) { if x, ok := toBig(value); ok { if y, ok := toBig(divisor); ok {
    return y.Sign() != 0 && new(big.Int).Rem(x, y).Sign() == 0 } } }`. -/
def bigsBranch (a b : Opnd) : Option Bool :=
  if isBigOp a || isBigOp b then
    (match a.toBig?, b.toBig? with
      | some x, some y => some (bigRemZero x y)
      | _, _ => none)
  else none

/-- `toFloat64Pair`, then the ε-rule. -/
def floatBranch (a b : Opnd) : Bool :=
  match xval a, xval b with
  | some x, some y => NumFloat.floatMultipleOf x y
  | _, _ => false

/-- `MultipleOf`: the exact integer branch when `toNum` holds two integers; the exact `big.Int.Rem`
    when one is a big integer and `toBig` reads both; otherwise the ε-rule on the two
    `coerce.ToFloat64` readings. -/
def xmul (a b : Opnd) : Bool :=
  if isNamed a || isNamed b then false else
  (intsBranch a b).getD ((bigsBranch a b).getD (floatBranch a b))

/-! ### what an operand denotes (for specifications; written against the values, not the code's paths) -/

/-- The extended real an operand denotes exactly; complex and named-type operands denote none here. -/
def Opnd.value? : Opnd → Option F
  | .num n => some n.toF
  | .uptr v => some (.fin v 0)
  | .big v => some (.fin v 0)
  | _ => none

/-- The integer an operand denotes, if it is an integer operand. -/
def Opnd.intValue? : Opnd → Option Int
  | .num (.i v) => some v
  | .num (.u v) => some v
  | .uptr v => some v
  | .big v => some v
  | _ => none

/-- The documented meaning of a comparison on operands that denote a number exactly. -/
def specXcmp (op : CmpOp) (a b : Opnd) : Option Bool :=
  match a.value?, b.value? with
  | some x, some y => some (verdict op (F.cmp x y))
  | _, _ => none

/-- The documented meaning of MultipleOf on integer operands. -/
def specXmul (a b : Opnd) : Option Bool :=
  match a.intValue?, b.intValue? with
  | some v, some d => some (specMultipleOfInt v d)
  | _, _ => none

end Gozod.NumBig
