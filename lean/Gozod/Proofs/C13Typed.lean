/-
  C13, round 4 — "the generated file type-checks against the library" as theorems over the WHOLE regenerated
  method table (`Gozod.Gen.methodTable`: reflection over the library, harness/cmd/c13/methods.go).

  * `wellTyped_of_allowed` (any table): a chain whose constructor has a table type τ₀ and whose calls are drawn — in
    any number and order — from a finite list of call shapes is well typed, provided the set of types reachable
    from τ₀ is closed under those shapes (`closedB`, a finite check over the table).
  * `c13_welltyped_partial`: for every scalar field type (the 14 basic kinds gozodgen has a constructor for, and
    pointers to them), every struct name and EVERY rule list whose emitted calls have the shapes of the kind
    (`typedRegion`), the expression `emitChain` produces is well typed against `Gen.methodTable`.
    Renaming or removing a library method gozodgen emits, or changing a parameter kind, breaks the `closedB` obligation.
  * `c13_welltyped_full` is FALSE: witnesses for `url`, `enum`+`min`, slices, maps, `*[]T`+`min`, self references,
    `*time.Time`, an integer bound beyond the parameter's range, unused imports.
  * `c13_emitted_names`: the method / constructor names the model can emit are exactly the names found in the string
    literals of writer.go.
-/
import Gozod.Model.GenTyped
import Gozod.Model.GenSem
import Gozod.Gen.MethodTable
import Gozod.Gen.WriterFacts
import Gozod.Gen.KindRows
import Gozod.Gen.GenTable
namespace Gozod.C13
open Gozod.GenEmit Gozod.GenTyped Gozod.TagParser

/-! ## call shapes -/

inductive AShape | int64Lit | floatLit | strLit | regexp | boolLit
  deriving DecidableEq, Repr

/-- the shape of a classified argument (`none`: no shape — not a literal, or an integer outside int64) -/
def absOf : ArgClass → Option AShape
  | .intLit n => if -(2 ^ 63) ≤ n ∧ n ≤ 2 ^ 63 - 1 then some .int64Lit else none
  | .floatLit _ _ => some .floatLit
  | .strLit => some .strLit | .regexp => some .regexp | .boolLit => some .boolLit
  | .other => none

/-- assignability of EVERY argument of the shape -/
def absFits : AShape → PK → Bool
  | _, .any => true
  | _, .other => false
  | _, .schemaOf => false
  | .int64Lit, .basic b => b == .int || b == .int64 || isFloaty b
  | .floatLit, .basic b => isFloaty b
  | .strLit, .basic b => b == .string
  | .boolLit, .basic b => b == .bool
  | .regexp, .regexp => true
  | .regexp, .basic _ => false
  | _, .regexp => false

def absFitsAll : List AShape → List PK → Bool
  | [], [] => true
  | a :: as, p :: ps => absFits a p && absFitsAll as ps
  | _, _ => false

abbrev Shape := String × List AShape

def absStep (T : MethodTable) (ty : Nat) (sh : Shape) : Option Nat :=
  match T.method? ty sh.1 with
  | some m => if absFitsAll sh.2 m.params then m.result else none
  | none => none

def closedB (T : MethodTable) (R : List Nat) (shapes : List Shape) : Bool :=
  R.all fun ty => shapes.all fun sh => match absStep T ty sh with | some ty' => R.contains ty' | none => false

/-- types reachable from `R` through the shapes, `n` rounds -/
def closure (T : MethodTable) (shapes : List Shape) : Nat → List Nat → List Nat
  | 0, R => R
  | n + 1, R => closure T shapes n (shapes.foldl (fun acc sh => R.foldl (fun acc ty =>
      match absStep T ty sh with | some ty' => if acc.contains ty' then acc else acc ++ [ty'] | none => acc) acc) R)

def shapeOf (c : Call) : Option Shape :=
  (c.args.mapM fun a => absOf a.cls).map fun as => (c.name, as)

def allowed (shapes : List Shape) (c : Call) : Bool :=
  match shapeOf c with | some sh => shapes.contains sh | none => false

theorem fits_of_abs (a : ArgClass) (s : AShape) (p : PK) (ha : absOf a = some s) (hf : absFits s p = true) :
    fits a p = some true := by
  cases a with
  | other => simp [absOf] at ha
  | intLit n =>
    simp only [absOf] at ha
    split at ha
    · rename_i hr
      cases ha
      cases p with
      | any => rfl
      | other => simp [absFits] at hf
      | schemaOf => simp [absFits] at hf
      | regexp => simp [absFits] at hf
      | basic b =>
        simp only [absFits, Bool.or_eq_true, beq_iff_eq] at hf
        simp only [fits, intFits]
        rcases hf with (h | h) | h
        · subst h; have e : (2:Int)^63 = 9223372036854775808 := by decide
          simp [intRange]; omega
        · subst h; have e : (2:Int)^63 = 9223372036854775808 := by decide
          simp [intRange]; omega
        · cases b <;> simp [isFloaty] at h <;> simp [intRange, isFloaty]
    · cases ha
  | floatLit i w =>
    simp only [absOf] at ha; cases ha
    cases p with
    | any => rfl
    | other => simp [absFits] at hf
    | schemaOf => simp [absFits] at hf
    | regexp => simp [absFits] at hf
    | basic b => simp only [absFits] at hf; simp [fits, hf]
  | strLit =>
    simp only [absOf] at ha; cases ha
    cases p with
    | any => rfl
    | other => simp [absFits] at hf
    | schemaOf => simp [absFits] at hf
    | regexp => simp [absFits] at hf
    | basic b => simp only [absFits] at hf; simp [fits, hf]
  | boolLit =>
    simp only [absOf] at ha; cases ha
    cases p with
    | any => rfl
    | other => simp [absFits] at hf
    | schemaOf => simp [absFits] at hf
    | regexp => simp [absFits] at hf
    | basic b => simp only [absFits] at hf; simp [fits, hf]
  | regexp =>
    simp only [absOf] at ha; cases ha
    cases p with
    | any => rfl
    | other => simp [absFits] at hf
    | schemaOf => simp [absFits] at hf
    | regexp => rfl
    | basic b => simp [absFits] at hf

theorem fitsAll_of_abs : ∀ (as : List ArgClass) (ss : List AShape) (ps : List PK),
    as.mapM absOf = some ss → absFitsAll ss ps = true → fitsAll as ps = some true
  | [], ss, ps, h, hf => by
    simp at h; subst h
    cases ps with
    | nil => rfl
    | cons _ _ => simp [absFitsAll] at hf
  | a :: as, ss, ps, h, hf => by
    simp only [List.mapM_cons, Option.bind_eq_bind, Option.pure_def] at h
    cases ha : absOf a with
    | none => simp [ha] at h
    | some s =>
      cases has : as.mapM absOf with
      | none => simp [ha, has] at h
      | some ss' =>
        simp [ha, has] at h; subst h
        cases ps with
        | nil => simp [absFitsAll] at hf
        | cons p ps =>
          simp only [absFitsAll, Bool.and_eq_true] at hf
          simp [fitsAll, fits_of_abs a s p ha hf.1, fitsAll_of_abs as ss' ps has hf.2, and3]

theorem step_of_allowed (T : MethodTable) (shapes : List Shape) (R : List Nat) (hc : closedB T R shapes = true)
    (ty : Nat) (hty : ty ∈ R) (c : Call) (ha : allowed shapes c = true) : ∃ ty' ∈ R, GenTyped.step T ty c = .ok ty' := by
  unfold allowed at ha
  cases hs : shapeOf c with
  | none => simp [hs] at ha
  | some sh =>
    simp only [hs] at ha
    have hmem : sh ∈ shapes := by simpa using ha
    have h1 := List.all_eq_true.mp (List.all_eq_true.mp hc ty hty) sh hmem
    unfold shapeOf at hs
    cases hm : c.args.mapM (fun a => absOf a.cls) with
    | none => simp [hm] at hs
    | some as =>
      simp [hm] at hs; subst hs
      simp only [absStep] at h1
      cases hmeth : T.method? ty c.name with
      | none => simp [hmeth] at h1
      | some m =>
        simp only [hmeth] at h1
        by_cases hfit : absFitsAll as m.params = true
        · simp only [hfit, if_true] at h1
          cases hr : m.result with
          | none => simp [hr] at h1
          | some r =>
            simp only [hr] at h1
            refine ⟨r, by simpa using h1, ?_⟩
            have hmm : (c.args.map Arg.cls).mapM absOf = some as := by
              rw [List.mapM_map]; exact hm
            simp [GenTyped.step, stepCls, hmeth, fitsAll_of_abs _ as m.params hmm hfit, hr]
        · simp [hfit] at h1

theorem runCalls_of_allowed (T : MethodTable) (shapes : List Shape) (R : List Nat) (hc : closedB T R shapes = true) :
    ∀ (cs : List Call) (ty : Nat), ty ∈ R → cs.all (allowed shapes) = true → ∃ ty' ∈ R, runCalls T ty cs = .ok ty'
  | [], ty, hty, _ => ⟨ty, hty, rfl⟩
  | c :: cs, ty, hty, hall => by
    simp only [List.all_cons, Bool.and_eq_true] at hall
    obtain ⟨ty', hty', hs⟩ := step_of_allowed T shapes R hc ty hty c hall.1
    obtain ⟨ty'', hty'', hr⟩ := runCalls_of_allowed T shapes R hc cs ty' hty' hall.2
    exact ⟨ty'', hty'', by simp [runCalls, hs, hr]⟩

/-- **Typing of arbitrary chains over a closed set of types** (any table, any number and order of calls). -/
theorem wellTyped_of_allowed (T : MethodTable) (ti : Bool) (shapes : List Shape) (R : List Nat) (c : Chain) (ty₀ : Nat)
    (h0 : ctorType T ti c.ctor = some ty₀) (hin : ty₀ ∈ R) (hc : closedB T R shapes = true)
    (hall : c.calls.all (allowed shapes) = true) : wellTyped T ti c = some true := by
  obtain ⟨ty', _, hr⟩ := runCalls_of_allowed T shapes R hc c.calls ty₀ hin hall
  simp [wellTyped, h0, hr]

/-! ## the shapes gozodgen emits per kind of field, against `Gen.methodTable` -/

def modShapes : List Shape := [("Nilable", []), ("Optional", [])]
def numNames : List String := ["Min", "Max", "Gt", "Gte", "Lt", "Lte", "Default", "Prefault"]
def signNames : List String := ["Positive", "Negative", "NonNegative", "NonPositive"]

inductive KindClass | str | int | float | bool | enum | sized | modOnly | none
  deriving DecidableEq, Repr

def _root_.Gozod.GenEmit.Basic.cls : Basic → KindClass
  | .string => .str
  | .int | .int8 | .int16 | .int32 | .int64 | .uint | .uint8 | .uint16 | .uint32 | .uint64 => .int
  | .float32 | .float64 => .float
  | .bool => .bool
  | _ => .none

/-- the call shapes of the documented rules, per class of schema -/
def shapesOf : KindClass → List Shape
  | .str => [("Min", [.int64Lit]), ("Max", [.int64Lit]), ("Length", [.int64Lit]), ("Email", []), ("Regex", [.regexp]),
             ("Default", [.strLit]), ("Prefault", [.strLit])] ++ modShapes
  | .int => numNames.map (·, [.int64Lit]) ++ signNames.map (·, []) ++ modShapes
  | .float => numNames.map (·, [.int64Lit]) ++ numNames.map (·, [.floatLit]) ++ signNames.map (·, []) ++ modShapes
  | .bool => [("Default", [.boolLit]), ("Prefault", [.boolLit])] ++ modShapes
  | .enum => [("Default", [.strLit]), ("Prefault", [.strLit])] ++ modShapes
  | .sized => [("Min", [.int64Lit]), ("Max", [.int64Lit]), ("Length", [.int64Lit])] ++ modShapes    -- slices, records
  | .modOnly => modShapes                                                                               -- time, nested structs, any
  | .none => []

/-- scalar field types: a basic kind with a documented constructor, or a pointer to one -/
def scalarOf : Ty → Option Basic
  | .basic b => if b.cls = .none then none else some b
  | .ptr (.basic b) => if b.cls = .none then none else some b
  | _ => none

def classOfCtor (b : Basic) : CExpr → KindClass
  | .prim _ => b.cls
  | .uuid => .str
  | .url => .str
  | .enum _ => .enum
  | _ => .none

/-- the writer of /repo HEAD — PINNED (round 4c) — and the library's method table (regenerated) -/
def WF : WriterFacts := .head
def T := Gozod.Gen.methodTable

/-- **The tree's writer IS the pinned one**: each of the 12 + 3 structure facts harness/cmd/c13/facts.go reads off
    cmd/gozodgen/writer.go and analyzer.go with go/ast (`Gen/WriterFacts.lean`, regenerated) shows the variant that landed.
    A tree in which a legacy variant reappears breaks this obligation (and the `texpr` / `cell` ops then show the concrete
    struct on which the pinned model and the tree disagree) — it is not followed. -/
theorem c13_writer_pinned :
    Gozod.Gen.writerFacts = WriterFacts.head ∧ Gozod.Gen.analyzerMultiName = true ∧
    Gozod.Gen.analyzerTagLiteral = true ∧ Gozod.Gen.analyzerSkipTestFiles = true := by decide

/-- the region of the LIFTING lemma `c13_welltyped_partial`: the tag is accepted, and every emitted call has one of the
    shapes of its schema class (`enum` with no member is outside). NB this is a condition on what `emitChain` produced for
    the tag, not on the tag — the statements whose scope is defined on the INPUT (field kind × tag) are the table theorems
    `c13_rows_*` (regenerated `Gen.kindRowsSrc`) and `c13_matrix_welltyped` (every matrix cell). -/
def typedRegion (t : Ty) (sn : Str) (rs : List Rule) : Bool :=
  match scalarOf t, emitChain WF t sn rs with
  | some b, some c =>
    c.calls.all (allowed (shapesOf (classOfCtor b c.ctor))) &&
    (match c.ctor with | .enum vals => !vals.isEmpty | _ => true)
  | _, _ => false

def startOK (ti : Bool) (e : CExpr) (k : KindClass) : Bool :=
  match ctorType T ti e with
  | some ty =>
    let R := closure T (shapesOf k) 3 [ty]
    R.contains ty && closedB T R (shapesOf k)
  | none => false

/-- THE OBLIGATION OVER THE WHOLE TABLE: for every basic constructor, `gozod.UUID()`, `gozod.Enum(…)` — and `gozod.URL()`
    when the writer names it — the types reachable through the shapes of its class exist, carry every method of the class
    with parameters that accept every argument of the shape, and are closed under them. -/
theorem c13_table_closed :
    (Basic.all.all fun b => b.cls == .none || startOK false (.prim b) b.cls) = true ∧
    startOK false .uuid .str = true ∧ startOK false (.enum [[0x22, 0x61, 0x22]]) .enum = true ∧
    (!WF.urlCtor || startOK false .url .str) = true := by
  refine ⟨by decide +kernel, by decide +kernel, by decide +kernel, by decide +kernel⟩

/-- the same obligation for the constructors of the non-scalar field types: `gozod.Time()`, `gozod.FromStruct[N]()`,
    `gozod.Any()` carry the modifiers; slices and records — once the writer emits them in a form that type-checks —
    carry `Min` / `Max` / `Length` with an int parameter and the modifiers, closed. -/
theorem c13_table_closed_containers :
    startOK false .time .modOnly = true ∧ startOK false (.fromStruct (asc "Inner")) .modOnly = true ∧ startOK false .any .modOnly = true ∧
    (!WF.sliceTyped || startOK false (.slice false (some (asc "string")) (.prim .string)) .sized) = true ∧
    (!WF.recordTyped || (startOK false (.record false (some (asc "int")) (.prim .int)) .sized &&
                         startOK false (.record true (some (asc "int")) (.prim .int)) .sized)) = true := by
  refine ⟨by decide +kernel, by decide +kernel, by decide +kernel, by decide +kernel, by decide +kernel⟩

theorem ctorType_enum_irrel (ti : Bool) (v w : List Str) (hv : v ≠ []) (hw : w ≠ []) : ctorType T ti (.enum v) = ctorType T ti (.enum w) := by
  cases v with
  | nil => exact absurd rfl hv
  | cons a as =>
    cases w with
    | nil => exact absurd rfl hw
    | cons b bs => simp [ctorType]

theorem wellTyped_of_startOK (ti : Bool) (c : Chain) (k : KindClass) (hs : startOK ti c.ctor k = true)
    (hall : c.calls.all (allowed (shapesOf k)) = true) : wellTyped T ti c = some true := by
  unfold startOK at hs
  cases h0 : ctorType T ti c.ctor with
  | none => simp [h0] at hs
  | some ty =>
    simp only [h0, Bool.and_eq_true] at hs
    exact wellTyped_of_allowed T ti (shapesOf k) _ c ty h0 (by simpa using hs.1) hs.2 hall

/-- Full statement: every expression gozodgen emits for a scalar field type-checks against the library. -/
def c13_welltyped_full : Prop :=
  ∀ (t : Ty) (sn : Str) (rs : List Rule) (c : Chain), (scalarOf t).isSome → emitChain WF t sn rs = some c → wellTyped T false c = some true

theorem baseCtor_scalar (t : Ty) (sn : Str) (b : Basic) (hb : scalarOf t = some b) : baseCtor WF t sn = .prim b := by
  cases t with
  | basic b0 =>
    simp only [scalarOf] at hb
    split at hb
    · cases hb
    · cases hb; cases b <;> first | rfl | simp_all [Basic.cls]
  | ptr t' =>
    cases t' with
    | basic b0 =>
      simp only [scalarOf] at hb
      split at hb
      · cases hb
      · cases hb; cases b <;> first | rfl | simp_all [Basic.cls]
    | _ => simp [scalarOf] at hb
  | _ => simp [scalarOf] at hb

theorem scalar_cls (t : Ty) (b : Basic) (hb : scalarOf t = some b) : b.cls ≠ .none := by
  cases t with
  | basic b0 => simp only [scalarOf] at hb; split at hb <;> simp_all
  | ptr t' =>
    cases t' with
    | basic b0 => simp only [scalarOf] at hb; split at hb <;> simp_all
    | _ => simp [scalarOf] at hb
  | _ => simp [scalarOf] at hb

/-- the four shapes of `generateFieldSchemaCode` -/
theorem emitChain_ctor (W : WriterFacts) (t : Ty) (sn : Str) (rs : List Rule) (c : Chain) (he : emitChain W t sn rs = some c) :
    c.ctor = baseCtor W t sn ∨ c.ctor = .uuid ∨ (W.urlCtor = true ∧ c.ctor = .url) ∨ ∃ vals, c.ctor = .enum vals := by
  unfold emitChain at he
  simp only at he
  split at he
  · simp only [Option.map_eq_some_iff] at he; obtain ⟨_, _, rfl⟩ := he; exact Or.inr (Or.inl rfl)
  · split at he
    · rename_i hu
      simp only [Option.map_eq_some_iff] at he; obtain ⟨_, _, rfl⟩ := he; exact Or.inr (Or.inr (Or.inl ⟨hu.1, rfl⟩))
    · split at he
      · split at he
        · cases he
        · simp only [Option.map_eq_some_iff] at he; obtain ⟨_, _, rfl⟩ := he; exact Or.inr (Or.inr (Or.inr ⟨_, rfl⟩))
      · simp only [Option.map_eq_some_iff] at he; obtain ⟨_, _, rfl⟩ := he; exact Or.inl rfl

/-- **Every emitted expression of the region type-checks against the whole regenerated method table** —
    all scalar field types, all struct names, all rule lists (any length, any order, any parameters of the shapes). -/
theorem c13_welltyped_expr (t : Ty) (sn : Str) (rs : List Rule) (c : Chain)
    (hr : typedRegion t sn rs = true) (he : emitChain WF t sn rs = some c) : wellTyped T false c = some true := by
  unfold typedRegion at hr
  cases hb : scalarOf t with
  | none => simp [hb] at hr
  | some b =>
    simp only [hb, he, Bool.and_eq_true] at hr
    obtain ⟨hall, hen⟩ := hr
    have hcl := c13_table_closed
    have hbcls := scalar_cls t b hb
    rcases emitChain_ctor WF t sn rs c he with hct | hct | ⟨hu, hct⟩ | ⟨vals, hct⟩
    · rw [baseCtor_scalar t sn b hb] at hct
      have hst : startOK false (.prim b) b.cls = true := by
        have := List.all_eq_true.mp hcl.1 b (by cases b <;> decide)
        simpa [hbcls] using this
      rw [hct] at hall; simp only [classOfCtor] at hall
      exact wellTyped_of_startOK false c b.cls (by rw [hct]; exact hst) hall
    · rw [hct] at hall; simp only [classOfCtor] at hall
      exact wellTyped_of_startOK false c .str (by rw [hct]; exact hcl.2.1) hall
    · rw [hct] at hall; simp only [classOfCtor] at hall
      have hst : startOK false .url .str = true := by
        have := hcl.2.2.2
        simpa [hu] using this
      exact wellTyped_of_startOK false c .str (by rw [hct]; exact hst) hall
    · rw [hct] at hall hen; simp only [classOfCtor] at hall
      have hv : vals ≠ [] := by intro h; subst h; simp at hen
      have hst : startOK false (.enum vals) .enum = true := by
        have h := hcl.2.2.1
        unfold startOK at h ⊢
        rw [ctorType_enum_irrel false vals [[0x22, 0x61, 0x22]] hv (by simp)]
        exact h
      exact wellTyped_of_startOK false c .enum (by rw [hct]; exact hst) hall

/-- the judgement on the FILE written for a one-field struct — what the driver's `statusOf` computes and the `texpr` op
    compares with `go build`: the expression is well typed AND every import written is used -/
def fileOK (rs : List Rule) (c : Chain) : Option Bool :=
  let ti := timeImported WF [rs] [c]
  match wellTyped T ti c with
  | some true => some (importsUsed WF [rs] [c])
  | some false => some false
  | none => if importsUsed WF [rs] [c] then none else some false

/-- **In the region the generated file type-checks exactly when its imports are used** (round 4c: the conclusion is the
    file-level judgement, imports included — `typedRegion (.basic .string) "C" [regex]` holds, `importsUsed` fails, and the
    file indeed does not compile: `c13_unused_import_witnesses`). -/
theorem c13_welltyped_partial (t : Ty) (sn : Str) (rs : List Rule) (c : Chain)
    (hr : typedRegion t sn rs = true) (he : emitChain WF t sn rs = some c) (hti : timeImported WF [rs] [c] = false) :
    fileOK rs c = some (importsUsed WF [rs] [c]) := by
  have h := c13_welltyped_expr t sn rs c hr he
  simp [fileOK, hti, h]

/-! ## every kind of field type: the rows of the kind × tag table, judged against the whole regenerated method table -/

def rule (n : String) (ps : List String := []) : Rule := ⟨asc n, if ps.isEmpty then none else some (ps.map asc)⟩

/-- `why` refines the typing judgement: it says `ok` exactly where `wellTyped` ∧ `importsUsed` hold -/
def whyAgrees (W : WriterFacts) (t : Ty) (sn : String) (rs : List Rule) : Bool :=
  match emitChain W t (asc sn) rs with
  | none => true
  | some c =>
    let ti := timeImported W [rs] [c]
    match why T W t sn rs, wellTyped T ti c with
    | .ok, some true => importsUsed W [rs] [c]
    | .ill _, some false => true
    | .ill _, some true => !importsUsed W [rs] [c]
    | .ill _, none => !importsUsed W [rs] [c]
    | .unjudged, none => true
    | _, _ => false

/-- the judgement, with its reason, on the file written for a matrix cell -/
def whyChainOf (t : Gozod.Tags.FTy) (rules : List Gozod.Tags.TRule) : Why :=
  why T WF (GenSem.tyOf t) "" (rules.map GenSem.ruleOf)

def self : Ty := .named (asc "S")
def inner : Ty := .named (asc "Inner")

/-- one row of the regenerated table, read with the transcriptions themselves: the type by `parseTy`, the tag by gozodgen's
    own tag parser `genParseTag` -/
def rowOf (r : String × String) : Option (Ty × List Rule) :=
  match parseTy r.1, GenSplit.genParseTag (asc r.2) with
  | some t, .ok rs => some (t, rs)
  | _, _ => none

/-- THE ROWS: every kind of field type the writer distinguishes × the tags of its class (struct name `S`) — REGENERATED from
    harness/cmd/c13/wide.go (`kinds` × `kindTags`) on every run (`Gen/KindRows.lean`); round 4c: no hand copy -/
def kindRows : List (Ty × List Rule) := Gozod.Gen.kindRowsSrc.filterMap rowOf

/-- every row of the source table is read (none is silently dropped), and the table is not empty -/
theorem c13_kind_rows_read : kindRows.length = Gozod.Gen.kindRowsSrc.length ∧ 600 ≤ kindRows.length := by
  constructor <;> decide +kernel

def dedup : List String → List String
  | [] => []
  | x :: xs => if xs.contains x then dedup xs else x :: dedup xs


theorem mem_dedup : ∀ (l : List String) (x : String), x ∈ l → x ∈ dedup l
  | [], _, h => by cases h
  | y :: ys, x, h => by
    simp only [dedup]
    by_cases hc : ys.contains y = true
    · simp only [hc, if_true]
      rcases List.mem_cons.mp h with rfl | h'
      · exact mem_dedup ys x (by simpa using hc)
      · exact mem_dedup ys x h'
    · simp only [hc]
      rcases List.mem_cons.mp h with rfl | h'
      · simp
      · exact List.mem_cons_of_mem _ (mem_dedup ys x h')

/-- the classes of rows that do not type-check, under writer `W` -/
def illClasses (W : WriterFacts) : List String :=
  dedup (kindRows.filterMap fun r => match why T W r.1 "S" r.2 with | .ill c => some c | _ => none)

/-- rows whose emitted argument is not a classified literal — a class of INPUTS: a `default=` / `prefault=` on a slice or
    map field (the argument is a composite literal `[]T{…}` or the parameter verbatim), and a float field with a bound whose
    parameter is not a canonical decimal (`lte=+7`, `min=007`: written verbatim). The typing judgement does not judge them
    (`why = .unjudged`); their files are judged by `go build` in the run only. -/
def compositeDefault (t : Ty) (rs : List Rule) : Bool :=
  (rs.any fun r => r.name = asc "default" ∨ r.name = asc "prefault") && (match t.deref with | .slice _ | .map _ _ => true | _ => false)
def boundNames : List Str := ["min", "max", "gt", "gte", "lt", "lte"].map asc
def nonCanonicalFloatBound (t : Ty) (rs : List Rule) : Bool :=
  t.deref.floaty && rs.any fun r => boundNames.contains r.name && (match r.params with | some (p :: _) => classifyRaw p == .other | _ => false)
def unjudgedRow (r : Ty × List Rule) : Bool := compositeDefault r.1 r.2 || nonCanonicalFloatBound r.1 r.2

/-- every row outside `unjudgedRow` is judged — and exactly those (the class is exact) — and the reason given agrees with
    `wellTyped` ∧ `importsUsed` -/
theorem c13_rows_judged :
    (kindRows.all fun r => (why T WF r.1 "S" r.2 == .unjudged) == unjudgedRow r && whyAgrees WF r.1 "S" r.2) = true := by decide +kernel

/-- **The rows that do not type-check are listed `open:` classes** (`Gen.openCompileClasses`, regenerated from
    known-findings.txt): over every kind of field type × tag of its class, against the whole regenerated method table and
    the writer of the tree under check, a generated file fails to type-check only for a reason that is a listed class.
    A new way of emitting code that does not compile breaks this obligation; a repaired class simply has no row any more. -/
theorem c13_illtyped_rows_are_open :
    (illClasses WF).all (fun c => Gozod.Gen.openCompileClasses.contains c) = true := by decide +kernel

/-- Full statement over the rows: every generated file type-checks. -/
def c13_rows_full : Prop := ∀ r ∈ kindRows, unjudgedRow r = false → why T WF r.1 "S" r.2 = .ok

/-- … outside the listed classes and the unjudged inputs (what `c13_illtyped_rows_are_open` says, row by row) -/
theorem c13_rows_partial : ∀ r ∈ kindRows, unjudgedRow r = false → (∀ c ∈ Gozod.Gen.openCompileClasses, why T WF r.1 "S" r.2 ≠ .ill c) → why T WF r.1 "S" r.2 = .ok := by
  intro r hr hu hno
  have hj := List.all_eq_true.mp c13_rows_judged r hr
  simp only [Bool.and_eq_true, beq_iff_eq, hu] at hj
  have ho := c13_illtyped_rows_are_open
  cases hw : why T WF r.1 "S" r.2 with
  | ok => rfl
  | unjudged => rw [hw] at hj; simp at hj
  | ill c =>
    exfalso
    have hmem : c ∈ illClasses WF := by
      unfold illClasses
      have : c ∈ kindRows.filterMap (fun r => match why T WF r.1 "S" r.2 with | .ill c => some c | _ => none) :=
        List.mem_filterMap.mpr ⟨r, hr, by simp [hw]⟩
      exact mem_dedup _ _ this
    have := List.all_eq_true.mp ho c hmem
    exact hno c (by simpa using this) hw

/-! ## every matrix cell: the model's judgement on the file, from the cell's input -/

/-- **The typing judgement says `ok` for every cell of the rule matrix** (2 036 cells: field type × rules, from the INPUT,
    through `emitChain .head`, against the whole regenerated method table, imports included) — and `go build` says the
    same on every one of them (`c13_typechecks`; compared cell by cell by the `texpr` op). -/
theorem c13_matrix_welltyped :
    ∀ b ∈ Gozod.Gen.genTable, ∀ c ∈ b.cells, whyChainOf b.fty c.rules = .ok := by
  have h : Gozod.Gen.genTable.all (fun b => b.cells.all fun c => decide (whyChainOf b.fty c.rules = .ok)) = true := by decide +kernel
  intro b hb c hc
  simpa using List.all_eq_true.mp (List.all_eq_true.mp h b hb) c hc

/-! ## witnesses: the writer of round 4 (`WriterFacts.legacy`), and what is left in the tree under check -/

/-- the judgement on what a writer emits for `F <t> \`gozod:"…"\`` in `type <sn> struct` -/
def wt (W : WriterFacts) (t : Ty) (sn : String) (rs : List Rule) : Option Bool :=
  (emitChain W t (asc sn) rs).bind fun c => wellTyped T (timeImported W [rs] [c]) c

/-- one witness per class of generated file that does not type-check under the writer of round 4
    (each re-derived by `go build` in the tie while that writer is the tree's) -/
theorem c13_illtyped_witnesses :
    wt .legacy (.basic .string) "C" [rule "url"] = some false ∧                                   -- ZodString has no method URL
    wt .legacy (.basic .string) "C" [rule "enum" ["a", "b"], rule "min" ["2"]] = some false ∧     -- gozod.Enum("a", "b").Min(2)
    wt .legacy (.slice (.basic .string)) "C" [rule "required"] = some false ∧                     -- gozod.Slice(elem): T cannot be inferred
    wt .legacy (.map (.basic .string) (.basic .int)) "C" [rule "required"] = some false ∧         -- gozod.Record(value): one argument short
    wt .legacy (.ptr (.slice (.basic .int))) "C" [rule "min" ["1"]] = some false ∧                -- gozod.FromStruct[[]int]().Min(1)
    wt .legacy (.ptr (.named (asc "C"))) "C" [rule "required"] = some false ∧                     -- gozod.Lazy(func() gozod.ZodType[any] { return gozod.FromStruct[C]() })
    wt .legacy (.slice (.ptr (.named (asc "C")))) "C" [] = some false ∧
    wt .legacy (.ptr .time) "C" [rule "required"] = some false ∧                                  -- gozod.FromStruct[time.Time](): package time is not imported
    wt .legacy (.basic .uint64) "C" [rule "max" ["18446744073709551615"]] = some false ∧          -- Max takes an int64
    wt .legacy (.basic .int) "C" [rule "gt" ["2.5"]] = some false ∧                               -- constant 2.5 truncated
    wt .legacy (.basic .string) "C" [rule "gt" ["2"]] = some false ∧                              -- ZodString has no Gt
    wt .legacy (.basic .bool) "C" [rule "min" ["1"]] = some false := by
  decide +kernel

/-- the self reference through a pointer or a slice is emitted the same way by every known writer (writer_test.go pins
    the text), and it does not type-check: `*ZodStruct[C, C]` is no `ZodType[any]` -/
theorem c13_lazy_self_reference_pinned :
    wt WF (.ptr (.named (asc "C"))) "C" [rule "required"] = some false ∧ wt WF (.slice (.ptr (.named (asc "C")))) "C" [] = some false ∧
    wt .head (.slice (.named (asc "C"))) "C" [] = some false := by
  decide +kernel

/-- `.IPv4()` / `.IPv6()` (rules outside docs/tags.md, cases of generateValidatorChain): no such method on ZodString, in every known writer -/
theorem c13_welltyped_full_false : ¬ c13_welltyped_full := by
  intro h
  have w : wt WF (.basic .string) "C" [rule "ipv4"] = some false := by decide +kernel
  unfold wt at w
  cases he : emitChain WF (.basic .string) (asc "C") [rule "ipv4"] with
  | none => rw [he] at w; cases w
  | some c =>
    rw [he] at w
    have := h (.basic .string) (asc "C") [rule "ipv4"] c (by decide) he
    simp only [Option.bind] at w
    have hti : timeImported WF [[rule "ipv4"]] [c] = false := by
      have : (emitChain WF (.basic .string) (asc "C") [rule "ipv4"]).map (fun c => timeImported WF [[rule "ipv4"]] [c]) = some false := by decide +kernel
      rw [he] at this; simpa using this
    rw [hti, this] at w; cases w

/-- unused imports: `trim` / `lowercase` / `uppercase` write `import "strings"`, `ipv4` `net`, `refine` the core package
    — no emitted expression uses them (rules outside docs/tags.md); the writer of round 4 also wrote `net/url` for `url`;
    `regexp` is written exactly when a Regex call is (1af466f) -/
theorem c13_unused_import_witnesses :
    (["trim", "lowercase", "uppercase", "ipv4", "ipv6", "refine", "check"].all fun n =>
      match emitChain WF (.basic .string) (asc "C") [rule n] with
      | some c => !importsUsed WF [[rule n]] [c]
      | none => false) = true ∧
    (match emitChain .legacy (.basic .string) (asc "C") [rule "url"] with
      | some c => !importsUsed .legacy [[rule "url"]] [c]
      | none => false) = true ∧
    (match emitChain WF (.basic .string) (asc "C") [rule "regex" ["^a$"]] with
      | some c => importsUsed WF [[rule "regex" ["^a$"]]] [c]
      | none => false) = true := by
  decide +kernel

/-- the region is inhabited by long mixed tags of every class, and well-typed emissions exist outside the scalar types -/
example : typedRegion (.basic .string) (asc "C") [rule "required", rule "min" ["2"], rule "regex" ["^[a-z]{2,4}$"], rule "email", rule "max" ["9"], rule "default" ["he\"llo"]] = true := by decide +kernel
example : typedRegion (.ptr (.basic .string)) (asc "C") [rule "uuid", rule "max" ["40"], rule "nilable"] = true := by decide +kernel
example : typedRegion (.basic .string) (asc "C") [rule "enum" ["red", "green"], rule "default" ["red"]] = true := by decide +kernel
example : typedRegion (.basic .int8) (asc "C") [rule "gte" ["-5"], rule "lt" ["100"], rule "default" ["3"]] = true := by decide +kernel
example : typedRegion (.ptr (.basic .float32)) (asc "C") [rule "gt" ["0.5"], rule "max" ["10"], rule "required"] = true := by decide +kernel
example : typedRegion (.basic .bool) (asc "C") [rule "default" ["true"]] = true := by decide +kernel
example : wt WF .time "C" [rule "required"] = some true ∧ wt WF (.named (asc "Inner")) "C" [] = some true ∧
    wt WF (.ptr (.named (asc "Inner"))) "C" [rule "required"] = some true := by decide +kernel

/-! ## the names the model can emit are the names in the string literals of writer.go -/

def modelMethods (W : WriterFacts) : List String :=
  ["Check", "Default", "Email", "Gt", "Gte", "IPv4", "IPv6"] ++ (if W.extraRules then ["Length"] else []) ++ ["Lt", "Lte", "Max", "Min"] ++
  (if W.extraRules then ["Negative"] else []) ++ ["Nilable"] ++ (if W.extraRules then ["NonNegative", "NonPositive"] else []) ++ ["Optional"] ++
  (if W.extraRules then ["Positive"] else []) ++ ["Prefault", "Refine", "Regex", "ToLowerCase", "ToUpperCase", "Trim", "URL"]

def modelCtors (W : WriterFacts) : List String :=
  ["Any", "Enum", "FromStruct", "Lazy", "Record", "Slice", "Time", "UUID"] ++ Basic.all.map Basic.ctorName ++
  (if W.urlCtor then ["URL"] else []) ++
  (if W.recordTyped then ["FromStructPtr", "RecordPtr", "SlicePtr", "TimePtr"] ++ Basic.all.map (·.ctorName ++ "Ptr") else [])

/-- go/ast over writer.go finds exactly the `.Name(` and `gozod.Name(` literals the transcription emits (sorted lists) -/
theorem c13_emitted_names :
    T.emittedMethods = modelMethods WF ∧ (∀ c ∈ T.emittedCtors, c ∈ modelCtors WF) ∧ (∀ c ∈ modelCtors WF, c ∈ T.emittedCtors) := by
  decide +kernel

end Gozod.C13
