/-
  C01 / C10 — the Unicode model of the string overwrites (`Gozod.StrU`: `strings.TrimSpace`, `ToLower`,
  `ToUpper` on arbitrary bytes) against the ASCII model (`Gozod.Str`), and the algebraic laws the property
  statement relies on when it says "unchanged apart from declared overwrites such as Trim".

  * `strU_apply_ascii`     on ASCII input every overwrite of the Unicode model is the ASCII model's;
  * `strU_run_ascii`, `strU_runOn_ascii`, `strU_parse_ascii`
                           the whole check engine / `ParsePrimitive` computes the same run with either
                           environment on an ASCII input (the overwrites keep the value ASCII);
  * `trim_idem`, `lower_idem`, `upper_idem`, `trim_no_space_ends`  laws of the ASCII model, and their
    transfer to the Unicode model on ASCII input (`strU_trim_idem`, `strU_lower_idem`, `strU_upper_idem`);
  * `seenAt_compose`       the value a chain hands on is the left-to-right composition of exactly its
                           overwrites (predicates contribute nothing): "overwrites compose as the chain says".
-/
import Gozod.Model.Prim
import Gozod.Model.StrU
namespace Gozod.C01
open Gozod

/-! ### white space and the suffix search on ASCII bytes -/

theorem isSpaceRune_ascii : ∀ c, c < 128 → StrU.isSpaceRune c = Str.isSpace c := by decide +kernel

/-- Every white-space rune's encoding is either one ASCII byte or ends in a byte ≥ 0x80. -/
def okSeq (s : Bytes) : Bool :=
  match s.reverse with
  | [r] => r < 128
  | l :: _ => l ≥ 128
  | [] => false

theorem spaceSeqs_ok : ∀ s ∈ StrU.spaceSeqs, okSeq s = true := by decide +kernel

theorem spaceSeqs_contains_ascii : ∀ c, c < 128 → StrU.spaceSeqs.contains [c] = Str.isSpace c := by decide +kernel

theorem spaceSeqs_no_suffix_nil : StrU.spaceSeqs.find? (fun s => s.isSuffixOf ([] : Bytes)) = none := by decide +kernel

theorem isSuffixOf_snoc_ascii (s : Bytes) (hs : okSeq s = true) (init : Bytes) (c : Nat) (hc : c < 128) :
    s.isSuffixOf (init ++ [c]) = (s == [c]) := by
  unfold List.isSuffixOf
  rw [List.reverse_append, List.reverse_singleton, List.singleton_append]
  unfold okSeq at hs
  have hrev : s = s.reverse.reverse := (List.reverse_reverse s).symm
  generalize hr : s.reverse = sr at hs
  rw [hrev, hr]
  cases sr with
  | nil => simp at hs
  | cons l rest =>
    cases rest with
    | nil =>
      simp only [List.reverse_singleton, List.isPrefixOf]
      by_cases h : l = c
      · subst h; simp
      · simp [h]
    | cons l2 rest2 =>
      simp only [decide_eq_true_eq] at hs
      have hne : l ≠ c := by omega
      have h1 : (l :: l2 :: rest2).isPrefixOf (c :: init.reverse) = false := by
        simp [List.isPrefixOf, hne]
      rw [h1]
      symm
      apply beq_false_of_ne
      intro h
      have := congrArg List.length h
      simp at this

theorem find_eq_singleton (L : List Bytes) (c : Nat) :
    L.find? (fun s => s == [c]) = if L.contains [c] then some [c] else none := by
  induction L with
  | nil => rfl
  | cons s L ih =>
    by_cases h : s = [c]
    · subst h; simp
    · have h1 : (s == [c]) = false := beq_false_of_ne h
      have h2 : ([c] == s) = false := beq_false_of_ne (fun e => h e.symm)
      simp only [List.find?, h1, ih, List.contains_cons, h2, Bool.false_or]

theorem find_congr {α} (p q : α → Bool) : ∀ (L : List α), (∀ x ∈ L, p x = q x) → L.find? p = L.find? q := by
  intro L
  induction L with
  | nil => intro _; rfl
  | cons a L ih =>
    intro h
    simp only [List.find?, h a (List.mem_cons_self ..)]
    rw [ih (fun x hx => h x (List.mem_cons_of_mem _ hx))]

theorem find_suffix_ascii (init : Bytes) (c : Nat) (hc : c < 128) :
    StrU.spaceSeqs.find? (fun s => s.isSuffixOf (init ++ [c])) = if Str.isSpace c then some [c] else none := by
  have h1 : StrU.spaceSeqs.find? (fun s => s.isSuffixOf (init ++ [c])) = StrU.spaceSeqs.find? (fun s => s == [c]) := by
    exact find_congr _ _ _ (fun s hs => isSuffixOf_snoc_ascii s (spaceSeqs_ok s hs) init c hc)
  rw [h1, find_eq_singleton, spaceSeqs_contains_ascii c hc]

/-! ### TrimSpace -/

theorem isASCII_cons (c : Nat) (cs : Bytes) : StrU.isASCII (c :: cs) = true ↔ c < 128 ∧ StrU.isASCII cs = true := by
  simp [StrU.isASCII]

theorem isASCII_append (a b : Bytes) : StrU.isASCII (a ++ b) = true ↔ StrU.isASCII a = true ∧ StrU.isASCII b = true := by
  simp [StrU.isASCII]

theorem isASCII_reverse (a : Bytes) : StrU.isASCII a.reverse = StrU.isASCII a := by
  simp [StrU.isASCII]

theorem isASCII_dropWhile (p : Nat → Bool) (b : Bytes) (h : StrU.isASCII b = true) : StrU.isASCII (b.dropWhile p) = true := by
  simp only [StrU.isASCII, List.all_eq_true] at h ⊢
  intro x hx
  exact h x ((List.dropWhile_sublist p).subset hx)

theorem isASCII_drop (n : Nat) (b : Bytes) (h : StrU.isASCII b = true) : StrU.isASCII (b.drop n) = true := by
  simp only [StrU.isASCII, List.all_eq_true] at h ⊢
  intro x hx
  exact h x (List.mem_of_mem_drop hx)

theorem trimLeft_ascii : ∀ (fuel : Nat) (b : Bytes), StrU.isASCII b = true → b.length ≤ fuel →
    StrU.trimLeft fuel b = b.dropWhile Str.isSpace := by
  intro fuel
  induction fuel with
  | zero =>
    intro b _ hl
    have : b = [] := List.eq_nil_of_length_eq_zero (Nat.le_zero.mp hl)
    subst this; rfl
  | succ n ih =>
    intro b ha hl
    cases b with
    | nil => rfl
    | cons c cs =>
      obtain ⟨hc, hcs⟩ := (isASCII_cons c cs).mp ha
      have hd : StrU.decode (c :: cs) = (c, 1) := by simp [StrU.decode, hc]
      simp only [StrU.trimLeft, hd, isSpaceRune_ascii c hc, List.drop_succ_cons, List.drop_zero]
      by_cases hs : Str.isSpace c = true
      · simp only [hs, List.dropWhile_cons_of_pos]
        simp only [Bool.true_and, Nat.lt_add_one, decide_true, ↓reduceIte]
        exact ih cs hcs (by simpa using hl)
      · simp [hs]

theorem trimRight_ascii : ∀ (fuel : Nat) (b : Bytes), StrU.isASCII b = true → b.length ≤ fuel →
    StrU.trimRight fuel b = (b.reverse.dropWhile Str.isSpace).reverse := by
  intro fuel
  induction fuel with
  | zero =>
    intro b _ hl
    have : b = [] := List.eq_nil_of_length_eq_zero (Nat.le_zero.mp hl)
    subst this; rfl
  | succ n ih =>
    intro b ha hl
    rcases List.eq_nil_or_concat b with hb | ⟨init, c, hb⟩
    · subst hb
      simp only [StrU.trimRight, spaceSeqs_no_suffix_nil]; rfl
    · rw [List.concat_eq_append] at hb
      subst hb
      obtain ⟨hi, hc1⟩ := (isASCII_append init [c]).mp ha
      have hc : c < 128 := ((isASCII_cons c []).mp hc1).1
      simp only [StrU.trimRight, find_suffix_ascii init c hc]
      rw [List.reverse_append, List.reverse_singleton, List.singleton_append]
      by_cases hs : Str.isSpace c = true
      · simp only [hs, ↓reduceIte, List.dropWhile_cons_of_pos]
        have : (init ++ [c]).take ((init ++ [c]).length - [c].length) = init := by simp
        rw [this]
        exact ih init hi (by simp at hl; omega)
      · simp [hs]

/-- **`strings.TrimSpace` on ASCII input** is the ASCII model's trim. -/
theorem trim_ascii (b : Bytes) (h : StrU.isASCII b = true) : StrU.trim b = Str.trim b := by
  unfold StrU.trim Str.trim
  rw [trimLeft_ascii b.length b h (Nat.le_refl _)]
  have hl : (b.dropWhile Str.isSpace).length ≤ b.length := (List.dropWhile_sublist _).length_le
  exact trimRight_ascii b.length _ (isASCII_dropWhile _ b h) hl

/-- **ASCII agreement.** On ASCII input every string overwrite of the Unicode model equals the ASCII model's. -/
theorem strU_apply_ascii (o : Str.SOw) (b : Bytes) (h : StrU.isASCII b = true) : StrU.apply o b = Str.apply o b := by
  cases o with
  | trim => exact trim_ascii b h
  | lower => simp [StrU.apply, Str.apply, StrU.lower, h]
  | upper => simp [StrU.apply, Str.apply, StrU.upper, h]
  | custom k => rfl

/-- The ASCII model's overwrites keep an ASCII value ASCII. -/
theorem apply_ascii_closed (o : Str.SOw) (b : Bytes) (h : StrU.isASCII b = true) : StrU.isASCII (Str.apply o b) = true := by
  cases o with
  | trim =>
    simp only [Str.apply, Str.trim, isASCII_reverse]
    exact isASCII_dropWhile _ _ (by rw [isASCII_reverse]; exact isASCII_dropWhile _ _ h)
  | lower =>
    simp only [Str.apply, StrU.isASCII, List.all_map, List.all_eq_true, Function.comp, decide_eq_true_eq] at h ⊢
    intro x hx; have := h x hx; unfold Str.lowerByte; split <;> omega
  | upper =>
    simp only [Str.apply, StrU.isASCII, List.all_map, List.all_eq_true, Function.comp, decide_eq_true_eq] at h ⊢
    intro x hx; have := h x hx; unfold Str.upperByte; split <;> omega
  | custom k =>
    simp only [Str.apply, Str.customOw]
    split
    · exact (isASCII_append _ _).mpr ⟨h, by decide⟩
    · exact isASCII_drop 1 b h
    · rw [isASCII_reverse]; exact h
    · exact (isASCII_append _ _).mpr ⟨h, by decide⟩

/-! ### the engine computes the same run with either environment on ASCII input -/

theorem strU_runFrom_ascii : ∀ (cs : List (Check Str.SPred Str.SOw)) (i : Nat) (v : Bytes) (iss : List Nat) (log : List (Ev Bytes)),
    StrU.isASCII v = true → runFrom StrU.env i cs v iss log = runFrom Str.env i cs v iss log := by
  intro cs
  induction cs with
  | nil => intros; rfl
  | cons c cs ih =>
    intro i v iss log hv
    cases c with
    | overwrite o =>
      simp only [runFrom]
      have e : StrU.env.apply o v = Str.env.apply o v := strU_apply_ascii o v hv
      rw [e]
      exact ih _ _ _ _ (apply_ascii_closed o v hv)
    | pred p a w =>
      cases w with
      | none =>
        simp only [runFrom]
        have e : StrU.env.holds p v = Str.env.holds p v := rfl
        simp only [e, fun iss log => ih (i + 1) v iss log hv]
      | some w =>
        simp only [runFrom]
        have e : StrU.env.holds p v = Str.env.holds p v := rfl
        have e2 : StrU.env.holds w v = Str.env.holds w v := rfl
        simp only [e, e2, fun iss log => ih (i + 1) v iss log hv]

/-- **The check loop.** -/
theorem strU_run_ascii (cs : List (Check Str.SPred Str.SOw)) (v : Bytes) (hv : StrU.isASCII v = true) :
    runChecks StrU.env cs v = runChecks Str.env cs v := strU_runFrom_ascii cs 0 v [] [] hv

theorem strU_firstPass_ascii (ps : Bool) : ∀ (cs : List (Check Str.SPred Str.SOw)) (i : Nat) (v : Bytes) (d : Bool) (log : List (Ev Bytes)),
    StrU.isASCII v = true → firstPassFrom StrU.env ps i cs v d log = firstPassFrom Str.env ps i cs v d log := by
  intro cs
  induction cs with
  | nil => intros; rfl
  | cons c cs ih =>
    intro i v d log hv
    cases c with
    | overwrite o =>
      simp only [firstPassFrom]
      have e : StrU.env.apply o v = Str.env.apply o v := strU_apply_ascii o v hv
      have hv2 : StrU.isASCII (Str.env.apply o v) = true := apply_ascii_closed o v hv
      simp only [e, fun d log => ih (i + 1) v d log hv, fun d log => ih (i + 1) _ d log hv2]
    | pred p a w =>
      cases w with
      | none => simp only [firstPassFrom, fun d log => ih (i + 1) v d log hv]
      | some w =>
        simp only [firstPassFrom]
        have e2 : StrU.env.holds w v = Str.env.holds w v := rfl
        simp only [e2, fun d log => ih (i + 1) v d log hv]

/-- **`validatePointer`** (value and pointer schemas, value and pointer inputs). -/
theorem strU_runOn_ascii (ps pin : Bool) (cs : List (Check Str.SPred Str.SOw)) (v : Bytes) (hv : StrU.isASCII v = true) :
    runChecksOn StrU.env ps pin cs v = runChecksOn Str.env ps pin cs v := by
  unfold runChecksOn
  rw [strU_run_ascii cs v hv, strU_firstPass_ascii ps cs 0 v false [] hv]

/-- **`ParsePrimitive`** of a string schema on a non-nil input with an ASCII payload: the Unicode model
    and the ASCII model answer the same. -/
theorem strU_parse_ascii (i : Prim.Internals Str.SPred Str.SOw Bytes) (x : Prim.Input Bytes)
    (hx : match x with | .val v | .ptr v => StrU.isASCII v = true | .foreign => True | _ => False) :
    Prim.parse StrU.env i x = Prim.parse Str.env i x := by
  cases x with
  | nil => exact absurd hx id
  | nilPtr => exact absurd hx id
  | foreign => rfl
  | val v => simp only [Prim.parse, Prim.checked]; rw [strU_runOn_ascii _ _ _ v hx]
  | ptr v => simp only [Prim.parse, Prim.checked]; rw [strU_runOn_ascii _ _ _ v hx]

example : StrU.isASCII [32, 65, 98, 32] = true ∧ StrU.trim [32, 65, 98, 32] = [65, 98] := by decide +kernel
-- outside the hypothesis the two models differ (U+0085 NEXT LINE is white space for Go, not for the ASCII model):
example : StrU.trim [0xC2, 0x85, 65] = [65] ∧ Str.trim [0xC2, 0x85, 65] = [0xC2, 0x85, 65] := by decide +kernel

/-! ### laws of the overwrites -/

theorem dropWhile_idem {α} (p : α → Bool) (l : List α) : (l.dropWhile p).dropWhile p = l.dropWhile p := by
  induction l with
  | nil => rfl
  | cons a l ih =>
    by_cases h : p a = true
    · simp [List.dropWhile_cons_of_pos h, ih]
    · simp only [Bool.not_eq_true] at h
      simp [List.dropWhile, h]

/-- `dropWhile` from the right of a list whose head fails `p` keeps that head (or empties nothing before it). -/
theorem dropWhile_snoc_head {α} (p : α → Bool) (a : α) (h : p a = false) : ∀ (r : List α),
    ∃ m, ((r ++ [a]).dropWhile p).reverse = a :: m := by
  intro r
  induction r with
  | nil => exact ⟨[], by simp [h]⟩
  | cons x r ih =>
    by_cases hx : p x = true
    · rw [List.cons_append, List.dropWhile_cons_of_pos hx]; exact ih
    · simp only [Bool.not_eq_true] at hx
      refine ⟨r.reverse ++ [x], ?_⟩
      simp [hx]

theorem dropWhile_rev_head {α} (p : α → Bool) (a : α) (l : List α) (h : p a = false) :
    ∃ m, ((a :: l).reverse.dropWhile p).reverse = a :: m := by
  rw [List.reverse_cons]; exact dropWhile_snoc_head p a h _

/-- **Trim is idempotent.** -/
theorem trim_idem (b : Bytes) : Str.trim (Str.trim b) = Str.trim b := by
  unfold Str.trim
  generalize hx : b.dropWhile Str.isSpace = x
  -- x does not start with white space
  have hx0 : x.dropWhile Str.isSpace = x := by rw [← hx]; exact dropWhile_idem _ _
  cases x with
  | nil => simp
  | cons a l =>
    have ha : Str.isSpace a = false := by
      cases h : Str.isSpace a with
      | false => rfl
      | true =>
        rw [List.dropWhile_cons_of_pos h] at hx0
        have := (List.dropWhile_sublist Str.isSpace (l := l)).length_le
        rw [hx0] at this; simp at this; omega
    obtain ⟨m, hm⟩ := dropWhile_rev_head Str.isSpace a l ha
    rw [hm]
    have h1 : (a :: m).dropWhile Str.isSpace = a :: m := by simp [List.dropWhile, ha]
    rw [h1, ← hm, List.reverse_reverse, dropWhile_idem]

/-- After `Trim` neither end of the value is a white-space byte. -/
theorem trim_no_space_ends (b : Bytes) :
    (∀ c, (Str.trim b).head? = some c → Str.isSpace c = false) ∧
    (∀ c, (Str.trim b).getLast? = some c → Str.isSpace c = false) := by
  have hlast : ∀ c, (Str.trim b).getLast? = some c → Str.isSpace c = false := by
    intro c hc
    unfold Str.trim at hc
    rw [List.getLast?_reverse] at hc
    cases h : Str.isSpace c with
    | false => rfl
    | true =>
      have := List.head?_dropWhile_not Str.isSpace ((List.dropWhile Str.isSpace b).reverse)
      rw [hc] at this
      simp [h] at this
  refine ⟨?_, hlast⟩
  intro c hc
  -- the head of trim b is the head of trim (trim b) = dropWhile … (trim b) …; use idempotence
  have hi := trim_idem b
  generalize ht : Str.trim b = t at hc hi
  cases t with
  | nil => simp at hc
  | cons a l =>
    simp only [List.head?_cons, Option.some.injEq] at hc; subst hc
    cases h : Str.isSpace a with
    | false => rfl
    | true =>
      exfalso
      unfold Str.trim at hi
      rw [List.dropWhile_cons_of_pos h] at hi
      have l1 := (List.dropWhile_sublist Str.isSpace (l := (List.dropWhile Str.isSpace l).reverse)).length_le
      have l2 := (List.dropWhile_sublist Str.isSpace (l := l)).length_le
      have := congrArg List.length hi
      simp only [List.length_reverse, List.length_cons] at this l1
      omega

theorem lowerByte_idem (c : Nat) : Str.lowerByte (Str.lowerByte c) = Str.lowerByte c := by
  unfold Str.lowerByte; split <;> (try split) <;> omega

theorem upperByte_idem (c : Nat) : Str.upperByte (Str.upperByte c) = Str.upperByte c := by
  unfold Str.upperByte; split <;> (try split) <;> omega

/-- **ToLowerCase / ToUpperCase are idempotent.** -/
theorem lower_idem (b : Bytes) : Str.apply .lower (Str.apply .lower b) = Str.apply .lower b := by
  simp [Str.apply, lowerByte_idem]

theorem upper_idem (b : Bytes) : Str.apply .upper (Str.apply .upper b) = Str.apply .upper b := by
  simp [Str.apply, upperByte_idem]

/-- After `ToLowerCase` the `Lowercase` check holds, after `ToUpperCase` the `Uppercase` check. -/
theorem lower_then_lowercase (b : Bytes) : Str.holds .lowercase (Str.apply .lower b) = true := by
  simp only [Str.holds, Str.apply, List.all_map, List.all_eq_true, Function.comp]
  intro x _; unfold Str.lowerByte; split <;> simp <;> omega

theorem upper_then_uppercase (b : Bytes) : Str.holds .uppercase (Str.apply .upper b) = true := by
  simp only [Str.holds, Str.apply, List.all_map, List.all_eq_true, Function.comp]
  intro x _; unfold Str.upperByte; split <;> simp <;> omega

/-- The three laws for Go's Unicode-aware functions, on ASCII input. -/
theorem strU_trim_idem (b : Bytes) (h : StrU.isASCII b = true) : StrU.trim (StrU.trim b) = StrU.trim b := by
  have h2 : StrU.isASCII (Str.trim b) = true := apply_ascii_closed .trim b h
  rw [trim_ascii b h, trim_ascii _ h2]; exact trim_idem b

theorem strU_lower_idem (b : Bytes) (h : StrU.isASCII b = true) : StrU.lower (StrU.lower b) = StrU.lower b := by
  have e := strU_apply_ascii .lower b h
  have e2 := strU_apply_ascii .lower _ (apply_ascii_closed .lower b h)
  simp only [StrU.apply] at e e2
  rw [e, e2]; exact lower_idem b

theorem strU_upper_idem (b : Bytes) (h : StrU.isASCII b = true) : StrU.upper (StrU.upper b) = StrU.upper b := by
  have e := strU_apply_ascii .upper b h
  have e2 := strU_apply_ascii .upper _ (apply_ascii_closed .upper b h)
  simp only [StrU.apply] at e e2
  rw [e, e2]; exact upper_idem b

/-! ### overwrites compose as the chain says -/

variable {P O T V : Type}

/-- The overwrites of a chain, in attachment order. -/
def overwritesOf : List (Check P O) → List O
  | [] => []
  | .overwrite o :: cs => o :: overwritesOf cs
  | .pred .. :: cs => overwritesOf cs

/-- **The value a chain hands on is the left-to-right composition of exactly its overwrites** — whatever
    predicates stand between them. With `c01_result` this is the returned value of every accepted input. -/
theorem seenAt_compose (env : Env P O T V) : ∀ (cs : List (Check P O)) (v : V),
    seenAt env cs cs.length v = (overwritesOf cs).foldl (fun x o => env.apply o x) v := by
  intro cs
  induction cs with
  | nil => intro v; rfl
  | cons c cs ih =>
    intro v
    cases c with
    | overwrite o => simp only [List.length_cons, seenAt, overwritesOf, List.foldl_cons]; exact ih _
    | pred p a w => simp only [List.length_cons, seenAt, overwritesOf]; exact ih _

/-- A chain without overwrites returns its input unchanged. -/
theorem seenAt_no_overwrite (env : Env P O T V) (cs : List (Check P O)) (v : V) (h : hasOverwrite cs = false) :
    seenAt env cs cs.length v = v := by
  rw [seenAt_compose]
  have : overwritesOf cs = [] := by
    induction cs with
    | nil => rfl
    | cons c cs ih =>
      cases c with
      | overwrite o => simp [hasOverwrite] at h
      | pred p a w => simp only [hasOverwrite] at h; simpa [overwritesOf] using ih h
  rw [this]; rfl

example : seenAt Str.env [.overwrite .trim, .pred (.minLen 1) false none, .overwrite .upper] 3 [32, 97, 32] = [65] := by decide

end Gozod.C01
