import Gozod.Drv.Loop
import Gozod.Drv.C11
def main : IO Unit := Gozod.Drv.runTokens Gozod.Drv.C11.handle
