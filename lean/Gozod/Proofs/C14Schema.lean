/-
  C14 — schema operations over the REGENERATED tables of C08 and C12 (round 4b).

  `C14.c14_schema_ops_read_only` (Proofs/C14.lean) is about the three hand-written operation classes of the store model.
  Here the same statement is made about what the translators of C08 and C12 extract from the library's working tree on
  every run, so that an edit of a chaining method or of the converter that starts writing shared state changes a proof
  obligation of C14 as well:

    * `Gen.methodOps` (harness/opsgen, C08): one row per exported method of a schema type whose result can be a schema —
      every chaining method, accessor and wrapper of every schema type.  `c14_chain_table_fresh`: for EVERY row, every one
      of its possible results and all run-time parameters, the store after the call extends the store before it: all
      writes go to locations the call allocated (which no other goroutine can reach before the call returns).
      `c14_chain_table_recv_writes`: the only writes rooted at the receiver anywhere in the table are sync.Once cache fills,
      and each of them is a location of the regenerated lock-set table (`Gen.LockSets.table`, C14's own translator) whose
      writes are all synchronised.  `c14_registry_writes_locked`: what `Describe`/`Meta` add to the registry is written
      inside `core.mu` in W mode, and every other access of the registry map holds the same mutex.
    * `Gen.ConvAccess` (harness/cmd/c12, C12): `c14_convert_table_private`: every write site of the converter writes memory
      the conversion made itself, no accessor result is mutated, every value stored into the document is private, no
      mutating method is called on schema data.
  `c14_schema_ops_table` puts them together: a schema operation's write set is fresh or under a lock.
-/
import Gozod.Proofs.C14
import Gozod.Proofs.C08Methods
import Gozod.Proofs.C12Access
import Gozod.Gen.LockSets

namespace Gozod.C14
open Gozod.Store Gozod.StoreC08 Gozod.LockSet

/-- every row of the regenerated method table is covered (C08.table_all_covered), as a statement about members -/
theorem methodOps_row_cls (r : MethodRow) (hr : r ∈ Gozod.Gen.methodOps) : r.cls = .covered ∨ r.cls = .memo := by
  have h := List.all_eq_true.mp C08.table_all_covered r hr
  simp only [Bool.or_eq_true, beq_iff_eq] at h
  exact h

/-- **c14_chain_table_fresh**: whatever method of the regenerated table a goroutine calls on a shared schema — any row, any
    of its syntactically possible results, any run-time parameters — every location that existed when the call started
    holds the same contents when it ends; the call's writes all go to locations ≥ σ.next, which it allocated itself. -/
theorem c14_chain_table_fresh (cfg : Cfg) (hcfg : cfg.cloneBagAlways = true) (σ : Store) (recv : Schema)
    (r : MethodRow) (hr : r ∈ Gozod.Gen.methodOps) (x : MethodResult) (hx : x ∈ r.results) (p : Params)
    (hc : BagClosed σ) (hw : WfS σ recv) :
    ExtFrom σ.next σ (applyXOp cfg σ recv (x.denote false p)).1 :=
  (C08.applyXOp_spec cfg hcfg σ recv _ hc hw
    (C08.denote_ok x (C08.covered_results r (methodOps_row_cls r hr) x hx) p)).1

/-- the hypotheses are inhabited -/
example : ∃ r ∈ Gozod.Gen.methodOps, r.results ≠ [] := by
  obtain ⟨r, hr, _, hne⟩ := C08.tcall_inhabited
  exact ⟨r, hr, hne⟩

/-! ### writes rooted at the receiver: only Once cache fills, each a synchronised location of the lock-set table -/

/-- the shared location (C14 lock-set table) a receiver-rooted cache fill (C08 method table: declaring type, path)
    writes.  A cache fill that is not listed here falsifies `c14_chain_table_recv_writes`. -/
def memoLocs : List (String × String × String) :=
  [("ZodLazy", "internals.innerType", "types.ZodLazyInternals.innerType")]

def memoLocOf (owner path : String) : Option String :=
  (memoLocs.find? (fun e => e.1 == owner && e.2.1 == path)).map (·.2.2)

/-- the location is in the lock-set table, it is written there, and every write is synchronised (inside once.Do, an
    atomic store, or under a mutex in W mode) -/
def writesSynchronised (t : List Access) (loc : String) : Bool :=
  let ws := t.filter (fun a => a.loc == loc && a.write)
  !ws.isEmpty && ws.all (fun a => match a.sync with | .none => false | .mutexR _ => false | _ => true)

def recvWritesOK (t : List Access) (r : MethodRow) : Bool :=
  r.recvWrites.all (fun w => match w with
    | .onceMemo p => (match memoLocOf r.owner p with | some loc => writesSynchronised t loc | none => false)
    | .write _ => false)

/-- **c14_chain_table_recv_writes**: over the WHOLE regenerated method table, the only writes rooted at the receiver are
    sync.Once cache fills, and every one of them is a location of the regenerated lock-set table all of whose writes
    are synchronised. -/
theorem c14_chain_table_recv_writes :
    Gozod.Gen.methodOps.all (recvWritesOK Gozod.Gen.LockSets.table) = true := by decide +kernel

/-- non-vacuity: the check is not trivially true — the rows `ZodLazy.Unwrap` / `Coerce` had before /repo 63e6816 (the cache
    fill was an assignment inside once.Do; since then it is an atomic Store, which C08's translator does not list) pass
    because the lock-set table has the location with synchronised writes, and a row writing its receiver anywhere else fails -/
example : recvWritesOK Gozod.Gen.LockSets.table
    ⟨"ZodLazy", "Unwrap", "ZodLazy", [⟨.access, 0, false, false, false, "", []⟩], [.onceMemo "internals.innerType"], false, false, [], []⟩ = true ∧
  recvWritesOK Gozod.Gen.LockSets.table
    ⟨"ZodBool", "Nilable", "ZodBool", [⟨.clone, 0, false, false, false, "", []⟩], [.write "SetNilable() on the receiver's internals"], false, false, [], []⟩ = false ∧
  recvWritesOK Gozod.Gen.LockSets.table
    ⟨"ZodX", "M", "ZodX", [⟨.access, 0, false, false, false, "", []⟩], [.onceMemo "internals.other"], false, false, [], []⟩ = false := by decide +kernel

/-- **c14_registry_writes_locked**: the registry map is written only inside `core.mu` held in W mode, and every access to
    it holds that mutex — what `Describe` / `Meta` (rows with `regResult`) add for their RESULT is under the lock. -/
theorem c14_registry_writes_locked :
    writesSynchronised Gozod.Gen.LockSets.table "core.Registry.meta" = true ∧
    (only "core.Registry.meta" Gozod.Gen.LockSets.table).all (fun a => mutexOf a.sync == some "core.mu" && wellLocked a) = true ∧
    Gozod.Gen.methodOps.all (fun r => !r.regRecv) = true := by decide +kernel

/-- non-vacuity: rows that register their result exist -/
example : (Gozod.Gen.methodOps.filter (·.regResult)).length ≥ 10 := by decide +kernel

/-! ### conversion -/

/-- **c14_convert_table_private**: over the tables regenerated from jsonschema/to.go — every write through a reference
    writes memory the conversion made itself; what an aliasing accessor handed out is only read; every value stored
    into the document is private; no mutating method is called on schema data. -/
theorem c14_convert_table_private :
    (∀ w ∈ Gozod.Gen.ConvAccess.writeSites, C12Access.Origin.isPrivate w.origin = true) ∧
    (∀ a ∈ Gozod.Gen.ConvAccess.accessorAlias, a.alias = true →
        ∀ w ∈ Gozod.Gen.ConvAccess.writeSites, C12Access.writesTo a.method w = false) ∧
    (∀ d ∈ Gozod.Gen.ConvAccess.docStores, C12Access.VOrigin.isPrivate d.origin = true) ∧
    Gozod.Gen.ConvAccess.mutatorCalls = [] :=
  ⟨C12Access.c12_writes_private, C12Access.c12_aliasing_accessors_read_only, C12Access.c12_doc_stores_private,
   C12Access.c12_no_mutator_calls⟩

/-! ### together -/

/-- a schema operation as the tables see it -/
inductive TOp
  | method (r : MethodRow) (x : MethodResult) (p : Params)   -- a row of `Gen.methodOps`, one of its results
  | conv                                                      -- ToJSONSchema
  | parseNil                                                  -- Parse(nil) resolving a default

def TOp.ok : TOp → Prop
  | .method r x _ => r ∈ Gozod.Gen.methodOps ∧ x ∈ r.results
  | _ => True

def runT (cfg : Cfg) (σ : Store) (s : Schema) : TOp → Store
  | .method _ x p => (applyXOp cfg σ s (x.denote false p)).1
  | .conv => (convert cfg σ s).1
  | .parseNil => (Store.parseNil cfg σ s).1

/-- **c14_schema_ops_table**: every schema operation — ANY method of the regenerated method table, conversion,
    default-resolving Parse — leaves every pre-existing store location untouched (its writes are fresh); the writes the
    store does not model are the Once cache fills and the registry insertions of the tables, which are synchronised
    locations of the regenerated lock-set table.  A method that starts writing its receiver, a converter write site that
    stops being private, or an unsynchronised cache breaks this theorem. -/
theorem c14_schema_ops_table (cfg : Cfg) (h1 : cfg.cloneBagAlways = true) (h2 : cfg.convScratch = true)
    (h3 : cfg.deepDefault = true) (σ : Store) (s : Schema) (o : TOp) (ho : o.ok)
    (hc : BagClosed σ) (hw : WfS σ s) (hd : C15.WfD σ.next σ.heap s) :
    ExtFrom σ.next σ (runT cfg σ s o) ∧
    Gozod.Gen.methodOps.all (recvWritesOK Gozod.Gen.LockSets.table) = true ∧
    writesSynchronised Gozod.Gen.LockSets.table "core.Registry.meta" = true ∧
    (∀ w ∈ Gozod.Gen.ConvAccess.writeSites, C12Access.Origin.isPrivate w.origin = true) := by
  refine ⟨?_, c14_chain_table_recv_writes, c14_registry_writes_locked.1, c14_convert_table_private.1⟩
  cases o with
  | method r x p => exact c14_chain_table_fresh cfg h1 σ s r ho.1 x ho.2 p hc hw
  | conv => simp only [runT]; rw [(C12.c12_pure cfg h2 σ s).1]; exact ExtFrom.refl _ _
  | parseNil => exact (C15.c15_result_fresh cfg h3 σ s hd).1

end Gozod.C14
