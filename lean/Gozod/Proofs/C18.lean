/-
  C18 — issue messages come from the most specific configured source, for every kind.
  See notes/C18.md.
-/
import Gozod.Model.Msg
import Gozod.Model.Config
import Gozod.Gen.MsgWiring
import Gozod.Gen.LocaleTable
namespace Gozod.C18
open Gozod.Msg

/-! ## The resolution chain of FinalizeIssue -/

/-- **finalize_priority**: for arbitrary error maps, the message FinalizeIssue assigns is the first
    non-empty of: the message already on the raw issue (the failing check's own message), the
    message of the schema/check instance, the per-parse map, the global custom map, the locale;
    and the built-in text when all of these are silent. -/
theorem finalize_priority {ρ : Type} (s : Sources ρ) (iss : ρ) :
    finalize s iss
      = firstNonEmpty [s.rawMsg, app s.inst iss, app s.parse iss, app s.custom iss, app s.locale iss] (s.dflt iss) := by
  unfold finalize configLevel firstNonEmpty firstNonEmpty firstNonEmpty firstNonEmpty firstNonEmpty firstNonEmpty
  by_cases h1 : s.rawMsg = "" <;> by_cases h2 : app s.inst iss = "" <;> by_cases h3 : app s.parse iss = ""
    <;> by_cases h4 : app s.custom iss = "" <;> by_cases h5 : app s.locale iss = "" <;> simp [h1, h2, h3, h4, h5]

/-- a non-empty check message always wins -/
theorem finalize_check_first {ρ : Type} (s : Sources ρ) (iss : ρ) (h : s.rawMsg ≠ "") :
    finalize s iss = s.rawMsg := by
  simp [finalize_priority, firstNonEmpty, h]

/-- the built-in text is used exactly when every configured source is silent -/
theorem finalize_default_last {ρ : Type} (s : Sources ρ) (iss : ρ)
    (h1 : s.rawMsg = "") (h2 : app s.inst iss = "") (h3 : app s.parse iss = "")
    (h4 : app s.custom iss = "") (h5 : app s.locale iss = "") : finalize s iss = s.dflt iss := by
  simp [finalize_priority, firstNonEmpty, h1, h2, h3, h4, h5]

/-- a source whose map answers "" for the issue is as good as not configured (shown for the
    per-parse map; the other sources are symmetric by `finalize_priority`) -/
theorem finalize_silent_parse {ρ : Type} (s : Sources ρ) (iss : ρ) (h : app s.parse iss = "") :
    finalize s iss = finalize { s with parse := none } iss := by
  have hn : app (none : Option (ErrMap ρ)) iss = "" := rfl
  rw [finalize_priority, finalize_priority]
  simp only [h, hn]

theorem finalize_silent_custom {ρ : Type} (s : Sources ρ) (iss : ρ) (h : app s.custom iss = "") :
    finalize s iss = finalize { s with custom := none } iss := by
  have hn : app (none : Option (ErrMap ρ)) iss = "" := rfl
  rw [finalize_priority, finalize_priority]
  simp only [h, hn]

example : finalize (ρ := Nat)
    { rawMsg := "", inst := none, parse := some (fun n => if n = 0 then "" else "per-parse"),
      custom := some (fun _ => "custom"), locale := some (fun _ => "locale"), dflt := fun _ => "Invalid input" } 0
    = "custom" := by decide

/-! ## Sites -/

/-- **site_winner**: under sentinel maps a site's message is the tag of the first source, in
    priority order, that is both configured and passed by the site — so a site that passes every
    applicable source satisfies the property for every configuration. -/
theorem site_winner (passes cfg : SrcSet) : siteMessage passes cfg = firstConfigured (passes.inter cfg) := by
  obtain ⟨a, b, c, d, e⟩ := passes
  obtain ⟨a', b', c', d', e'⟩ := cfg
  cases a <;> cases b <;> cases c <;> cases d <;> cases e <;>
  cases a' <;> cases b' <;> cases c' <;> cases d' <;> cases e' <;> decide

theorem firstConfigured_inter (passes cfg : SrcSet) (h : cfg.subset passes = true) :
    firstConfigured (passes.inter cfg) = firstConfigured cfg := by
  obtain ⟨a, b, c, d, e⟩ := passes
  obtain ⟨a', b', c', d', e'⟩ := cfg
  revert h
  cases a <;> cases b <;> cases c <;> cases d <;> cases e <;>
  cases a' <;> cases b' <;> cases c' <;> cases d' <;> cases e' <;> decide

/-! ### The gaps: sources a leaf's code does not hand to FinalizeIssue (open known findings,
    keyed `wire:<leaf>:missing-<sources>` in known-findings.txt) -/

/-- leaf ↦ sources that do not reach FinalizeIssue there (in every wrapper) -/
def gaps : List (String × SrcSet) := [
  -- the schema's own message is not consulted for issues raised by its checks
  ("small-string", .ofString "s"), ("big-string", .ofString "s"), ("small-int", .ofString "s"), ("big-int", .ofString "s"),
  ("small-float", .ofString "s"), ("small-map", .ofString "s"), ("small-record", .ofString "s"),
  ("format-email", .ofString "s"), ("format-regex", .ofString "s"), ("format-starts", .ofString "s"),
  ("format-includes", .ofString "s"), ("format-json", .ofString "s"), ("multiple-int", .ofString "s"), ("multiple-float", .ofString "s"),
  ("small-set", .ofString "s"), ("format-lowercase", .ofString "s"), ("small-string-length", .ofString "s"), ("small-int-positive", .ofString "s"),
  -- container / union / literal / network-format schemas ignore their own message for their type issue
  ("type-object", .ofString "s"), ("type-slice", .ofString "s"), ("type-array", .ofString "s"), ("type-record", .ofString "s"),
  ("type-map", .ofString "s"), ("type-literal", .ofString "s"), ("union", .ofString "s"), ("union-discriminated", .ofString "s"),
  ("format-ipv4-type", .ofString "s"), ("format-url-type", .ofString "s"), ("type-set", .ofString "s"), ("union-xor", .ofString "s"),
  -- issues finalised with a fresh ParseContext: the per-parse map is lost as well
  ("small-slice", .ofString "sp"), ("big-slice", .ofString "sp"), ("small-slice-nonempty", .ofString "sp"), ("big-array-length", .ofString "sp"),
  ("keys-strict-object", .ofString "sp"), ("key-record", .ofString "p"), ("element-array", .ofString "p"),
  -- issues raised with a preset message: nothing is consulted
  ("type-field-missing", .ofString "spgl"), ("value-enum", .ofString "pgl"),
  ("custom-refine-string", .ofString "spgl"), ("custom-refine-int", .ofString "spgl"),
  ("custom-refine-object", .ofString "spgl"), ("custom-refine-slice", .ofString "spgl")]

def gapOf (leaf : String) : SrcSet := (gaps.lookup leaf).getD SrcSet.empty

/-- the full statement over the regenerated table: every site hands every applicable source on -/
def c18_wired_full : Prop := ∀ s ∈ Gozod.Gen.sites, s.applicable.subset s.passes = true

/-- **c18_wired_partial** (decided over the wiring regenerated from the code): outside the listed
    gaps every site passes every applicable source. -/
theorem c18_wired_partial :
    ∀ s ∈ Gozod.Gen.sites, (s.applicable.diff (gapOf s.leaf)).subset s.passes = true := by
  decide +kernel

theorem subset_component (p c a g : Bool) (h1 : (!(a && !g) || p) = true) (h2 : (!c || a) = true)
    (h3 : (c && g) = false) : (!c || p) = true := by
  cases p <;> cases c <;> cases a <;> cases g <;> simp_all

theorem subset_of_gap (ps cfg ap g : SrcSet) (hw : (ap.diff g).subset ps = true)
    (happl : cfg.subset ap = true) (hgap : cfg.inter g = SrcSet.empty) : cfg.subset ps = true := by
  obtain ⟨a, b, c, d, e⟩ := ps
  obtain ⟨a', b', c', d', e'⟩ := cfg
  obtain ⟨a'', b'', c'', d'', e''⟩ := ap
  obtain ⟨x, y, z, u, v⟩ := g
  simp only [SrcSet.subset, SrcSet.diff, SrcSet.inter, SrcSet.empty, SrcSet.mk.injEq, Bool.and_eq_true]
    at hw happl hgap ⊢
  obtain ⟨⟨⟨⟨w1, w2⟩, w3⟩, w4⟩, w5⟩ := hw
  obtain ⟨⟨⟨⟨q1, q2⟩, q3⟩, q4⟩, q5⟩ := happl
  obtain ⟨p1, p2, p3, p4, p5⟩ := hgap
  exact ⟨⟨⟨⟨subset_component _ _ _ _ w1 q1 p1, subset_component _ _ _ _ w2 q2 p2⟩,
    subset_component _ _ _ _ w3 q3 p3⟩, subset_component _ _ _ _ w4 q4 p4⟩, subset_component _ _ _ _ w5 q5 p5⟩

/-- **c18_all_sites_partial**: at every site of the table (every issue kind × raising schema ×
    top-level / nested position) and for every configuration of the applicable sources that stays
    outside the site's gap, the message comes from the first configured source. -/
theorem c18_all_sites_partial (s : Site) (hs : s ∈ Gozod.Gen.sites) (cfg : SrcSet)
    (happl : cfg.subset s.applicable = true) (hgap : (cfg.inter (gapOf s.leaf)) = SrcSet.empty) :
    siteMessage s.passes cfg = firstConfigured cfg := by
  rw [site_winner]
  exact firstConfigured_inter _ _ (subset_of_gap _ _ _ _ (c18_wired_partial s hs) happl hgap)

/-- a gap falsifies the priority rule: a site that drops a source shows another source's
    message (or the built-in text) when only that source is configured -/
theorem gap_breaks_priority :
    siteMessage (.ofString "c") (.ofString "g") ≠ firstConfigured (.ofString "g") ∧
    siteMessage (.ofString "cgl") (.ofString "pl") = "l" ∧ firstConfigured (.ofString "pl") = "p" := by
  decide

/-- witness (a snapshot of the row the extraction produced on the pinned tree, kept as a constant
    so that a repaired library does not break the build): `Enum("a","b").Parse("zz")` presets its
    message, so no configured source is consulted — the full statement fails there -/
def enumSiteSnapshot : Site := ⟨"value-enum", "top", "invalid_value", .ofString "pgl", .ofString "", "d", .ofString ""⟩

theorem c18_wired_full_false :
    enumSiteSnapshot.applicable.subset enumSiteSnapshot.passes = false ∧
    enumSiteSnapshot.winner (.ofString "l") = "d" ∧ firstConfigured (.ofString "l") = "l" := by
  decide

/-- with nothing configured every site shows the built-in text (never an empty message) -/
theorem c18_base_nonempty : ∀ s ∈ Gozod.Gen.sites, s.base = "d" := by decide +kernel

example : (⟨"type-string", "slice-element", "invalid_type", .ofString "spgl", .ofString "spgl", "d", .ofString "spgl"⟩ : Site)
    ∈ Gozod.Gen.sites := by decide +kernel

/-! ## Locales -/

/-- **c18_locales**: every bundled locale returns a non-empty message for every issue kind of the
    regenerated catalogue. -/
theorem c18_locales : ∀ row ∈ Gozod.Gen.localeTable, ∀ cell ∈ row.2, cell.2 = true := by decide +kernel

/-- the kinds the property names; the catalogue must contain each of them for every locale -/
def requiredKinds : List String := [
  "invalid_type:string", "invalid_type:int", "invalid_type:float64", "invalid_type:bool", "invalid_type:object",
  "invalid_type:slice", "invalid_type:array", "invalid_type:map", "invalid_type:record",
  "too_small:string", "too_big:string", "too_small:number", "too_big:number", "too_small:int", "too_big:int",
  "too_small:array", "too_big:array", "too_small:slice", "too_big:slice", "too_small:map", "too_big:map",
  "too_small:set", "too_big:set", "too_small:file", "too_big:file",
  "invalid_format:email", "invalid_format:url", "invalid_format:uuid", "invalid_format:regex", "invalid_format:starts_with",
  "invalid_format:ends_with", "invalid_format:includes", "invalid_format:datetime", "invalid_format:date", "invalid_format:time",
  "invalid_format:duration", "invalid_format:ipv4", "invalid_format:ipv6", "invalid_format:cidrv4", "invalid_format:cidrv6",
  "invalid_format:base64", "invalid_format:base64url", "invalid_format:json_string", "invalid_format:e164", "invalid_format:jwt",
  "invalid_format:emoji", "invalid_format:nanoid", "invalid_format:guid", "invalid_format:cuid", "invalid_format:cuid2",
  "invalid_format:ulid", "invalid_format:xid", "invalid_format:ksuid", "invalid_format:mac", "invalid_format:lowercase",
  "invalid_format:uppercase",
  "not_multiple_of", "unrecognized_keys", "invalid_union", "invalid_value", "invalid_element:array", "invalid_key:bare", "custom"]

def requiredLocales : List String := [
  "ar", "bg", "cs", "da", "de", "en", "es", "fa", "fi", "fr", "he", "hu", "id", "it", "ja", "ko", "ms", "nl", "no",
  "pl", "pt", "ru", "sv", "ta", "th", "tr", "uk", "ur", "vi", "zh", "zh-CN", "zh-TW"]

/-- **c18_locales_cover**: the regenerated table has a row for every bundled locale and, in every
    row, a (non-empty) cell for every kind the property names. -/
theorem c18_locales_cover :
    (∀ l ∈ requiredLocales, (Gozod.Gen.localeTable.lookup l).isSome = true) ∧
    (∀ row ∈ Gozod.Gen.localeTable, ∀ k ∈ requiredKinds, row.2.lookup k = some true) := by
  decide +kernel

section SetConfigHistories
open Gozod.Config

/-! ## SetConfig histories -/

theorem run_snoc {α : Type} (h : List (Call α)) (c : Call α) : run (h ++ [c]) = step (run h) c := by
  simp [run, List.foldl_append]

theorem run_reverse {α : Type} (r : List (Call α)) : run r.reverse = ⟨lastCustom r, lastLocale r⟩ := by
  induction r with
  | nil => rfl
  | cons c r ih =>
    rw [List.reverse_cons, run_snoc, ih]
    cases c with
    | reset => simp [step, lastCustom, lastLocale, Cfg.zero]
    | set cu lo => cases cu <;> cases lo <;> simp [step, lastCustom, lastLocale]

/-- **setconfig_history**: after ANY history of SetConfig calls the stored configuration is, field by
    field, the last non-nil value passed for that field since the last reset. -/
theorem setconfig_history {α : Type} (h : List (Call α)) : run h = spec h := by
  have := run_reverse h.reverse
  simpa [spec] using this

/-- consequences used by the harness: a later call that passes only one field keeps the other -/
theorem setconfig_keeps_locale {α : Type} (h : List (Call α)) (x : α) :
    (run (h ++ [.set (some x) none])).locale = (run h).locale := by
  rw [run_snoc]; simp [step]

theorem setconfig_keeps_custom {α : Type} (h : List (Call α)) (x : α) :
    (run (h ++ [.set none (some x)])).custom = (run h).custom := by
  rw [run_snoc]; simp [step]

/-- witness: a SetConfig whose locale field inherits the current custom map falsifies the history
    theorem — locale installed first, custom map second (the order the table of cells now covers) -/
theorem crossed_setconfig_breaks_history :
    ([Call.set none (some "de"), Call.set (some "cus") none].foldl stepCrossed Cfg.zero).locale = none ∧
    (spec [Call.set none (some "de"), Call.set (some "cus") none]).locale = some "de" := by
  decide

example : run [Call.set (some 1) (some 2), .reset, .set none (some 3), .set (some 4) none, .set none none]
    = ⟨some 4, some 3⟩ := by decide


end SetConfigHistories

end Gozod.C18
