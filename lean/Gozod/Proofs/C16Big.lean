/-
  C16 on big operands (`*big.Int`, the BigInt schema): the model of `compareNumeric` / `MultipleOf`
  outside `toNum` (`Model/NumBig.lean`: `xcmp`, `xmul` — what `driver_c16` runs on `xcmp` / `xmul`
  lines) decides the comparison / divisibility of the denoted numbers.

  * `c16_big_cmp`       — every pair of integer operands (big integers, uintptr, the ten built-in
                          integer kinds, in any mixture): `xcmp op a b = op.holdsInt x y`, the order
                          of the denoted integers — unbounded (2^53+1 vs 2^53, 2^1024, …);
  * `c16_xcmp_exact`    — every pair of operands that denote a number exactly (the above and
                          float64, NaN / ±Inf included): `xcmp` is the mathematical comparison of
                          the values (`specXcmp`), false with a NaN;
  * `c16_big_multiple`  — integer operands: `xmul a b ↔ d ≠ 0 ∧ d ∣ v`;
  * `xcmp_num`, `xmul_num` — on operands `toNum` holds, `xcmp` / `xmul` ARE `implCmp` /
                          `NumFloat.multipleOfNum` (the definitions the other C16 theorems are about).
-/
import Gozod.Proofs.C16
import Gozod.Model.NumBig
set_option maxRecDepth 100000
set_option exponentiation.threshold 2000
namespace Gozod.C16B
open Gozod Gozod.NumBig

/-- Payload ranges: a built-in operand fits its holder, a uintptr is a uint64; big integers are unbounded. -/
def Opnd.wf : Opnd → Prop
  | .num n => C16.Num.wf n
  | .uptr v => IntTy.u64.inRange v
  | _ => True

theorem implCmp_verdict (op : CmpOp) (x y : Num) : implCmp op x y = verdict op (cmpNum x y) := by
  unfold implCmp; cases cmpNum x y <;> rfl

theorem specCmp_verdict (op : CmpOp) (x y : Num) : specCmp op x y = verdict op (F.cmp x.toF y.toF) := by
  unfold specCmp; cases F.cmp x.toF y.toF <;> rfl

theorem xcmp_num (op : CmpOp) (x y : Num) : xcmp op (.num x) (.num y) = implCmp op x y := by
  simp [xcmp, verdict, xcmpOrd, isNamed, Opnd.toNum?, implCmp_verdict]

theorem floatMul_nanL (x y : F) (h : x.isNaN = true) : NumFloat.floatMultipleOf x y = false := by
  unfold NumFloat.floatMultipleOf; rw [h]; rfl

theorem floatMul_nanR (x y : F) (h : y.isNaN = true) : NumFloat.floatMultipleOf x y = false := by
  unfold NumFloat.floatMultipleOf; rw [h, Bool.or_true]; rfl

theorem xval_f (x : F) : xval (.num (.f x)) = if x.isNaN then none else some x := rfl
theorem xval_i (v : Int) : xval (.num (.i v)) = some (NumFloat.numToF (.i v)) := rfl
theorem xval_u (v : Int) : xval (.num (.u v)) = some (NumFloat.numToF (.u v)) := rfl

theorem floatBranch_num (a b : Num) :
    floatBranch (.num a) (.num b) = NumFloat.floatMultipleOf (NumFloat.numToF a) (NumFloat.numToF b) := by
  unfold floatBranch
  cases a with
  | f x =>
    rw [xval_f]
    by_cases hx : x.isNaN = true
    · rw [if_pos hx]; exact (floatMul_nanL _ _ hx).symm
    · rw [if_neg hx]
      cases b with
      | f y =>
        rw [xval_f]
        by_cases hy : y.isNaN = true
        · rw [if_pos hy]; exact (floatMul_nanR _ _ hy).symm
        · rw [if_neg hy]; rfl
      | i w => rfl
      | u w => rfl
  | i v =>
    rw [xval_i]
    cases b with
    | f y =>
      rw [xval_f]
      by_cases hy : y.isNaN = true
      · rw [if_pos hy]; exact (floatMul_nanR _ _ hy).symm
      · rw [if_neg hy]; rfl
    | i w => rfl
    | u w => rfl
  | u v =>
    rw [xval_u]
    cases b with
    | f y =>
      rw [xval_f]
      by_cases hy : y.isNaN = true
      · rw [if_pos hy]; exact (floatMul_nanR _ _ hy).symm
      · rw [if_neg hy]; rfl
    | i w => rfl
    | u w => rfl

theorem xmul_num (x y : Num) : xmul (.num x) (.num y) = NumFloat.multipleOfNum x y := by
  have hp := floatBranch_num x y
  cases x <;> cases y <;>
    simp only [xmul, intsBranch, bigsBranch, isNamed, Opnd.toNum?, isFloatNum, isBigOp, NumFloat.multipleOfNum, Bool.or_self,
      Bool.false_eq_true, ↓reduceIte, Bool.or_true, Bool.or_false, Option.getD_some, Option.getD_none] <;>
    first | rfl | exact hp

theorem cmp_fin0 (x y : Int) : F.cmp (.fin x 0) (.fin y 0) = some (compare x y) := by
  simp [F.cmp]

theorem toNum_toF (a : Opnd) (n : Num) (x : F) (h : a.toNum? = some n) (hv : a.value? = some x) : n.toF = x := by
  cases a <;> simp [Opnd.toNum?, Opnd.value?] at h hv
  · subst h; exact hv
  · subst h; subst hv; rfl

theorem toNum_wf (a : Opnd) (n : Num) (h : a.toNum? = some n) (w : Opnd.wf a) : C16.Num.wf n := by
  cases a <;> simp [Opnd.toNum?] at h
  · subst h; exact w
  · subst h; exact w

theorem flip_compare' (x y : Int) : Ordering.flip (compare x y) = compare y x := C16.flip_compare x y

/-- **Every pair of operands that denote a number exactly: `xcmp` is the mathematical comparison.** -/
theorem c16_xcmp_exact (op : CmpOp) (a b : Opnd) (x y : F) (ha : a.value? = some x) (hb : b.value? = some y)
    (wa : Opnd.wf a) (wb : Opnd.wf b) :
    xcmp op a b = verdict op (F.cmp x y) := by
  have hspec : ∀ (n m : Num), a.toNum? = some n → b.toNum? = some m →
      xcmp op a b = verdict op (F.cmp x y) := by
    intro n m hn hm
    have hna : isNamed a = false := by cases a <;> simp_all [Opnd.toNum?, isNamed]
    have hnb : isNamed b = false := by cases b <;> simp_all [Opnd.toNum?, isNamed]
    have h1 : xcmp op a b = implCmp op n m := by
      simp [xcmp, verdict, xcmpOrd, hna, hnb, hn, hm, implCmp_verdict]
    rw [h1, C16.c16_cmp op n m (toNum_wf a n hn wa) (toNum_wf b m hm wb), specCmp_verdict]
    rw [toNum_toF a n x hn ha, toNum_toF b m y hm hb]
  cases a with
  | named => simp [Opnd.value?] at ha
  | cplx _ => simp [Opnd.value?] at ha
  | num n =>
    cases b with
    | named => simp [Opnd.value?] at hb
    | cplx _ => simp [Opnd.value?] at hb
    | num m => exact hspec n m rfl rfl
    | uptr w => exact hspec n (.u w) rfl rfl
    | big w =>
      simp only [Opnd.value?, Option.some.injEq] at ha hb
      subst ha; subst hb
      cases n with
      | i v => simp [xcmp, verdict, xcmpOrd, isNamed, Opnd.toNum?, isBigOp, cmpBigOp, Opnd.toBig?, Num.toF, F.ofInt, F.cmp]
      | u v => simp [xcmp, verdict, xcmpOrd, isNamed, Opnd.toNum?, isBigOp, cmpBigOp, Opnd.toBig?, Num.toF, F.ofInt, F.cmp]
      | f z =>
        cases z with
        | nan => simp [xcmp, verdict, xcmpOrd, isNamed, Opnd.toNum?, isBigOp, cmpBigOp, Opnd.toBig?, bigVsFloat, Num.toF, F.cmp]
        | pinf => simp [xcmp, verdict, xcmpOrd, isNamed, Opnd.toNum?, isBigOp, cmpBigOp, Opnd.toBig?, bigVsFloat, Num.toF, F.cmp, Ordering.flip]
        | ninf => simp [xcmp, verdict, xcmpOrd, isNamed, Opnd.toNum?, isBigOp, cmpBigOp, Opnd.toBig?, bigVsFloat, Num.toF, F.cmp, Ordering.flip]
        | fin c k =>
          simp [xcmp, verdict, xcmpOrd, isNamed, Opnd.toNum?, isBigOp, cmpBigOp, Opnd.toBig?, bigVsFloat, Num.toF, F.cmp, flip_compare']
  | uptr v =>
    cases b with
    | named => simp [Opnd.value?] at hb
    | cplx _ => simp [Opnd.value?] at hb
    | num m => exact hspec (.u v) m rfl rfl
    | uptr w => exact hspec (.u v) (.u w) rfl rfl
    | big w =>
      simp only [Opnd.value?, Option.some.injEq] at ha hb
      subst ha; subst hb
      simp [xcmp, verdict, xcmpOrd, isNamed, Opnd.toNum?, isBigOp, cmpBigOp, Opnd.toBig?, F.cmp]
  | big v =>
    simp only [Opnd.value?, Option.some.injEq] at ha
    subst ha
    cases b with
    | named => simp [Opnd.value?] at hb
    | cplx _ => simp [Opnd.value?] at hb
    | uptr w =>
      simp only [Opnd.value?, Option.some.injEq] at hb; subst hb
      simp [xcmp, verdict, xcmpOrd, isNamed, Opnd.toNum?, isBigOp, cmpBigOp, Opnd.toBig?, F.cmp]
    | big w =>
      simp only [Opnd.value?, Option.some.injEq] at hb; subst hb
      simp [xcmp, verdict, xcmpOrd, isNamed, Opnd.toNum?, isBigOp, cmpBigOp, Opnd.toBig?, F.cmp]
    | num m =>
      simp only [Opnd.value?, Option.some.injEq] at hb; subst hb
      cases m with
      | i w => simp [xcmp, verdict, xcmpOrd, isNamed, Opnd.toNum?, isBigOp, cmpBigOp, Opnd.toBig?, Num.toF, F.ofInt, F.cmp]
      | u w => simp [xcmp, verdict, xcmpOrd, isNamed, Opnd.toNum?, isBigOp, cmpBigOp, Opnd.toBig?, Num.toF, F.ofInt, F.cmp]
      | f z =>
        cases z with
        | nan => simp [xcmp, verdict, xcmpOrd, isNamed, Opnd.toNum?, isBigOp, cmpBigOp, Opnd.toBig?, bigVsFloat, Num.toF, F.cmp]
        | pinf => simp [xcmp, verdict, xcmpOrd, isNamed, Opnd.toNum?, isBigOp, cmpBigOp, Opnd.toBig?, bigVsFloat, Num.toF, F.cmp]
        | ninf => simp [xcmp, verdict, xcmpOrd, isNamed, Opnd.toNum?, isBigOp, cmpBigOp, Opnd.toBig?, bigVsFloat, Num.toF, F.cmp]
        | fin c k =>
          simp [xcmp, verdict, xcmpOrd, isNamed, Opnd.toNum?, isBigOp, cmpBigOp, Opnd.toBig?, bigVsFloat, Num.toF, F.cmp]

/-- …which is what the driver's spec column says. -/
theorem c16_xcmp_spec (op : CmpOp) (a b : Opnd) (s : Bool) (h : specXcmp op a b = some s)
    (wa : Opnd.wf a) (wb : Opnd.wf b) : xcmp op a b = s := by
  unfold specXcmp at h
  cases hx : a.value? with
  | none => simp [hx] at h
  | some x =>
    cases hy : b.value? with
    | none => simp [hx, hy] at h
    | some y =>
      rw [c16_xcmp_exact op a b x y hx hy wa wb]
      simp only [hx, hy] at h
      injection h

theorem intValue_value (a : Opnd) (x : Int) (h : a.intValue? = some x) : a.value? = some (.fin x 0) := by
  cases a with
  | num n => cases n <;> simp_all [Opnd.intValue?, Opnd.value?, Num.toF, F.ofInt]
  | uptr v => simp_all [Opnd.intValue?, Opnd.value?]
  | big v => simp_all [Opnd.intValue?, Opnd.value?]
  | named => simp [Opnd.intValue?] at h
  | cplx _ => simp [Opnd.intValue?] at h

/-- **C16 on big operands: `xcmp` is the comparison of the denoted integers** — for every pair of
    integer operands (big integers of any size, uintptr, built-in integers), in either position. -/
theorem c16_big_cmp (op : CmpOp) (a b : Opnd) (x y : Int) (ha : a.intValue? = some x) (hb : b.intValue? = some y)
    (wa : Opnd.wf a) (wb : Opnd.wf b) : xcmp op a b = op.holdsInt x y := by
  rw [c16_xcmp_exact op a b _ _ (intValue_value a x ha) (intValue_value b y hb) wa wb, cmp_fin0]
  exact C16.ofOrdering_compare op x y

example : xcmp .gt (.big (2 ^ 53 + 1)) (.big (2 ^ 53)) = true ∧ xcmp .gt (.big (2 ^ 1024)) (.num (.i 0)) = true ∧
    xcmp .lt (.num (.u (2 ^ 64 - 1))) (.big (2 ^ 64)) = true ∧ xcmp .gte (.big 5) (.num (.f .nan)) = false := by decide

theorem bigRemZero_exact (x y : Int) : bigRemZero x y = specMultipleOfInt x y := by
  unfold bigRemZero specMultipleOfInt
  by_cases hy : y = 0
  · subst hy; simp
  · have := C16.tmod_eq_zero_iff_dvd x y
    by_cases hd : y ∣ x <;> simp_all

/-- **MultipleOf on big operands: exactly integer divisibility, zero divisor accepts nothing.** -/
theorem c16_big_multiple (a b : Opnd) (v d : Int) (ha : a.intValue? = some v) (hb : b.intValue? = some d)
    (wa : Opnd.wf a) (wb : Opnd.wf b) : xmul a b = specMultipleOfInt v d := by
  have hnum : ∀ (n m : Num), a.toNum? = some n → b.toNum? = some m → C16.ival n = v → C16.ival m = d →
      C16.isInt n = true → C16.isInt m = true → xmul a b = specMultipleOfInt v d := by
    intro n m hn hm hv hd hin him
    have hna : isNamed a = false := by cases a <;> simp_all [Opnd.toNum?, isNamed]
    have hnb : isNamed b = false := by cases b <;> simp_all [Opnd.toNum?, isNamed]
    have hfn : isFloatNum n = false := by cases n <;> simp_all [isFloatNum, C16.isInt]
    have hfm : isFloatNum m = false := by cases m <;> simp_all [isFloatNum, C16.isInt]
    have : xmul a b = multipleOfInts n m := by simp [xmul, intsBranch, hna, hnb, hn, hm, hfn, hfm]
    rw [this, C16.multipleOfInts_exact n m (toNum_wf a n hn wa) (toNum_wf b m hm wb) hin him, hv, hd]
  have hbig : ∀ (hbg : (isBigOp a || isBigOp b) = true), a.toBig? = some v → b.toBig? = some d →
      (a.toNum? = none ∨ b.toNum? = none) → xmul a b = specMultipleOfInt v d := by
    intro hbg hta htb hno
    have hna : isNamed a = false := by cases a <;> simp_all [Opnd.toBig?, isNamed]
    have hnb : isNamed b = false := by cases b <;> simp_all [Opnd.toBig?, isNamed]
    have hints : intsBranch a b = none := by
      unfold intsBranch
      rcases hno with h | h <;> rw [h] <;> (try rfl)
      cases a.toNum? <;> rfl
    unfold xmul
    rw [hints]
    simp only [hna, hnb, Bool.or_self, Bool.false_eq_true, ↓reduceIte, bigsBranch, hbg, hta, htb, Option.getD_none, Option.getD_some]
    exact bigRemZero_exact v d
  cases a with
  | named => simp [Opnd.intValue?] at ha
  | cplx _ => simp [Opnd.intValue?] at ha
  | big x =>
    simp only [Opnd.intValue?, Option.some.injEq] at ha; subst ha
    have htb : b.toBig? = some d := by
      cases b with
      | num n => cases n <;> simp_all [Opnd.intValue?, Opnd.toBig?]
      | uptr _ => simp_all [Opnd.intValue?, Opnd.toBig?]
      | big _ => simp_all [Opnd.intValue?, Opnd.toBig?]
      | named => simp [Opnd.intValue?] at hb
      | cplx _ => simp [Opnd.intValue?] at hb
    exact hbig (by simp [isBigOp]) rfl htb (Or.inl rfl)
  | uptr x =>
    simp only [Opnd.intValue?, Option.some.injEq] at ha; subst ha
    cases b with
    | named => simp [Opnd.intValue?] at hb
    | cplx _ => simp [Opnd.intValue?] at hb
    | big y =>
      simp only [Opnd.intValue?, Option.some.injEq] at hb; subst hb
      exact hbig (by simp [isBigOp]) rfl rfl (Or.inr rfl)
    | uptr y =>
      simp only [Opnd.intValue?, Option.some.injEq] at hb; subst hb
      exact hnum (.u _) (.u _) rfl rfl rfl rfl rfl rfl
    | num m =>
      cases m with
      | f _ => simp [Opnd.intValue?] at hb
      | i y => simp only [Opnd.intValue?, Option.some.injEq] at hb; subst hb; exact hnum (.u _) (.i _) rfl rfl rfl rfl rfl rfl
      | u y => simp only [Opnd.intValue?, Option.some.injEq] at hb; subst hb; exact hnum (.u _) (.u _) rfl rfl rfl rfl rfl rfl
  | num n =>
    cases n with
    | f _ => simp [Opnd.intValue?] at ha
    | i x =>
      simp only [Opnd.intValue?, Option.some.injEq] at ha; subst ha
      cases b with
      | named => simp [Opnd.intValue?] at hb
      | cplx _ => simp [Opnd.intValue?] at hb
      | big y =>
        simp only [Opnd.intValue?, Option.some.injEq] at hb; subst hb
        exact hbig (by simp [isBigOp]) rfl rfl (Or.inr rfl)
      | uptr y =>
        simp only [Opnd.intValue?, Option.some.injEq] at hb; subst hb
        exact hnum (.i _) (.u _) rfl rfl rfl rfl rfl rfl
      | num m =>
        cases m with
        | f _ => simp [Opnd.intValue?] at hb
        | i y => simp only [Opnd.intValue?, Option.some.injEq] at hb; subst hb; exact hnum (.i _) (.i _) rfl rfl rfl rfl rfl rfl
        | u y => simp only [Opnd.intValue?, Option.some.injEq] at hb; subst hb; exact hnum (.i _) (.u _) rfl rfl rfl rfl rfl rfl
    | u x =>
      simp only [Opnd.intValue?, Option.some.injEq] at ha; subst ha
      cases b with
      | named => simp [Opnd.intValue?] at hb
      | cplx _ => simp [Opnd.intValue?] at hb
      | big y =>
        simp only [Opnd.intValue?, Option.some.injEq] at hb; subst hb
        exact hbig (by simp [isBigOp]) rfl rfl (Or.inr rfl)
      | uptr y =>
        simp only [Opnd.intValue?, Option.some.injEq] at hb; subst hb
        exact hnum (.u _) (.u _) rfl rfl rfl rfl rfl rfl
      | num m =>
        cases m with
        | f _ => simp [Opnd.intValue?] at hb
        | i y => simp only [Opnd.intValue?, Option.some.injEq] at hb; subst hb; exact hnum (.u _) (.i _) rfl rfl rfl rfl rfl rfl
        | u y => simp only [Opnd.intValue?, Option.some.injEq] at hb; subst hb; exact hnum (.u _) (.u _) rfl rfl rfl rfl rfl rfl

example : xmul (.big (2 ^ 53 + 1)) (.big 2) = false ∧ xmul (.big 1) (.big (2 ^ 53)) = false ∧
    xmul (.big (3 * 2 ^ 200)) (.num (.i 3)) = true ∧ xmul (.big 7) (.big 0) = false := by decide

end Gozod.C16B
