/-
  C08 at the level of CONTENT for the schemas that hold other schemas or value lists (`Model/StoreC08H.lean`): unions,
  xors and intersections (`Or` / `And` results hold the receiver), enums (`Extract` / `Exclude`), slices / sets / tuples /
  arrays / records / maps (member holders, size checks), core.ZodTransform / ZodPipe (`Transform` / `Pipe` results hold the
  receiver), `Default` / `Prefault` values.

    obsH_frame, applyHOp_spec   every derivation writes only fresh locations; its result is well-formed and new
    c08h_step                   one derivation: every live composite keeps its whole observation (common part, kind, member
                                holders, list CONTENTS, default / prefault value graphs)
    world_step, hAccept_congr   the identity ↦ observation table of the live schemas is unchanged below the old allocation
                                pointer; the verdict of a composite only looks below its own identity
    c08h_behaviour              … hence the same verdict on every input — members evaluated recursively from THEIR
                                observations, to any nesting depth, for every leaf oracle — and the same document structure
    c08h_hist / c08h_hist_behaviour   along every history (any receivers, fan-outs)
    or_content … prefault_content     what the RESULT of each derivation contains
-/
import Gozod.Proofs.C08Objects
import Gozod.Model.StoreC08H

namespace Gozod.C08
open Gozod.Store Gozod.StoreC08

def WfH (σ : Store) (x : HSchema) : Prop :=
  WfS σ x.s ∧ (∀ o ∈ x.lists, ∀ l ∈ optLoc o, l < σ.next) ∧ (∀ l ∈ dfltLocs x.pre, l < σ.next)

/-- **obsH_frame** -/
theorem obsH_frame {σ σ' : Store} (x : HSchema) (hw : WfH σ x) (he : ExtFrom σ.next σ σ') :
    obsH σ'.heap x = obsH σ.heap x := by
  simp only [obsH, obs_frame x.s hw.1 he, slots_frame x.lists hw.2.1 he]
  congr 1
  exact dfltKids_congr x.pre (fun l hl => he.2 l (hw.2.2 l hl))

theorem wfh_frame {σ σ' : Store} (x : HSchema) (hw : WfH σ x) (he : ExtFrom σ.next σ σ') : WfH σ' x :=
  ⟨wfs_frame x.s hw.1 he, fun o ho l hl => Nat.lt_of_lt_of_le (hw.2.1 o ho l hl) he.1,
   fun l hl => Nat.lt_of_lt_of_le (hw.2.2 l hl) he.1⟩

/-- side conditions of a derivation: the common op is one the code has; an argument value graph exists before the call -/
def _root_.Gozod.StoreC08.HOp.ok (σ : Store) : HOp → Prop
  | .common op => Op.ok op ∧ op.isMetaSelf = false
  | .setDefault v => ∀ l ∈ dfltLocs (some v), l < σ.next
  | .setPrefault v => ∀ l ∈ dfltLocs (some v), l < σ.next
  | _ => True

theorem hRebuild_spec (cfg : Cfg) (hcfg : cfg.cloneBagAlways = true) (σ : Store) (recv : Schema) (kind : Nat)
    (cks : List Nat) (cap : Nat) (hc : BagClosed σ) (hw : WfS σ recv) :
    ExtFrom σ.next σ (hRebuild cfg σ recv kind cks cap).1 ∧ BagClosed (hRebuild cfg σ recv kind cks cap).1 ∧
    WfS (hRebuild cfg σ recv kind cks cap).1 (hRebuild cfg σ recv kind cks cap).2 ∧
    σ.next ≤ (hRebuild cfg σ recv kind cks cap).2.self :=
  applyOp_spec cfg hcfg σ recv _ hc hw (rebuild_cap_ok cks cap) rfl

/-- a result made of a well-formed common part plus one freshly allocated list cell -/
theorem withList_spec (σ σ1 : Store) (s : Schema) (k : HKind) (c : List Nat) (he : ExtFrom σ.next σ σ1)
    (hb : BagClosed σ1) (hw : WfS σ1 s) (hs : σ.next ≤ s.self) :
    ExtFrom σ.next σ (alloc σ1 (.vals c)).1 ∧ BagClosed (alloc σ1 (.vals c)).1 ∧
    WfH (alloc σ1 (.vals c)).1 ⟨s, k, [], [some (alloc σ1 (.vals c)).2], none⟩ ∧ σ.next ≤ s.self := by
  have ha : ExtFrom σ.next σ1 (alloc σ1 (.vals c)).1 := alloc_ext σ.next _ _ he.1
  have ha' : ExtFrom σ1.next σ1 (alloc σ1 (.vals c)).1 := alloc_ext _ _ _ (Nat.le_refl _)
  refine ⟨he.trans ha, bagClosed_alloc _ _ hb (cellOk_vals _ _), ⟨wfs_frame _ hw ha', ?_, ?_⟩, hs⟩
  · intro o ho l hl
    simp only [List.mem_singleton] at ho
    subst ho
    simp only [optLoc, List.mem_singleton] at hl
    subst hl
    simp [alloc]
  · intro l hl; simp [dfltLocs] at hl

theorem dropReg_spec (σ σ1 : Store) (s : Schema) (he : ExtFrom σ.next σ σ1) (hb : BagClosed σ1) (hw : WfS σ1 s)
    (hs : σ.next ≤ s.self) :
    ExtFrom σ.next σ (dropReg σ1 s) ∧ BagClosed (dropReg σ1 s) ∧ WfS (dropReg σ1 s) s := by
  have hb' : BagClosed (dropReg σ1 s) := bagClosed_write σ1 _ _ hb (cellOk_reg _ _)
  refine ⟨he.trans (write_ext σ.next σ1 _ _ hs), hb', wfs_of_direct _ hb' s ?_ hw.2⟩
  intro l hl
  exact hw.1 l (by simp [locs, hl])

/-- **applyHOp_spec**: every derivation writes only fresh locations; its result is well-formed and new. -/
theorem applyHOp_spec (cfg : Cfg) (hcfg : cfg.cloneBagAlways = true) (σ : Store) (recv : HSchema) (o : HOp)
    (hc : BagClosed σ) (hw : WfH σ recv) (hok : o.ok σ) :
    ExtFrom σ.next σ (applyHOp cfg σ recv o).1 ∧ BagClosed (applyHOp cfg σ recv o).1 ∧
    WfH (applyHOp cfg σ recv o).1 (applyHOp cfg σ recv o).2 ∧ σ.next ≤ (applyHOp cfg σ recv o).2.s.self := by
  have keep : ∀ {σ1 : Store}, ExtFrom σ.next σ σ1 →
      (∀ o ∈ recv.lists, ∀ l ∈ optLoc o, l < σ1.next) ∧ (∀ l ∈ dfltLocs recv.pre, l < σ1.next) :=
    fun he => ⟨fun o ho l hl => Nat.lt_of_lt_of_le (hw.2.1 o ho l hl) he.1,
               fun l hl => Nat.lt_of_lt_of_le (hw.2.2 l hl) he.1⟩
  cases o with
  | common op =>
    obtain ⟨he, hb, hws, hs⟩ := applyOp_spec cfg hcfg σ recv.s op hc hw.1 hok.1 hok.2
    exact ⟨he, hb, ⟨hws, (keep he).1, (keep he).2⟩, hs⟩
  | orWith other cks cap =>
    obtain ⟨he, hb, hws, hs⟩ := hRebuild_spec cfg hcfg σ recv.s 20 cks cap hc hw.1
    exact withList_spec σ _ _ .union _ he hb hws hs
  | andWith other cks cap =>
    obtain ⟨he, hb, hws, hs⟩ := hRebuild_spec cfg hcfg σ recv.s 21 cks cap hc hw.1
    simp only [applyHOp]
    exact ⟨he, hb, ⟨hws, by intro o ho; simp at ho, by intro l hl; simp [dfltLocs] at hl⟩, hs⟩
  | transform fl =>
    obtain ⟨he, hb, hws, hs⟩ := applyOp_spec cfg hcfg σ recv.s (.derive fl [] none) hc hw.1 trivial rfl
    obtain ⟨he2, hb2, hw2⟩ := dropReg_spec σ _ _ he hb hws hs
    simp only [applyHOp]
    exact ⟨he2, hb2, ⟨hw2, by intro o ho; simp at ho, (keep he2).2⟩, hs⟩
  | pipe fl target =>
    obtain ⟨he, hb, hws, hs⟩ := applyOp_spec cfg hcfg σ recv.s (.derive fl [] none) hc hw.1 trivial rfl
    obtain ⟨he2, hb2, hw2⟩ := dropReg_spec σ _ _ he hb hws hs
    simp only [applyHOp]
    exact ⟨he2, hb2, ⟨hw2, by intro o ho; simp at ho, (keep he2).2⟩, hs⟩
  | extract keys cks cap =>
    obtain ⟨he, hb, hws, hs⟩ := hRebuild_spec cfg hcfg σ recv.s 22 cks cap hc hw.1
    exact withList_spec σ _ _ .enum _ he hb hws hs
  | exclude keys cks cap =>
    obtain ⟨he, hb, hws, hs⟩ := hRebuild_spec cfg hcfg σ recv.s 22 cks cap hc hw.1
    exact withList_spec σ _ _ .enum _ he hb hws hs
  | withRest rest cks cap =>
    obtain ⟨he, hb, hws, hs⟩ := hRebuild_spec cfg hcfg σ recv.s 23 cks cap hc hw.1
    simp only [applyHOp]
    exact ⟨he, hb, ⟨hws, (keep he).1, by intro l hl; simp [dfltLocs] at hl⟩, hs⟩
  | setSingle i m =>
    obtain ⟨he, hb, hws, hs⟩ := applyOp_spec cfg hcfg σ recv.s (.derive recv.s.flags [] none) hc hw.1 trivial rfl
    exact ⟨he, hb, ⟨hws, (keep he).1, (keep he).2⟩, hs⟩
  | setDefault v =>
    obtain ⟨he, hb, hws, hs⟩ := applyOp_spec cfg hcfg σ recv.s (.derive (recv.s.flags + 1) [] none) hc hw.1 trivial rfl
    have d := dirOk_of_wfs hws
    refine ⟨he, hb, ⟨wfs_of_direct _ hb _ (direct_of_dirOk ⟨d.self, d.checks, d.bag, d.values, d.shape, ?_⟩) hws.2,
      (keep he).1, (keep he).2⟩, hs⟩
    intro l hl
    exact Nat.lt_of_lt_of_le (hok l hl) he.1
  | setPrefault v =>
    obtain ⟨he, hb, hws, hs⟩ := applyOp_spec cfg hcfg σ recv.s (.derive (recv.s.flags + 1) [] none) hc hw.1 trivial rfl
    exact ⟨he, hb, ⟨hws, (keep he).1, fun l hl => Nat.lt_of_lt_of_le (hok l hl) he.1⟩, hs⟩

structure InvH (σ : Store) (live : List HSchema) : Prop where
  closed : BagClosed σ
  wf : ∀ x ∈ live, WfH σ x

/-- **c08h_step**: a derivation leaves the whole observation of every live composite — common part, kind, member holders,
    list CONTENTS (Options, Items, Entries), default and prefault value graphs — unchanged; the result is well-formed and new. -/
theorem c08h_step (cfg : Cfg) (hcfg : cfg.cloneBagAlways = true) (σ : Store) (live : List HSchema) (recv : HSchema)
    (o : HOp) (hi : InvH σ live) (hrv : recv ∈ live) (hok : o.ok σ) :
    InvH (applyHOp cfg σ recv o).1 (live ++ [(applyHOp cfg σ recv o).2]) ∧
    (∀ x ∈ live, obsH (applyHOp cfg σ recv o).1.heap x = obsH σ.heap x) ∧
    σ.next ≤ (applyHOp cfg σ recv o).2.s.self ∧ (∀ x ∈ live, x.s.self < σ.next) := by
  obtain ⟨he, hb, hw, hs⟩ := applyHOp_spec cfg hcfg σ recv o hi.closed (hi.wf recv hrv) hok
  refine ⟨⟨hb, ?_⟩, fun x hx => obsH_frame x (hi.wf x hx) he, hs, fun x hx => (hi.wf x hx).1.1 _ (by simp [locs, direct])⟩
  intro x hx
  simp only [List.mem_append, List.mem_singleton] at hx
  rcases hx with h | rfl
  · exact wfh_frame x (hi.wf x h) he
  · exact hw

/-! ### behaviour: the verdict of a composite is a function of the observations of the live schemas -/

theorem find_append_new {α : Type} (p : α → Bool) (xs : List α) (y : α) (hy : p y = false) :
    (xs ++ [y]).find? p = xs.find? p := by
  rw [List.find?_append]
  cases xs.find? p <;> simp [hy]

/-- **world_step**: after a step the identity ↦ observation table agrees with the old one on every identity that existed. -/
theorem world_step (h h' : Loc → Option Cell) (live : List HSchema) (r : HSchema) (n : Nat)
    (hobs : ∀ x ∈ live, obsH h' x = obsH h x) (hr : n ≤ r.s.self) :
    ∀ l, l < n → (worldOf h' (live ++ [r])).get l = (worldOf h live).get l := by
  intro l hl
  have e1 : worldOf h' live = worldOf h live := by
    simp only [worldOf]
    exact List.map_congr_left (fun x hx => by rw [hobs x hx])
  simp only [World.get]
  have : worldOf h' (live ++ [r]) = worldOf h live ++ [(r.s.self, obsH h' r)] := by
    rw [← e1]; simp [worldOf]
  rw [this, find_append_new]
  have : r.s.self ≠ l := (Nat.ne_of_lt (Nat.lt_of_lt_of_le hl hr)).symm
  simp [this]

/-- **hAccept_congr**: the verdict of a composite only consults the table below the composite's own identity. -/
theorem hAccept_congr (leaf : Loc → HIn → Bool) (w w' : World) (n : Nat) (hw : ∀ l, l < n → w'.get l = w.get l) :
    ∀ (f : Nat) (self : Loc) (o : HObs) (inp : HIn), self ≤ n →
      hAccept leaf f w' self o inp = hAccept leaf f w self o inp := by
  intro f
  induction f with
  | zero => intro _ _ _ _; rfl
  | succ f ih =>
    intro self o inp hs
    simp only [hAccept]
    congr 1
    funext l i
    by_cases hl : l < self
    · simp only [hl, if_true]
      rw [hw l (Nat.lt_of_lt_of_le hl hs)]
      cases w.get l with
      | none => rfl
      | some mo => exact ih l mo i (Nat.le_of_lt (Nat.lt_of_lt_of_le hl hs))
    · simp only [hl, if_false]

/-- **c08h_behaviour**: after a derivation every live composite gives the same verdict on every input — its members
    evaluated recursively from their own observations, to every nesting depth `f`, whatever the plain member schemas do
    (`leaf`) — and shows the same member structure in its JSON Schema. -/
theorem c08h_behaviour (cfg : Cfg) (hcfg : cfg.cloneBagAlways = true) (σ : Store) (live : List HSchema) (recv : HSchema)
    (o : HOp) (hi : InvH σ live) (hrv : recv ∈ live) (hok : o.ok σ) (leaf : Loc → HIn → Bool) (f : Nat) :
    ∀ x ∈ live,
      (∀ inp, hAccept leaf f (worldOf (applyHOp cfg σ recv o).1.heap (live ++ [(applyHOp cfg σ recv o).2])) x.s.self
                (obsH (applyHOp cfg σ recv o).1.heap x) inp
              = hAccept leaf f (worldOf σ.heap live) x.s.self (obsH σ.heap x) inp) ∧
      hDoc (obsH (applyHOp cfg σ recv o).1.heap x) = hDoc (obsH σ.heap x) := by
  intro x hx
  obtain ⟨_, hobs, hs, hlt⟩ := c08h_step cfg hcfg σ live recv o hi hrv hok
  rw [hobs x hx]
  refine ⟨fun inp => ?_, rfl⟩
  exact hAccept_congr leaf _ _ σ.next (world_step _ _ live _ σ.next hobs hs) f x.s.self _ inp (Nat.le_of_lt (hlt x hx))

def hopsOK (cfg : Cfg) : Store → List HSchema → List (Nat × HOp) → Prop
  | _, _, [] => True
  | σ, live, (i, op) :: rest =>
    match live[i]? with
    | none => hopsOK cfg σ live rest
    | some recv => op.ok σ ∧ hopsOK cfg (applyHOp cfg σ recv op).1 (live ++ [(applyHOp cfg σ recv op).2]) rest

/-- **c08h_hist**: along every history of derivations every composite live at the start is observed unchanged at the end,
    and every schema the history added has an identity that did not exist at the start. -/
theorem c08h_hist (cfg : Cfg) (hcfg : cfg.cloneBagAlways = true) (ops : List (Nat × HOp)) :
    ∀ (σ : Store) (live : List HSchema), InvH σ live → hopsOK cfg σ live ops →
    InvH (runHHist cfg σ live ops).1 (runHHist cfg σ live ops).2 ∧
    (∃ extra, (runHHist cfg σ live ops).2 = live ++ extra ∧ ∀ y ∈ extra, σ.next ≤ y.s.self) ∧
    σ.next ≤ (runHHist cfg σ live ops).1.next ∧
    ∀ x ∈ live, obsH (runHHist cfg σ live ops).1.heap x = obsH σ.heap x := by
  induction ops with
  | nil => intro σ live hi _; exact ⟨hi, ⟨[], by simp [runHHist], by simp⟩, Nat.le_refl _, fun _ _ => rfl⟩
  | cons p rest ih =>
    intro σ live hi hok
    obtain ⟨i, o⟩ := p
    simp only [runHHist]
    simp only [hopsOK] at hok
    cases hl : live[i]? with
    | none => rw [hl] at hok; exact ih σ live hi hok
    | some recv =>
      rw [hl] at hok
      have hrv : recv ∈ live := List.mem_of_getElem? hl
      dsimp only at hok ⊢
      obtain ⟨hi', hobs, hs, _⟩ := c08h_step cfg hcfg σ live recv o hi hrv hok.1
      obtain ⟨he, _, _, _⟩ := applyHOp_spec cfg hcfg σ recv o hi.closed (hi.wf recv hrv) hok.1
      obtain ⟨hi2, ⟨extra, hx2, hge2⟩, hn2, ho2⟩ := ih _ _ hi' hok.2
      refine ⟨hi2, ⟨(applyHOp cfg σ recv o).2 :: extra, by rw [hx2]; simp, ?_⟩, Nat.le_trans he.1 hn2, fun x hx => ?_⟩
      · intro y hy
        simp only [List.mem_cons] at hy
        rcases hy with rfl | hy
        · exact hs
        · exact Nat.le_trans he.1 (hge2 y hy)
      · rw [ho2 x (List.mem_append_left _ hx), hobs x hx]

theorem find_append_none {α : Type} (p : α → Bool) (xs ys : List α) (hy : ∀ y ∈ ys, p y = false) :
    (xs ++ ys).find? p = xs.find? p := by
  rw [List.find?_append]
  have : ys.find? p = none := List.find?_eq_none.mpr (fun y hy' => by simp [hy y hy'])
  cases xs.find? p <;> simp [this]

/-- **c08h_hist_behaviour**: along every history, every composite live at the start gives at the end — looked up among
    ALL the schemas the history made — the same verdict on every input, to every nesting depth, and the same document
    structure. -/
theorem c08h_hist_behaviour (cfg : Cfg) (hcfg : cfg.cloneBagAlways = true) (ops : List (Nat × HOp))
    (σ : Store) (live : List HSchema) (hi : InvH σ live) (hok : hopsOK cfg σ live ops)
    (leaf : Loc → HIn → Bool) (f : Nat) :
    ∀ x ∈ live,
      (∀ inp, hAccept leaf f (worldOf (runHHist cfg σ live ops).1.heap (runHHist cfg σ live ops).2) x.s.self
                (obsH (runHHist cfg σ live ops).1.heap x) inp
              = hAccept leaf f (worldOf σ.heap live) x.s.self (obsH σ.heap x) inp) ∧
      hDoc (obsH (runHHist cfg σ live ops).1.heap x) = hDoc (obsH σ.heap x) := by
  intro x hx
  obtain ⟨_, ⟨extra, hx2, hge⟩, _, hobs⟩ := c08h_hist cfg hcfg ops σ live hi hok
  rw [hobs x hx]
  refine ⟨fun inp => ?_, rfl⟩
  have hlt : x.s.self < σ.next := (hi.wf x hx).1.1 _ (by simp [locs, direct])
  apply hAccept_congr leaf _ _ σ.next _ f x.s.self _ inp (Nat.le_of_lt hlt)
  intro l hl
  have e1 : worldOf (runHHist cfg σ live ops).1.heap live = worldOf σ.heap live := by
    simp only [worldOf]
    exact List.map_congr_left (fun y hy => by rw [hobs y hy])
  simp only [World.get]
  rw [hx2]
  have : worldOf (runHHist cfg σ live ops).1.heap (live ++ extra)
      = worldOf σ.heap live ++ worldOf (runHHist cfg σ live ops).1.heap extra := by
    rw [← e1]; simp [worldOf]
  rw [this, find_append_none]
  intro y hy
  simp only [worldOf, List.mem_map] at hy
  obtain ⟨z, hz, rfl⟩ := hy
  have : z.s.self ≠ l := (Nat.ne_of_lt (Nat.lt_of_lt_of_le hl (hge z hz))).symm
  simp [this]

/-! ### what the RESULT contains -/

theorem readVals_alloc (σ : Store) (c : List Nat) : readVals (alloc σ (.vals c)).1.heap (some (alloc σ (.vals c)).2) = some c := by
  simp [readVals, alloc, upd]

/-- `z.Or(other)`: a union whose option list is a fresh slice holding the receiver and the argument, in that order -/
theorem or_content (cfg : Cfg) (σ : Store) (recv : HSchema) (other : Loc) (cks : List Nat) (cap : Nat) :
    let r := applyHOp cfg σ recv (.orWith other cks cap)
    (obsH r.1.heap r.2).k = .union ∧ (obsH r.1.heap r.2).lists = [some [recv.s.self, other]] ∧ (obsH r.1.heap r.2).singles = [] := by
  simp only [applyHOp, obsH, List.map_cons, List.map_nil, readVals_alloc, and_self]

/-- `z.And(other)`: an intersection of the receiver and the argument -/
theorem and_content (cfg : Cfg) (σ : Store) (recv : HSchema) (other : Loc) (cks : List Nat) (cap : Nat) :
    let r := applyHOp cfg σ recv (.andWith other cks cap)
    (obsH r.1.heap r.2).k = .inter ∧ (obsH r.1.heap r.2).singles = [some recv.s.self, some other] := by
  simp [applyHOp, obsH]

/-- `z.Transform(fn)` / `z.Pipe(t)`: the wrapper holds the receiver (and the target) -/
theorem transform_content (cfg : Cfg) (σ : Store) (recv : HSchema) (fl : Nat) :
    (applyHOp cfg σ recv (.transform fl)).2.singles = [some recv.s.self] ∧ (applyHOp cfg σ recv (.transform fl)).2.k = .transform := by
  simp [applyHOp]

theorem pipe_content (cfg : Cfg) (σ : Store) (recv : HSchema) (fl : Nat) (t : Loc) :
    (applyHOp cfg σ recv (.pipe fl t)).2.singles = [some recv.s.self, some t] ∧ (applyHOp cfg σ recv (.pipe fl t)).2.k = .pipe := by
  simp [applyHOp]

/-- `Extract(keys)` / `Exclude(keys)`: a new enum with the listed (not listed) entries of the receiver, in the receiver's order -/
theorem extract_content (cfg : Cfg) (σ : Store) (recv : HSchema) (keys cks : List Nat) (cap : Nat) :
    let r := applyHOp cfg σ recv (.extract keys cks cap)
    (obsH r.1.heap r.2).lists = [some ((listGet σ.heap recv.lists).filter (fun e => keys.contains e))] := by
  simp only [applyHOp, obsH, List.map_cons, List.map_nil, readVals_alloc]

theorem exclude_content (cfg : Cfg) (σ : Store) (recv : HSchema) (keys cks : List Nat) (cap : Nat) :
    let r := applyHOp cfg σ recv (.exclude keys cks cap)
    (obsH r.1.heap r.2).lists = [some ((listGet σ.heap recv.lists).filter (fun e => !keys.contains e))] := by
  simp only [applyHOp, obsH, List.map_cons, List.map_nil, readVals_alloc]

/-- `WithRest(r)`: the Items REFERENCE is the receiver's, the rest member is the argument -/
theorem withRest_content (cfg : Cfg) (σ : Store) (recv : HSchema) (rest : Loc) (cks : List Nat) (cap : Nat) :
    (applyHOp cfg σ recv (.withRest rest cks cap)).2.lists = recv.lists ∧
    (applyHOp cfg σ recv (.withRest rest cks cap)).2.singles = [some rest] := by
  simp [applyHOp]

/-- `Default(v)` / `Prefault(v)`: the result refers to the CALLER's value (no copy on write); nothing else changes -/
theorem default_content (cfg : Cfg) (σ : Store) (recv : HSchema) (v : UVal) :
    (applyHOp cfg σ recv (.setDefault v)).2.s.dflt = some v ∧ (applyHOp cfg σ recv (.setDefault v)).2.lists = recv.lists ∧
    (applyHOp cfg σ recv (.setDefault v)).2.singles = recv.singles := by
  simp [applyHOp]

theorem prefault_content (cfg : Cfg) (σ : Store) (recv : HSchema) (v : UVal) :
    (applyHOp cfg σ recv (.setPrefault v)).2.pre = some v ∧ (applyHOp cfg σ recv (.setPrefault v)).2.lists = recv.lists := by
  simp [applyHOp]

/-- an enum's verdict is membership in its entry list: after `Exclude`, an excluded entry is rejected by the result … -/
theorem enum_verdict (leaf : Loc → HIn → Bool) (f : Nat) (w : World) (self : Loc) (o : HObs) (hk : o.k = .enum) (v : Nat) :
    hAccept leaf (f + 1) w self o (.tok v) = (listAt o 0).contains v := by
  simp [hAccept, hBody, hk]

/-- a union accepts exactly when one of its options does; an intersection when all of its members do -/
theorem union_verdict (mem : Loc → HIn → Bool) (o : HObs) (hk : o.k = .union) (inp : HIn) :
    hBody mem o inp = (listAt o 0).any (fun m => mem m inp) := by
  simp [hBody, hk]

theorem inter_verdict (mem : Loc → HIn → Bool) (o : HObs) (hk : o.k = .inter) (inp : HIn) :
    hBody mem o inp = (o.singles.filterMap id).all (fun m => mem m inp) := by
  simp [hBody, hk]

/-! ### non-vacuity (a test, not a theorem): an enum, `Exclude`, `Or` of the two, a sibling `Describe`; verdicts by depth 3 -/

def hBase : Store × HSchema :=
  let r := hRebuild fixed σ0 dummy 22 [] 0
  let a := alloc r.1 (.vals [4, 5, 6])
  (a.1, ⟨r.2, .enum, [], [some a.2], none⟩)

example :
    let r1 := applyHOp fixed hBase.1 hBase.2 (.exclude [5] [] 0)
    let r2 := applyHOp fixed r1.1 r1.2 (.orWith hBase.2.s.self [8] 1)
    let r3 := applyHOp fixed r2.1 hBase.2 (.common (.derive 1 [] (some 7)))
    let w := worldOf r3.1.heap [hBase.2, r1.2, r2.2, r3.2]
    obsH r3.1.heap hBase.2 = obsH hBase.1.heap hBase.2 ∧
    (obsH r3.1.heap r1.2).lists = [some [4, 6]] ∧
    hAccept (fun _ _ => false) 3 w r1.2.s.self (obsH r3.1.heap r1.2) (.tok 5) = false ∧
    hAccept (fun _ _ => false) 3 w r2.2.s.self (obsH r3.1.heap r2.2) (.tok 5) = true ∧
    hAccept (fun _ _ => false) 3 w r2.2.s.self (obsH r3.1.heap r2.2) (.tok 7) = false := by decide

/-- the hypotheses of `c08h_step` / `c08h_hist` are inhabited: the enum base above is a well-formed live composite -/
theorem invH_base : InvH hBase.1 [hBase.2] := by
  obtain ⟨he, hb, hws, hs⟩ := hRebuild_spec fixed rfl σ0 dummy 22 [] 0 inv0.closed (inv0.wf dummy (by simp))
  obtain ⟨_, hb2, hw2, _⟩ := withList_spec σ0 _ _ .enum [4, 5, 6] he hb hws hs
  refine ⟨hb2, fun x hx => ?_⟩
  simp only [List.mem_singleton] at hx
  subst hx
  exact hw2

example : (HOp.exclude [5] [] 0).ok hBase.1 := trivial
example : (HOp.common (.derive 1 [] (some 7))).ok hBase.1 := ⟨trivial, rfl⟩
example : hopsOK fixed hBase.1 [hBase.2] [(0, .exclude [5] [] 0)] := by
  simp only [hopsOK, List.getElem?_cons_zero]
  exact ⟨trivial, trivial⟩

end Gozod.C08
