package storex

// Histories of real chaining calls with per-step snapshots (shared by the C08/C12/C15/C14 harnesses).

import (
	"fmt"
	"os"
	"strings"

	"github.com/kaptinlin/gozod/core"
	"github.com/kaptinlin/gozod/jsonschema"

	"verifharness/hx"
)

// Live is a schema of the history with the state recorded when it was last looked at.
type Live struct {
	S    Schema
	Snap Snap
	FP   string
	Docs map[string]string // C12: first document seen per option set
}

// Hist is a history under construction.
type Hist struct {
	Base     Base
	Live     []*Live
	Steps    []string // op-line step tokens
	Verd     []string
	Strct    []string
	Names    []string
	Calls    []CallRec
	DeepOnly int
	BaseHdr  string
	WithJS   bool
}

// CallRec records one call so that a history can be replayed on a fresh family of schemas.
type CallRec struct {
	Recv    int
	Method  string
	Variant int
}

// NewHist starts a history over a fresh base. withJS: fingerprints include the JSON Schema document and every
// new schema is converted once when it is created (C08); without it no conversion ever happens implicitly (C12).
func NewHist(b Base, withJS bool) *Hist {
	s := b.Mk().(Schema)
	h := &Hist{Base: b, WithJS: withJS}
	fp := Fingerprint(s, withJS)
	sn := TakeSnap(s)
	h.Live = append(h.Live, &Live{S: s, Snap: sn, FP: fp})
	h.BaseHdr = fmt.Sprintf("%s %s %d %d", sn.BagState, sn.ValState, sn.Len, sn.Cap)
	return h
}

// Replay re-executes recorded calls on a fresh base and returns the live list (nil if a call no longer chains).
func Replay(b Base, calls []CallRec) []Schema {
	live := []Schema{b.Mk().(Schema)}
	for _, c := range calls {
		res, ok, _ := Call(live[c.Recv], c.Method, c.Variant)
		if !ok {
			return nil
		}
		live = append(live, res)
	}
	return live
}

var rebuildSet = map[string]bool{}
var accessSet = map[string]bool{}

func init() {
	for _, n := range strings.Fields(`WithRest Extend SafeExtend Merge Pick Omit MustPick MustOmit MustExtend Keyof And Or
		Array Slice Exclude Extract MustExclude MustExtract Input Output Implement ImplementAsync`) {
		rebuildSet[n] = true
	}
	for _, n := range strings.Fields(`Unwrap Inner Element Elem KeyType ValueType KeySchema ValueSchema Left Right Rest GetInner
		GetRest GetCatchall Catchall InnerType Options Shape GetUnknownKeys`) {
		accessSet[n] = true
	}
}

func (h *Hist) classify(b Base, recv *Live, method string, variant int, res Schema, rs Snap) (string, int) {
	if accessSet[method] {
		for j, l := range h.Live {
			if any(l.S) == any(res) {
				return "alias", j // the accessor handed out a schema that is already live
			}
		}
		return "access", 0
	}
	if any(res) == any(recv.S) {
		if method == "Meta" {
			return "metaself", variant
		}
		return "self", 0
	}
	switch {
	case method == "And" || method == "Or":
		return "wrap", 0 // constructor-built composite that holds the receiver as a member
	case rebuildSet[method]:
		return "rebuild", 0
	case (method == "Meta" || method == "Describe") && strings.Contains(fmt.Sprintf("%T", res), "ZodString["):
		return "copymeta", variant // ZodString.withMeta (also reached through the types embedding *ZodString)
	case method == "Partial" && strings.Contains(fmt.Sprintf("%T", recv.S), "ZodRecord"):
		return "bagwrite", 0
	}
	k := rs.Len - recv.Snap.Len
	if k < 0 || !strings.HasPrefix(rs.CheckIDs, recv.Snap.CheckIDs) {
		return "refilter", 0
	}
	return "derive", k
}

// shortType is the receiver's schema type without package and type arguments (ZodIntegerTyped, ZodString, …).
func shortType(x any) string {
	s := fmt.Sprintf("%T", x)
	if i := strings.Index(s, "["); i >= 0 {
		s = s[:i]
	}
	if i := strings.LastIndex(s, "."); i >= 0 {
		s = s[i+1:]
	}
	return s
}

func sameType(a, b any) bool { return fmt.Sprintf("%T", a) == fmt.Sprintf("%T", b) }

// sameFamily: same generic schema type up to its type arguments (Optional() turns ZodString[string] into ZodString[*string]).
func sameFamily(a, b any) bool {
	f := func(x any) string {
		s := fmt.Sprintf("%T", x)
		if i := strings.Index(s, "["); i >= 0 {
			s = s[:i]
		}
		return s
	}
	return f(a) == f(b)
}

func idx(xs []int) string {
	ss := make([]string, len(xs))
	for i, x := range xs {
		ss[i] = fmt.Sprint(x)
	}
	return strings.Join(ss, ",")
}

// step applies method to live[ri]; returns false when the call is not a chaining call for these arguments.
func (h *Hist) Step(ri int, method string, variant int, o *hx.Out) bool {
	recv := h.Live[ri]
	res, ok, why := Call(recv.S, method, variant)
	if !ok {
		o.Count("skipped:" + why)
		return false
	}
	// phase (a): what did the call itself do to the live schemas? (result not yet converted)
	var changed []int
	for i, l := range h.Live {
		ns := TakeSnap(l.S)
		nf := Fingerprint(l.S, h.WithJS)
		if ns.Content() == l.Snap.Content() && nf != l.FP {
			// the converter itself is not deterministic for some schemas (Go map order, C12): a document that
			// merely flips between the values already seen for this very schema is not a change made by the call
			for try := 0; try < 12 && nf != l.FP; try++ {
				nf = Fingerprint(l.S, h.WithJS)
			}
			if nf == l.FP {
				o.Count("nondeterministic-conversion-seen")
			}
		}
		if ns.Content() != l.Snap.Content() || nf != l.FP {
			changed = append(changed, i)
			if os.Getenv("C08_DEBUG") != "" {
				fmt.Fprintf(os.Stderr, "CHANGED %s live=%d by %d.%s\n  snap: %q\n     -> %q\n  fp: %s\n   -> %s\n", h.Base.Name, i, ri, method,
					l.Snap.Content(), ns.Content(), l.FP, nf)
			}
		} else if ns.Deep != l.Snap.Deep {
			h.DeepOnly++
		}
		l.Snap, l.FP = ns, nf
	}
	rs := TakeSnap(res)
	class, k := h.classify(h.Base, recv, method, variant, res, rs)
	fresh := 1
	if any(res) == any(recv.S) {
		fresh = 0
	}
	var b, a, v []int
	for i, l := range h.Live {
		if rs.BagPtr != 0 && rs.BagPtr == l.Snap.BagPtr {
			b = append(b, i)
		}
		if rs.Cap > 0 && l.Snap.Cap > 0 && rs.ChecksPtr == l.Snap.ChecksPtr {
			a = append(a, i)
		}
		if rs.ValPtr != 0 && rs.ValPtr == l.Snap.ValPtr {
			v = append(v, i)
		}
	}
	if class == "metaself" {
		// Meta() on the receiver also shows in composites that embed the receiver's document (And/Or members);
		// whether it does depends on the member being representable. Only the receiver itself (and its aliases in
		// the live list) is compared with the model; the propagation is counted.
		var own []int
		for _, i := range changed {
			if any(h.Live[i].S) == any(recv.S) {
				own = append(own, i)
			} else {
				o.Count("meta-change-propagated-to-composite")
			}
		}
		changed = own
	}
	st := fmt.Sprintf("b%sa%sv%sh%d/%d", idx(b), idx(a), idx(v), rs.Len, rs.Cap)
	if class == "access" || class == "alias" {
		st, fresh = "-", 1 // accessors hand out an existing inner schema (possibly the receiver): only "nothing changed" applies
	}
	rm := 0 // does the result start with a registry entry? (only some types' withInternals copy the receiver's)
	if rs.Meta != "" {
		rm = 1
	}
	h.Steps = append(h.Steps, fmt.Sprintf("%d %s %d %d %d %s %s %d %s", ri, class, k, rs.Len, rs.Cap, rs.BagState, rs.ValState, rm, method+"@"+shortType(recv.S)))
	h.Verd = append(h.Verd, fmt.Sprintf("%d:%s", fresh, idx(changed)))
	h.Strct = append(h.Strct, st)
	h.Names = append(h.Names, fmt.Sprintf("%d.%s/%d", ri, method, variant))
	h.Calls = append(h.Calls, CallRec{ri, method, variant})
	o.Count("class:" + class)
	// phase (b): warm the result up (first conversion) and re-baseline everybody; pollution of relatives by this
	// conversion is C12's business and only counted here.
	fp := Fingerprint(res, h.WithJS)
	for _, l := range h.Live {
		ns := TakeSnap(l.S)
		nf := Fingerprint(l.S, h.WithJS)
		if ns.Content() != l.Snap.Content() || nf != l.FP {
			o.Count("convert-of-result-changed-a-relative")
		}
		l.Snap, l.FP = ns, nf
	}
	h.Live = append(h.Live, &Live{S: res, Snap: TakeSnap(res), FP: fp})
	return true
}

// ---------------------------------------------------------------------------------------------
// conversion and parse steps (C12)

// OptionSets are the fixed ToJSONSchema option settings exercised by the histories.
func OptionSets() []jsonschema.Options {
	return []jsonschema.Options{
		{},
		{IO: "input"},
		{Unrepresentable: "any"},
		{Reused: "ref"},
		{Target: "draft-07"},
		{Cycles: "throw"},
	}
}

// NOptions counts the option settings: the fixed ones, then the ones that carry a private metadata registry built
// for the family at hand (one that gives only the converted schema an ID, one that gives every live schema an ID,
// one that is empty).
func NOptions() int { return len(OptionSets()) + 3 }

// OptionsFor builds option setting opt for converting live[i] of the family `live`. The private registries are
// built afresh for each call (and for the isolated twin from the twin's own schemas), so whatever a conversion
// keeps beyond its own run is kept under another registry than the next conversion uses.
func OptionsFor(opt int, live []Schema, i int) jsonschema.Options {
	fixed := OptionSets()
	if opt < len(fixed) {
		return fixed[opt]
	}
	reg := core.NewRegistry[core.GlobalMeta]()
	add := func(j int) {
		if zs, ok := live[j].(core.ZodSchema); ok {
			reg.Add(zs, core.GlobalMeta{ID: fmt.Sprintf("L%d", j)})
		}
	}
	switch opt - len(fixed) {
	case 0:
		add(i)
	case 1:
		for j := range live {
			add(j)
		}
	}
	return jsonschema.Options{Metadata: reg}
}

// relook re-snapshots every live schema and lists those whose exported-internals content or parse behaviour
// (and, with WithJS, document) differs from what was recorded.
func (h *Hist) relook(o *hx.Out, why string) (changed, bagChanged []int) {
	for i, l := range h.Live {
		ns := TakeSnap(l.S)
		nf := Fingerprint(l.S, h.WithJS)
		if ns.BagState+ns.Bag != l.Snap.BagState+l.Snap.Bag {
			bagChanged = append(bagChanged, i)
		}
		if ns.ContentNoBag() != l.Snap.ContentNoBag() || nf != l.FP {
			changed = append(changed, i)
			if os.Getenv("C08_DEBUG") != "" {
				fmt.Fprintf(os.Stderr, "CHANGED %s live=%d by %s\n  snap: %q\n     -> %q\n  fp: %s\n   -> %s\n", h.Base.Name, i, why,
					l.Snap.Content(), ns.Content(), l.FP, nf)
			}
		}
		l.Snap, l.FP = ns, nf
	}
	return changed, bagChanged
}

// Conv converts live[i] with option set opt. The oracle document is the one an isolated twin gives: the
// derivation steps of this history replayed on a fresh base, with nothing converted before.
func (h *Hist) Conv(i, opt int, o *hx.Out) {
	l := h.Live[i]
	lives := make([]Schema, len(h.Live))
	for j, x := range h.Live {
		lives[j] = x.S
	}
	iso := "replay-failed"
	if twin := Replay(h.Base, h.Calls); twin != nil && i < len(twin) {
		iso = JS(twin[i], OptionsFor(opt, twin, i))
	}
	doc := JS(l.S, OptionsFor(opt, lives, i))
	changed, bagChanged := h.relook(o, fmt.Sprintf("conv %d", i))
	same, g := 1, "g"+idx(bagChanged) // which live Bags were rewritten by this conversion
	if doc != iso {
		same = 0
		if os.Getenv("C08_DEBUG") != "" {
			fmt.Fprintf(os.Stderr, "DOC %s live=%d opt=%d\n  got: %s\n  iso: %s\n", h.Base.Name, i, opt, doc, iso)
		}
	}
	h.Steps = append(h.Steps, fmt.Sprintf("%d conv %d 0 0 %s %s 0 ToJSONSchema@%s", i, opt, l.Snap.BagState, l.Snap.ValState, shortType(l.S)))
	h.Verd = append(h.Verd, fmt.Sprintf("%d:%s", same, idx(changed)))
	h.Strct = append(h.Strct, g)
	h.Names = append(h.Names, fmt.Sprintf("conv(%d,opt%d)", i, opt))
	o.Count("class:conv")
	if strings.HasPrefix(doc, "ERR:") {
		o.Count("conv:unrepresentable")
	}
}

// ParseStep parses the whole probe set with live[i].
func (h *Hist) ParseStep(i int, o *hx.Out) {
	l := h.Live[i]
	_ = Verdicts(l.S)
	changed, _ := h.relook(o, fmt.Sprintf("parse %d", i))
	h.Steps = append(h.Steps, fmt.Sprintf("%d parse 0 0 0 %s %s 0 Parse@%s", i, l.Snap.BagState, l.Snap.ValState, shortType(l.S)))
	h.Verd = append(h.Verd, fmt.Sprintf("1:%s", idx(changed)))
	h.Strct = append(h.Strct, "-")
	h.Names = append(h.Names, fmt.Sprintf("parse(%d)", i))
	o.Count("class:parse")
}

// OpLine renders the history for the Lean driver.
func (h *Hist) OpLine(prop, tag string) (op, impl string) {
	op = fmt.Sprintf("%s %s %s | %s #%s %s", prop, h.Base.Name, h.BaseHdr, strings.Join(h.Steps, " | "), tag, strings.Join(h.Names, " "))
	impl = "V:" + strings.Join(h.Verd, ";") + " S:" + strings.Join(h.Strct, ";")
	return
}
