/-
  Transcription of the text gozodgen emits for ONE field (`cmd/gozodgen/writer.go`:
  `generateFieldSchemaCode`, `generateValidatorChain`, `baseConstructor` for the basic types,
  `generateTypedValue` for string / numeric kinds), on top of the transcription of the generator's
  own tag parser (`GenSplit`) and of its literal formatting (`GenChain`).

      emitField kind ptr tag  =  the schema expression written for  `F <kind or *kind> \`gozod:"<tag>"\``

  Strings are lists of code points; `none` = outside the modelled fragment (gozodgen refuses the tag,
  or `strconv.Quote` of a rune whose quoting is not modelled).
-/
import Gozod.Model.GenChain
import Gozod.Model.GenSplit
namespace Gozod.GenEmit
open Gozod.TagParser Gozod.GenSplit

def asc (s : String) : Str := s.toList.map Char.toNat

/-- the basic Go kinds of the wide programs; `ctor` = `basicTypeConstructors[kind]` -/
inductive Kind | string | int | int64 | float64
  deriving DecidableEq, Repr

def Kind.ctor : Kind → Str
  | .string => asc "gozod.String()" | .int => asc "gozod.Int()"
  | .int64 => asc "gozod.Int64()" | .float64 => asc "gozod.Float64()"

def startsWithBr (s : Str) : Bool := s.head? = some cLBracket || s.head? = some cLBrace

def joinSep (sep : Str) : List Str → Str
  | [] => []
  | [x] => x
  | x :: xs => x ++ sep ++ joinSep sep xs

/-- `generateTypedValue(method, value, fieldType)` for kind string (`strconv.Quote`) and the numeric kinds (verbatim) -/
def typedValue (method : Str) (value : Str) (k : Kind) : Option Str :=
  match k with
  | .string => (GenChain.emitDefaultFixed value).map fun q => [0x2E] ++ method ++ [0x28] ++ q ++ [0x29]
  | _ => some ([0x2E] ++ method ++ [0x28] ++ value ++ [0x29])

def call1 (m : String) (ps : List Str) : Option Str :=
  match ps with
  | p :: _ => some (asc ("." ++ m ++ "(") ++ p ++ [0x29])
  | [] => some []

/-- `generateValidatorChain(rule, fieldType)` -/
def chainOf (r : Rule) (k : Kind) : Option Str :=
  let ps := r.params.getD []
  let n := r.name
  if n = asc "min" then call1 "Min" ps else if n = asc "max" then call1 "Max" ps
  else if n = asc "gt" then call1 "Gt" ps else if n = asc "gte" then call1 "Gte" ps
  else if n = asc "lt" then call1 "Lt" ps else if n = asc "lte" then call1 "Lte" ps
  else if n = asc "refine" then call1 "Refine" ps else if n = asc "check" then call1 "Check" ps
  else if n = asc "email" then some (asc ".Email()") else if n = asc "url" then some (asc ".URL()")
  else if n = asc "ipv4" then some (asc ".IPv4()") else if n = asc "ipv6" then some (asc ".IPv6()")
  else if n = asc "trim" then some (asc ".Trim()") else if n = asc "lowercase" then some (asc ".ToLowerCase()")
  else if n = asc "uppercase" then some (asc ".ToUpperCase()") else if n = asc "nilable" then some (asc ".Nilable()")
  else if n = asc "regex" then
    match ps with
    | p :: _ => some (asc ".Regex(regexp.MustCompile(" ++ GenChain.emitRegex p ++ asc "))")
    | [] => some []
  else if n = asc "default" ∨ n = asc "prefault" then
    match ps with
    | p :: rest =>
      let value := if !rest.isEmpty && !startsWithBr p then joinSep [0x20] ps else p
      typedValue (if n = asc "default" then asc "Default" else asc "Prefault") value k
    | [] => some []
  else some []   -- required, uuid, enum, time, unknown names: nothing

def allSome : List (Option Str) → Option (List Str)
  | [] => some []
  | none :: _ => none
  | some x :: xs => (allSome xs).map (x :: ·)

def chainAll (rs : List Rule) (k : Kind) : Option Str :=
  rs.foldl (fun acc r => match acc, chainOf r k with | some a, some c => some (a ++ c) | _, _ => none) (some [])

def hasName (rs : List Rule) (n : Str) : Bool := rs.any (·.name = n)

/-- `generateFieldSchemaCode` -/
def emitRules (k : Kind) (ptr : Bool) (rs : List Rule) : Option Str :=
  let required := hasName rs (asc "required")
  let optional (b : Bool) : Str := if b then asc ".Optional()" else []
  if hasName rs (asc "uuid") ∧ k = .string then
    (chainAll (rs.filter (·.name ≠ asc "uuid")) k).map fun c => asc "gozod.UUID()" ++ c ++ optional (!required && !ptr)
  else
    match (if k = .string then rs.find? (·.name = asc "enum") else none) with
    | some e =>
      -- strconv.Quote(param) (fix 6be4d1c); `none` when a member holds a rune whose quoting is not modelled
      match allSome ((e.params.getD []).map GenChain.emitDefaultFixed) with
      | none => none
      | some vals =>
        (chainAll (rs.filter (·.name ≠ asc "enum")) k).map fun c =>
          asc "gozod.Enum(" ++ joinSep (asc ", ") vals ++ [0x29] ++ c ++ optional (!required && !ptr)
    | none =>
      (chainAll rs k).map fun c => k.ctor ++ c ++ optional (ptr || !required)

def emitField (k : Kind) (ptr : Bool) (tag : Str) : Option Str :=
  match genParseTag tag with
  | .ok rs => emitRules k ptr rs
  | .error _ => none

end Gozod.GenEmit
