/-
  C07 for `Lazy` schemas (Model/JsonSchemaLazy.lean): the property on the fragment `reprX`, and the witnesses for the
  region it excludes — above all `lazy-typed-inner-unvalidated`: a Lazy whose inner schema's Go `Parse` result type is
  not one of the eight `(*schemaWrapper).Parse` knows (every object, slice, array, tuple, record, sized integer,
  pointer other than *string/*bool) validates NOTHING, while its document is the inner schema's.
-/
import Gozod.Proofs.C07
import Gozod.Model.JsonSchemaLazy
namespace Gozod.C07
open Gozod.Jsc

/-- full statement for lazy schemas; FALSE on the current code (`c07_lazy_full_false`). -/
def c07_lazy_full : Prop :=
  ∀ (x : X) (v : Json),
    (∀ r, parseX x v = some r → jsValid (toDocX x) r = true)
    ∧ (jsValid (toDocX x) v = true → (parseX x v).isSome = true)

theorem anyOf_null (j : JS) (v : Json) :
    jsValid (.node (KwList.ofList [.anyOf (.cons j (.cons nullJS .nil))])) v = (jsValid j v || v.isNull) := by
  simp [jsValid_node, kwValid, anyValid, nullJS_valid]

/-! ### objects with a Partial / Required call history (`X.objF`) -/

/-- `shapeAccepts part` (the base model) is the generic field loop with the rule "Partial() or the schema's own flag". -/
theorem shapeAcceptsG_part (part : Bool) : (sh : Shape) → (fs : JsonFields) →
    shapeAcceptsG (fun _ s => part || s.isOpt) sh fs = shapeAccepts part sh fs
  | .nil, _ => by simp [shapeAcceptsG, shapeAccepts]
  | .cons k s rest, fs => by
    rw [shapeAcceptsG, shapeAccepts, shapeAcceptsG_part part rest fs]
    cases JsonFields.find k fs <;> rfl

/-- properties + required ⇔ the field loop of validateObject, for ANY rule saying which fields may be absent — as long
    as the converter and Parse use the same rule (which is what the fix C07-object-optionality establishes). -/
theorem eqvShapeG (f : Str → S → Bool) : (shape : Shape) → reprShape shape = true → (fs : JsonFields) → instFieldsOK fs = true →
    (propsValid (propsJS shape) fs && (reqKeysG f shape).all (fun k => fs.hasKey k)) = shapeAcceptsG f shape fs
  | .nil, _, _, _ => by simp [propsJS, propsValid, reqKeysG, shapeAcceptsG]
  | .cons k s rest, h, fs, hfs => by
    simp only [reprShape, Bool.and_eq_true] at h
    have ih := eqvShapeG f rest h.2 fs hfs
    simp only [propsJS, propsValid, reqKeysG, shapeAcceptsG]
    rw [← ih]
    cases hf : fs.find k with
    | none => cases ho : f k s <;> simp [JsonFields.hasKey, hf]
    | some v =>
      have hv := find_instOK k v fs hfs hf
      have he := eqv s false false false v h.1 hv
      cases ho : f k s <;> simp [he, JsonFields.hasKey, hf] <;>
        cases accepts s v <;> cases propsValid (propsJS rest) fs <;> simp

/-- the document of an object with a call history, on an object instance. -/
theorem objF_doc (mode : Mode) (ca : SOpt) (ops : List ObjOp) (cks : List SzCk) (shape : Shape) (top : Bool) (fs : JsonFields)
    (hsz : szSimple cks = true) (hsh : reprShape shape = true) (hfs : instFieldsOK fs = true) :
    jsValid (toJSX top (.objF mode ca ops cks shape)) (.obj fs)
      = (shapeAcceptsG ((objSt shape.keys ops).fieldOpt) shape fs
         && fs.all (fun k v => shape.keys.contains k || jsValid (caJS ca mode.isLoose) v)
         && szOk cks fs.size) := by
  have hk := obj_propKeys shape (reqKeysG ((objSt shape.keys ops).fieldOpt) shape) (caJS ca mode.isLoose)
    (propsKws (szBag cks)) (propsKws_noprops _)
  simp only [toJSX, jsValid_node]
  rw [hk]
  simp only [List.all_append, List.all_cons, List.all_nil, Bool.and_true, kwValid, typeOk, Bool.true_and,
    propsKws_valid cks _ fs hsz, props_kw_valid, req_kw_valid]
  rw [← eqvShapeG _ shape hsh fs hfs]

theorem shapeAcceptsG_filter (f : Str → S → Bool) (p : Str → Bool) (fs : JsonFields) :
    (sh : Shape) → (∀ k ∈ sh.keys, p k = true) → shapeAcceptsG f sh (fs.filter p) = shapeAcceptsG f sh fs
  | .nil, _ => rfl
  | .cons k s rest, h => by
    have hk : p k = true := h k (by simp [Shape.keys])
    have ih := shapeAcceptsG_filter f p fs rest (fun k' hk' => h k' (by simp [Shape.keys, hk']))
    simp [shapeAcceptsG, find_filter p k hk fs, ih]

/-- non-strip modes: validity = verdict. -/
theorem objF_equiv (mode : Mode) (ca : SOpt) (ops : List ObjOp) (cks : List SzCk) (shape : Shape) (top : Bool) (v : Json)
    (h : reprX top (.objF mode ca ops cks shape) = true) (hv : instOK v = true) :
    jsValid (toJSX top (.objF mode ca ops cks shape)) v = acceptsX (.objF mode ca ops cks shape) v := by
  simp only [reprX, Bool.and_eq_true, Bool.not_eq_true'] at h
  obtain ⟨⟨⟨⟨hm, hsc⟩, hsz⟩, hca⟩, hsh⟩ := h
  cases v with
  | obj fs =>
    have hfs : instFieldsOK fs = true := by simpa [instOK] using hv
    rw [objF_doc mode ca ops cks shape top fs hsz hsh hfs]
    cases mode with
    | strip => simp [Mode.isStrip] at hm
    | strict =>
      cases ca with
      | some c => simp [Mode.isStrict, SOpt.isSome] at hsc
      | none => simp [acceptsX, caJS, jsValid, Mode.isLoose]
    | loose =>
      cases ca with
      | none =>
        simp only [acceptsX, caJS, jsValid, Bool.or_true, catchAccepts, Mode.isLoose, fields_all_true fs]
      | some c =>
        have : fs.all (fun k v => shape.keys.contains k || jsValid (caJS (.some c) Mode.loose.isLoose) v)
            = catchAccepts (.some c) shape.keys fs := by
          simp only [caJS, catchAccepts]
          exact all_congr_fields _ _ (fun k v _ hv => by
            rw [eqv c false false false v (by simpa [reprCa] using hca) hv]) fs hfs
        simp only [acceptsX, this]
  | _ => simp [toJSX, jsValid_node, kwValid, typeOk, acceptsX]

/-- strip mode at the top: the returned (stripped) value validates … -/
theorem objF_sound_strip (ca : SOpt) (ops : List ObjOp) (cks : List SzCk) (shape : Shape) (v : Json)
    (hsz : szSimple cks = true) (hsh : reprShape shape = true)
    (hv : instOK v = true) (ha : acceptsX (.objF .strip ca ops cks shape) v = true) :
    jsValid (toDocX (.objF .strip ca ops cks shape)) (outX (.objF .strip ca ops cks shape) v) = true := by
  cases v <;> simp [acceptsX] at ha
  rename_i fs
  have hfs : instFieldsOK fs = true := by simpa [instOK] using hv
  simp only [outX, out, toDocX]
  rw [objF_doc .strip ca ops cks shape true _ hsz hsh (filter_instOK _ fs hfs)]
  rw [shapeAcceptsG_filter _ _ fs shape (by intro k hk; simpa using hk)]
  rw [filter_all _ _ (by intro k v hk; simp only [Bool.or_eq_true]; exact Or.inl hk) fs]
  simp [ha.1.1]
  simpa using ha.2

/-- … and an input that validates is accepted. -/
theorem objF_complete_strip (ca : SOpt) (ops : List ObjOp) (cks : List SzCk) (shape : Shape) (v : Json)
    (hsz : szSimple cks = true) (hcs : (!ca.isSome || cks.isEmpty) = true) (hca : reprCa ca = true) (hsh : reprShape shape = true)
    (hv : instOK v = true) (hd : jsValid (toDocX (.objF .strip ca ops cks shape)) v = true) :
    acceptsX (.objF .strip ca ops cks shape) v = true := by
  cases v with
  | obj fs =>
    have hfs : instFieldsOK fs = true := by simpa [instOK] using hv
    rw [toDocX, objF_doc .strip ca ops cks shape true fs hsz hsh hfs] at hd
    simp only [Bool.and_eq_true] at hd
    simp only [acceptsX, Bool.and_eq_true, hd.1.1, true_and, Bool.and_true]
    cases ca with
    | none =>
      have : fs.all (fun k _ => shape.keys.contains k) = true := by
        have := hd.1.2; simpa [caJS, jsValid, Mode.isLoose] using this
      rw [filter_id _ fs this]; exact ⟨by simp [catchAccepts], hd.2⟩
    | some c =>
      have : cks = [] := by simpa [SOpt.isSome] using hcs
      subst this
      refine ⟨?_, by simp [szOk]⟩
      have h2 := hd.1.2
      simp only [caJS] at h2
      simp only [catchAccepts]
      have hcg : fs.all (fun k v => shape.keys.contains k || jsValid (toJS false false false c) v)
          = fs.all (fun k v => shape.keys.contains k || accepts c v) :=
        all_congr_fields _ _ (fun k v _ hv' => by
          rw [eqv c false false false v (by simpa [reprCa] using hca) hv']) fs hfs
      rw [← hcg]; exact h2
  | _ => simp [toDocX, toJSX, jsValid_node, kwValid, typeOk] at hd

/-! ### Map -/

/-- `Map(String()<kcks>, val)<cks>`: with key checks the document is the Record document (`propertyNames`), without them
    `propertyNames` would be vacuous and is left out. -/
theorem mapOf_equiv (kcks : List StrCk) (val : S) (cks : List SzCk) (top : Bool) (v : Json)
    (h : reprX top (.mapOf kcks val cks) = true) (hv : instOK v = true) :
    jsValid (toJSX top (.mapOf kcks val cks)) v = acceptsX (.mapOf kcks val cks) v := by
  simp only [reprX, Bool.and_eq_true] at h
  obtain ⟨⟨hkey, hsz⟩, hval⟩ := h
  cases kcks with
  | cons c cs =>
    have hr : reprP top (.record (.str (c :: cs)) val cks) = true := by
      simp only [reprP, S.isStrSchema, Bool.true_and, Bool.and_eq_true]
      exact ⟨⟨by simpa [reprP] using hkey, hsz⟩, hval⟩
    simpa [toJSX, acceptsX] using eqv (.record (.str (c :: cs)) val cks) top false false v hr hv
  | nil =>
    cases v with
    | obj fs =>
      have hfs : instFieldsOK fs = true := by simpa [instOK] using hv
      have hpk := propsKws_propKeys (szBag cks)
        [Kw.type .object, Kw.additionalProperties (toJS false false false val)] (by simp)
      simp only [toJSX, List.isEmpty_nil, if_true, jsValid_node]
      rw [hpk]
      simp only [List.all_append, List.all_cons, List.all_nil, Bool.and_true, kwValid, typeOk, Bool.true_and,
        propsKws_valid cks _ fs hsz, acceptsX, accepts]
      have h2 : fs.all (fun k v => ([] : List Str).contains k || jsValid (toJS false false false val) v)
          = fs.all (fun _ v => accepts val v) :=
        all_congr_fields _ _ (fun k v _ hv => by simp [eqv val false false false v hval hv]) fs hfs
      have h1 : fs.all (fun k _ => (runStr [] k).isSome) = true := by
        simp only [runStr, Option.isSome_some]; exact fields_all_true fs
      rw [h2, h1]
      generalize szOk cks fs.size = A
      generalize JsonFields.all (fun x v => accepts val v) fs = B
      cases A <;> cases B <;> rfl
    | _ => simp [toJSX, jsValid_node, kwValid, typeOk, acceptsX, accepts]

/-- validity of the emitted document = Parse verdict, for every lazy nesting over the base fragment. -/
theorem eqvX : (x : X) → (top : Bool) → (v : Json) → reprX top x = true → instOK v = true →
    jsValid (toJSX top x) v = acceptsX x v
  | .base s, top, v, h, hv => by simpa [toJSX, acceptsX] using eqv s top false false v h hv
  | .lazy o n x, top, v, h, hv => by
    simp only [reprX, Bool.and_eq_true] at h
    obtain ⟨⟨hc, hr⟩, hn⟩ := h
    have ih := eqvX x false v hr hv
    cases n with
    | true =>
      by_cases hnull : v.isNull = true
      · simp [toJSX, acceptsX, anyOf_null, hnull]
      · simp [toJSX, acceptsX, anyOf_null, hnull, hc, ih]
    | false =>
      simp only [Bool.false_eq_true, if_false, Bool.and_eq_true, Bool.not_eq_true'] at hn
      by_cases hnull : v.isNull = true
      · have hv0 : v = .null := (isNull_iff v).1 hnull
        subst hv0
        simp [toJSX, acceptsX, Json.isNull, ih, hn.1, hn.2]
      · simp [toJSX, acceptsX, hnull, hc, ih]
  | .objF mode ca ops cks shape, top, v, h, hv => objF_equiv mode ca ops cks shape top v h hv
  | .mapOf kcks val cks, top, v, h, hv => mapOf_equiv kcks val cks top v h hv

/-- … and Parse returns its input there. -/
theorem presX : (x : X) → (top : Bool) → (v : Json) → reprX top x = true → acceptsX x v = true → outX x v = v
  | .base s, top, v, h, ha => by simpa [outX] using pres s top v (by simpa [reprX] using h) (by simpa [acceptsX] using ha)
  | .lazy o n x, top, v, h, ha => by
    simp only [reprX, Bool.and_eq_true] at h
    obtain ⟨⟨hc, hr⟩, _⟩ := h
    by_cases hnull : v.isNull = true
    · simp [outX, hnull]
    · have ha' : acceptsX x v = true := by simpa [acceptsX, hnull, hc] using ha
      simp [outX, hnull, hc, presX x false v hr ha']
  | .objF mode ca ops cks shape, top, v, h, ha => by
    simp only [reprX, Bool.and_eq_true] at h
    cases mode <;> simp_all [outX, out, Mode.isStrip]
  | .mapOf _ _ _, _, _, _, _ => rfl

theorem c07_lazy_equiv_partial (x : X) (v : Json) (h : reprX true x = true) (hv : instOK v = true) :
    jsValid (toDocX x) v = acceptsX x v := eqvX x true v h hv

theorem c07_lazy_sound (x : X) (v r : Json) (h : reprX true x = true) (hv : instOK v = true)
    (hp : parseX x v = some r) : jsValid (toDocX x) r = true := by
  unfold parseX at hp
  split at hp
  · rename_i ha
    cases hp
    rw [presX x true v h ha, toDocX, eqvX x true v h hv, ha]
  · simp at hp

theorem c07_lazy_complete (x : X) (v : Json) (h : reprX true x = true) (hv : instOK v = true)
    (hd : jsValid (toDocX x) v = true) : (parseX x v).isSome = true := by
  have ha : acceptsX x v = true := by rw [← eqvX x true v h hv]; exact hd
  simp [parseX, ha]

/-- well-formedness carries over: a lazy node adds at most a two-element `anyOf`. -/
theorem wfX : (x : X) → (top : Bool) → reprX top x = true → wfJS (toJSX top x) = true
  | .base s, top, h => by simpa [toJSX] using wf s top false false (by simpa [reprX] using h)
  | .lazy o n x, top, h => by
    simp only [reprX, Bool.and_eq_true] at h
    have ih := wfX x false h.1.2
    cases n <;> simp [toJSX, wfJS, wfKws, wfKw, wfList, KwList.ofList, JSList.length, nullJS, ih]
  | .objF mode ca ops cks shape, top, h => by
    simp only [reprX, Bool.and_eq_true] at h
    have hs := wfShape shape h.2
    have hc : wfJS (caJS ca mode.isLoose) = true := by
      cases ca with
      | none => simp [caJS, wfJS]
      | some c => simpa [caJS] using wf c false false false (by simpa [reprCa] using h.1.2)
    simp only [toJSX, wfJS, wfKws_ofList, List.all_append, List.all_cons, List.all_nil, Bool.and_eq_true, Bool.and_true]
    refine ⟨⟨⟨⟨by simp [wfKw], ?_⟩, ?_⟩, by simpa [wfKw] using hc⟩, ?_⟩
    · split <;> simp [wfKw, hs]
    · split <;> simp [wfKw]
    · unfold propsKws; simp only [List.all_append, Bool.and_eq_true]
      exact ⟨wf_optKw _ _ (by simp [wfKw]), wf_optKw _ _ (by simp [wfKw])⟩
  | .mapOf kcks val cks, top, h => by
    simp only [reprX, Bool.and_eq_true] at h
    cases kcks with
    | cons c cs =>
      have hr : reprP top (.record (.str (c :: cs)) val cks) = true := by
        simp only [reprP, S.isStrSchema, Bool.true_and, Bool.and_eq_true]
        exact ⟨⟨by simpa [reprP] using h.1.1, h.1.2⟩, h.2⟩
      simpa [toJSX] using wf (.record (.str (c :: cs)) val cks) top false false hr
    | nil =>
      have ih := wf val false false false h.2
      simp only [toJSX, List.isEmpty_nil, if_true, wfJS, wfKws_ofList, List.all_append, List.all_cons, List.all_nil,
        Bool.and_eq_true, Bool.and_true]
      refine ⟨⟨by simp [wfKw], by simpa [wfKw] using ih⟩, ?_⟩
      unfold propsKws; simp only [List.all_append, Bool.and_eq_true]
      exact ⟨wf_optKw _ _ (by simp [wfKw]), wf_optKw _ _ (by simp [wfKw])⟩

theorem c07_lazy_wellformed (x : X) (h : reprX true x = true) : wfJS (toDocX x) = true := wfX x true h

/-! ### the property at the top of a schema, strip-mode objects (with or without a call history) included -/

theorem parseX_base (s : S) (v : Json) : parseX (.base s) v = parse s v := by
  unfold parseX parse
  cases h : accepts s v <;> simp [acceptsX, outX, h]

theorem c07_x_sound (x : X) (v r : Json) (h : reprXTop x = true) (hv : instOK v = true)
    (hp : parseX x v = some r) : jsValid (toDocX x) r = true := by
  cases x with
  | base s => exact c07_sound s v r (by simpa [reprXTop] using h) hv (by rw [← parseX_base]; exact hp)
  | lazy o n x => exact c07_lazy_sound _ v r (by simpa [reprXTop] using h) hv hp
  | objF mode ca ops cks shape =>
    cases mode with
    | strip =>
      simp only [reprXTop, Bool.and_eq_true] at h
      unfold parseX at hp
      split at hp
      · rename_i ha; cases hp; exact objF_sound_strip ca ops cks shape v h.1.1.1 h.2 hv ha
      · simp at hp
    | strict => exact c07_lazy_sound _ v r (by simpa [reprXTop] using h) hv hp
    | loose => exact c07_lazy_sound _ v r (by simpa [reprXTop] using h) hv hp
  | mapOf kcks val cks => exact c07_lazy_sound _ v r (by simpa [reprXTop] using h) hv hp

theorem c07_x_complete (x : X) (v : Json) (h : reprXTop x = true) (hv : instOK v = true)
    (hd : jsValid (toDocX x) v = true) : (parseX x v).isSome = true := by
  cases x with
  | base s => rw [parseX_base]; exact c07_complete s v (by simpa [reprXTop] using h) hv hd
  | lazy o n x => exact c07_lazy_complete _ v (by simpa [reprXTop] using h) hv hd
  | objF mode ca ops cks shape =>
    cases mode with
    | strip =>
      simp only [reprXTop, Bool.and_eq_true] at h
      have ha := objF_complete_strip ca ops cks shape v h.1.1.1 h.1.1.2 h.1.2 h.2 hv hd
      simp [parseX, ha]
    | strict => exact c07_lazy_complete _ v (by simpa [reprXTop] using h) hv hd
    | loose => exact c07_lazy_complete _ v (by simpa [reprXTop] using h) hv hd
  | mapOf kcks val cks => exact c07_lazy_complete _ v (by simpa [reprXTop] using h) hv hd

/-- `Object{a: String(), b: String().Optional()}` (strip) after `Required([]string{"b"})`, `Partial()`,
    `Required()`, `Partial([]string{"a"})`: in the fragment, with an instance that misses a field. -/
example : reprXTop (.objF .strip .none [.req [[98]], .part [], .req [], .part [[97]]] [.min 1]
      (.cons [97] (.str [.min 2]) (.cons [98] (.opt (.nul (.str []))) .nil))) = true
    ∧ instOK (.obj (.cons [98] (.str [109]) .nil)) = true := by decide

/-! ### what Partial / Required do to "may this field be absent" (`isFieldOptional` after any call history)

Statements about the transcription of `(*ZodObject).Partial`, `Required` and `isFieldOptional` for EVERY earlier history
`ops`, every shape and field — the documented meaning of the two methods. -/

theorem objSt_snoc (names : List Str) (ops : List ObjOp) (op : ObjOp) :
    objSt names (ops ++ [op]) = (objSt names ops).step names op := by
  simp [objSt, List.foldl_append]

/-- without calls a field is optional iff its schema is. -/
theorem fieldOpt_no_calls (names : List Str) (k : Str) (s : S) : (objSt names []).fieldOpt k s = s.isOpt := by
  simp [objSt, ObjSt.fieldOpt]

/-- after `Required()` every field of the shape is required, whatever came before and whatever its schema. -/
theorem fieldOpt_required_all (names : List Str) (ops : List ObjOp) (k : Str) (s : S) (hk : k ∈ names) :
    (objSt names (ops ++ [.req []])).fieldOpt k s = false := by
  simp [objSt_snoc, ObjSt.step, ObjSt.fieldOpt, hk]

/-- after `Required(keys)` the listed fields are required … -/
theorem fieldOpt_required_keys (names : List Str) (ops : List ObjOp) (keys : List Str) (k : Str) (s : S)
    (hk : k ∈ keys) : (objSt names (ops ++ [.req keys])).fieldOpt k s = false := by
  have hne : keys.isEmpty = false := by cases keys <;> simp_all
  simp [objSt_snoc, ObjSt.step, ObjSt.fieldOpt, hk, hne]

/-- … and the others keep their state. -/
theorem fieldOpt_required_keys_frame (names : List Str) (ops : List ObjOp) (keys : List Str) (k : Str) (s : S)
    (hne : keys ≠ []) (hk : k ∉ keys) :
    (objSt names (ops ++ [.req keys])).fieldOpt k s = (objSt names ops).fieldOpt k s := by
  have hne' : keys.isEmpty = false := by cases keys <;> simp_all
  simp [objSt_snoc, ObjSt.step, ObjSt.fieldOpt, hk, hne']

/-- after `Partial()` every field may be absent, whatever came before (an earlier Required included). -/
theorem fieldOpt_partial_all (names : List Str) (ops : List ObjOp) (k : Str) (s : S) :
    (objSt names (ops ++ [.part []])).fieldOpt k s = true := by
  simp [objSt_snoc, ObjSt.step, ObjSt.fieldOpt]

/-- after `Partial(keys)` the listed fields may be absent (an earlier Required of them is overridden). -/
theorem fieldOpt_partial_keys (names : List Str) (ops : List ObjOp) (keys : List Str) (k : Str) (s : S)
    (hk : k ∈ keys) : (objSt names (ops ++ [.part keys])).fieldOpt k s = true := by
  have hne : keys.isEmpty = false := by cases keys <;> simp_all
  simp [objSt_snoc, ObjSt.step, ObjSt.fieldOpt, hk, hne]

/-! ### the converter before the fix C07-object-optionality (`toDocLegacy`) -/

mutual
theorem erasePart_id : (s : S) → noPart s = true → erasePart s = s
  | .opt s, h => by simp only [erasePart]; rw [erasePart_id s (by simpa [noPart] using h)]
  | .nul s, h => by simp only [erasePart]; rw [erasePart_id s (by simpa [noPart] using h)]
  | .obj m ca part cks sh, h => by
    simp only [noPart, Bool.and_eq_true, Bool.not_eq_true'] at h
    simp only [erasePart]; rw [erasePartO_id ca h.1.2, erasePartSh_id sh h.2, h.1.1]
  | .slice e cks, h => by simp only [erasePart]; rw [erasePart_id e (by simpa [noPart] using h)]
  | .arr r cks items, h => by
    simp only [noPart, Bool.and_eq_true] at h
    simp only [erasePart]; rw [erasePartO_id r h.1, erasePartL_id items h.2]
  | .tup r cks items, h => by
    simp only [noPart, Bool.and_eq_true] at h
    simp only [erasePart]; rw [erasePartO_id r h.1, erasePartL_id items h.2]
  | .record k v cks, h => by
    simp only [noPart, Bool.and_eq_true] at h
    simp only [erasePart]; rw [erasePart_id k h.1, erasePart_id v h.2]
  | .union ms, h => by simp only [erasePart]; rw [erasePartL_id ms (by simpa [noPart] using h)]
  | .xor ms, h => by simp only [erasePart]; rw [erasePartL_id ms (by simpa [noPart] using h)]
  | .and l r, h => by
    simp only [noPart, Bool.and_eq_true] at h
    simp only [erasePart]; rw [erasePart_id l h.1, erasePart_id r h.2]
  | .str _, _ => rfl
  | .int _ _, _ => rfl
  | .flt _, _ => rfl
  | .bool, _ => rfl
  | .nil, _ => rfl
  | .any, _ => rfl
  | .never, _ => rfl
  | .enum _, _ => rfl
  | .lit _, _ => rfl
theorem erasePartO_id : (o : SOpt) → noPartO o = true → erasePartO o = o
  | .none, _ => rfl
  | .some s, h => by simp only [erasePartO]; rw [erasePart_id s (by simpa [noPartO] using h)]
theorem erasePartL_id : (l : SList) → noPartL l = true → erasePartL l = l
  | .nil, _ => rfl
  | .cons s ss, h => by
    simp only [noPartL, Bool.and_eq_true] at h
    simp only [erasePartL]; rw [erasePart_id s h.1, erasePartL_id ss h.2]
theorem erasePartSh_id : (sh : Shape) → noPartSh sh = true → erasePartSh sh = sh
  | .nil, _ => rfl
  | .cons k s r, h => by
    simp only [noPartSh, Bool.and_eq_true] at h
    simp only [erasePartSh]; rw [erasePart_id s h.1, erasePartSh_id r h.2]
end

/-- where the erased state changes nothing the old converter emitted the document the fixed one emits … -/
theorem erase_same (eo em : Bool) : ∀ (x : X) (top : Bool), legacyOK eo em x = true → toJSX top (eraseX eo em x) = toJSX top x := by
  intro x
  induction x with
  | base s =>
    intro top h
    cases eo with
    | false => simp [eraseX]
    | true => simp only [eraseX, if_true]; rw [erasePart_id s (by simpa [legacyOK] using h)]
  | lazy o n x ih => intro top h; simp only [eraseX, toJSX]; rw [ih false (by simpa [legacyOK] using h)]
  | objF m ca ops cks sh =>
    intro top h
    cases eo with
    | false => simp [eraseX]
    | true =>
      simp only [legacyOK, Bool.not_true, Bool.false_or, Bool.and_eq_true, decide_eq_true_eq] at h
      simp only [eraseX, if_true, toJSX, toJS]
      rw [erasePartO_id ca h.1.1, erasePartSh_id sh h.1.2, h.2, reqKeysP_false]
  | mapOf kcks val cks =>
    intro top h
    simp only [legacyOK, Bool.and_eq_true] at h
    have hk : (if em = true then [] else kcks) = kcks := by
      cases em with
      | false => rfl
      | true => have := h.1; simp at this; simp [this]
    have hv : (if eo = true then erasePart val else val) = val := by
      cases eo with
      | false => rfl
      | true => have := h.2; simp at this; simp [erasePart_id val this]
    simp only [eraseX, hk, hv]

theorem legacy_same_doc (eo em : Bool) (x : X) (h : legacyOK eo em x = true) : toDocL eo em x = toDocX x :=
  erase_same eo em x true h

/-- … so the property held for it there. -/
theorem c07_legacy_sound (eo em : Bool) (x : X) (v r : Json) (hl : legacyOK eo em x = true) (h : reprXTop x = true)
    (hv : instOK v = true) (hp : parseX x v = some r) : jsValid (toDocL eo em x) r = true := by
  rw [legacy_same_doc eo em x hl]; exact c07_x_sound x v r h hv hp

theorem c07_legacy_complete (eo em : Bool) (x : X) (v : Json) (hl : legacyOK eo em x = true) (h : reprXTop x = true)
    (hv : instOK v = true) (hd : jsValid (toDocL eo em x) v = true) : (parseX x v).isSome = true := by
  rw [legacy_same_doc eo em x hl] at hd; exact c07_x_complete x v h hv hd

/-- `Map(String().Min(2), Int())`: Parse rejects `{"a": 1}` (the key fails the key schema); `convertMap` before the fix
    C07-map-key-schema dropped the key schema, so `{"a": 1}` validates (complete broken); the fixed document has
    `propertyNames: {minLength: 2}`. -/
theorem witness_map_key_dropped :
    let x : X := .mapOf [.min 2] (.int .int []) []
    let v : Json := .obj (.cons [97] (.num 4) .nil)
    jsValid (toDocL false true x) v = true ∧ acceptsX x v = false ∧ jsValid (toDocX x) v = false := by decide

/-- `Object{a: String()}.Partial()`: Parse accepts `{}`, the old document says `required:["a"]` — the returned value does
    not validate (sound broken); the fixed converter's document admits it. -/
theorem witness_partial_required :
    let x : X := .base (.obj .strip .none true [] (.cons [97] (.str []) .nil))
    acceptsX x (.obj .nil) = true ∧ jsValid (toDocLegacy x) (outX x (.obj .nil)) = false
      ∧ jsValid (toDocX x) (outX x (.obj .nil)) = true := by decide

/-- `Object{b: String().Optional()}.Required()` (types/object.go after 75cf747): Parse rejects `{}`, the old document does
    not require `b` — `{}` validates (complete broken); the fixed converter's document requires it.  Likewise
    `Partial([]string{"a"})` on `{a: String(), c: Bool()}` (sound) and `Required([]string{"b"})` (complete). -/
theorem witness_required_keeps_optional :
    let x : X := .objF .strip .none [.req []] [] (.cons [98] (.opt (.str [])) .nil)
    jsValid (toDocLegacy x) (.obj .nil) = true ∧ acceptsX x (.obj .nil) = false ∧ jsValid (toDocX x) (.obj .nil) = false := by
  decide

theorem witness_partial_keys :
    let x : X := .objF .strict .none [.part [[97]]] [] (.cons [97] (.str []) (.cons [99] .bool .nil))
    let v : Json := .obj (.cons [99] (.bool true) .nil)
    acceptsX x v = true ∧ jsValid (toDocLegacy x) (outX x v) = false ∧ jsValid (toDocX x) (outX x v) = true := by
  decide

/-- the hypotheses are inhabited by non-trivial values: Lazy over a union, Nilable, nested in another Lazy. -/
example : reprX true (.lazy false true (.lazy false false (.base (.union (.cons (.str [.min 2]) (.cons (.int .int [.gte 0]) .nil)))))) = true
    ∧ instOK (.str [109, 109]) = true := by decide

/-! ### witnesses -/

def IncompleteX (x : X) (v : Json) : Prop := jsValid (toDocX x) v = true ∧ acceptsX x v = false
def UnsoundX (x : X) (v : Json) : Prop := acceptsX x v = true ∧ jsValid (toDocX x) (outX x v) = false
instance (x : X) (v : Json) : Decidable (IncompleteX x v) := by unfold IncompleteX; infer_instance
instance (x : X) (v : Json) : Decidable (UnsoundX x v) := by unfold UnsoundX; infer_instance

/-- `Lazy(func() { return StrictObject({a: String()}) })` accepts the string "x", the number 3 and `{a: 1}`;
    `Lazy(Int8())` accepts "x"; `Lazy(Slice(Bool()))` accepts `[1]` — none validates against the emitted document. -/
theorem witness_lazy_typed_inner_unvalidated :
    UnsoundX (.lazy false false (.base (.obj .strict .none false [] (.cons [97] (.str []) .nil)))) (.str [120])
    ∧ UnsoundX (.lazy false false (.base (.obj .strict .none false [] (.cons [97] (.str []) .nil)))) (o1 [97] (.num 4))
    ∧ UnsoundX (.lazy false false (.base (.int .i8 []))) (.str [120])
    ∧ UnsoundX (.lazy false false (.base (.slice .bool []))) (.arr (.cons (.num 4) .nil))
    ∧ UnsoundX (.lazy false false (.lazy true false (.base (.str [.min 2])))) (.num 4) := by decide

/-- null: a plain `.Optional()` lazy accepts null (document: the inner schema's); a lazy over a Nilable schema rejects
    null (validateLazy's nil test precedes the inner schema), the document admits it. -/
theorem witness_lazy_null :
    UnsoundX (.lazy true false (.base (.str []))) .null
    ∧ IncompleteX (.lazy false false (.base (.nul (.str [])))) .null := by decide

theorem c07_lazy_full_false : ¬ c07_lazy_full := by
  intro h
  have h1 := (h (.lazy false false (.base (.int .i8 []))) (.str [120])).1 (.str [120])
    (by simp [parseX, acceptsX, outX, X.consults, S.lazyConsults, Json.isNull])
  exact absurd h1 (by decide)

end Gozod.C07
