/-
  C20 — the default `gozod.IsoTime()` (no options; types/iso.go → checks.ISOTime): since /repo 862300e the validator
  `validate.ISOTime` matches `regex.DefaultTime`, the pattern the check exports.

      c20_isotime_pattern : ∀ s, accepts pat_isotime s = (isoTimeOpt .any).run s      (exported pattern = definition)
      c20_isotime         : ∀ s, accepts val_isotime s = (isoTimeOpt .any).run s      (validator = definition)
      c20_isotime_partial : ∀ s, isoTimeComma.run s = false → accepts val_isotime s = (isoTimeOpt .any).run s   (kept: it held before the fix too)

  Before 862300e the validator matched a private pattern that also took a ',' before the fraction (`IsoTime().Parse("12:30:00,5")`
  accepted, exported pattern refusing it): found by this check, fixed: line in known-findings.txt.
-/
import Gozod.Proofs.C20
import Gozod.Model.FormatSpecTime
import Gozod.Gen.Cert_isotime_pat
import Gozod.Gen.Cert_isotime_partial
import Gozod.Gen.Cert_isotime
namespace Gozod.C20
open Gozod Gozod.Re Gozod.Fmt

theorem elem_app (c : Nat) : ∀ (l1 l2 : List Nat), (l1 ++ l2).elem c = (l1.elem c || l2.elem c)
  | [], _ => by simp [List.elem]
  | x :: l1, l2 => by
    have ih := elem_app c l1 l2
    simp only [List.cons_append, List.elem]
    cases (c == x) with
    | true => rfl
    | false => exact ih

/-- extending the alphabet by bytes on which the automaton has no step does not change what it accepts -/
theorem extend_run (S : Spec) (extra : List Nat) (hdis : ∀ c, extra.elem c = true → S.support.elem c = false) :
    ∀ s, (Fmt.Spec.extend S extra).run s = S.run s := by
  have hg : ∀ (o : Option S.State) (c : Nat), (Fmt.Spec.extend S extra).gstep o c = S.gstep o c := by
    intro o c
    cases o with
    | none => rfl
    | some q =>
      show (if (extra ++ S.support).elem c then (if extra.elem c then none else S.step q c) else none)
        = (if S.support.elem c then S.step q c else none)
      rw [elem_app]
      cases he : extra.elem c with
      | true => rw [hdis c he]; simp
      | false => simp
  have key : ∀ (s : List Nat) (o : Option S.State),
      (Fmt.Spec.extend S extra).accO (s.foldl (Fmt.Spec.extend S extra).gstep o) = S.accO (s.foldl S.gstep o) := by
    intro s
    induction s with
    | nil => intro o; cases o <;> rfl
    | cons c s ih =>
      intro o
      exact (congrArg (fun x => (Fmt.Spec.extend S extra).accO (s.foldl (Fmt.Spec.extend S extra).gstep x)) (hg o c)).trans (ih _)
  exact fun s => key s (some S.init)

theorem isoTimeC_run : ∀ s, isoTimeC.run s = (isoTimeOpt .any).run s :=
  extend_run (isoTimeOpt .any) [44] (by intro c h; have : c = 44 := by simpa using h
                                        subst this; decide)

/-- the pattern the default IsoTime() exports is the definition -/
theorem c20_isotime_pattern : ∀ s, accepts Gen.pat_isotime s = (isoTimeOpt .any).run s := bisim_sound_full _ _ Gen.cert_isotime_pat_ok

/-- the validator (regex.DefaultTime since the fix) is the definition, for all strings -/
theorem c20_isotime : ∀ s, accepts Gen.val_isotime s = (isoTimeOpt .any).run s := bisim_sound_full _ _ Gen.cert_isotime_ok

/-- outside hh:mm:ss ',' digit+ the validator's pattern is the definition -/
theorem c20_isotime_partial : ∀ s, isoTimeComma.run s = false → accepts Gen.val_isotime s = (isoTimeOpt .any).run s := fun s h =>
  (bisim_sound _ _ Gen.cert_isotime_partial_ok s h).trans (isoTimeC_run s)

/-- validator and exported pattern disagree on the excluded region (and only there) -/
theorem c20_isotime_validator_vs_pattern :
    ∀ s, isoTimeComma.run s = false → accepts Gen.val_isotime s = accepts Gen.pat_isotime s := fun s h =>
  (c20_isotime_partial s h).trans (c20_isotime_pattern s).symm

example : isoTimeComma.run (b! "12:30:00,5") = true ∧ isoTimeComma.run (b! "12:30:00.5") = false ∧ isoTimeComma.run (b! "12:30") = false ∧
    (isoTimeOpt .any).run (b! "12:30:00.5") = true ∧ (isoTimeOpt .any).run (b! "12:30") = true ∧ (isoTimeOpt .any).run (b! "12:30:00,5") = false ∧
    accepts Gen.val_isotime (b! "12:30:00,5") = false ∧ accepts Gen.pat_isotime (b! "12:30:00,5") = false := by decide +kernel

end Gozod.C20
