package main

// Translator (go/ast over jsonschema/to.go + behaviour of types/*.go)  →  lean/Gozod/Gen/ConvAccess.lean
//
// C12 says a conversion has no observable effect and is a function of the schema.  Two families of source facts decide
// that beyond what the store model covers, and both are extracted here on every run:
//
//  1. WHAT THE CONVERTER TOUCHES.  `accessorCalls`: every method the converter calls on a schema value (through an
//     interface assertion, a named interface of the file, reflect.MethodByName, or directly) with the result type the
//     assertion states.  `accessorAlias`: for every such method that returns a slice or a map, and every schema type of
//     the generator that has it, whether the returned memory is the schema's own (decided behaviourally:
//     storex.AccessorAliases overwrites what was returned on a scratch schema and asks again).  `writeSites`: every place of
//     to.go that writes THROUGH a reference — index/field/deref assignments, delete/clear/copy/append, the in-place
//     functions of slices/sort/maps — with the origin of the memory written, found by a flow-insensitive provenance
//     analysis of the enclosing function (parameters are resolved through all call sites, local helpers through their
//     return expressions): fresh (make/literal/new in the converter), doc (the *lib.Schema under construction),
//     converter (the converter's own maps), scratch (the private copy annotatedInternals builds; only fields it re-makes),
//     accessor (memory an accessor handed out), liveInternals (schema.Internals()), schema, global, unknown.
//     Proofs/C12Access.lean: no write site has a non-private origin — over the whole table.
//
//  2. WHERE MAP ORDER CAN SHOW.  `mapRanges`: every `for … range` over a map (by the declared/asserted type of the ranged
//     expression) and every Registry.Range callback, with the effects of the loop body: map insert, append to a list that
//     is sorted afterwards / not sorted, field assignments per `case` key, calls into the stateful converter.
//     `enumSort`: the member types convertEnum sorts (the `case` lists of its type switches), or `total`.
//     Proofs/C12Access.lean: every loop is order-insensitive, except the rows of an explicit excluded list (with witnesses).
//
// The file is rewritten only when its content changes.

import (
	"fmt"
	"go/ast"
	"go/parser"
	"go/printer"
	"go/token"
	"os"
	"path/filepath"
	"reflect"
	"sort"
	"strings"

	"verifharness/storex"
)

type accRow struct{ Func, Method, Result, How string }
type aliasRow struct {
	Method, Recv string
	Alias        bool
}
type writeRow struct{ Func, Kind, Target, Origin, Detail string }
type rangeRow struct {
	Func, Over, Class string
	Effects           []string
}

type analyzer struct {
	fset    *token.FileSet
	file    *ast.File
	funcs   map[string]*ast.FuncDecl // by name (methods of converter included)
	iface   map[string]string        // accessor method name -> result type text (from interface literals / named interfaces)
	summary map[string][]string      // local function -> origins of its results ("arg:i" symbolic)
	busy    map[string]bool
	scratch map[string]bool // fields annotatedInternals re-makes on the copy
}

func (a *analyzer) text(n ast.Node) string {
	var b strings.Builder
	printer.Fprint(&b, a.fset, n)
	return strings.Join(strings.Fields(b.String()), " ")
}

// severity: the worst origin wins when a name is assigned several times (flow-insensitive).
var sevOrder = []string{"accessor", "liveInternals", "schema", "unknown", "global", "arg", "scratchShared", "scratch", "converter", "doc", "value", "fresh", "zero"}

func sev(o string) int {
	for i, p := range sevOrder {
		if strings.HasPrefix(o, p) {
			return i
		}
	}
	return 3
}

func worst(a, b string) string {
	if a == "" {
		return b
	}
	if b == "" {
		return a
	}
	if sev(b) < sev(a) {
		return b
	}
	return a
}

func isDataType(t string) bool {
	return strings.HasPrefix(t, "[]") || strings.HasPrefix(t, "map[") || t == "core.ObjectSchema" || t == "core.StructSchema"
}

func isSchemaType(t string) bool {
	return t == "core.ZodSchema" || strings.HasPrefix(t, "core.ZodType[") || t == "any"
}

func isDocType(t string) bool { return strings.Contains(t, "lib.Schema") || strings.Contains(t, "lib.SchemaMap") }

var freshCalls = map[string]bool{"slices.Sorted": true, "maps.Keys": true, "slices.Clone": true, "maps.Clone": true, "slices.Collect": true,
	"fmt.Sprintf": true, "fmt.Sprint": true, "fmt.Errorf": true, "lib.NewRat": true, "errors.New": true, "strings.Join": true}

var inplace = map[string]bool{"slices.Sort": true, "slices.SortFunc": true, "slices.SortStableFunc": true, "slices.Reverse": true,
	"slices.DeleteFunc": true, "slices.Delete": true, "slices.Compact": true, "slices.CompactFunc": true, "slices.Insert": true,
	"slices.Replace": true, "sort.Strings": true, "sort.Ints": true, "sort.Slice": true, "sort.SliceStable": true, "sort.Sort": true,
	"sort.Stable": true, "maps.Copy": true, "maps.DeleteFunc": true, "maps.Insert": true}

type fenv struct {
	a    *analyzer
	fd   *ast.FuncDecl
	vars map[string]string
}

func (e *fenv) set(name, o string) {
	if name == "_" || name == "" {
		return
	}
	e.vars[name] = worst(e.vars[name], o)
}

func (e *fenv) isSchema(x ast.Expr) bool {
	o := e.origin(x)
	return o == "schema"
}

func (e *fenv) origin(x ast.Expr) string {
	a := e.a
	switch v := x.(type) {
	case nil:
		return "value"
	case *ast.Ident:
		if v.Name == "nil" || v.Name == "true" || v.Name == "false" {
			return "value"
		}
		if o, ok := e.vars[v.Name]; ok {
			return o
		}
		if v.Obj == nil || v.Obj.Kind == ast.Var {
			return "global:" + v.Name
		}
		return "value"
	case *ast.BasicLit, *ast.FuncLit:
		return "fresh"
	case *ast.CompositeLit:
		return "fresh"
	case *ast.ParenExpr:
		return e.origin(v.X)
	case *ast.UnaryExpr:
		if v.Op == token.AND {
			if _, ok := v.X.(*ast.CompositeLit); ok {
				return "fresh"
			}
			return e.origin(v.X)
		}
		return "value"
	case *ast.BinaryExpr:
		return "value"
	case *ast.StarExpr:
		o := e.origin(v.X)
		if o == "liveInternals" {
			return "scratchShared" // a struct copy of the live internals: its reference fields are still the schema's
		}
		return o
	case *ast.IndexExpr:
		o := e.origin(v.X)
		if strings.HasPrefix(o, "accessor:") && !strings.HasSuffix(o, "(reflect)") {
			rt := a.iface[accMethod(o)]
			if isSchemaType(strings.TrimPrefix(strings.TrimPrefix(rt, "[]"), "map[string]")) || rt == "core.ObjectSchema" || rt == "core.StructSchema" {
				return "schema"
			}
		}
		return o
	case *ast.SliceExpr:
		return e.origin(v.X)
	case *ast.SelectorExpr:
		if id, ok := v.X.(*ast.Ident); ok {
			if _, isVar := e.vars[id.Name]; !isVar && id.Obj == nil {
				return "global:" + id.Name + "." + v.Sel.Name // package-level value of another package
			}
		}
		o := e.origin(v.X)
		if o == "scratchShared" || o == "scratch" {
			if a.scratch[v.Sel.Name] {
				return "scratch"
			}
			return "scratchShared"
		}
		return o
	case *ast.TypeAssertExpr:
		o := e.origin(v.X)
		if v.Type == nil {
			return o
		}
		t := a.text(v.Type)
		if _, ok := v.Type.(*ast.InterfaceType); ok || isSchemaType(t) || a.namedIface(t) {
			if o == "schema" || strings.HasPrefix(o, "accessor") {
				return "schema"
			}
		}
		return o
	case *ast.CallExpr:
		return e.callOrigin(v)
	}
	return "unknown:" + fmt.Sprintf("%T", x)
}

func accMethod(o string) string {
	s := strings.TrimPrefix(o, "accessor:")
	if i := strings.IndexAny(s, ":("); i >= 0 {
		s = s[:i]
	}
	return s
}

func (a *analyzer) namedIface(t string) bool {
	for _, d := range a.file.Decls {
		gd, ok := d.(*ast.GenDecl)
		if !ok {
			continue
		}
		for _, sp := range gd.Specs {
			if ts, ok := sp.(*ast.TypeSpec); ok && ts.Name.Name == t {
				_, isI := ts.Type.(*ast.InterfaceType)
				return isI
			}
		}
	}
	return false
}

func (e *fenv) callOrigin(c *ast.CallExpr) string {
	a := e.a
	switch f := c.Fun.(type) {
	case *ast.Ident:
		switch f.Name {
		case "make", "new":
			return "fresh"
		case "len", "cap", "min", "max", "string", "float64", "int":
			return "value"
		case "append":
			if len(c.Args) == 0 {
				return "fresh"
			}
			o := e.origin(c.Args[0])
			if o == "zero" {
				return "fresh"
			}
			return o
		}
		if fd, ok := a.funcs[f.Name]; ok && fd.Recv == nil {
			return e.applySummary(f.Name, c.Args)
		}
		if f.Obj == nil && strings.ToUpper(f.Name[:1]) != f.Name[:1] {
			return "value" // conversion to a builtin type
		}
		return "value"
	case *ast.SelectorExpr:
		m := f.Sel.Name
		full := ""
		if id, ok := f.X.(*ast.Ident); ok {
			full = id.Name + "." + m
			if _, isVar := e.vars[id.Name]; !isVar && id.Obj == nil { // a package
				if freshCalls[full] {
					return "fresh"
				}
				if full == "reflect.ValueOf" && len(c.Args) == 1 {
					return e.origin(c.Args[0])
				}
				if inplace[full] && len(c.Args) > 0 {
					return e.origin(c.Args[0])
				}
				return "value"
			}
		}
		xo := e.origin(f.X)
		switch {
		case xo == "schema" && m == "Internals":
			return "liveInternals"
		case xo == "schema" && m == "MethodByName" || strings.HasPrefix(xo, "schema") && m == "MethodByName":
			if len(c.Args) == 1 {
				if s, ok := strLit(c.Args[0]); ok {
					return "reflectMethod:" + s
				}
			}
			return "unknown:MethodByName"
		case strings.HasPrefix(xo, "reflectMethod:") && m == "Call":
			return "accessor:" + strings.TrimPrefix(xo, "reflectMethod:") + "(reflect)"
		case xo == "schema":
			rt := a.iface[m]
			switch {
			case isDataType(rt):
				return "accessor:" + m
			case isSchemaType(rt):
				return "schema"
			default:
				return "value"
			}
		case xo == "converter":
			if fd, ok := a.funcs[m]; ok && fd.Type.Results != nil && len(fd.Type.Results.List) > 0 {
				if isDocType(a.text(fd.Type.Results.List[0].Type)) {
					return "doc"
				}
				if isSchemaType(a.text(fd.Type.Results.List[0].Type)) {
					return "schema"
				}
			}
			return "value"
		case m == "IsValid" || m == "Len" || m == "Kind" || m == "IsNil" || m == "IsOptional" || m == "IsNilable" || m == "Error":
			return "value"
		}
		// a method on data: reflect's Index/Interface/Elem/MapIndex and anything else keep the provenance of the receiver
		return xo
	}
	return "unknown:call"
}

func strLit(e ast.Expr) (string, bool) {
	if b, ok := e.(*ast.BasicLit); ok && b.Kind == token.STRING {
		return strings.Trim(b.Value, "\"`"), true
	}
	return "", false
}

// applySummary: origin of a call of a local function, from its return expressions.
func (e *fenv) applySummary(name string, args []ast.Expr) string {
	a := e.a
	sum := a.summarize(name)
	out := ""
	for _, r := range sum {
		if strings.HasPrefix(r, "arg:") {
			var i int
			fmt.Sscanf(r, "arg:%d", &i)
			if i < len(args) {
				out = worst(out, e.origin(args[i]))
				continue
			}
		}
		out = worst(out, r)
	}
	if out == "" {
		out = "value"
	}
	return out
}

func (a *analyzer) summarize(name string) []string {
	if s, ok := a.summary[name]; ok {
		return s
	}
	if a.busy[name] {
		return []string{"unknown:recursion"}
	}
	a.busy[name] = true
	defer delete(a.busy, name)
	fd := a.funcs[name]
	env := a.envOf(fd, true)
	seen := map[string]bool{}
	var out []string
	ast.Inspect(fd.Body, func(n ast.Node) bool {
		if _, ok := n.(*ast.FuncLit); ok {
			return false
		}
		if r, ok := n.(*ast.ReturnStmt); ok && len(r.Results) > 0 {
			o := env.origin(r.Results[0])
			if !seen[o] {
				seen[o] = true
				out = append(out, o)
			}
		}
		return true
	})
	sort.Strings(out)
	a.summary[name] = out
	return out
}

// envOf computes the provenance of every name of a function (three passes: flow-insensitive fixpoint for these sizes).
func (a *analyzer) envOf(fd *ast.FuncDecl, symbolicParams bool) *fenv {
	e := &fenv{a: a, fd: fd, vars: map[string]string{}}
	if fd.Recv != nil {
		for _, f := range fd.Recv.List {
			for _, n := range f.Names {
				if strings.Contains(a.text(f.Type), "converter") {
					e.vars[n.Name] = "converter"
				} else {
					e.vars[n.Name] = "value"
				}
			}
		}
	}
	idx := 0
	for _, f := range fd.Type.Params.List {
		t := a.text(f.Type)
		for _, n := range f.Names {
			switch {
			case isSchemaType(t) && t != "any":
				e.vars[n.Name] = "schema"
			case isDocType(t):
				e.vars[n.Name] = "doc"
			case symbolicParams:
				e.vars[n.Name] = fmt.Sprintf("arg:%d", idx)
			default:
				e.vars[n.Name] = a.paramOrigin(fd.Name.Name, idx, t)
			}
			idx++
		}
	}
	for pass := 0; pass < 3; pass++ {
		ast.Inspect(fd.Body, func(n ast.Node) bool {
			switch s := n.(type) {
			case *ast.AssignStmt:
				if len(s.Lhs) == len(s.Rhs) {
					for i, l := range s.Lhs {
						if id, ok := l.(*ast.Ident); ok {
							e.set(id.Name, e.origin(s.Rhs[i]))
						}
					}
				} else if len(s.Rhs) == 1 { // v, ok := x.(T) / m[k] / f()
					if id, ok := s.Lhs[0].(*ast.Ident); ok {
						e.set(id.Name, e.origin(s.Rhs[0]))
					}
					for _, l := range s.Lhs[1:] {
						if id, ok := l.(*ast.Ident); ok {
							e.set(id.Name, "value")
						}
					}
				}
			case *ast.ValueSpec:
				for i, n := range s.Names {
					if i < len(s.Values) {
						e.set(n.Name, e.origin(s.Values[i]))
					} else {
						e.set(n.Name, "zero")
					}
				}
			case *ast.RangeStmt:
				o := e.origin(s.X)
				if k, ok := s.Key.(*ast.Ident); ok {
					e.set(k.Name, "value")
				}
				if v, ok := s.Value.(*ast.Ident); ok {
					el := o
					if strings.HasPrefix(o, "accessor:") {
						rt := a.iface[accMethod(o)]
						if strings.Contains(rt, "ZodSchema") || rt == "core.ObjectSchema" || rt == "core.StructSchema" {
							el = "schema"
						}
					}
					e.set(v.Name, el)
				}
			case *ast.TypeSwitchStmt:
				if as, ok := s.Assign.(*ast.AssignStmt); ok && len(as.Lhs) == 1 && len(as.Rhs) == 1 {
					if id, ok := as.Lhs[0].(*ast.Ident); ok {
						e.set(id.Name, e.origin(as.Rhs[0]))
					}
				}
			}
			return true
		})
	}
	return e
}

// paramOrigin resolves a parameter through all call sites of the function in the file.
func (a *analyzer) paramOrigin(fn string, idx int, typ string) string {
	key := fmt.Sprintf("param:%s#%d", fn, idx)
	if a.busy[key] {
		return "unknown:recursion"
	}
	a.busy[key] = true
	defer delete(a.busy, key)
	out := ""
	for _, caller := range a.funcs {
		if caller.Body == nil {
			continue
		}
		var env *fenv
		ast.Inspect(caller.Body, func(n ast.Node) bool {
			c, ok := n.(*ast.CallExpr)
			if !ok {
				return true
			}
			name := ""
			switch f := c.Fun.(type) {
			case *ast.Ident:
				name = f.Name
			case *ast.SelectorExpr:
				if id, ok := f.X.(*ast.Ident); ok && id.Name == "c" {
					name = f.Sel.Name
				}
			}
			if name != fn || idx >= len(c.Args) {
				return true
			}
			if env == nil {
				if caller.Name.Name == fn {
					return true
				}
				env = a.envOf(caller, false)
			}
			out = worst(out, env.origin(c.Args[idx]))
			return true
		})
	}
	if out == "" {
		return "unknown:uncalled(" + typ + ")"
	}
	return out
}

// structValue: is `name` a struct held by value in this function — declared `name := *p` (a copy), or a parameter whose
// type is a plain named struct type (not a pointer, slice, map, interface or schema)?
func (a *analyzer) structValue(fd *ast.FuncDecl, name string) bool {
	if t, ok := a.paramType(fd, name); ok {
		return !strings.HasPrefix(t, "*") && !strings.HasPrefix(t, "[]") && !strings.HasPrefix(t, "map[") && !strings.HasPrefix(t, "...") &&
			!isSchemaType(t) && !isDataType(t) && !strings.Contains(t, "interface") && t == "Options"
	}
	val := false
	ast.Inspect(fd.Body, func(n ast.Node) bool {
		if as, ok := n.(*ast.AssignStmt); ok && as.Tok == token.DEFINE && len(as.Lhs) == 1 && len(as.Rhs) == 1 {
			if id, ok := as.Lhs[0].(*ast.Ident); ok && id.Name == name {
				if _, ok := as.Rhs[0].(*ast.StarExpr); ok {
					val = true
				}
			}
		}
		return true
	})
	return val
}

func rootOf(x ast.Expr) (string, ast.Expr) {
	for {
		switch v := x.(type) {
		case *ast.IndexExpr:
			x = v.X
		case *ast.SelectorExpr:
			if id, ok := v.X.(*ast.Ident); ok {
				return id.Name, v
			}
			x = v.X
		case *ast.StarExpr:
			x = v.X
		case *ast.ParenExpr:
			x = v.X
		case *ast.SliceExpr:
			x = v.X
		case *ast.Ident:
			return v.Name, v
		default:
			return "", x
		}
	}
}

func (a *analyzer) collect() (accs []accRow, writes []writeRow, ranges []rangeRow, enumSort []string, err error) {
	// accessor methods named by interface literals and the file's named interfaces
	ast.Inspect(a.file, func(n ast.Node) bool {
		if it, ok := n.(*ast.InterfaceType); ok && it.Methods != nil {
			for _, m := range it.Methods.List {
				ft, ok := m.Type.(*ast.FuncType)
				if !ok || len(m.Names) == 0 {
					continue
				}
				rt := ""
				if ft.Results != nil && len(ft.Results.List) > 0 {
					rt = a.text(ft.Results.List[0].Type)
				}
				a.iface[m.Names[0].Name] = rt
			}
		}
		return true
	})
	a.iface["Internals"] = "*core.ZodTypeInternals"
	// the fields annotatedInternals re-makes on its copy
	if fd, ok := a.funcs["annotatedInternals"]; ok {
		ast.Inspect(fd.Body, func(n ast.Node) bool {
			if as, ok := n.(*ast.AssignStmt); ok && len(as.Lhs) == 1 && len(as.Rhs) == 1 {
				if sel, ok := as.Lhs[0].(*ast.SelectorExpr); ok {
					if c, ok := as.Rhs[0].(*ast.CallExpr); ok {
						if id, ok := c.Fun.(*ast.Ident); ok && id.Name == "make" {
							a.scratch[sel.Sel.Name] = true
						}
					}
				}
			}
			return true
		})
	} else {
		return nil, nil, nil, nil, fmt.Errorf("annotatedInternals not found in to.go")
	}
	// every function of to.go that a theorem of Proofs/C12*.lean or a definition of Model/ConvDoc.lean names: a renamed or
	// removed one is a broken tie here (and `C12Doc.named_functions_present` fails over the regenerated tables)
	for _, fn := range []string{"applyBag", "applyStringBag", "applyNumericRangeDefaults", "applyMeta", "convert", "convertEnum",
		"convertFile", "convertLiteral", "convertObjectFromShape", "doConvert", "toFloat", "toJSONSchemaRegistry", "toJSONSchemaSingle"} {
		if _, ok := a.funcs[fn]; !ok {
			return nil, nil, nil, nil, fmt.Errorf("%s not found in to.go (named by the C12 theorems / the document model)", fn)
		}
	}
	var names []string
	for n := range a.funcs {
		names = append(names, n)
	}
	sort.Strings(names)
	seenAcc := map[accRow]bool{}
	seenW := map[writeRow]bool{}
	for _, fn := range names {
		fd := a.funcs[fn]
		if fd.Body == nil {
			continue
		}
		env := a.envOf(fd, false)
		addW := func(kind string, target ast.Expr, detail string) {
			root, _ := rootOf(target)
			o := env.origin(target)
			// writing an element / field THROUGH `target`: the memory is the one `target` denotes
			if root == "" {
				o = "unknown:target"
			}
			if id, ok := target.(*ast.Ident); ok && kind == "field" && a.structValue(fd, id.Name) {
				o = "fresh" // assigning a field of a local struct VALUE (a copy): only the copy changes
			}
			w := writeRow{fn, kind, a.text(target), o, detail}
			if !seenW[w] {
				seenW[w] = true
				writes = append(writes, w)
			}
		}
		ast.Inspect(fd.Body, func(n ast.Node) bool {
			switch s := n.(type) {
			case *ast.CallExpr:
				if sel, ok := s.Fun.(*ast.SelectorExpr); ok {
					xo := env.origin(sel.X)
					m := sel.Sel.Name
					how := ""
					switch {
					case m == "MethodByName" && len(s.Args) == 1:
						if lit, ok := strLit(s.Args[0]); ok {
							if inner, ok := sel.X.(*ast.CallExpr); ok && a.text(inner.Fun) == "reflect.ValueOf" && len(inner.Args) == 1 &&
								(env.origin(inner.Args[0]) == "schema") {
								r := accRow{fn, lit, "reflect", "reflect"}
								if !seenAcc[r] {
									seenAcc[r] = true
									accs = append(accs, r)
								}
							}
						}
					case xo == "schema":
						how = "assert"
						if id, ok := sel.X.(*ast.Ident); ok {
							if o, isParam := a.paramType(fd, id.Name); isParam && o == "core.ZodSchema" {
								how = "direct"
							}
						}
						rt := a.iface[m]
						r := accRow{fn, m, rt, how}
						if !seenAcc[r] {
							seenAcc[r] = true
							accs = append(accs, r)
						}
					}
					// in-place library functions
					if id, ok := sel.X.(*ast.Ident); ok && inplace[id.Name+"."+m] && len(s.Args) > 0 {
						addW("inplace", s.Args[0], id.Name+"."+m)
					}
				}
				if id, ok := s.Fun.(*ast.Ident); ok && len(s.Args) > 0 {
					switch id.Name {
					case "delete", "clear", "copy":
						addW(id.Name, s.Args[0], "")
					case "append":
						addW("append", s.Args[0], "")
					}
				}
			case *ast.AssignStmt:
				for _, l := range s.Lhs {
					switch t := l.(type) {
					case *ast.IndexExpr:
						addW("index", t.X, "")
					case *ast.StarExpr:
						addW("deref", t.X, "")
					case *ast.SelectorExpr:
						addW("field", t.X, t.Sel.Name)
					}
				}
			case *ast.IncDecStmt:
				switch t := s.X.(type) {
				case *ast.IndexExpr:
					addW("index", t.X, "")
				case *ast.SelectorExpr:
					addW("field", t.X, t.Sel.Name)
				}
			case *ast.RangeStmt:
				if r, ok := a.rangeRow(fn, fd, env, s); ok {
					ranges = append(ranges, r)
				}
			}
			return true
		})
	}
	// Registry.Range callbacks
	for _, fn := range names {
		fd := a.funcs[fn]
		if fd.Body == nil {
			continue
		}
		ast.Inspect(fd.Body, func(n ast.Node) bool {
			if c, ok := n.(*ast.CallExpr); ok {
				if sel, ok := c.Fun.(*ast.SelectorExpr); ok && sel.Sel.Name == "Range" && len(c.Args) == 1 {
					if fl, ok := c.Args[0].(*ast.FuncLit); ok {
						env := a.envOf(fd, false)
						ranges = append(ranges, rangeRow{fn, a.text(sel.X) + ".Range", "registry", a.effects(fd, env, fl.Body, "")})
					}
				}
			}
			return true
		})
	}
	// convertEnum: which member types get sorted
	if fd, ok := a.funcs["convertEnum"]; ok {
		enumSort = a.enumSort(fd)
	} else {
		return nil, nil, nil, nil, fmt.Errorf("convertEnum not found in to.go")
	}
	return
}

func (a *analyzer) paramType(fd *ast.FuncDecl, name string) (string, bool) {
	for _, f := range fd.Type.Params.List {
		for _, n := range f.Names {
			if n.Name == name {
				return a.text(f.Type), true
			}
		}
	}
	return "", false
}

// mapTyped: is the ranged expression a map? (declared parameter type, accessor result type, known map fields, make(map…))
func (a *analyzer) mapTyped(fd *ast.FuncDecl, env *fenv, x ast.Expr) (bool, string) {
	isMapT := func(t string) bool {
		return strings.HasPrefix(t, "map[") || t == "core.ObjectSchema" || t == "core.StructSchema" || t == "lib.SchemaMap"
	}
	switch v := x.(type) {
	case *ast.Ident:
		if t, ok := a.paramType(fd, v.Name); ok {
			return isMapT(t), t
		}
		// local: look at its initialisers
		found, typ := false, ""
		ast.Inspect(fd.Body, func(n ast.Node) bool {
			as, ok := n.(*ast.AssignStmt)
			if !ok || len(as.Rhs) == 0 {
				return true
			}
			for i, l := range as.Lhs {
				id, ok := l.(*ast.Ident)
				if !ok || id.Name != v.Name {
					continue
				}
				r := as.Rhs[0]
				if i < len(as.Rhs) {
					r = as.Rhs[i]
				}
				switch rv := r.(type) {
				case *ast.CallExpr:
					if id, ok := rv.Fun.(*ast.Ident); ok && id.Name == "make" && len(rv.Args) > 0 && isMapT(a.text(rv.Args[0])) {
						found, typ = true, a.text(rv.Args[0])
					}
					if sel, ok := rv.Fun.(*ast.SelectorExpr); ok && isMapT(a.iface[sel.Sel.Name]) && env.origin(sel.X) == "schema" {
						found, typ = true, a.iface[sel.Sel.Name]
					}
				case *ast.CompositeLit:
					if rv.Type != nil && isMapT(a.text(rv.Type)) {
						found, typ = true, a.text(rv.Type)
					}
				case *ast.SelectorExpr:
					if rv.Sel.Name == "Bag" || rv.Sel.Name == "Values" {
						found, typ = true, "field "+rv.Sel.Name
					}
				}
			}
			return true
		})
		return found, typ
	case *ast.SelectorExpr:
		switch v.Sel.Name {
		case "Bag", "Values", "defs", "seen", "counts", "refs", "idCache", "unwrapCache", "Defs":
			return true, "field " + v.Sel.Name
		}
	}
	return false, ""
}

func (a *analyzer) rangeRow(fn string, fd *ast.FuncDecl, env *fenv, s *ast.RangeStmt) (rangeRow, bool) {
	// sorted key list: `range slices.Sorted(maps.Keys(m))`
	if c, ok := s.X.(*ast.CallExpr); ok && a.text(c.Fun) == "slices.Sorted" && len(c.Args) == 1 {
		if in, ok := c.Args[0].(*ast.CallExpr); ok && a.text(in.Fun) == "maps.Keys" && len(in.Args) == 1 {
			return rangeRow{fn, a.text(in.Args[0]), "sortedKeys", a.effects(fd, env, s.Body, "")}, true
		}
	}
	isMap, _ := a.mapTyped(fd, env, s.X)
	if !isMap {
		return rangeRow{}, false
	}
	key := ""
	if k, ok := s.Key.(*ast.Ident); ok {
		key = k.Name
	}
	return rangeRow{fn, a.text(s.X), "map", a.effects(fd, env, s.Body, key)}, true
}

// effects of a loop body, as order-relevant facts.
func (a *analyzer) effects(fd *ast.FuncDecl, env *fenv, body *ast.BlockStmt, key string) []string {
	set := map[string]bool{}
	var caseKeys []string
	var visit func(n ast.Node) bool
	visit = func(n ast.Node) bool {
		switch s := n.(type) {
		case *ast.CaseClause:
			old := caseKeys
			caseKeys = nil
			for _, e := range s.List {
				if l, ok := strLit(e); ok {
					caseKeys = append(caseKeys, l)
				}
			}
			for _, st := range s.Body {
				ast.Inspect(st, visit)
			}
			caseKeys = old
			return false
		case *ast.AssignStmt:
			for i, l := range s.Lhs {
				switch t := l.(type) {
				case *ast.IndexExpr:
					set["mapInsert:"+a.text(t.X)] = true
				case *ast.SelectorExpr:
					k := strings.Join(caseKeys, "|")
					if k == "" {
						k = "*"
					}
					set["field:"+t.Sel.Name+"<-"+k] = true
				case *ast.Ident:
					if i < len(s.Rhs) {
						if c, ok := s.Rhs[i].(*ast.CallExpr); ok {
							if id, ok := c.Fun.(*ast.Ident); ok && id.Name == "append" && len(c.Args) > 0 {
								if a.sortedAfter(fd, t.Name) {
									set["appendSorted:"+t.Name] = true
								} else if env.origin(c.Args[0]) != "fresh" || a.declaredOutside(body, t.Name) {
									set["appendUnsorted:"+t.Name] = true
								}
							}
						}
					}
				}
			}
		case *ast.CallExpr:
			if sel, ok := s.Fun.(*ast.SelectorExpr); ok {
				if id, ok := sel.X.(*ast.Ident); ok && id.Name == "c" {
					if fdm, ok := a.funcs[sel.Sel.Name]; ok && fdm.Recv != nil {
						set["converterCall:"+sel.Sel.Name] = true
					}
				}
			}
			if id, ok := s.Fun.(*ast.Ident); ok && id.Name == "delete" && len(s.Args) > 0 {
				set["delete:"+a.text(s.Args[0])] = true
			}
		}
		return true
	}
	ast.Inspect(body, visit)
	var out []string
	for k := range set {
		out = append(out, k)
	}
	sort.Strings(out)
	return out
}

func (a *analyzer) declaredOutside(body *ast.BlockStmt, name string) bool {
	inside := false
	ast.Inspect(body, func(n ast.Node) bool {
		if as, ok := n.(*ast.AssignStmt); ok && as.Tok == token.DEFINE {
			for _, l := range as.Lhs {
				if id, ok := l.(*ast.Ident); ok && id.Name == name {
					inside = true
				}
			}
		}
		return true
	})
	return !inside
}

// sortedAfter: is `name` passed to a sorting function somewhere in the function?
func (a *analyzer) sortedAfter(fd *ast.FuncDecl, name string) bool {
	found := false
	ast.Inspect(fd.Body, func(n ast.Node) bool {
		if c, ok := n.(*ast.CallExpr); ok && len(c.Args) > 0 {
			f := a.text(c.Fun)
			if strings.HasPrefix(f, "slices.Sort") || strings.HasPrefix(f, "sort.") {
				if id, ok := c.Args[0].(*ast.Ident); ok && id.Name == name {
					found = true
				}
			}
		}
		return true
	})
	return found
}

// enumSort: the member types whose lists convertEnum sorts. A type switch with sorting calls in its clauses → the case
// types; sorting calls in both arms of an if/else that covers every list → "total".
func (a *analyzer) enumSort(fd *ast.FuncDecl) []string {
	var types []string
	foundSwitch := false
	ast.Inspect(fd.Body, func(n ast.Node) bool {
		ts, ok := n.(*ast.TypeSwitchStmt)
		if !ok {
			return true
		}
		for _, cc := range ts.Body.List {
			cl := cc.(*ast.CaseClause)
			sorts := false
			for _, st := range cl.Body {
				ast.Inspect(st, func(m ast.Node) bool {
					if c, ok := m.(*ast.CallExpr); ok && strings.HasPrefix(a.text(c.Fun), "slices.Sort") {
						sorts = true
					}
					return true
				})
			}
			if sorts {
				foundSwitch = true
				if cl.List == nil {
					types = append(types, "default")
				}
				for _, t := range cl.List {
					types = append(types, a.text(t))
				}
			}
		}
		return true
	})
	if foundSwitch {
		return types
	}
	total := false
	ast.Inspect(fd.Body, func(n ast.Node) bool {
		is, ok := n.(*ast.IfStmt)
		if !ok || is.Else == nil {
			return true
		}
		has := func(b ast.Node) bool {
			f := false
			ast.Inspect(b, func(m ast.Node) bool {
				if c, ok := m.(*ast.CallExpr); ok && strings.HasPrefix(a.text(c.Fun), "slices.Sort") {
					f = true
				}
				return true
			})
			return f
		}
		if has(is.Body) && has(is.Else) {
			total = true
		}
		return true
	})
	if total {
		return []string{"total"}
	}
	return []string{"none"}
}

// ---------------------------------------------------------------------------------------------
// behaviour: which accessors hand out the schema's own memory

func aliasTable(methods map[string]bool) []aliasRow {
	seen := map[string]bool{}
	var out []aliasRow
	for _, b := range append(storex.Bases(), storex.DefBases()...) {
		s := b.Mk()
		rv := reflect.ValueOf(s)
		for m := range methods {
			mv := rv.MethodByName(m)
			if !mv.IsValid() || mv.Type().NumIn() != 0 || mv.Type().NumOut() != 1 {
				continue
			}
			if k := mv.Type().Out(0).Kind(); k != reflect.Slice && k != reflect.Map {
				continue
			}
			t := fmt.Sprintf("%T", s)
			if i := strings.Index(t, "["); i >= 0 {
				t = t[:i]
			}
			t = strings.TrimPrefix(t, "*types.")
			key := m + "@" + t
			fresh := b.Mk() // a scratch schema: never part of a history
			al := storex.AccessorAliases(fresh, m)
			if seen[key] {
				for i := range out {
					if out[i].Method == m && out[i].Recv == t && al {
						out[i].Alias = true
					}
				}
				continue
			}
			seen[key] = true
			out = append(out, aliasRow{m, t, al})
		}
	}
	sort.Slice(out, func(i, j int) bool {
		if out[i].Method != out[j].Method {
			return out[i].Method < out[j].Method
		}
		return out[i].Recv < out[j].Recv
	})
	return out
}

// ---------------------------------------------------------------------------------------------

func q(s string) string { return fmt.Sprintf("%q", s) }

func originLean(o string) string {
	switch {
	case o == "fresh" || o == "zero":
		return ".fresh"
	case o == "doc":
		return ".doc"
	case o == "converter":
		return ".converter"
	case o == "scratch":
		return ".scratch"
	case o == "scratchShared":
		return ".scratchShared"
	case o == "liveInternals":
		return ".liveInternals"
	case o == "schema":
		return ".schema"
	case o == "value":
		return ".value"
	case strings.HasPrefix(o, "accessor:"):
		return ".accessor " + q(strings.TrimPrefix(o, "accessor:"))
	case strings.HasPrefix(o, "global:"):
		return ".global " + q(strings.TrimPrefix(o, "global:"))
	}
	return ".unknown " + q(o)
}

func genAccess(repo, target string) error {
	fset := token.NewFileSet()
	path := filepath.Join(repo, "jsonschema", "to.go")
	f, err := parser.ParseFile(fset, path, nil, 0)
	if err != nil {
		return err
	}
	a := &analyzer{fset: fset, file: f, funcs: map[string]*ast.FuncDecl{}, iface: map[string]string{}, summary: map[string][]string{},
		busy: map[string]bool{}, scratch: map[string]bool{}}
	for _, d := range f.Decls {
		if fd, ok := d.(*ast.FuncDecl); ok {
			a.funcs[fd.Name.Name] = fd
		}
	}
	accs, writes, ranges, enumSort, err := a.collect()
	if err != nil {
		return err
	}
	if len(accs) < 10 || len(writes) < 20 || len(ranges) < 3 {
		return fmt.Errorf("translator found too little in to.go: %d accessor calls, %d write sites, %d map ranges", len(accs), len(writes), len(ranges))
	}
	sort.Slice(accs, func(i, j int) bool {
		if accs[i].Func != accs[j].Func {
			return accs[i].Func < accs[j].Func
		}
		return accs[i].Method < accs[j].Method
	})
	methods := map[string]bool{}
	for _, r := range accs {
		if isDataType(r.Result) || r.Result == "reflect" {
			methods[r.Method] = true
		}
	}
	aliases := aliasTable(methods)

	var b strings.Builder
	b.WriteString("/- REGENERATED on every `./check C12` run by harness/cmd/c12/access.go (go/ast over <repo>/jsonschema/to.go; the\n")
	b.WriteString("   `accessorAlias` table behaviourally over <repo>/types).  DO NOT EDIT. -/\n")
	b.WriteString("namespace Gozod.Gen.ConvAccess\n\n")
	b.WriteString("/-- where the memory a write site writes through comes from -/\ninductive Origin\n  | fresh | doc | converter | scratch | scratchShared | liveInternals | schema | value\n  | accessor (m : String) | global (n : String) | unknown (s : String)\nderiving DecidableEq, Repr\n\n")
	b.WriteString("structure AccCall where\n  fn : String\n  method : String\n  result : String\n  how : String\n  data : Bool   -- the result is a slice or a map (or unknown: reflective call)\nderiving DecidableEq, Repr\n\n")
	b.WriteString("structure AccAlias where\n  method : String\n  recv : String\n  alias : Bool\nderiving DecidableEq, Repr\n\n")
	b.WriteString("structure WriteSite where\n  fn : String\n  kind : String\n  target : String\n  origin : Origin\n  detail : String\nderiving DecidableEq, Repr\n\n")
	b.WriteString("/-- order-relevant effect of a loop body -/\ninductive Effect\n  | mapInsert (target : String)\n  | appendSorted (list : String)\n  | appendUnsorted (list : String)\n  | field (f : String) (key : String)\n  | converterCall (m : String)\n  | delete (target : String)\nderiving DecidableEq, Repr\n\n")
	b.WriteString("structure MapRange where\n  fn : String\n  over : String\n  cls : String\n  effects : List Effect\nderiving DecidableEq, Repr\n\n")
	b.WriteString("/-- every method the converter calls on a schema value -/\ndef accessorCalls : List AccCall := [\n")
	for i, r := range accs {
		fmt.Fprintf(&b, "  ⟨%s, %s, %s, %s, %v⟩%s\n", q(r.Func), q(r.Method), q(r.Result), q(r.How), isDataType(r.Result) || r.Result == "reflect", comma(i, len(accs)))
	}
	b.WriteString("]\n\n/-- slice/map-returning accessors × schema types of the generator: does the result alias the schema's own memory? -/\ndef accessorAlias : List AccAlias := [\n")
	for i, r := range aliases {
		fmt.Fprintf(&b, "  ⟨%s, %s, %v⟩%s\n", q(r.Method), q(r.Recv), r.Alias, comma(i, len(aliases)))
	}
	b.WriteString("]\n\n/-- the fields `annotatedInternals` re-makes on its private copy of the internals -/\ndef scratchFreshFields : List String := [")
	var sf []string
	for k := range a.scratch {
		sf = append(sf, q(k))
	}
	sort.Strings(sf)
	b.WriteString(strings.Join(sf, ", "))
	b.WriteString("]\n\n/-- every place of to.go that writes through a reference -/\ndef writeSites : List WriteSite := [\n")
	for i, w := range writes {
		fmt.Fprintf(&b, "  ⟨%s, %s, %s, %s, %s⟩%s\n", q(w.Func), q(w.Kind), q(w.Target), originLean(w.Origin), q(w.Detail), comma(i, len(writes)))
	}
	b.WriteString("]\n\n/-- every loop over a map (or Registry.Range callback) with the order-relevant effects of its body -/\ndef mapRanges : List MapRange := [\n")
	for i, r := range ranges {
		var es []string
		for _, e := range r.Effects {
			kind, arg, _ := strings.Cut(e, ":")
			if kind == "field" {
				f, k, _ := strings.Cut(arg, "<-")
				es = append(es, fmt.Sprintf(".field %s %s", q(f), q(k)))
			} else {
				es = append(es, fmt.Sprintf(".%s %s", kind, q(arg)))
			}
		}
		fmt.Fprintf(&b, "  ⟨%s, %s, %s, [%s]⟩%s\n", q(r.Func), q(r.Over), q(r.Class), strings.Join(es, ", "), comma(i, len(ranges)))
	}
	b.WriteString("]\n\n/-- the member types whose lists `convertEnum` sorts (`total`: every list) -/\ndef enumSort : List String := [")
	var es []string
	for _, e := range enumSort {
		es = append(es, q(e))
	}
	b.WriteString(strings.Join(es, ", "))
	b.WriteString("]\n\n")
	if err := a.emitOptionFacts(&b); err != nil { // options.go: the options struct, the Override call, what the document holds
		return err
	}
	b.WriteString("end Gozod.Gen.ConvAccess\n")

	old, _ := os.ReadFile(target)
	if string(old) == b.String() {
		fmt.Println("Gen/ConvAccess.lean unchanged")
		return nil
	}
	if err := os.WriteFile(target, []byte(b.String()), 0o644); err != nil {
		return err
	}
	fmt.Println("Gen/ConvAccess.lean rewritten")
	return nil
}

func comma(i, n int) string {
	if i+1 < n {
		return ","
	}
	return ""
}
