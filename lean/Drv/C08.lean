import Gozod.Drv.Loop
import Gozod.Drv.C08T
def main : IO Unit := Gozod.Drv.runTokens Gozod.Drv.C08T.handle
