/-
  Conversion options (`jsonschema.Options`) as parameters of the conversion step (C12, round 4b).

  jsonschema/to.go reads the options struct at 17 places (table `optionReads` of `Gen/ConvAccess.lean`, regenerated on every
  run): five value-typed fields steer the structural part of the document (`Unrepresentable`, `Cycles`, `Reused`, `IO`; `Target`
  is never read), `Metadata` chooses the registry `applyMeta` / `getID` read (nil: `core.GlobalRegistry`), `URI` maps an id
  to the `$ref` text, `Override` is called once per converted node with `OverrideContext{ZodSchema: schema, JSONSchema:
  placeholder}` — the LIVE schema and the LIVE document node (the one the conversion returns / hangs into its parent).

  What the two callbacks are: user code.  The property is about the library, so the model fixes what user code is handed and
  lets it do anything with that:

    URI        a function of the id text (it is handed a string: nothing of the library's is reachable from it)
    Override   may read the schema (its observation), assign the value-typed keywords of the node it is handed, and rewrite IN
               PLACE whatever memory the node holds references to (the `Examples` list).  It may not call the schema's exported
               mutators (`Internals().AddCheck`, `SetBag…`): those are C08's matter.  A caller that mutates the RETURNED
               document is the same thing after the fact.

  Mirrors (jsonschema/to.go):
    takeExamples   applyMeta: `if len(meta.Examples) > 0 && len(jsonSchema.Examples) == 0 { jsonSchema.Examples = slices.Clone(meta.Examples) }`
                   — `meta` is the struct copy `Registry.Get` returns: its `Examples []any` header still points at the registry
                   entry's backing array.  `copy = true` is the code since /repo 8997831 (`slices.Clone(meta.Examples)`),
                   `copy = false` the code before it (the document ALIASED the registry entry), kept for the witness.
    convertO       converter.convert for one node: doConvert (the Bag part is `Store.convert`), applyMeta, getID + `$ref`
                   (`c.opts.URI`), `c.opts.Override(...)` at the very end.
-/
import Gozod.Model.DefData

namespace Gozod.ConvOpts
open Gozod.Store Gozod.DefData

/-- the value-typed fields of `jsonschema.Options` (strings as ids, 0 = "") -/
structure OptVals where
  unrepresentable : Nat
  cycles : Nat
  reused : Nat
  target : Nat
  io : Nat
deriving DecidableEq, Repr

/-- A metadata registry entry as `Registry.Get` hands it out: strings are values, `Examples []any` is a slice header whose
    backing array (a `node` cell keyed by index) is the registry's own. -/
structure REntry where
  id : Nat
  title : Nat
  descr : Nat
  examples : Option Loc
deriving DecidableEq, Repr

/-- a `*core.Registry[core.GlobalMeta]`: schema identity ↦ entry -/
abbrev Reg := Loc → Option REntry

/-- value-typed keywords of a document node an Override can assign -/
structure DocVals where
  title : Nat
  descr : Nat
  ref : Option Nat        -- `$ref` of a schema with an ID: `URI(id)`, else the id itself (`#/$defs/<id>`)
  extra : Nat             -- any other value-typed keyword (0 = unset)
deriving DecidableEq, Repr

/-- one node of the document under construction -/
structure DocNode where
  optv : OptVals          -- the option values the structural part was rendered under
  kw : VBag               -- the annotated Bag entries (keywords: `applyBag`, order-invariant by `c12_order_invariant`)
  vals : DocVals
  examples : Option Loc   -- the `[]any` behind `Examples`
deriving DecidableEq, Repr

/-- `Options.Override`, as far as the library is concerned (see the header). `rewrite` is the content of the `Examples`
    list after the callback as a function of its content before: any sequence of in-place assignments. -/
structure Override where
  edit : Obs → DocVals → DocVals
  rewrite : Obs → List (Nat × UVal) → List (Nat × UVal)

structure Opts where
  vals : OptVals
  metadata : Option Reg
  uri : Option (Nat → Nat)
  override : Option Override

def noOpts : Opts := ⟨⟨0, 0, 0, 0, 0⟩, none, none, none⟩

/-- `applyMeta`: the examples the node shows -/
def takeExamples (copy : Bool) (σ : Store) (e : Option REntry) : Store × Option Loc :=
  match e.bind (·.examples) with
  | none => (σ, none)
  | some l =>
    if (readNode σ.heap l).isEmpty then (σ, none)
    else if copy then let r := shallow σ l; (r.1, some r.2)
    else (σ, some l)

/-- the Override's in-place part: the cell behind `Examples` is rewritten -/
def overrideWrites (σ : Store) (x : Option Loc) (f : List (Nat × UVal) → List (Nat × UVal)) : Store :=
  match x with
  | none => σ
  | some l => write σ l (.node (f (readNode σ.heap l)))

/-- `ToJSONSchema(s, o)` for one node: the store afterwards and the node. `g` = `core.GlobalRegistry`. -/
def convertO (cfg : Cfg) (copy : Bool) (o : Opts) (g : Reg) (σ : Store) (s : Schema) : Store × DocNode :=
  let c := convert cfg σ s
  let e := (o.metadata.getD g) s.self
  let x := takeExamples copy c.1 e
  let id := (e.map (·.id)).getD 0
  let node : DocNode :=
    { optv := o.vals, kw := c.2.2,
      vals := ⟨(e.map (·.title)).getD 0, (e.map (·.descr)).getD 0,
               if id = 0 then none else some ((o.uri.map (fun u => u id)).getD id), 0⟩,
      examples := x.2 }
  match o.override with
  | none => (x.1, node)
  | some ov =>
    let ob := obs x.1.heap s
    (overrideWrites x.1 node.examples (ov.rewrite ob), { node with vals := ov.edit ob node.vals })

/-- what the serialised document shows of a node -/
structure Shown where
  optv : OptVals
  kw : VBag
  vals : DocVals
  examples : Option (List Nat)
deriving DecidableEq, Repr

def render (r : Store × DocNode) : Shown :=
  ⟨r.2.optv, r.2.kw, r.2.vals, r.2.examples.map (fun l => ser depth r.1.heap (.ref l))⟩

/-- what `Registry.Get(t)` shows a caller: the entry with its examples serialised -/
def entryObs (h : Loc → Option Cell) (e : Option REntry) : Option (Nat × Nat × Nat × Option (List Nat)) :=
  e.map (fun e => (e.id, e.title, e.descr, e.examples.map (fun l => ser depth h (.ref l))))

/-! ### histories with options -/

inductive HOpO
  | chain (i : Nat) (op : Op)
  | conv (i : Nat) (o : Opts)       -- ToJSONSchema(live[i], o)
  | parse (i : Nat)

def runHO (cfg : Cfg) (copy : Bool) (g : Reg) : Store → List Schema → List HOpO → Store × List Schema
  | σ, live, [] => (σ, live)
  | σ, live, .chain i op :: rest =>
    match live[i]? with
    | none => runHO cfg copy g σ live rest
    | some recv => let r := applyOp cfg σ recv op; runHO cfg copy g r.1 (live ++ [r.2]) rest
  | σ, live, .conv i o :: rest =>
    match live[i]? with
    | none => runHO cfg copy g σ live rest
    | some s => runHO cfg copy g (convertO cfg copy o g σ s).1 live rest
  | σ, live, .parse _ :: rest => runHO cfg copy g σ live rest

end Gozod.ConvOpts
