"""C11 — FromJSONSchema yields a schema equivalent to the JSON Schema it was given."""
import os, re, shutil
from . import common as C

MANIFEST = dict(
   technique="Lean 4 proof (fromJS, a transcription of jsonschema/from.go over the JSON-Schema keyword AST, returns on every good document of a structured fragment J1 a schema that accepts exactly the valid instances; round trip as a corollary of C07; const/enum over members of every JSON kind through a model of types/literal.go's literalEqual / reflect.DeepEqual on decoded Go values, proved equal to JSON equality; format documents against C20's spec automata by importing C20's certificate theorems; strict-mode theorems over a keyword table regenerated behaviourally from the code; frame theorems of the Lean converters over a go/ast-regenerated table of the keywords every from.go function reads) + differential correspondence against FromJSONSchema/ParseAny, an independent validator on the original document and on the round-trip document, for generated documents over the whole documented keyword table incl. sibling keywords, compositions of object schemas sharing property names and every mapped format on C20's sample universes + structure fingerprint of the transcribed functions",
   text="All property-level theorems are stated for `cur`, the hand-pinned value of the patch flags that mirrors /repo HEAD (the driver runs `cur` only); each is a corollary of a version proved for every flag setting; legacy behaviour survives in witness_* theorems only. c11_equiv_partial: for every good document d of J1 (string/number with all bounds, multipleOf, pattern, boolean, null, {}, true/false, arrays, closed tuples, objects with required properties and additionalProperties false/absent/schema, record objects, const, enum incl. mixed kinds, anyOf/oneOf/allOf over members that do not admit null, $ref), any strict flag and any strict-mode table: fromJS cur returns a schema s with jsValid d.doc x = acceptsDecoded s x for in-scope x (ASCII strings: witness_instOK_needed). c11_roundtrip: on rt cur (format-free; OPEN objects included since 5ed05fc), jsValid (toDoc s) x = jsValid d.doc x (via C07). c11_enum (FULL strength on cur: members and instances of every JSON kind, null included), c11_const, literalEqual_eq, c11_enum_members_accepted, c11_members_no_panic; c11_roundtrip_enum / c11_roundtrip_const (no array member) with witness_roundtrip_array_const. Formats: c11_format_equiv_partial (ipv4, ipv6, date, date-time: the dedicated schema's validator = the format's C20 spec automaton), parses_uuid / parses_time with witness_format_uuid_narrower / witness_format_time_no_offset, c11_format_full_false; round trip c11_format_roundtrip_ipv4, c11_format_roundtrip_ipv6_partial, witness_format_name_internal (iso_date / iso_datetime / iso_time are written as the format keyword), witness_format_ipv6_roundtrip, c11_format_roundtrip_full_false. Strict mode: c11_strict_rejects (the node that carries a rejected keyword), c11_strict_property / convProps_strict (an unsupported-keyword error of any property of a typed object reaches the caller; witness_strict_property_dropped for the code before 1871965), c11_strict_silent / c11_strict_full_false over the regenerated keyword table; strict_rejects_iff_read, documented_are_read, converter_reads_documented and the *_frame / reads_* pairs over the go/ast-regenerated reads table. fixed_* are decide'd tests.",
   note="PARTIAL: outside good/J1 the code violates the property (integer type, sibling keywords next to $ref/allOf/anyOf/oneOf/const/enum, keywords without type, tuple items all required, optional properties accepting null, strict-sided intersections accepting keys the strict side does not know, array const/enum members flattened by the round trip, strict mode unreached keywords and contentEncoding/contentMediaType; formats: uuid / time / date-time / email / uri recognisers narrower or different from the JSON Schema formats, internal format names and the IPv6 pattern in the round trip): open findings. Nullable unions / intersections, open objects, required-without-property, integer bounds, format siblings are repaired in /repo and judged by the run; of these only open objects entered the theorems' fragment (rt) this round — good still excludes null-admitting union members. Email() and URL() have no Lean model (decided by the run against the validator). Strict mode below the root is proved for properties of a typed object only; items / prefixItems / composition members by the run. The documented column of the keyword table is cross-checked against docs/json-schema.md (Supported Conversions table, strict-mode sentence); constraint keywords the docs do not list are a harness literal (listed in the evidence). Not modelled: recursive $ref, user regexes beyond the five emitted shapes, array/object const/enum members below the root. Trusted as for C07 and C20.",
   design="DESIGN.md §5 C11")

MODULES = ["Gozod.Proofs.C11", "Gozod.Proofs.C11Reads", "Gozod.Proofs.C11Format"]
THEOREMS = [# property-level statements, for `cur` (= /repo HEAD, pinned by hand); each a corollary of its ∀-fx version
            "Gozod.C11.c11_equiv_partial", "Gozod.C11.c11_roundtrip", "Gozod.C11.c11_enum", "Gozod.C11.c11_strict_rejects",
            "Gozod.C11.c11_equiv_fx", "Gozod.C11.c11_roundtrip_fx", "Gozod.C11.c11_strict_rejects_fx",
            "Gozod.C11.conv", "Gozod.C11.equivJ",
            # strict mode below the root (AUDIT-B M7)
            "Gozod.C11.convProps_strict", "Gozod.C11.c11_strict_property", "Gozod.C11.c11_strict_property_fixed", "Gozod.C11.witness_strict_property_dropped",
            "Gozod.C11.witness_instOK_needed",
            # format documents (AUDIT-B H6), against C20's spec automata
            "Gozod.C11.c11_format_equiv_partial", "Gozod.C11.c11_format_full_false", "Gozod.C11.witness_format_uuid_narrower",
            "Gozod.C11.witness_format_time_no_offset", "Gozod.C11.parses_ipv4", "Gozod.C11.parses_uuid", "Gozod.C11.parses_date",
            "Gozod.C11.parses_dateTime", "Gozod.C11.parses_time", "Gozod.C11.parses_ipv6",
            "Gozod.C11.c11_format_roundtrip_ipv4", "Gozod.C11.c11_format_roundtrip_ipv6_partial", "Gozod.C11.witness_format_name_internal",
            "Gozod.C11.witness_format_ipv6_roundtrip", "Gozod.C11.c11_format_roundtrip_full_false",
            "Gozod.C11.patOK_ipv4", "Gozod.C11.patOK_uuid", "Gozod.C11.patOK_date", "Gozod.C11.patOK_time", "Gozod.C11.patOK_dateTime",
            "Gozod.C11.patOK_ipv6_partial", "Gozod.C11.getFormatSchema_table",
            "Gozod.C11.entry_ipv4", "Gozod.C11.entry_uuid", "Gozod.C11.entry_date", "Gozod.C11.entry_dateTime", "Gozod.C11.entry_time",
            "Gozod.C11.entry_ipv6", "Gozod.C11.c11_strict_silent", "Gozod.C11.c11_strict_full_false",
            "Gozod.C11.witness_integer_rejects_numbers", "Gozod.C11.witness_nullable_union", "Gozod.C11.witness_nullable_intersection",
            "Gozod.C11.witness_sibling_keywords_dropped", "Gozod.C11.witness_keywords_without_type",
            "Gozod.C11.witness_format_siblings_dropped", "Gozod.C11.witness_tuple_items_all_required",
            "Gozod.C11.witness_optional_property_accepts_null", "Gozod.C11.witness_required_on_record_path",
            "Gozod.C11.witness_roundtrip_open_object", "Gozod.C11.witness_strict_unreached", "Gozod.C11.c11_full_false",
            "Gozod.C11.c11_enum_partial", "Gozod.C11.c11_enum_scalar_instance", "Gozod.C11.c11_enum_members_accepted", "Gozod.C11.c11_const",
            "Gozod.C11.c11_enum_null_rejected", "Gozod.C11.c11_members_no_panic", "Gozod.C11.parse_fromEnumJ", "Gozod.C11.parse_literalSchemaJ",
            "Gozod.C11.parse_toS_enum", "Gozod.C11.parse_toS_const",
            "Gozod.C11.fromEnumJ_prims", "Gozod.C11.fromConstJ_prim", "Gozod.C11.enumValidJ_prims", "Gozod.C11.constValidJ_prim",
            "Gozod.C11.jsonEq_ofPrim", "Gozod.C11.jsonEq_str_left", "Gozod.C11.jsonEq_str_right",
            "Gozod.C11.deepEqual_eq", "Gozod.C11.literalEqual_eq", "Gozod.C11.ifaceEq_panics", "Gozod.C11.jsonEq_symm", "Gozod.C11.jsonEq_refl",
            "Gozod.C11.legacy_composite_member_panics", "Gozod.C11.witness_null_member", "Gozod.C11.c11_members_full_false",
            "Gozod.C11.c11_roundtrip_enum", "Gozod.C11.c11_roundtrip_const", "Gozod.C11.rtLitValid_nonarray",
            "Gozod.C11.witness_roundtrip_array_const", "Gozod.C11.c11_roundtrip_members_full_false",
            "Gozod.C11.convString_frame", "Gozod.C11.reads_convertString", "Gozod.C11.convNumber_frame", "Gozod.C11.reads_convertNumber",
            "Gozod.C11.convInteger_frame", "Gozod.C11.reads_convertInteger", "Gozod.C11.convArray_frame", "Gozod.C11.reads_convertArray",
            "Gozod.C11.reads_convertTuple", "Gozod.C11.convObject_frame", "Gozod.C11.reads_convertObject", "Gozod.C11.convByType_frame",
            "Gozod.C11.reads_convertByType", "Gozod.C11.assemble_frame", "Gozod.C11.reads_convert", "Gozod.C11.reads_dispatch_members",
            "Gozod.C11.reads_attachMeta", "Gozod.C11.converter_reads_documented", "Gozod.C11.documented_are_read",
            "Gozod.C11.strict_rejects_iff_read", "Gozod.C11.strict_reads_in_table", "Gozod.C11.converted_not_rejected",
            # round 4b: every theorem above holds for an arbitrary set Fx of applied pending patches; per patch a witness on the
            # tree without it and a `fixed_` theorem on the tree with it
            "Gozod.C11.fixed_nullable_union", "Gozod.C11.fixed_nullable_intersection", "Gozod.C11.fixed_format_siblings",
            "Gozod.C11.witness_tuple_tail_rejected", "Gozod.C11.fixed_tuple_open", "Gozod.C11.fixed_required_additional",
            "Gozod.C11.fixed_open_object", "Gozod.C11.witness_integer_bound_truncated", "Gozod.C11.fixed_integer_bounds",
            "Gozod.C11.c11_enum_fixed", "Gozod.C11.parseEnumFx_legacy", "Gozod.C11.sList_noNil", "Gozod.C11.sList_countNil",
            "Gozod.C11.lits_noNil", "Gozod.C11.tupRest_closed"]
GEN = os.path.join(C.LEAN, "Gozod", "Gen", "KeywordTable.lean")

def extract_table(res):
    """behavioural translator: run the harness, read the `c11 kw` rows, regenerate Gen/KeywordTable.lean"""
    ok, out = C.build_harness("C11")
    if not ok: return None, "harness does not build:\n" + out[-3000:]
    d = os.path.join(C.BUILD, "run", "C11-table-%d" % os.getpid())
    shutil.rmtree(d, ignore_errors=True); os.makedirs(d)
    rc, out = C.run([C.harness_bin("C11"), "-seed", "1", "-tier", "quick", "-out", d], env=C.goenv(), timeout=600)
    if rc != 0: return None, "harness failed:\n" + out[-2000:]
    ops = open(os.path.join(d, "ops.txt")).read().split("\n"); impl = open(os.path.join(d, "impl.txt")).read().split("\n")
    shutil.rmtree(d, ignore_errors=True)
    rows = []
    for o, i in zip(ops, impl):
        if o.startswith("c11 kw "):
            t = i.split(" ")
            if len(t) != 2: return None, "keyword %s: %s" % (o, i)
            rows.append((o.split(" ")[2], t[0] == "1", t[1] == "1"))
    if len(rows) < 30: return None, "keyword table too small (%d rows)" % len(rows)
    # cross-check the documented column against docs/json-schema.md "Supported Conversions"
    doc = open(os.path.join(C.REPO, "docs", "json-schema.md")).read()
    if "### Supported Conversions" not in doc: return None, "docs/json-schema.md: 'Supported Conversions' table not found"
    tab = doc.split("### Supported Conversions")[1]
    tab = tab.split("\n#")[0]
    # the documented column is DERIVED from the docs where the docs speak: first column of the "Supported Conversions" table
    # (supported) and the "Strict mode rejects ..." sentence (explicitly unsupported); the harness literal must agree with both
    supported = set(re.findall(r"^\|\s*`([$A-Za-z]+)", tab, re.M))
    m = re.search(r"Strict mode rejects(.*?)\.\s", doc, re.S)
    if not supported or not m: return None, "docs/json-schema.md: cannot read the supported table / the strict-mode sentence"
    unsupported = set(re.findall(r"`([$A-Za-z]+)`", m.group(1)))
    for k, d_, st in rows:
        if k in supported and not d_: return None, "docs list %s as supported, the harness table says undocumented" % k
        if k in unsupported and d_: return None, "docs list %s as rejected by strict mode, the harness table says documented" % k
    res.coverage["documented_by_docs_table"] = sorted(supported)
    res.coverage["unsupported_by_docs_sentence"] = sorted(unsupported)
    res.coverage["documented_only_by_harness_literal"] = sorted(k for k, d_, st in rows if d_ and k not in supported)
    res.coverage["unsupported_keywords_outside_the_table"] = sorted(unsupported - set(k for k, d_, st in rows))
    b = lambda x: "true" if x else "false"
    txt = ("-- REGENERATED by vlib/c11.py from harness-c11 (behavioural: {kw: sample} through FromJSONSchema with StrictMode)\n"
           "import Gozod.Model.FromJson\nnamespace Gozod.Gen\nopen Gozod.Jsc\n"
           "def keywordTable : List KwRow := [\n" +
           ",\n".join('  ⟨"%s", %s, %s⟩' % (k, b(d_), b(s)) for k, d_, s in rows) + "]\nend Gozod.Gen\n")
    if not os.path.exists(GEN) or open(GEN).read() != txt:
        open(GEN, "w").write(txt)
    return rows, ""

GEN_READS = os.path.join(C.LEAN, "Gozod", "Gen", "FromReads.lean")

def extract_reads(res):
    """go/ast translator (harness/cmd/c11/reads.go): which JSON Schema keywords every function of jsonschema/from.go reads;
    regenerates Gen/FromReads.lean (only when the content changes)."""
    import json
    rc, out = C.run(["go", "list", "-m", "-f", "{{.Dir}}", "github.com/kaptinlin/jsonschema"], cwd=C.REPO, env=C.goenv(), timeout=300)
    libdir = out.strip().split("\n")[-1] if rc == 0 else ""
    if rc != 0 or not os.path.isdir(libdir): return None, "cannot locate github.com/kaptinlin/jsonschema: " + out[-500:]
    rc, out = C.run([C.harness_bin("C11"), "-reads", C.REPO, libdir], env=C.goenv(), timeout=120)
    if rc != 0: return None, "harness -reads failed:\n" + out[-2000:]
    try: rows = json.loads(out.strip().split("\n")[-1])
    except Exception as e: return None, "harness -reads: %s\n%s" % (e, out[-500:])
    q = lambda x: '"%s"' % x
    txt = ("-- REGENERATED by vlib/c11.py from harness-c11 -reads (go/ast over jsonschema/from.go: the lib.Schema fields each function reads, by JSON keyword name)\n"
           "namespace Gozod.Gen\n"
           "def fromReads : List (String × List String) := [\n" +
           ",\n".join('  (%s, [%s])' % (q(r["func"]), ", ".join(q(k) for k in (r["reads"] or []))) for r in rows) + "]\nend Gozod.Gen\n")
    if not os.path.exists(GEN_READS) or open(GEN_READS).read() != txt:
        open(GEN_READS, "w").write(txt)
    return rows, ""

def expected_silent():
    src = open(os.path.join(C.LEAN, "Gozod", "Proofs", "C11.lean")).read()
    m = re.search(r"def silentKeywords : List String :=\s*\[([^\]]*)\]", src)
    return re.findall(r'"([^"]+)"', m.group(1)) if m else None

def dec(tok):
    body = tok[2:]
    return "".join(chr(int(c)) for c in body.split(".")) if body else ""

ANNOTATIONS = ("title", "description", "examples", "default", "$comment", "deprecated", "readOnly", "writeOnly")

def other_names(op):
    """the keywords of the document that are outside the documented table (annotation keywords assert nothing and are not 'unsupported')"""
    t = C.op_body(op).split(" ")
    return [n for n in (dec(t[i + 2]) for i in range(len(t) - 2) if t[i] == "(" and t[i + 1] == "other") if n not in ANNOTATIONS]

def make_key(known_keys, rejected):
    known = lambda x: any(C.key_matches(k, x) for k in known_keys)
    def key(op, impl, M, S):
        t = C.op_body(op).split(" ")
        why = [w for w in C.op_comment(op).replace("why=", "").split(",") if w]
        if t[1] == "kw": return "strict:" + t[2]
        if t[1] in ("fmt", "fmtdoc", "fmtpool"):
            name = dec(t[2])
            if t[1] == "fmtdoc": return "fmt:%s:round-trip-format-keyword" % name
            if t[1] == "fmtpool": return "fmt:%s:pool-dropped" % name
            if impl != M: return "fmt:%s:unpredicted-by-model" % name      # never listed
            p, v, r = (impl.split(" ") + ["", "", ""])[:3]
            if p != v: return "fmt:%s:parse-%s" % (name, "rejects-valid" if v == "1" else "accepts-invalid" if p == "1" else "panics")
            return "fmt:%s:roundtrip-%s%s" % (name, "rejects-valid" if v == "1" else "accepts-invalid", ":name-internal" if "name-internal" in why else "")
        if t[1] == "conv":
            o = impl.split(" ")
            if "panic" in o:
                return "conv:literal-null-panics" if "( const n )" in op or " n " in op else "conv:panic"
            if impl != M: return "conv:unpredicted-by-model"
            if "property-error-dropped" in why: return "strict:property-error-dropped"
            silent = sorted(set(n for n in other_names(op) if n not in rejected))
            for n in silent:
                if known("strict:" + n): return "strict:" + n
            return "strict:" + ("+".join(silent) if silent else "unreached-keyword")
        p, v, r, pi = (impl.split(" ") + ["", "", "", ""])[:4]
        # the integer-directed column is judged first: there the integer-type class does not apply
        d = "parse-int" if pi not in ("~", v) else ("parse" if p != v else "roundtrip")
        if "INCOHERENT" in why: return d + ":incoherent-classification"
        if (d == "parse" and "IN-EQ" in why) or (d == "roundtrip" and "IN-RT" in why):
            return d + ":inside-theorem-fragment"       # never a listed finding
        why = [w for w in why if w not in ("IN-EQ", "IN-RT")]
        # A listed finding class is a region where the Lean model MIRRORS the defective behaviour (impl = model != spec).
        # A disagreement with the specification that the model does not predict is never a listed finding, whatever
        # classes the document belongs to.  (One exception, ONE direction: `intersection` — allOf of object schemas with a strict side;
        # Intersection's merging of unrecognized keys is C02/C07's open finding intersection-strict-objects and
        # `accepts (.and l r)` of Model/JsonSchema does not mirror it.)
        # narrowed in round 4c to what still fails after /repo 05acb23: the implementation ACCEPTS an object the model
        # and the validator reject (a key the strict side does not know but another side does), every other column equal.
        mt = M.split(" ")
        tolerated = ("intersection" in why and p == "1" and mt[0] == "0" and v == "0" and impl.split(" ")[1:] == mt[1:])
        if impl != M and not tolerated:
            return d + ":unpredicted-by-model:" + ("+".join(why) or "none")
        if impl != M: return d + ":intersection"
        for w in why:
            if known(d + ":" + w): return d + ":" + w
        return d + ":" + ("+".join(why) if why else "none")
    return key

def run(res):
    rows, err = extract_table(res)
    if rows is None:
        C.tie_broken(res, "translator C11/KeywordTable", err)
        return res.finish()
    reads, err = extract_reads(res)
    if reads is None:
        C.tie_broken(res, "translator C11/FromReads", err)
        return res.finish()
    res.coverage["from_go_keyword_reads"] = {r["func"]: r["reads"] for r in reads if r["reads"]}
    ok, detail = C.prove(res, MODULES, THEOREMS)
    if not ok:
        # a proof over the regenerated table stopped checking: look for the falsifying cells
        exp = expected_silent() or []
        now = [k for k, d, s in rows if not d and not s]
        new = [k for k in now if k not in exp]
        for k in new:
            res.violation("strict-silent-" + k, "property C11: strict mode silently accepts the undocumented keyword %r\n"
                          "  repro: FromJSONSchema(compile({%r: <sample>}), StrictMode: true) returns no error\n" % (k, k))
        if not new:
            C.tie_broken(res, "proof Gozod.Proofs.C11", detail + "\nno longer silent: %r" % [k for k in exp if k not in now])
    # structure fingerprints of the hand-transcribed functions (vlib/fingerprints/C11.json): a changed structure with a green
    # correspondence is a broken tie (the transcription may no longer mirror the function); a text-only change is noted
    changed = C.fingerprint(res, "C11")
    data, err = C.correspond(res, "C11")
    if data is None:
        C.tie_broken(res, "correspondence C11/fromJ0", err)
        return res.finish()
    ops, impl, model, stats = data
    rejected = set(k for k, d, st in rows if st)
    ops2, model2 = [], []
    unmodelled_fmt, dropped_formats = [0], []
    for o, im, m in zip(ops, impl, model):
        mm, _, why = m.partition("\t")
        t = im.split(" ")
        if o.startswith("c11 inst") and len(t) == 4:
            # the property on the implementation alone: Parse verdict = validator verdict = round-trip verdict
            # (4th column: Parse verdict with integral numbers handed over as Go int, where applicable)
            spec = "%s %s %s %s" % (t[1], t[1], t[1] if t[2] != "~" else "~", t[1] if t[3] != "~" else "~")
        elif o.startswith("c11 kw") and len(t) == 2:
            spec = im if (t[0] == "1" or t[1] == "1") else "0 1"
        elif o.startswith("c11 fmt ") and len(t) == 3:
            # the property on the implementation alone: Parse verdict = validator on the original = validator on the round trip
            spec = "%s %s %s" % (t[1], t[1], t[1])
            mt = mm.split(" ")
            if len(mt) == 3 and "?" in mt:
                # C20 has no model of the recogniser (Email(), URL()): these columns are decided by the run alone
                unmodelled_fmt[0] += 1
                mm = " ".join(a if a != "?" else b for a, b in zip(mt, t))
        elif o.startswith("c11 fmtpool"):
            spec = "1"
            if im != "1": dropped_formats.append(dec(o.split(" ")[2]))
        elif o.startswith("c11 fmtdoc"):
            spec = mm          # the emitted keyword is judged through R of the fmt rows; here the model IS the oracle
        elif o.startswith("c11 conv"):
            # conversion must not panic; strict mode must fail iff an undocumented keyword occurs anywhere
            spec = "ok " + ("error" if other_names(o) else "ok")
        else:
            spec = im
        ops2.append(o + " #why=" + why)
        model2.append(mm + "\t" + spec)
    known_open, _ = C.load_known("C11")
    C.decide(res, "C11", (ops2, impl, model2, stats), make_key([k["key"] for k in known_open], rejected),
             "C11/fromJS+acceptsDecoded+keywordTable")
    structural = [c for c in changed if c[2] in ("structure", "missing")]
    if structural and not any(sfx == "" for _, sfx in res.violations):
        C.tie_broken(res, "structure fingerprint C11", "these functions no longer have the structure the Lean transcription was written against "
                     "(switch cases / calls / literals / control-flow skeleton), and the correspondence run found no disagreement:\n"
                     + "\n".join("  %s [%s: %s] transcribed by %s" % (c[0], c[2], c[3], c[1]) for c in structural)
                     + "\nre-validate the transcription, then `./check --fingerprint C11 --update`")
    for c in changed:
        if c[2] == "text": res.notes.append("source text of %s changed (structure unchanged); transcribed by %s" % (c[0], c[1]))
    res.coverage["format_cases"] = sum(1 for o in ops2 if o.startswith("c11 fmt "))
    res.coverage["format_cases_recogniser_unmodelled"] = unmodelled_fmt[0]
    res.coverage["format_verdict_classes"] = {k[7:]: v for k, v in sorted((stats.get("histogram", {}) if isinstance(stats, dict) else {}).items()) if k.startswith("format:")}
    res.coverage["formats_dropped_from_the_general_pool"] = dropped_formats
    res.coverage["format_pool_samples_dropped"] = stats.get("format_pool_samples_dropped") if isinstance(stats, dict) else None
    res.coverage["cases_in_equivalence_fragment"] = sum(1 for o in ops2 if "IN-EQ" in C.op_comment(o))
    res.coverage["cases_in_roundtrip_fragment"] = sum(1 for o in ops2 if "IN-RT" in C.op_comment(o))
    hist = stats.get("histogram", {}) if isinstance(stats, dict) else {}
    res.coverage["const_enum_member_classes"] = {k[8:]: v for k, v in sorted(hist.items()) if k.startswith("members:")}
    res.coverage["object_composition_classes"] = {k[12:]: v for k, v in sorted(hist.items()) if k.startswith("composition:")}
    res.coverage["rule"] = ("40 keywords x strict mode (behavioural table, regenerated into Gen/KeywordTable.lean); generated documents of depth <= 2 over the "
        "fragment (see notes/C11.md) x instances at / around every constant, wrong kinds, null, non-ASCII; const/enum: heterogeneous members of every JSON kind "
        "(null, booleans, 1 / 1.0 / 1e0, negatives, fractions, strings incl. empty and strings spelling other members' JSON text, repeats; arrays/objects in root "
        "documents, their round-trip document included) x every member, every member's JSON text as a string, every string member read as JSON, near misses of each member; instance decoded with encoding/json; "
        "allOf/anyOf/oneOf over object members sharing property names x jointly built instances (a base valid for all members, one property varied at a time); "
        "observation = (ParseAny verdict or '!' for a panic, validator on original document, validator on round-trip document, integer-directed ParseAny verdict).")
    res.assumptions += ["instances are decoded with plain encoding/json (numbers are float64)",
                        "jsValid as in C07 (cross-checked against kaptinlin/jsonschema on every case)"]
    return res.finish()
