module verifracex

go 1.26

require (
	github.com/anishathalye/porcupine v1.3.0
	github.com/kaptinlin/gozod v0.0.0
)

require (
	github.com/go-json-experiment/json v0.0.0-20251027170946-4849db3c2f7e // indirect
	github.com/golang-jwt/jwt/v5 v5.3.1 // indirect
	golang.org/x/text v0.34.0 // indirect
)

replace github.com/kaptinlin/gozod => /repo
