/-
  C17, third sentence: "A coercing schema then validates the coerced value exactly as the non-coercing
  schema validates that value."  (Round 4c, audit M5: rewritten over `Model/CoerceSchema.lean`.)

  The coercing schema is `CoerceSchema.parseValue` — the transcription of `parsePrimitiveValue` — and the
  non-coercing schema is C01's `Prim.parse` (imported) with C16's checks; `driver_c17` executes BOTH
  (`parseValue` and `plainOnCoerced`) on every `S` line, the harness observes both real schemas.

  * `c17_schema_eq`          — an input that is not of the schema's type and not nil:
                               `parseValue f g s ptr x = plainOnCoerced f g s x`, i.e. the coercing schema answers
                               what the PLAIN schema (`Prim.parse` on `s.plain.internals`) answers on `coerce.To[T](x)`,
                               and a failed coercion is the invalid-type error;
  * `c17_schema_exact_first` — an input of the schema's type (value or pointer): the coercing schema IS the plain one;
  * `parseValue_plain`       — without `Coerce` the transcription is C01's `Prim.parse` (so one definition serves both
                               schemas the harness builds);
  * `c17_schema_sound`       — success ⇔ `To[T]` produced exactly that value ∧ every check of the chain holds on it;
  * `holds_exact`            — each check of the chain, on the coerced value, is its documented meaning
                               (`specHolds`: the mathematical comparison, integer divisibility, byte length, prefix) —
                               composition with C16 (`c16_cmp`, `multipleOfInts_exact`, `C16B.c16_big_cmp`,
                               `C16B.c16_big_multiple`); for BigInt bounds this is no longer `rfl`: the check is
                               `NumBig.xcmp` (the `cmpBig` transcription), the spec is `op.holdsInt`;
  * `c17_schema_int_sound`   — a coercing integer schema returns exactly the integer the input denotes, in range,
                               and every check's documented meaning holds of it;
  * legacy BigInt comparison through float64 (`legacy_bigint_check_witness` / `_partial`).
-/
import Gozod.Proofs.C17
import Gozod.Proofs.C16Big
import Gozod.Model.CoerceSchema
set_option exponentiation.threshold 2000
namespace Gozod.C17S
open Gozod Gozod.Coerce Gozod.CoerceSchema

/-! ## the check chain under C01's `executeChecks` -/

def preds (cs : List CP) : List (Check CP Unit) := cs.map (fun p => Check.pred p false none)

theorem hasOverwrite_preds (cs : List CP) : hasOverwrite (preds cs) = false := by
  induction cs with
  | nil => rfl
  | cons c cs ih => simpa [preds, hasOverwrite] using ih

/-- A chain of plain predicate checks never changes the value, and ends without an issue exactly
    when it started without one and every predicate holds. -/
theorem runFrom_preds (e : Env CP Unit Unit Val) (cs : List CP) (i : Nat) (v : Val) (iss : List Nat) (log : List (Ev Val)) :
    (runFrom e i (preds cs) v iss log).val = v ∧
    ((runFrom e i (preds cs) v iss log).issues = [] ↔ (iss = [] ∧ ∀ p ∈ cs, e.holds p v = true)) := by
  induction cs generalizing i iss log with
  | nil => simp [preds, runFrom]
  | cons c cs ih =>
    simp only [preds, List.map_cons, runFrom]
    by_cases hc : e.holds c v = true
    · rw [if_pos hc]
      have := ih (i + 1) iss (log ++ [.check i v])
      simp only [preds] at this
      refine ⟨this.1, ?_⟩
      rw [this.2]
      simp [hc]
    · rw [if_neg hc]
      simp only [Bool.false_eq_true, ↓reduceIte]
      have := ih (i + 1) (iss ++ [i]) (log ++ [.check i v])
      simp only [preds] at this
      refine ⟨this.1, ?_⟩
      rw [this.2]
      simp [hc]

/-- `validateWithChecks` / `validatePointer` on a value of the schema's type: the value itself when every
    check holds, the failing positions otherwise. -/
theorem checked_iff (s : Schema) (ptrIn : Bool) (v w : Val) :
    Prim.checked (env s.tgt) s.internals ptrIn v = .okVal w ↔ (w = v ∧ ∀ p ∈ s.checks, holds s.tgt p v = true) := by
  have hov : hasOverwrite s.internals.checks = false := hasOverwrite_preds s.checks
  have hr := runFrom_preds (env s.tgt) s.checks 0 v [] []
  have hrun : runChecksOn (env s.tgt) s.internals.ptrSchema ptrIn s.internals.checks v = runChecks (env s.tgt) (preds s.checks) v := by
    unfold runChecksOn
    rw [hov]
    simp [Schema.internals, preds]
  unfold Prim.checked
  rw [hrun]
  unfold runChecks
  by_cases hi : (runFrom (env s.tgt) 0 (preds s.checks) v [] []).issues = []
  · rw [if_pos hi, hr.1]
    have := hr.2.mp hi
    constructor
    · intro h; injection h with h; exact ⟨h.symm, this.2⟩
    · intro h; rw [h.1]
  · rw [if_neg hi]
    constructor
    · intro h; cases h
    · intro h; exact absurd (hr.2.mpr ⟨rfl, h.2⟩) hi

/-- The ptr flag of the input does not matter for a chain without overwrites. -/
theorem checked_ptr (s : Schema) (v : Val) :
    Prim.checked (env s.tgt) s.internals true v = Prim.checked (env s.tgt) s.internals false v := by
  have hov : hasOverwrite s.internals.checks = false := hasOverwrite_preds s.checks
  unfold Prim.checked runChecksOn
  rw [hov]
  simp

theorem plain_internals (s : Schema) : s.plain.internals = s.internals := rfl
theorem plain_tgt (s : Schema) : s.plain.tgt = s.tgt := rfl

/-! ## the third sentence -/

/-- **C17 (schemas).** For an input that does not already have the schema's type (and is not nil), the
    coercing schema answers exactly what the NON-coercing schema answers on `coerce.To[T](input)`;
    a failed coercion is the invalid-type error. -/
theorem c17_schema_eq (f g : F → List Nat) (s : Schema) (ptr : Bool) (x : Src)
    (hc : s.coerce = true) (hex : exact s.tgt x = none) (hn : x ≠ .nilptr) :
    parseValue f g s ptr x = plainOnCoerced f g s x := by
  unfold parseValue plainOnCoerced
  rw [hex]
  cases x with
  | nilptr => exact absurd rfl hn
  | _ => simp only [hc, ↓reduceIte, plain_internals, Prim.parse]

/-- …spelled out: `plainOnCoerced` is `Prim.parse` (C01's `ParsePrimitive`) of the plain schema on the value. -/
theorem plainOnCoerced_ok (f g : F → List Nat) (s : Schema) (x : Src) (v : Val) (h : to f g s.tgt x = .ok v) :
    plainOnCoerced f g s x = Prim.parse (env s.tgt) s.plain.internals (.val v) := by
  unfold plainOnCoerced; rw [h]

theorem plainOnCoerced_err (f g : F → List Nat) (s : Schema) (x : Src) (e : CErr) (h : to f g s.tgt x = .error e) :
    plainOnCoerced f g s x = .errType := by
  unfold plainOnCoerced; rw [h]

/-- **C17 (schemas, order).** Coercion is attempted only after the exact type match fails: on an input that
    already has the schema's type (directly or behind a pointer) the coercing schema is the plain schema. -/
theorem c17_schema_exact_first (f g : F → List Nat) (s : Schema) (ptr : Bool) (x : Src) (v : Val)
    (h : exact s.tgt x = some v) : parseValue f g s ptr x = parsePlain s.plain ptr x := by
  unfold parseValue parsePlain classify
  rw [plain_tgt, h]
  cases ptr <;> simp [Prim.parse, plain_internals]

/-- Without `Coerce`, the transcription of `parsePrimitiveValue` is C01's `ParsePrimitive`. -/
theorem parseValue_plain (f g : F → List Nat) (s : Schema) (ptr : Bool) (x : Src) (hc : s.coerce = false) :
    parseValue f g s ptr x = parsePlain s ptr x := by
  unfold parseValue parsePlain classify
  cases hex : exact s.tgt x with
  | some v => cases ptr <;> simp [Prim.parse]
  | none =>
    cases x <;> simp [hc, Prim.parse]

/-- **C17 (schemas, every target, every check chain).** The coercing schema returns `w` for an input of another
    type exactly when `coerce.To[T]` produced `w` — nothing is changed between coercion and validation —
    and every check of the chain holds on `w`. -/
theorem c17_schema_sound (f g : F → List Nat) (s : Schema) (ptr : Bool) (x : Src) (w : Val)
    (hc : s.coerce = true) (hex : exact s.tgt x = none) (hn : x ≠ .nilptr) :
    parseValue f g s ptr x = .okVal w ↔ (to f g s.tgt x = .ok w ∧ ∀ p ∈ s.checks, holds s.tgt p w = true) := by
  rw [c17_schema_eq f g s ptr x hc hex hn]
  unfold plainOnCoerced
  cases hto : to f g s.tgt x with
  | error e => simp
  | ok v =>
    simp only [Prim.parse, plain_internals]
    rw [checked_iff s false v w]
    constructor
    · intro ⟨h1, h2⟩; subst h1; exact ⟨rfl, h2⟩
    · intro ⟨h1, h2⟩; injection h1 with h1; subst h1; exact ⟨rfl, h2⟩

/-- `validateWithChecks` answers the value itself or the failing check positions — nothing else. -/
theorem checked_cases (s : Schema) (ptrIn : Bool) (v : Val) :
    Prim.checked (env s.tgt) s.internals ptrIn v = .okVal v ∨
      ∃ ps, ps ≠ [] ∧ Prim.checked (env s.tgt) s.internals ptrIn v = .errChecks ps := by
  have hov : hasOverwrite s.internals.checks = false := hasOverwrite_preds s.checks
  have hr := runFrom_preds (env s.tgt) s.checks 0 v [] []
  have hrun : runChecksOn (env s.tgt) s.internals.ptrSchema ptrIn s.internals.checks v = runChecks (env s.tgt) (preds s.checks) v := by
    unfold runChecksOn
    rw [hov]
    simp [Schema.internals, preds]
  unfold Prim.checked
  rw [hrun]
  unfold runChecks
  by_cases hi : (runFrom (env s.tgt) 0 (preds s.checks) v [] []).issues = []
  · rw [if_pos hi, hr.1]; exact Or.inl rfl
  · rw [if_neg hi]; exact Or.inr ⟨_, hi, rfl⟩

/-- A coercing schema never answers nil / non-optional for such an input: a value, the check issues, or invalid type. -/
theorem c17_schema_outcomes (f g : F → List Nat) (s : Schema) (ptr : Bool) (x : Src)
    (hc : s.coerce = true) (hex : exact s.tgt x = none) (hn : x ≠ .nilptr) :
    (∃ v, to f g s.tgt x = .ok v ∧ (parseValue f g s ptr x = .okVal v ∨ ∃ ps, ps ≠ [] ∧ parseValue f g s ptr x = .errChecks ps)) ∨
    (∃ e, to f g s.tgt x = .error e ∧ parseValue f g s ptr x = .errType) := by
  rw [c17_schema_eq f g s ptr x hc hex hn]
  unfold plainOnCoerced
  cases hto : to f g s.tgt x with
  | error e => exact Or.inr ⟨e, rfl, rfl⟩
  | ok v => exact Or.inl ⟨v, rfl, checked_cases s false v⟩

/-! ## each check on the coerced value is its documented meaning (composition with C16) -/

/-- The coerced value fits the schema's type (what `c17_integer_sound` guarantees for integer targets). -/
def ValWf (t : Tgt) : Val → Prop
  | .int n => (match t with
    | .int ty => ty.inRange n
    | _ => True)
  | _ => True

/-- The bound / divisor is what the schema method accepts: an `int64` (integer schemas), a `float64`. -/
def CPWf : CP → Prop
  | .cmp _ b => C16.Num.wf b
  | .mul d => C16.Num.wf d
  | _ => True

theorem isPrefix_spec (p bs : List Nat) : isPrefix p bs = (decide (p.length ≤ bs.length) && bs.take p.length == p) := by
  induction p generalizing bs with
  | nil => simp [isPrefix]
  | cons a p ih =>
    cases bs with
    | nil => simp [isPrefix]
    | cons b bs =>
      simp only [isPrefix, ih bs, List.length_cons, List.take_succ_cons]
      by_cases hab : a = b
      · subst hab; simp
      · have : (a == b) = false := by simpa using hab
        rw [this]
        simp only [Bool.false_and]
        symm
        rw [Bool.and_eq_false_iff]
        right
        simp only [beq_eq_false_iff_ne, ne_eq, List.cons.injEq, not_and]
        intro h; exact absurd h.symm hab

theorem specCmp_ofInt (op : CmpOp) (ty : IntTy) (n : Int) (b : Num) :
    specCmp op (Num.ofInt ty n) b = specCmp op (.i n) b := by
  unfold specCmp; rw [C16.ofInt_toF]; rfl

/-- **Every check of the chain, evaluated by the code's algorithm on the coerced value, is its documented
    meaning** — whenever the documentation gives one (`specHolds = some r`; the float ε-rule of MultipleOf has
    none and is C16F's). -/
theorem holds_exact (t : Tgt) (p : CP) (v : Val) (r : Bool) (hv : ValWf t v) (hp : CPWf p)
    (hs : specHolds t p v = some r) : holds t p v = r := by
  cases p with
  | cmp op b =>
    cases v with
    | int n =>
      cases t with
      | int ty =>
        simp only [specHolds, Option.some.injEq] at hs; subst hs
        simp only [holds, operand]
        rw [C16.c16_cmp op _ b (C16.ofInt_wf ty n hv) hp, specCmp_ofInt]
      | _ => simp_all [specHolds, holds, operand]
    | flt x =>
      cases t with
      | f32 => simp only [specHolds, Option.some.injEq] at hs; subst hs
               simp only [holds, operand]; exact C16.c16_cmp op _ b trivial hp
      | f64 => simp only [specHolds, Option.some.injEq] at hs; subst hs
               simp only [holds, operand]; exact C16.c16_cmp op _ b trivial hp
      | _ => simp_all [specHolds, holds, operand]
    | _ => simp_all [specHolds, holds, operand]
  | mul d =>
    cases v with
    | int n =>
      cases t with
      | int ty =>
        have hmul : ∀ dd : Num, C16.isInt dd = true → NumFloat.multipleOfNum (Num.ofInt ty n) dd = multipleOfInts (Num.ofInt ty n) dd := by
          intro dd hdd
          cases dd with
          | f _ => simp [C16.isInt] at hdd
          | i _ => unfold Num.ofInt; split <;> rfl
          | u _ => unfold Num.ofInt; split <;> rfl
        cases d with
        | i dv =>
          simp only [specHolds, Option.some.injEq] at hs; subst hs
          simp only [holds, operand]
          rw [hmul _ rfl, C16.multipleOfInts_exact _ _ (C16.ofInt_wf ty n hv) (show C16.Num.wf (.i dv) from hp) (C16.ofInt_isInt ty n) rfl, C16.ofInt_ival]
          rfl
        | u dv =>
          simp only [specHolds, Option.some.injEq] at hs; subst hs
          simp only [holds, operand]
          rw [hmul _ rfl, C16.multipleOfInts_exact _ _ (C16.ofInt_wf ty n hv) (show C16.Num.wf (.u dv) from hp) (C16.ofInt_isInt ty n) rfl, C16.ofInt_ival]
          rfl
        | f _ => simp [specHolds] at hs
      | _ => simp_all [specHolds, holds, operand]
    | flt x => cases t <;> simp_all [specHolds, holds, operand]
    | _ => simp_all [specHolds, holds, operand]
  | cmpBig op b =>
    cases v with
    | int n =>
      cases t with
      | big =>
        simp only [specHolds, Option.some.injEq] at hs; subst hs
        simp only [holds]
        exact C16B.c16_big_cmp op (.big n) (.big b) n b rfl rfl trivial trivial
      | _ => simp_all [specHolds, holds]
    | _ => simp_all [specHolds, holds]
  | mulBig d =>
    cases v with
    | int n =>
      cases t with
      | big =>
        simp only [specHolds, Option.some.injEq] at hs; subst hs
        simp only [holds]
        exact C16B.c16_big_multiple (.big n) (.big d) n d rfl rfl trivial trivial
      | _ => simp_all [specHolds, holds]
    | _ => simp_all [specHolds, holds]
  | minLen k => cases v <;> simp_all [specHolds, holds]
  | maxLen k => cases v <;> simp_all [specHolds, holds]
  | hasPrefix q =>
    cases v with
    | str bs => simp only [specHolds, Option.some.injEq] at hs; subst hs; simp only [holds]; exact isPrefix_spec q bs
    | _ => simp_all [specHolds, holds]
  | refine => simp only [specHolds, Option.some.injEq] at hs; subst hs; rfl

/-- The BigInt bound: the code's `cmpBig` path against the comparison of the integers (was `rfl` by
    definition before round 4c). -/
theorem c17_bigint_check_exact (op : CmpOp) (v b : Int) :
    holds .big (.cmpBig op b) (.int v) = op.holdsInt v b :=
  holds_exact .big (.cmpBig op b) (.int v) _ trivial trivial rfl

theorem c17_schema_check_exact (ty : IntTy) (op : CmpOp) (b n : Int) (hn : ty.inRange n) (hb : IntTy.i64.inRange b) :
    holds (.int ty) (.cmp op (.i b)) (.int n) = op.holdsInt n b := by
  rw [holds_exact (.int ty) (.cmp op (.i b)) (.int n) _ hn hb rfl]
  rw [← specCmp_ofInt op ty n (.i b)]
  exact C16M_specCmp_int op ty n b hn hb
where
  C16M_specCmp_int (op : CmpOp) (t : IntTy) (v b : Int) (hv : t.inRange v) (hb : IntTy.i64.inRange b) :
      specCmp op (Num.ofInt t v) (.i b) = op.holdsInt v b := by
    rw [← C16.c16_cmp op _ _ (C16.ofInt_wf t v hv) (show C16.Num.wf (.i b) from hb)]
    exact C16.c16_int_cmp op t .i64 v b hv hb

theorem c17_schema_check_exact_float (t : Tgt) (ht : t = .f32 ∨ t = .f64) (op : CmpOp) (x b : F) :
    holds t (.cmp op (.f b)) (.flt x) = specCmp op (.f x) (.f b) := by
  rcases ht with rfl | rfl <;> exact holds_exact _ (.cmp op (.f b)) (.flt x) _ trivial trivial rfl

/-- **Coercing integer schemas, end to end**: what such a schema returns for an input of another type is exactly
    the integer the input denotes, within the type's range, and every check of the chain that has a documented
    meaning holds of it in that meaning. -/
theorem c17_schema_int_sound (sem : C17.StrSem) (f g : F → List Nat) (s : Schema) (ty : IntTy) (ptr : Bool) (x : Src)
    (w : Val) (ht : s.tgt = .int ty) (hc : s.coerce = true) (hwf : C17.wf x) (hex : exact s.tgt x = none) (hn : x ≠ .nilptr)
    (hcp : ∀ p ∈ s.checks, CPWf p) (h : parseValue f g s ptr x = .okVal w) :
    ∃ n, w = .int n ∧ C17.denotesInt sem x n ∧ ty.inRange n ∧
      ∀ p ∈ s.checks, ∀ r, specHolds s.tgt p (.int n) = some r → r = true := by
  have ⟨hto, hall⟩ := (c17_schema_sound f g s ptr x w hc hex hn).mp h
  rw [ht, C17.to_int] at hto
  cases hi : toInteger ty x with
  | error e => rw [hi] at hto; cases hto
  | ok n =>
    rw [hi] at hto
    have ⟨hd, hr⟩ := C17.c17_integer_sound sem ty x n hwf hi
    simp only [Functor.map, Except.map] at hto
    injection hto with hto; subst hto
    refine ⟨n, rfl, hd, hr, ?_⟩
    intro p hp r hs
    have hv : ValWf s.tgt (.int n) := by rw [ht]; exact hr
    rw [← holds_exact s.tgt p (.int n) r hv (hcp p hp) hs]
    exact hall p hp

/-! ## instances: the hypotheses are inhabited, the chain matters -/

def seven : StrInfo := StrInfo.ofText [0x20, 0x37] "7" (some (.fin 7 0)) (some (.fin 7 0))

example :
    let s : Schema := { tgt := .int .i8, checks := [.cmp .gte (.i 5), .mul (.i 7), .refine], coerce := true }
    exact s.tgt (.str seven) = none ∧
    parseValue (fun _ => []) (fun _ => []) s false (.str seven) = .errChecks [2] ∧        -- 7 is odd: the refinement fails
    parseValue (fun _ => []) (fun _ => []) { s with checks := [.cmp .gte (.i 5), .mul (.i 7)] } false (.str seven) = .okVal (.int 7) ∧
    parseValue (fun _ => []) (fun _ => []) s.plain false (.str seven) = .errType ∧
    plainOnCoerced (fun _ => []) (fun _ => []) s (.str seven) = .errChecks [2] := by
  refine ⟨rfl, ?_, ?_, ?_, ?_⟩ <;> decide

example : parseValue (fun _ => []) (fun _ => []) { tgt := .f64, checks := [.cmp .gt (.f (.fin 1 1))], coerce := true } false (.int .i8 1) = .okVal (.flt (.fin 1 0)) ∧
    parseValue (fun _ => []) (fun _ => []) { tgt := .f64, checks := [.cmp .lt (.f .nan)], coerce := true } false (.int .i8 1) = .errChecks [0] ∧
    holds .big (.cmpBig .gt (2 ^ 53)) (.int (2 ^ 53 + 1)) = true ∧
    holds (.int .i8) (.minLen 0) (.int 3) = false := by
  decide

/-! ## BigInt bounds before /repo 4945548 (kept as witness) -/

theorem log2_lt_53 (n : Nat) (hn : n ≠ 0) (h : n < 2 ^ 53) : n.log2 < 53 := (Nat.log2_lt hn).mpr h

/-- Below 2^53 in magnitude `big.Int.Float64` is exact. -/
theorem bigToF64_exact (v : Int) (h : v.natAbs < 2 ^ 53) : bigToF64 v = .fin v 0 := by
  by_cases h0 : v.natAbs = 0
  · have : v = 0 := by omega
    subst this; decide +kernel
  · have hl := log2_lt_53 _ h0 h
    have hrm : roundMag 53 1074 v.natAbs 0 = (v.natAbs, 0) :=
      ((C17.roundMag_correct 53 1074 v.natAbs 0 h0).2 _ rfl).1 (by omega)
    have hlt : v.natAbs < 2 ^ 1024 * 2 ^ 0 := by
      have : (2 : Nat) ^ 53 ≤ 2 ^ 1024 := Nat.pow_le_pow_right (by decide) (by decide)
      omega
    unfold bigToF64 roundFin
    rw [hrm]
    simp only []
    rw [if_neg (by omega)]
    by_cases hneg : v < 0
    · rw [if_pos hneg]; congr 1; omega
    · rw [if_neg hneg]; congr 1; omega

/-- The code before that fix compared through float64: exact below 2^53 … -/
theorem legacy_bigint_check_partial (op : CmpOp) (v b : Int) (hv : v.natAbs < 2 ^ 53) (hb : b.natAbs < 2 ^ 53) :
    bigCmpViaFloat op v b = op.holdsInt v b := by
  unfold bigCmpViaFloat
  rw [bigToF64_exact v hv, bigToF64_exact b hb]
  simp only [finOrOverflow, F.cmp, Int.pow_zero, Int.mul_one]
  exact C16.ofOrdering_compare op v b

/-- … and wrong above: `BigInt().Gt(2^53).Parse(2^53+1)` was refused, `BigInt().Gt(0).Parse(2^1024)` too. -/
theorem legacy_bigint_check_witness :
    bigCmpViaFloat .gt (2 ^ 53 + 1) (2 ^ 53) = false ∧ bigCmpViaFloat .gt (2 ^ 1024) 0 = false := by
  decide +kernel

end Gozod.C17S
