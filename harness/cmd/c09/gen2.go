// Round 4: the remaining schema types of types/*.go (every row of Gen/EntryPoints.lean is reached by the
// run), ill-typed inputs for ParseAny / MustParse / MustParseAny on EVERY type, and `-aim`: extra rounds on the
// types the entry-point table reports as re-routed.
package main

import (
	"fmt"
	"math/big"
	"mime/multipart"
	"reflect"
	"strings"

	"github.com/kaptinlin/gozod"
	"github.com/kaptinlin/gozod/core"

	"verifharness/hx"
)

type pt struct {
	A int    `json:"a"`
	B string `json:"b"`
}

type innerT struct {
	N int `json:"n"`
}

// outerT: a struct with a pointer field and an `any` field whose schemas are struct schemas themselves (a nil there
// makes the FIELD schema report "expected struct, received nil")
type outerT struct {
	A int     `json:"a"`
	I *innerT `json:"i"`
	X any     `json:"x"`
}

// taggedT: a struct whose schema comes from its tags (FromStruct / FromStructPtr).
type taggedT struct {
	Name string  `json:"name" gozod:"required,min=2"`
	Age  int     `json:"age" gozod:"min=18"`
	Nick *string `json:"nick" gozod:"min=3"`
}

func sampleFunc() {}

// strFmt: a string-format schema (embedded *ZodString): bare / with a string check.
func strFmt(name string, mk func() any, valid string) gentry {
	return gentry{name, func() any {
		s := mk()
		if o, ok := applyStep(s, step{"Min", 0}, "dflt", nil); ok {
			return o
		}
		return s
	}, mk, []any{valid, "nope!"}, valid}
}

func gentries2() []gentry {
	du := func() any {
		return gozod.DiscriminatedUnion("type", []any{
			gozod.Object(core.ObjectSchema{"type": gozod.Literal("a"), "x": gozod.Int().Min(10)}),
			gozod.Object(core.ObjectSchema{"type": gozod.Literal("b")}),
		})
	}
	st := func() any {
		return gozod.Struct[pt](core.StructSchema{"a": gozod.Int().Min(10), "b": gozod.String().Optional()})
	}
	nested := func() any {
		in := func() core.ZodSchema { return gozod.Struct[innerT](core.StructSchema{"n": gozod.Int().Min(0)}) }
		return gozod.Struct[outerT](core.StructSchema{"a": gozod.Int().Min(10), "i": in(), "x": in()})
	}
	fnAny := any(sampleFunc)
	nickShort, nickOK := "xy", "nick"
	es := []gentry{
		{"bigint", func() any { return gozod.BigInt() }, func() any { return gozod.BigInt() }, []any{big.NewInt(50), big.NewInt(5)}, big.NewInt(42)},
		{"complex", func() any { return gozod.Complex128() }, func() any { return gozod.Complex128() }, []any{complex(1, 2), complex(0, 0)}, complex(3, 4)},
		{"discriminatedunion", du, du, []any{map[string]any{"type": "a", "x": 50}, map[string]any{"type": "a", "x": 5}, map[string]any{"type": "zz"}, map[string]any{"type": "b"}}, map[string]any{"type": "b"}},
		{"file", func() any { return gozod.File().Min(3) }, func() any { return gozod.File() },
			[]any{"notafile", &multipart.FileHeader{Filename: "a.txt", Size: 5}, &multipart.FileHeader{Filename: "tiny.txt", Size: 1}}, &multipart.FileHeader{Filename: "d.txt", Size: 9}},
		{"function", func() any { return gozod.Function() }, func() any { return gozod.Function() }, []any{"notafunc", sampleFunc, &fnAny, func(int) string { return "" }}, sampleFunc},
		{"never", func() any { return gozod.Never() }, func() any { return gozod.Never() }, []any{"x", 1}, "d"},
		{"nil", func() any { return gozod.Nil() }, func() any { return gozod.Nil() }, []any{"x"}, "d"},
		{"set", func() any { return gozod.Set[string](gozod.String().Min(3)).Min(1) }, func() any { return gozod.Set[string](gozod.String().Min(3)) },
			[]any{map[string]struct{}{"hello": {}}, map[string]struct{}{"x": {}}, map[string]struct{}{}}, map[string]struct{}{"dflt": {}}},
		{"stringbool", func() any { return gozod.StringBool() }, func() any { return gozod.StringBool() }, []any{"true", "nope", true, false}, true},
		{"struct", st, st, []any{pt{50, "x"}, pt{5, "x"}, pt{}, map[string]any{"a": 50, "b": "x"}, map[string]any{"a": 5}, map[any]any{"a": 50}}, pt{42, "d"}},
		{"structptr", func() any {
			return gozod.StructPtr[pt](core.StructSchema{"a": gozod.Int().Min(10), "b": gozod.String().Optional()})
		}, func() any {
			return gozod.StructPtr[pt](core.StructSchema{"a": gozod.Int().Min(10), "b": gozod.String().Optional()})
		}, []any{pt{50, "x"}, pt{5, "x"}, pt{}, map[string]any{"a": 50, "b": "x"}}, pt{42, "d"}},
		{"fromstruct", func() any { return gozod.FromStruct[taggedT]() }, func() any { return gozod.FromStruct[taggedT]() },
			[]any{taggedT{"bob", 20, nil}, taggedT{"b", 20, nil}, taggedT{"bob", 5, &nickShort}, taggedT{"bob", 20, &nickOK}, taggedT{},
				map[string]any{"name": "bob", "age": 20}, map[string]any{"name": "b"}, map[string]any{"name": "bob", "age": "x"}}, taggedT{"dflt", 30, nil}},
		{"fromstructptr", func() any { return gozod.FromStructPtr[taggedT]() }, func() any { return gozod.FromStructPtr[taggedT]() },
			[]any{taggedT{"bob", 20, nil}, taggedT{"b", 20, nil}, taggedT{"bob", 5, &nickShort}, taggedT{},
				map[string]any{"name": "bob", "age": 20}, map[string]any{"name": "b"}}, taggedT{"dflt", 30, nil}},
		{"structnested", nested, nested, []any{outerT{A: 50, I: &innerT{3}, X: innerT{4}}, outerT{A: 50}, outerT{A: 50, I: &innerT{3}}, outerT{A: 50, X: innerT{-1}},
			outerT{A: 5, I: &innerT{3}, X: "str"}, map[string]any{"a": 50, "i": map[string]any{"n": 3}, "x": map[string]any{"n": 4}}}, outerT{A: 42, I: &innerT{1}, X: innerT{2}}},
		{"tuple", func() any { return gozod.Tuple(gozod.Int().Min(10), gozod.String()) }, func() any { return gozod.Tuple(gozod.Int().Min(10), gozod.String()) },
			[]any{[]any{11, "x"}, []any{1, "x"}, []any{11}}, []any{20, "d"}},
		{"xor", func() any { return gozod.Xor([]any{gozod.String().Min(3), gozod.Int().Min(10)}) }, func() any { return gozod.Xor([]any{gozod.String().Min(3), gozod.Int().Min(10)}) },
			[]any{"hello", "x", 50, 5, true}, "dflt"},
		strFmt("email", func() any { return gozod.Email() }, "someone@example.com"),
		strFmt("emoji", func() any { return gozod.Emoji() }, "\U0001F600"),
		strFmt("base64", func() any { return gozod.Base64() }, "aGVsbG8="),
		strFmt("base64url", func() any { return gozod.Base64URL() }, "aGVsbG8"),
		strFmt("hex", func() any { return gozod.Hex() }, "deadbeef"),
		strFmt("jwt", func() any { return gozod.JWT() }, "eyJhbGciOiJIUzI1NiIsInR5cCI6IkpXVCJ9.eyJzdWIiOiIxIn0.c2ln"),
		strFmt("ipv4", func() any { return gozod.IPv4() }, "192.168.1.10"),
		strFmt("ipv6", func() any { return gozod.IPv6() }, "2001:db8::1"),
		strFmt("cidrv4", func() any { return gozod.CIDRv4() }, "10.0.0.0/8"),
		strFmt("cidrv6", func() any { return gozod.CIDRv6() }, "2001:db8::/32"),
		strFmt("url", func() any { return gozod.URL() }, "https://example.com/a"),
		strFmt("hostname", func() any { return gozod.Hostname() }, "example.com"),
		strFmt("mac", func() any { return gozod.MAC() }, "00:1a:2b:3c:4d:5e"),
		strFmt("e164", func() any { return gozod.E164() }, "+14155552671"),
		strFmt("iso", func() any { return gozod.IsoDateTime() }, "2024-01-02T03:04:05Z"),
		strFmt("cuid", func() any { return gozod.CUID() }, "cjld2cjxh0000qzrmn831i7rn"),
		strFmt("cuid2", func() any { return gozod.CUID2() }, "tz4a98xxat96iws9zmbrgj3a"),
		strFmt("guid", func() any { return gozod.GUID() }, "123e4567-e89b-12d3-a456-426614174000"),
		strFmt("ulid", func() any { return gozod.ULID() }, "01ARZ3NDEKTSV4RRFFQ69G5FAV"),
		strFmt("xid", func() any { return gozod.XID() }, "9m4e2mr0ui3e8a215n4g"),
		strFmt("ksuid", func() any { return gozod.KSUID() }, "0ujsswThIGTUYm2K8FjOOfXtY1K"),
		strFmt("nanoid", func() any { return gozod.NanoID() }, "V1StGXR8_Z5jdHi6B-myT"),
		strFmt("uuid", func() any { return gozod.UUID() }, "123e4567-e89b-42d3-a456-426614174000"),
	}
	return es
}

// goTypeOf: "ZodString" for *types.ZodString[string].
func goTypeOf(s any) string {
	t := reflect.TypeOf(s)
	if t == nil {
		return "nil"
	}
	if t.Kind() == reflect.Pointer {
		t = t.Elem()
	}
	n := t.Name()
	if i := strings.IndexByte(n, '['); i >= 0 {
		n = n[:i]
	}
	return n
}

// illTyped: inputs of kinds no schema's StrictParse parameter has; with the type's own samples they give
// ParseAny / MustParse / MustParseAny inputs of every kind.
var illTyped = []any{42, "str", 1.5, true, []string{"a"}, map[string]int{"k": 1}, struct{ X int }{3}, int8(7), []any{1, "x"}, map[string]any{"a": 50}}

func applyRandomMods(r *hx.Rng, e *gentry, schema any, applied []string) (any, []string) {
	mods := []string{"Optional", "Nilable", "Nullish", "NonOptional", "Default", "DefaultFunc", "Prefault", "PrefaultFunc"}
	for j, m := 0, r.Intn(4); j < m; j++ {
		name := hx.Pick(r, mods)
		meth := reflect.ValueOf(schema).MethodByName(name)
		if !meth.IsValid() {
			continue
		}
		var args []reflect.Value
		if meth.Type().NumIn() == 1 {
			pt := meth.Type().In(0)
			if pt.Kind() == reflect.Func {
				if pt.NumOut() != 1 || pt.NumIn() != 0 {
					continue
				}
				dv, ok := conv(e.dflt, pt.Out(0))
				if !ok {
					continue
				}
				args = []reflect.Value{reflect.MakeFunc(pt, func([]reflect.Value) []reflect.Value { return []reflect.Value{dv} })}
			} else {
				dv, ok := conv(e.dflt, pt)
				if !ok {
					continue
				}
				args = []reflect.Value{dv}
			}
		} else if meth.Type().NumIn() != 0 {
			continue
		}
		out := meth.Call(args)
		if len(out) != 1 {
			continue
		}
		schema = out[0].Interface()
		applied = append(applied, name)
	}
	return schema, applied
}

// runGen2: (a) the new entries like runGen; (b) for ALL entries ill-typed inputs (strict entry points n/a).
func runGen2(o *hx.Out, r *hx.Rng, rounds int, aim map[string]bool) {
	all := append(gentries(), gentries2()...)
	nOld := len(gentries())
	for round := 0; round < rounds; round++ {
		for ei := range all {
			e := &all[ei]
			aimed := aim[goTypeOf(e.plain())]
			reps := 1
			if aimed {
				reps = 12 // the entry-point table says this type's routing changed: many more schemas of it
			}
			for rep := 0; rep < reps; rep++ {
				var schema, base any
				// "+ow": a container/primitive-level Overwrite(identity) on top (the checks' pointer pre-pass in
				// validatePointer, and everything else that keys on "has an overwrite check", becomes reachable)
				variant := hx.Pick(r, []string{"checked", "plain", "refined", "plain+ow", "checked+ow"})
				applied := []string{variant}
				pm := hx.Safely(func() {
					schema = buildVariant(e, strings.TrimSuffix(variant, "+ow"))
					if schema != nil && strings.HasSuffix(variant, "+ow") {
						if s2, ok := applyStep(schema, step{"Overwrite", 0}, e.dflt, nil); ok {
							schema = s2
						} else {
							applied[0] = strings.TrimSuffix(variant, "+ow")
						}
					}
					base = schema
					if schema != nil {
						schema, applied = applyRandomMods(r, e, schema, applied)
					}
				})
				if pm != "" || schema == nil {
					o.Emit(fmt.Sprintf("c09 gen %s %s | build #%s", e.name, strings.Join(applied, " "), e.name), "P=panic:"+strings.ReplaceAll(pm, " ", "_"))
					continue
				}
				// a promoted method (ZodEmail.Min -> *ZodString) leaves the family's own Go type: then the bare schema of
				// the family is exercised in this round too, so that every type of the entry-point table is reached
				// in every run
				runOne(o, r, e, base, schema, applied, ei >= nOld || aimed || strings.HasSuffix(applied[0], "+ow"))
				if bare := e.plain(); goTypeOf(schema) != goTypeOf(bare) {
					runOne(o, r, e, bare, bare, []string{"plain"}, true)
				}
			}
		}
	}
}

// runOne: the six entry points of one schema on its well-typed samples (when asked) and on two ill-typed inputs.
func runOne(o *hx.Out, r *hx.Rng, e *gentry, base, schema any, applied []string, wellTyped bool) {
	{
		{
			{
				gt := goTypeOf(schema)
				sm := reflect.ValueOf(schema).MethodByName("StrictParse")
				if !sm.IsValid() {
					return
				}
				want := sm.Type().In(0)
				if wellTyped {
					var ins []reflect.Value
					var toks []string
					for _, x := range e.ins {
						if v, ok := conv(x, want); ok {
							ins = append(ins, v)
							toks = append(toks, canon(x))
						}
					}
					switch want.Kind() {
					case reflect.Pointer, reflect.Map, reflect.Slice, reflect.Interface:
						ins = append(ins, reflect.Zero(want))
						toks = append(toks, "nil-of-R")
					}
					for k, in := range ins {
						emitCase(o, "gen", e.name, applied, base, schema, in, toks[k])
						o.Count("gen:" + e.name)
						o.Count("gotype:" + gt)
						if strings.HasSuffix(applied[0], "+ow") {
							o.Count("gen-overwrite:" + e.name)
						}
					}
				}
				// complex-path types (cpx lines, predicted by the Lean model): the boundary inputs the engine tells apart — a
				// pointer to each sample, the typed nil pointer, untyped nil (the nil of R came above)
				if _, isCpx := cpxFamily[gt]; isCpx && wellTyped {
					eT := want
					if eT.Kind() == reflect.Pointer {
						eT = eT.Elem()
					}
					lbl := func(t reflect.Type) string {
						if t == want || want.Kind() == reflect.Interface {
							return "gen"
						}
						return "ill"
					}
					if eT.Kind() != reflect.Interface {
						pT := reflect.PointerTo(eT)
						if pT != want {
							for _, x := range e.ins {
								if v, ok := conv(x, eT); ok {
									p := reflect.New(eT)
									p.Elem().Set(v)
									emitCase(o, lbl(pT), e.name, applied, base, schema, anyOf(p.Interface()), "&"+canon(x))
									o.Count("gotype:" + gt)
								}
							}
							emitCase(o, lbl(pT), e.name, applied, base, schema, anyOf(reflect.Zero(pT).Interface()), "nilptr:"+strings.ReplaceAll(pT.String(), " ", ""))
						}
					}
					if want.Kind() != reflect.Interface {
						emitCase(o, "ill", e.name, applied, base, schema, anyOf(nil), "nil")
					}
				}
				// ill-typed inputs: ParseAny = Parse, MustParse / MustParseAny panic with that error
				for k := 0; k < 2; k++ {
					x := hx.Pick(r, illTyped)
					in := reflect.New(anyT).Elem()
					in.Set(reflect.ValueOf(x))
					if reflect.TypeOf(x) == want {
						continue
					}
					if want.Kind() == reflect.Interface {
						// R = any: every value is of the strict static type
						emitCase(o, "gen", e.name, applied, base, schema, in, canon(x))
					} else {
						emitCase(o, "ill", e.name, applied, base, schema, in, strings.ReplaceAll(fmt.Sprintf("%T", x), " ", "")+":"+canon(x))
					}
					o.Count("ill:" + e.name)
					o.Count("gotype:" + gt)
				}
			}
		}
	}
}
