import Gozod.Drv.Loop
import Gozod.Drv.C06
def main : IO Unit := Gozod.Drv.runTokens Gozod.Drv.C06.handle
