/-
  C10 on container schemas (slice, object, …): since /repo 49e6e91 the engine theorems of
  `Gozod.Proofs.C10` carry over to `runChecksC` for every check list (`c10_container_all`). For the code
  before that commit (`legacyRunChecksC`) they held only when no vacuous check preceded the first
  overwrite; otherwise it accepted a value on which an attached check fails (witness, kept).
-/
import Gozod.Model.ChecksC
import Gozod.Proofs.C10
namespace Gozod.C10
open Gozod

variable {P O T V : Type}

/-- Once an overwrite has run the extra pass is the regular loop. -/
theorem firstPassC_cooked (env : Env P O T V) (vac : P → Bool) (cs : List (Check P O)) :
    ∀ (i : Nat) (val : V) (iss : List Nat) (log : List (Ev V)),
      firstPassC env vac i cs val false iss log = runFrom env i cs val iss log := by
  induction cs with
  | nil => intros; rfl
  | cons c cs ih =>
    intro i val iss log
    cases c with
    | overwrite o => simp only [firstPassC, runFrom]; exact ih ..
    | pred p abort w =>
      cases w with
      | none =>
        simp only [firstPassC, runFrom, Bool.false_and, Bool.false_eq_true, if_false]
        by_cases h : env.holds p val = true
        · simp only [h, if_true]; exact ih ..
        · simp only [h, if_false, Bool.false_eq_true]
          by_cases ha : abort = true
          · simp [ha]
          · simp only [ha, if_false, Bool.false_eq_true]; exact ih ..
      | some w =>
        simp only [firstPassC, runFrom, Bool.false_and, Bool.false_eq_true, if_false]
        by_cases hi : iss ≠ []
        · rw [if_pos hi, if_pos hi]; exact ih ..
        · rw [if_neg hi, if_neg hi]
          by_cases hw : env.holds w val = false
          · rw [if_pos hw, if_pos hw]; exact ih ..
          · rw [if_neg hw, if_neg hw]
            by_cases h : env.holds p val = true
            · simp only [h, if_true]; exact ih ..
            · simp only [h, if_false, Bool.false_eq_true]
              by_cases ha : abort = true
              · simp [ha]
              · simp only [ha, if_false, Bool.false_eq_true]; exact ih ..

/-- While the payload is raw, the extra pass is the regular loop as long as no vacuous check comes
    before the first overwrite. -/
theorem firstPassC_vacFree (env : Env P O T V) (vac : P → Bool) (cs : List (Check P O)) :
    ∀ (i : Nat) (val : V) (iss : List Nat) (log : List (Ev V)), vacFree vac cs = true →
      firstPassC env vac i cs val true iss log = runFrom env i cs val iss log := by
  induction cs with
  | nil => intros; rfl
  | cons c cs ih =>
    intro i val iss log hv
    cases c with
    | overwrite o => simp only [firstPassC, runFrom]; exact firstPassC_cooked env vac cs ..
    | pred p abort w =>
      simp only [vacFree, Bool.and_eq_true, Bool.not_eq_true'] at hv
      obtain ⟨hp, hcs⟩ := hv
      cases w with
      | none =>
        simp only [firstPassC, runFrom, hp, Bool.and_false, Bool.false_eq_true, if_false]
        by_cases h : env.holds p val = true
        · simp only [h, if_true]; exact ih _ _ _ _ hcs
        · simp only [h, if_false, Bool.false_eq_true]
          by_cases ha : abort = true
          · simp [ha]
          · simp only [ha, if_false, Bool.false_eq_true]; exact ih _ _ _ _ hcs
      | some w =>
        simp only [firstPassC, runFrom, hp, Bool.and_false, Bool.false_eq_true, if_false]
        by_cases hi : iss ≠ []
        · rw [if_pos hi, if_pos hi]; exact ih _ _ _ _ hcs
        · rw [if_neg hi, if_neg hi]
          by_cases hw : env.holds w val = false
          · rw [if_pos hw, if_pos hw]; exact ih _ _ _ _ hcs
          · rw [if_neg hw, if_neg hw]
            by_cases h : env.holds p val = true
            · simp only [h, if_true]; exact ih _ _ _ _ hcs
            · simp only [h, if_false, Bool.false_eq_true]
              by_cases ha : abort = true
              · simp [ha]
              · simp only [ha, if_false, Bool.false_eq_true]; exact ih _ _ _ _ hcs

/-- Issues only accumulate. -/
theorem runFrom_issues_ne_nil (env : Env P O T V) (cs : List (Check P O)) :
    ∀ (i : Nat) (val : V) (iss : List Nat) (log : List (Ev V)), iss ≠ [] →
      (runFrom env i cs val iss log).issues ≠ [] := by
  induction cs with
  | nil => intro i val iss log h; exact h
  | cons c cs ih =>
    intro i val iss log h
    cases c with
    | overwrite o => simp only [runFrom]; exact ih _ _ _ _ h
    | pred p abort w =>
      cases w with
      | none =>
        simp only [runFrom]
        split
        · exact ih _ _ _ _ h
        · split
          · simp
          · exact ih _ _ _ _ (by simp)
      | some w =>
        simp only [runFrom]
        rw [if_pos h]; exact ih _ _ _ _ h

/-- When the regular loop reports nothing, the extra pass of a container reports nothing either and
    threads the same value (it evaluates a subset of the same checks on the same values). -/
theorem firstPassC_of_ok (env : Env P O T V) (vac : P → Bool) (cs : List (Check P O)) :
    ∀ (i j : Nat) (val : V) (raw : Bool) (log log' : List (Ev V)),
      (runFrom env j cs val [] log').issues = [] →
      (firstPassC env vac i cs val raw [] log).issues = [] ∧
      (firstPassC env vac i cs val raw [] log).val = (runFrom env j cs val [] log').val := by
  induction cs with
  | nil => intros; exact ⟨rfl, rfl⟩
  | cons c cs ih =>
    intro i j val raw log log' h
    cases c with
    | overwrite o =>
      simp only [runFrom] at h ⊢
      simp only [firstPassC]
      exact ih _ _ _ _ _ _ h
    | pred p abort w =>
      cases w with
      | none =>
        by_cases hp : env.holds p val = true
        · simp only [runFrom, hp, if_true] at h ⊢
          simp only [firstPassC, hp, if_true]
          by_cases hv : (raw && vac p) = true
          · rw [if_pos hv]; exact ih _ _ _ _ _ _ h
          · rw [if_neg hv]; exact ih _ _ _ _ _ _ h
        · exfalso
          simp only [runFrom, hp, if_false, Bool.false_eq_true] at h
          by_cases ha : abort = true
          · simp [ha] at h
          · simp only [ha, if_false, Bool.false_eq_true] at h
            exact runFrom_issues_ne_nil env cs _ _ _ _ (by simp) h
      | some w =>
        have hnil : ¬ (([] : List Nat) ≠ []) := by simp
        by_cases hw : env.holds w val = false
        · simp only [runFrom] at h ⊢
          rw [if_neg hnil, if_pos hw] at h ⊢
          simp only [firstPassC]
          rw [if_neg hnil, if_pos hw]
          exact ih _ _ _ _ _ _ h
        · by_cases hp : env.holds p val = true
          · simp only [runFrom] at h ⊢
            rw [if_neg hnil, if_neg hw, if_pos hp] at h ⊢
            simp only [firstPassC]
            rw [if_neg hnil, if_neg hw]
            by_cases hv : (raw && vac p) = true
            · rw [if_pos hv]; exact ih _ _ _ _ _ _ h
            · rw [if_neg hv, if_pos hp]; exact ih _ _ _ _ _ _ h
          · exfalso
            simp only [runFrom] at h
            rw [if_neg hnil, if_neg hw, if_neg hp] at h
            by_cases ha : abort = true
            · simp [ha] at h
            · simp only [ha, if_false, Bool.false_eq_true] at h
              exact runFrom_issues_ne_nil env cs _ _ _ _ (by simp) h

/-- **C10 on containers (full since /repo 49e6e91).** A container schema reports exactly the issues
    and returns exactly the value of the regular loop, whatever the check list — so `c10_issue_order`,
    `c10_first_failing`, `c10_abort_stops` (issue list), `c10_ok_iff_no_fail` and `c10_ok_value` hold
    for it verbatim; the pass over the pointer only repeats callback invocations on accepted inputs. -/
theorem c10_container_all (env : Env P O T V) (vac : P → Bool) (cs : List (Check P O)) (v : V) :
    (runChecksC env vac cs v).issues = (runChecks env cs v).issues ∧
    (runChecksC env vac cs v).val = (runChecks env cs v).val := by
  unfold runChecksC
  simp only
  by_cases ho : hasOverwrite cs = true
  · rw [if_pos ho]
    by_cases hr : (runChecks env cs v).issues ≠ []
    · rw [if_pos hr]; exact ⟨rfl, rfl⟩
    · rw [if_neg hr]
      have hr' : (runChecks env cs v).issues = [] := Decidable.of_not_not hr
      have hfp := firstPassC_of_ok env vac cs 0 0 v true [] [] hr'
      rw [if_pos hfp.1]
      exact ⟨hr'.symm, hfp.2⟩
  · rw [if_neg ho]; exact ⟨rfl, rfl⟩

/-- A container accepts exactly when no check fails — every check list (the full statement). -/
theorem c10_container_ok_iff (env : Env P O T V) (vac : P → Bool) (cs : List (Check P O)) (v : V) :
    (runChecksC env vac cs v).issues = [] ↔ ∀ k, k < cs.length → failsAt env cs k v = false := by
  rw [(c10_container_all env vac cs v).1]
  exact c10_ok_iff_no_fail env cs v

/-- A rejected container input has run the regular loop only: nothing attached after an aborting
    failure is evaluated. -/
theorem c10_container_abort (env : Env P O T V) (vac : P → Bool) (cs : List (Check P O)) (v : V) (k : Nat)
    (hk : k ∈ (runChecksC env vac cs v).issues) (ha : abortAt cs k = true) :
    ∀ e ∈ (runChecksC env vac cs v).log, e.pos ≤ k := by
  have hi := (c10_container_all env vac cs v).1
  have hne : (runChecks env cs v).issues ≠ [] := by
    rw [← hi]; intro h0; rw [h0] at hk; cases hk
  have hrun : runChecksC env vac cs v = runChecks env cs v := by
    unfold runChecksC
    simp only
    by_cases ho : hasOverwrite cs = true
    · rw [if_pos ho, if_pos hne]
    · rw [if_neg ho]
  rw [hrun] at hk ⊢
  exact (c10_abort_stops env cs v k hk ha).1

/-! #### the code up to /repo 49e6e91: extra pass first (`legacyRunChecksC`) -/

/-- Under the side condition the legacy code agreed with the regular loop. -/
theorem c10_legacy_container_partial (env : Env P O T V) (vac : P → Bool) (cs : List (Check P O)) (v : V)
    (h : vacFree vac cs = true) :
    (legacyRunChecksC env vac cs v).issues = (runChecks env cs v).issues ∧
    (legacyRunChecksC env vac cs v).val = (runChecks env cs v).val := by
  unfold legacyRunChecksC
  by_cases ho : hasOverwrite cs = true
  · simp only [ho, if_true]
    have hfp : firstPassC env vac 0 cs v true [] [] = runChecks env cs v := firstPassC_vacFree env vac cs 0 v [] [] h
    rw [hfp]
    by_cases hi : (runChecks env cs v).issues = []
    · simp [hi]
    · simp [hi]
  · simp [ho]

/-- The full statement for the legacy code. -/
def c10_legacy_container_full (env : Env P O T V) (vac : P → Bool) : Prop :=
  ∀ (cs : List (Check P O)) (v : V),
    (legacyRunChecksC env vac cs v).issues = [] ↔ ∀ k, k < cs.length → failsAt env cs k v = false

/-- A two-check instance: predicate `false` (a length check the value violates) then an overwrite. -/
def witnessEnv : Env Bool Unit Unit Nat := ⟨fun p _ => p, fun _ v => v, fun _ v => v⟩

example : vacFree (fun (_ : Bool) => false) [Check.pred false false none, Check.overwrite ()] = true := by decide

/-- **Witness for the code up to /repo 49e6e91** (`Slice[int](Int()).Max(0).Overwrite(id).Parse([]int{7})`
    succeeded): with a vacuous check before an overwrite the container accepted although check 0 fails.
    Repaired in 49e6e91; the same instance is rejected by `runChecksC`. -/
theorem c10_legacy_container_witness : ¬ c10_legacy_container_full witnessEnv (fun _ => true) := by
  intro h
  have := (h [Check.pred false false none, Check.overwrite ()] 7).mp (by decide)
  exact absurd (this 0 (by decide)) (by decide)

example : (runChecksC witnessEnv (fun _ => true) [Check.pred false false none, Check.overwrite ()] 7).issues = [0] := by decide

/-- Pipelines without container bases are the pipelines of `parsePipeline`. -/
theorem parsePipelineK_erase (env : Env P O T V) (vac : P → Bool) (p : PipelineK P O T)
    (h : p.noContainer = true) : ∀ (v : V) (pin : Bool),
      (parsePipelineK env vac p v pin).out = (parsePipeline env p.erase v pin).out ∧
      (parsePipelineK env vac p v pin).isPtr = (parsePipeline env p.erase v pin).isPtr ∧
      (parsePipelineK env vac p v pin).log = (parsePipeline env p.erase v pin).log := by
  induction p with
  | base tag ps c cs =>
    intro v pin
    simp only [PipelineK.noContainer, Bool.not_eq_true'] at h
    simp [parsePipelineK, parsePipeline, PipelineK.erase, h]
  | transform s i t ih =>
    intro v pin
    have := ih h v pin
    simp only [parsePipelineK, parsePipeline, PipelineK.erase]
    rw [this.1, this.2.2]
    cases (parsePipeline env s.erase v pin).out <;> simp
  | pipe a b iha ihb =>
    intro v pin
    simp only [PipelineK.noContainer, Bool.and_eq_true] at h
    have ha := iha h.1 v pin
    simp only [parsePipelineK, parsePipeline, PipelineK.erase]
    rw [ha.1, ha.2.1, ha.2.2]
    cases hx : (parsePipeline env a.erase v pin).out with
    | error e => simp
    | ok x =>
      have hb := ihb h.2 x (parsePipeline env a.erase v pin).isPtr
      simp [hb.1, hb.2.1, hb.2.2]

/-- With every value of the right type for every base, `parsePipelineT` is `parsePipelineK`. -/
theorem parsePipelineT_typed (env : Env P O T V) (vac : P → Bool) (ty : Nat → V → Bool)
    (hty : ∀ tag v, ty tag v = true) (p : PipelineK P O T) : ∀ (v : V) (pin : Bool),
      (parsePipelineT env vac ty p v pin).out = (parsePipelineK env vac p v pin).out ∧
      (parsePipelineT env vac ty p v pin).isPtr = (parsePipelineK env vac p v pin).isPtr ∧
      (parsePipelineT env vac ty p v pin).log = (parsePipelineK env vac p v pin).log := by
  induction p with
  | base tag ps c cs => intro v pin; simp [parsePipelineT, parsePipelineK, hty]
  | transform s i t ih =>
    intro v pin
    have := ih v pin
    simp only [parsePipelineT, parsePipelineK]
    rw [this.1, this.2.2]
    cases (parsePipelineK env vac s v pin).out <;> simp
  | pipe a b iha ihb =>
    intro v pin
    have ha := iha v pin
    simp only [parsePipelineT, parsePipelineK]
    rw [ha.1, ha.2.1, ha.2.2]
    cases hx : (parsePipelineK env vac a v pin).out with
    | error e => simp
    | ok x =>
      have hb := ihb x (parsePipelineK env vac a v pin).isPtr
      simp [hb.1, hb.2.1, hb.2.2]

/-- **A Pipe hands the first schema's result to the second and succeeds exactly when both do** — with
    the second schema's type dispatch included: a result the target does not take as a value of its
    type (nil, another kind) fails the pipe. -/
theorem c10_pipeT_ok_iff (env : Env P O T V) (vac : P → Bool) (ty : Nat → V → Bool)
    (a b : PipelineK P O T) (v : V) (pin : Bool) (y : V) :
    (parsePipelineT env vac ty (.pipe a b) v pin).out = .ok y ↔
      ∃ x, (parsePipelineT env vac ty a v pin).out = .ok x ∧
           (parsePipelineT env vac ty b x (parsePipelineT env vac ty a v pin).isPtr).out = .ok y := by
  simp only [parsePipelineT]
  cases h : (parsePipelineT env vac ty a v pin).out with
  | error e => simp
  | ok x => simp

/-- A base schema never accepts a value that is not of its type, and runs none of its checks on it. -/
theorem c10_base_type_error (env : Env P O T V) (vac : P → Bool) (ty : Nat → V → Bool)
    (tag : Nat) (ps c : Bool) (cs : List (Check P O)) (v : V) (pin : Bool) (h : ty tag v = false) :
    (parsePipelineT env vac ty (.base tag ps c cs) v pin).out = .error (typeErrTag, [0]) ∧
    (parsePipelineT env vac ty (.base tag ps c cs) v pin).log = [] := by
  simp [parsePipelineT, h]

end Gozod.C10
