/-
  C18 — the EXPECTATION the run and the theorems are stated against (hand-written, not read off the running code):
  every site hands every applicable source to FinalizeIssue and every position forwards the caller's context, except the
  listed gaps (`gaps`, `positionGaps`: the open known findings).  The driver predicts every cell — every nesting chain through
  `Msg.nestedMessage` — from these definitions; the observed tables (`Gen.sites`, `Gen.positions`) are compared with them
  (Proofs/C18.lean: c18_observed_eq_expected, c18_positions_forward).
-/
import Gozod.Model.Msg
namespace Gozod.Msg

/-- leaf ↦ sources that do not reach FinalizeIssue there (in every wrapper) -/
def gaps : List (String × SrcSet) := [
  -- the schema's own message is not consulted for issues raised by its checks
  ("small-string", .ofString "s"),
  ("big-string", .ofString "s"),
  ("small-int", .ofString "s"),
  ("big-int", .ofString "s"),
  ("small-float", .ofString "s"),
  ("small-map", .ofString "s"),
  ("small-record", .ofString "s"),
  ("format-email", .ofString "s"),
  ("format-regex", .ofString "s"),
  ("format-starts", .ofString "s"),
  ("format-includes", .ofString "s"),
  ("format-json", .ofString "s"),
  ("multiple-int", .ofString "s"),
  ("multiple-float", .ofString "s"),
  ("small-set", .ofString "s"),
  ("format-lowercase", .ofString "s"),
  ("small-string-length", .ofString "s"),
  ("small-int-positive", .ofString "s"),
  -- the same on derived inputs (prefault / coerced / overwritten values)
  ("small-string-prefault", .ofString "s"),
  ("small-int-prefault", .ofString "s"),
  ("small-string-coerced", .ofString "s"),
  ("small-string-trimmed", .ofString "s"),
  ("small-slice-prefault", .ofString "s"),
  -- (Array, Literal, Union, Xor, DiscriminatedUnion, IPv4, URL ignored their constructor message until 453f053, 67fecb7,
  --  455c79d, 3f5a91c: no entry any more)
  -- container-level issues (the per-parse map reaches them since 7990727; the schema's own message still does not)
  ("small-slice", .ofString "s"),
  ("big-slice", .ofString "s"),
  ("small-slice-nonempty", .ofString "s"),
  ("big-array-length", .ofString "s"),
  ("keys-strict-object", .ofString "s"),
  -- issues raised with a preset message: nothing is consulted
  ("type-field-missing", .ofString "spgl"),
  ("value-enum", .ofString "pgl"),
  ("custom-refine-string", .ofString "spgl"),
  ("custom-refine-int", .ofString "spgl"),
  ("custom-refine-object", .ofString "spgl"),
  ("custom-refine-slice", .ofString "spgl")]

def gapOf (leaf : String) : SrcSet := (gaps.lookup leaf).getD SrcSet.empty

/-- the sources that do not reach FinalizeIssue when the failing check carries a message FUNCTION that answers "": the leaf's
    gap — except `Refine`: a refinement without a message presets "Invalid input" (gap spgl), one with a declining function
    does not, and then only the schema's own message is not consulted -/
def gapSilentCheckOf (leaf : String) : SrcSet :=
  if leaf.startsWith "custom-refine-" then .ofString "s" else gapOf leaf

/-- positions that do NOT forward the caller's context to the schema nested in them (none since eac1fcf; before it:
    "record-key", finding `wire:@record-key:missing-p`) -/
def positionGaps : List String := []

def expectedForwards (wrapper : String) : Bool := !(positionGaps.contains wrapper)

def expectedPosition (wrapper : String) : Position := ⟨wrapper, expectedForwards wrapper⟩

/-- sentinel sources: a configured source answers with its own tag -/
def sentinelSources (cfg : SrcSet) : Sources Unit :=
  { rawMsg := if cfg.check then "c" else ""
    inst := sentinel cfg.schema "s"
    parse := sentinel cfg.parse "p"
    custom := sentinel cfg.custom "g"
    locale := sentinel cfg.locale "l"
    dflt := fun _ => "d" }

/-- the expected message of a leaf's issue below a chain of positions (outermost first; [] = top level) for ARBITRARY
    sources: `nestedMessage` with the leaf's listed gap and the expected forwarding of every position -/
def expectedMessage {ρ : Type} (drops : SrcSet) (chain : List String) (s : Sources ρ) (iss : ρ) : String :=
  nestedMessage drops (chain.map expectedPosition) s iss

/-- … under sentinel maps (the `wire` / `silent` / `hist` cells of the run) -/
def expectedWire (drops : SrcSet) (chain : List String) (cfg : SrcSet) : String :=
  expectedMessage drops chain (sentinelSources cfg) ()

end Gozod.Msg
