/-
  C17, tie by translation: the dispatch tables regenerated from `pkg/coerce/coerce.go`
  (`Gozod.Gen.CoerceDispatch`, written by `harness/numgen` on every run), interpreted by
  `Gozod.Model.Dispatch`, compute exactly the hand-written model functions of
  `Gozod.Model.Coerce` — for every source kind and every value.  So the exactness theorems of
  `Proofs/C17.lean` speak about the type switches, guards and constants that are in the source
  now; an added, deleted or re-routed clause or an edited constant makes one of the theorems
  below fail at the clause concerned.
-/
import Gozod.Gen.CoerceDispatch
import Gozod.Proofs.C17

set_option linter.unusedSimpArgs false
namespace Gozod.C17D
open Gozod Gozod.Coerce Gozod.Dispatch
open Gozod.Gen.CoerceDispatch

/-! ## the environment: what helper names and raw texts mean (in terms of the hand model) -/

def unsup : R Val := .error .unsupported

def fFloatToInt64 : Src → R Val
  | .f32 x => Val.int <$> floatToInt64 x
  | .f64 x => Val.int <$> floatToInt64 x
  | _ => unsup
def fStringToInt64 : Src → R Val
  | .str i => Val.int <$> stringToInt64 i
  | _ => unsup
def fStringToBool : Src → R Val
  | .str i => (match boolTable i.norm with
    | some b => .ok (.bool b)
    | none => .error .format)
  | _ => unsup
def fStringToFloat64 : Src → R Val
  | .str i => Val.flt <$> stringToFloat64 i
  | _ => unsup
def fStringToFloat32 : Src → R Val
  | .str i => Val.flt <$> stringToFloat i.blank i.pFloat32
  | _ => unsup
def fStringToBigInt : Src → R Val
  | .str i => Val.int <$> stringToBig i
  | _ => unsup
def fBigToF64 : Src → R Val
  | .big v => Val.flt <$> finOrOverflow (bigToF64 v)
  | _ => unsup
def fBigToF32 : Src → R Val
  | .big v => Val.flt <$> finOrOverflow (bigToF32 v)
  | _ => unsup
def fMagnitude : Src → R Val
  | .cplx _ _ mag => .ok (.flt mag)
  | _ => unsup

/-- The helpers a clause hands its scrutinee to, as the hand model has them. -/
def fns : String → Option (Src → R Val)
  | "floatToInt64" => some fFloatToInt64
  | "stringToInt64" => some fStringToInt64
  | "stringToBool" => some fStringToBool
  | "stringToFloat64" => some fStringToFloat64
  | "stringToFloat/64" => some fStringToFloat64
  | "stringToBigInt" => some fStringToBigInt
  | "bigIntToFloat64" => some fBigToF64
  | _ => none

/-- The statements the translator leaves as text, and what the hand model says they do. Any
    other text has no meaning here, and the theorems below fail on it. -/
def raws : String → Option (Src → R Val)
  | "c := complex128(x); return math.Sqrt(real(c)*real(c) + imag(c)*imag(c)), nil" => some fMagnitude
  | "return math.Sqrt(real(x)*real(x) + imag(x)*imag(x)), nil" => some fMagnitude
  | "f, err := stringToFloat(x, 32); return float32(f), err" => some fStringToFloat32
  | "f, _ := new(big.Float).SetInt(&x).Float32(); if math.IsInf(float64(f), 0) { return 0, NewOverflowError(x.String(), \"float32\") }; return f, nil" => some fBigToF32
  | "f, _ := x.Float64(); if math.IsInf(f, 0) { return 0, NewOverflowError(x.String(), \"float64\") }; return f, nil" => some fBigToF64
  | _ => none

theorem fns1 : fns "floatToInt64" = some fFloatToInt64 := rfl
theorem fns2 : fns "stringToInt64" = some fStringToInt64 := rfl
theorem fns3 : fns "stringToBool" = some fStringToBool := rfl
theorem fns4 : fns "stringToFloat64" = some fStringToFloat64 := rfl
theorem fns5 : fns "stringToFloat/64" = some fStringToFloat64 := rfl
theorem fns6 : fns "stringToBigInt" = some fStringToBigInt := rfl
theorem fns7 : fns "bigIntToFloat64" = some fBigToF64 := rfl
theorem raws1 : raws "c := complex128(x); return math.Sqrt(real(c)*real(c) + imag(c)*imag(c)), nil" = some fMagnitude := rfl
theorem raws2 : raws "return math.Sqrt(real(x)*real(x) + imag(x)*imag(x)), nil" = some fMagnitude := rfl
theorem raws3 : raws "f, err := stringToFloat(x, 32); return float32(f), err" = some fStringToFloat32 := rfl
set_option maxRecDepth 20000 in
theorem raws4 : raws "f, _ := new(big.Float).SetInt(&x).Float32(); if math.IsInf(float64(f), 0) { return 0, NewOverflowError(x.String(), \"float32\") }; return f, nil" = some fBigToF32 := rfl
set_option maxRecDepth 20000 in
theorem raws5 : raws "f, _ := x.Float64(); if math.IsInf(f, 0) { return 0, NewOverflowError(x.String(), \"float64\") }; return f, nil" = some fBigToF64 := rfl

def env (f32 f64 : F → List Nat) : Env := ⟨fns, raws, f32, f64⟩

/-! ## comparison lemmas -/

/-- An integer scrutinee against an integer constant. -/
theorem rel_int_const (r : Rel) (t : IntTy) (v c : Int) :
    Cond.eval (.int t v) (.rel r .self (.c c 0)) = some (r.holds (some (compare v c))) := by
  simp [Cond.eval, Term.eval, num, F.cmp]

/-! ## `floatToInt64` -/

theorem pow_pos' (k : Nat) : (0 : Int) < 2 ^ k := Int.pow_pos (by decide)

theorem floatToInt64_table (f32 f64 : F → List Nat) (s : Src) (x : F) (hs : s = .f32 x ∨ s = .f64 x) :
    runGuards (env f32 f64) s floatToInt64.guards floatToInt64.res = some (Val.int <$> Coerce.floatToInt64 x) := by
  have key : ∀ s, num s = some x → (Res.eval (env f32 f64) s .toI64 = some (.ok (.int (cvtI64 x)))) →
      runGuards (env f32 f64) s Gen.CoerceDispatch.floatToInt64.guards Gen.CoerceDispatch.floatToInt64.res
        = some (Val.int <$> Coerce.floatToInt64 x) := by
    intro s hn hr
    cases x with
    | nan => simp [Gen.CoerceDispatch.floatToInt64, runGuards, Cond.eval, Term.eval, hn, fTrunc, F.cmp, Rel.holds, Res.eval, Coerce.floatToInt64, Functor.map, Except.map]
    | pinf => simp [Gen.CoerceDispatch.floatToInt64, runGuards, Cond.eval, Term.eval, hn, fTrunc, F.cmp, Rel.holds, Res.eval, Coerce.floatToInt64, Functor.map, Except.map]
    | ninf => simp [Gen.CoerceDispatch.floatToInt64, runGuards, Cond.eval, Term.eval, hn, fTrunc, F.cmp, Rel.holds, Res.eval, Coerce.floatToInt64, Functor.map, Except.map]
    | fin a k =>
      have hp := pow_pos' k
      simp only [Gen.CoerceDispatch.floatToInt64, runGuards, Cond.eval, Term.eval, hn, fTrunc, F.cmp, Option.map,
        bind, Option.bind, pure, holds_compare, Int.pow_zero, Int.mul_one, Coerce.floatToInt64, isWhole]
      have h63 : (2 : Int) ^ 63 = 9223372036854775808 := by decide
      rw [h63]
      by_cases hw : F.truncInt a k * 2 ^ k = a
      · have hne : decide (F.truncInt a k * 2 ^ k ≠ a) = false := by simp [hw]
        have hbeq : (F.truncInt a k * 2 ^ k == a) = true := by simp [hw]
        simp only [hne, hbeq, Bool.false_eq_true, ↓reduceIte]
        have e1 : decide (a < -9223372036854775808 * 2 ^ k) = decide (F.truncInt a k < -9223372036854775808) := by
          rw [decide_eq_decide]
          generalize F.truncInt a k = t at hw
          subst hw
          constructor
          · intro h; exact Int.lt_of_mul_lt_mul_right h (Int.le_of_lt hp)
          · intro h; exact Int.mul_lt_mul_of_pos_right h hp
        have e2 : decide (a ≥ 9223372036854775808 * 2 ^ k) = decide (F.truncInt a k ≥ 9223372036854775808) := by
          rw [decide_eq_decide]
          generalize F.truncInt a k = t at hw
          subst hw
          constructor
          · intro h; exact Int.le_of_mul_le_mul_right h hp
          · intro h; exact Int.mul_le_mul_of_nonneg_right h (Int.le_of_lt hp)
        rw [e1, e2, hr]
        by_cases h1 : F.truncInt a k < -9223372036854775808
        · simp [h1, Res.eval, Functor.map, Except.map]
        · by_cases h2 : F.truncInt a k ≥ 9223372036854775808
          · simp [h1, h2, Res.eval, Functor.map, Except.map]
          · simp [h1, h2, Functor.map, Except.map]
      · have hne : decide (F.truncInt a k * 2 ^ k ≠ a) = true := by simp [hw]
        have hbeq : (F.truncInt a k * 2 ^ k == a) = false := by simp [hw]
        simp [hne, hbeq, Res.eval, Functor.map, Except.map]
  rcases hs with h | h <;> subst h <;> exact key _ rfl rfl

/-! ## the type switches -/

/-- Unfold a table run on a concrete clause list. -/
macro "table_simp" : tactic => `(tactic|
  simp [env, Branch.run, runGuards, Res.eval, Cond.eval, Term.eval, num, F.cmp, holds_compare,
    fns1, fns2, fns3, fns4, fns5, fns6, fns7, raws1, raws2, raws3, raws4, raws5,
    fFloatToInt64, fStringToInt64, fStringToBool, fStringToFloat64, fStringToFloat32, fStringToBigInt, fBigToF64, fBigToF32,
    fMagnitude, fmtCall, libCall, noNext, unsup,
    Coerce.toInt64, intToInt64, Coerce.toFloat64, Coerce.toBool, Coerce.toBigInt, Coerce.toStr, Coerce.toFloat32,
    boolInt, backInt, toF64Int, toF32Int, round53, Functor.map, Except.map, F.isNaN, isZero])

theorem ToInt64_table (f32 f64 : F → List Nat) (s : Src) (ty : String) (hty : ty ∈ goTypes s) :
    ToInt64.run (env f32 f64) ty s noNext = some (Val.int <$> Coerce.toInt64 s) := by
  cases s with
  | int t v =>
    cases t <;> simp [goTypes, IntTy.goName] at hty <;> subst hty <;> simp only [ToInt64, Table.run, find] <;> table_simp <;>
      split <;> simp
  | f32 x => simp [goTypes] at hty; subst hty; simp only [ToInt64, Table.run, find]; table_simp
  | f64 x => simp [goTypes] at hty; subst hty; simp only [ToInt64, Table.run, find]; table_simp
  | bool b => simp [goTypes] at hty; subst hty; simp only [ToInt64, Table.run, find]; cases b <;> table_simp
  | str i => simp [goTypes] at hty; subst hty; simp only [ToInt64, Table.run, find]; table_simp
  | big v => simp [goTypes] at hty; subst hty; simp only [ToInt64, Table.run, find]; table_simp
  | cplx re im mag => simp [goTypes] at hty; rcases hty with h | h <;> subst h <;> simp only [ToInt64, Table.run, find] <;> table_simp
  | nilptr => simp [goTypes] at hty
  | other => simp [goTypes] at hty; subst hty; simp only [ToInt64, Table.run, find]; table_simp

theorem ToFloat64_table (f32 f64 : F → List Nat) (s : Src) (ty : String) (hty : ty ∈ goTypes s) :
    ToFloat64.run (env f32 f64) ty s noNext = some (Val.flt <$> Coerce.toFloat64 s) := by
  cases s with
  | int t v =>
    cases t <;> simp [goTypes, IntTy.goName] at hty <;> subst hty <;> simp only [ToFloat64, Table.run, find] <;> table_simp
  | f32 x => simp [goTypes] at hty; subst hty; simp only [ToFloat64, Table.run, find]; cases x <;> table_simp
  | f64 x => simp [goTypes] at hty; subst hty; simp only [ToFloat64, Table.run, find]; cases x <;> table_simp
  | bool b => simp [goTypes] at hty; subst hty; simp only [ToFloat64, Table.run, find]; cases b <;> table_simp
  | str i => simp [goTypes] at hty; subst hty; simp only [ToFloat64, Table.run, find]; table_simp
  | big v => simp [goTypes] at hty; subst hty; simp only [ToFloat64, Table.run, find]; table_simp
  | cplx re im mag => simp [goTypes] at hty; rcases hty with h | h <;> subst h <;> simp only [ToFloat64, Table.run, find] <;> table_simp
  | nilptr => simp [goTypes] at hty
  | other => simp [goTypes] at hty; subst hty; simp only [ToFloat64, Table.run, find]; table_simp

theorem ToBool_table (f32 f64 : F → List Nat) (s : Src) (ty : String) (hty : ty ∈ goTypes s) :
    Gen.CoerceDispatch.ToBool.run (env f32 f64) ty s noNext = some (Val.bool <$> Coerce.toBool s) := by
  cases s with
  | int t v =>
    cases t <;> simp [goTypes, IntTy.goName] at hty <;> subst hty <;> simp only [Gen.CoerceDispatch.ToBool, Table.run, find] <;> table_simp
  | f32 x => simp [goTypes] at hty; subst hty; simp only [Gen.CoerceDispatch.ToBool, Table.run, find]; cases x <;> table_simp
  | f64 x => simp [goTypes] at hty; subst hty; simp only [Gen.CoerceDispatch.ToBool, Table.run, find]; cases x <;> table_simp
  | bool b => simp [goTypes] at hty; subst hty; simp only [Gen.CoerceDispatch.ToBool, Table.run, find]; cases b <;> table_simp
  | str i => simp [goTypes] at hty; subst hty; simp only [Gen.CoerceDispatch.ToBool, Table.run, find]; table_simp; cases boolTable i.norm <;> rfl
  | big v => simp [goTypes] at hty; subst hty; simp only [Gen.CoerceDispatch.ToBool, Table.run, find]; table_simp
  | cplx re im mag => simp [goTypes] at hty; rcases hty with h | h <;> subst h <;> simp only [Gen.CoerceDispatch.ToBool, Table.run, find] <;> table_simp
  | nilptr => simp [goTypes] at hty
  | other => simp [goTypes] at hty; subst hty; simp only [Gen.CoerceDispatch.ToBool, Table.run, find]; table_simp

/-- `ToString`. Complex sources are excluded: the code renders them with `%g`, the model does
    not model complex → string (declared outside the property's sources, see `outside`). -/
theorem ToString_table (f32 f64 : F → List Nat) (s : Src) (ty : String) (hty : ty ∈ goTypes s)
    (hc : ∀ re im mag, s ≠ .cplx re im mag) :
    Gen.CoerceDispatch.ToString.run (env f32 f64) ty s noNext = some (Val.str <$> Coerce.toStr f32 f64 s) := by
  cases s with
  | int t v =>
    cases t <;> simp [goTypes, IntTy.goName] at hty <;> subst hty <;> simp only [Gen.CoerceDispatch.ToString, Table.run, find] <;> table_simp
  | f32 x => simp [goTypes] at hty; subst hty; simp only [Gen.CoerceDispatch.ToString, Table.run, find]; table_simp
  | f64 x => simp [goTypes] at hty; subst hty; simp only [Gen.CoerceDispatch.ToString, Table.run, find]; table_simp
  | bool b => simp [goTypes] at hty; subst hty; simp only [Gen.CoerceDispatch.ToString, Table.run, find]; cases b <;> table_simp
  | str i => simp [goTypes] at hty; subst hty; simp only [Gen.CoerceDispatch.ToString, Table.run, find]; table_simp
  | big v => simp [goTypes] at hty; subst hty; simp only [Gen.CoerceDispatch.ToString, Table.run, find]; table_simp
  | cplx re im mag => exact absurd rfl (hc re im mag)
  | nilptr => simp [goTypes] at hty
  | other => simp [goTypes] at hty; subst hty; simp only [Gen.CoerceDispatch.ToString, Table.run, find]; table_simp

theorem big_float_case (o : Option Ordering) (i : Int) :
    (if Rel.ne.holds o = true then some (Except.error CErr.notWhole) else some (Except.ok (Val.int i))) =
      some (Val.int <$> (match o with
        | some .eq => (.ok i : R Int)
        | _ => .error .notWhole)) := by
  cases o with
  | none => rfl
  | some c => cases c <;> rfl

theorem ToBigInt_table (f32 f64 : F → List Nat) (s : Src) (ty : String) (hty : ty ∈ goTypes s) :
    Gen.CoerceDispatch.ToBigInt.run (env f32 f64) ty s noNext = some (Val.int <$> Coerce.toBigInt s) := by
  cases s with
  | int t v =>
    cases t <;> simp [goTypes, IntTy.goName] at hty <;> subst hty <;> simp only [Gen.CoerceDispatch.ToBigInt, Table.run, find] <;> table_simp
  | f32 x => simp [goTypes] at hty; subst hty; simp only [Gen.CoerceDispatch.ToBigInt, Table.run, find]; table_simp; exact big_float_case _ _
  | f64 x => simp [goTypes] at hty; subst hty; simp only [Gen.CoerceDispatch.ToBigInt, Table.run, find]; table_simp; exact big_float_case _ _
  | bool b => simp [goTypes] at hty; subst hty; simp only [Gen.CoerceDispatch.ToBigInt, Table.run, find]; cases b <;> table_simp
  | str i => simp [goTypes] at hty; subst hty; simp only [Gen.CoerceDispatch.ToBigInt, Table.run, find]; table_simp
  | big v => simp [goTypes] at hty; subst hty; simp only [Gen.CoerceDispatch.ToBigInt, Table.run, find]; table_simp
  | cplx re im mag => simp [goTypes] at hty; rcases hty with h | h <;> subst h <;> simp only [Gen.CoerceDispatch.ToBigInt, Table.run, find] <;> table_simp
  | nilptr => simp [goTypes] at hty
  | other => simp [goTypes] at hty; subst hty; simp only [Gen.CoerceDispatch.ToBigInt, Table.run, find]; table_simp

/-! ## `checkIntegerTypeBounds` and `ToInteger[T]` -/

/-- The bounds clause of a target type, run on the int64 intermediate (a type without a
    clause — `int64` — is unchecked). -/
def boundsRun (t : IntTy) (v : Int) : Option (R Int) :=
  match findBounds (IntTy.goName t) checkIntegerTypeBounds with
  | some b => b.run v
  | none => some (.ok v)

/-- **The range constants.** The guards regenerated from `checkIntegerTypeBounds` (with
    `math.MinInt8` … `^uint(0)` evaluated by go/constant) are the model's `checkBounds`, for every
    target type and every int64 value. -/
theorem bounds_table (t : IntTy) (v : Int) (hv : v ≤ 2 ^ 64 - 1) :
    boundsRun t v = some (checkBounds t v) := by
  have hv' : ¬ ((18446744073709551615 : Int) < v) := by omega
  cases t with
  | i64 => simp [boundsRun, findBounds, IntTy.goName, checkIntegerTypeBounds, Bounds.run, runGuards, Cond.eval, Term.eval, num,
      F.cmp, holds_compare, Res.eval, checkBounds, IntTy.lo, IntTy.hi, IntTy.signed, IntTy.bits]
  | i8 =>
    simp [boundsRun, findBounds, IntTy.goName, checkIntegerTypeBounds, Bounds.run, runGuards, Cond.eval, Term.eval, num,
      F.cmp, holds_compare, Res.eval, checkBounds, IntTy.lo, IntTy.hi, IntTy.signed, IntTy.bits]
    by_cases h1 : v < -128 <;> by_cases h2 : (127 : Int) < v <;> simp [h1, h2]
  | i16 =>
    simp [boundsRun, findBounds, IntTy.goName, checkIntegerTypeBounds, Bounds.run, runGuards, Cond.eval, Term.eval, num,
      F.cmp, holds_compare, Res.eval, checkBounds, IntTy.lo, IntTy.hi, IntTy.signed, IntTy.bits]
    by_cases h1 : v < -32768 <;> by_cases h2 : (32767 : Int) < v <;> simp [h1, h2]
  | i32 =>
    simp [boundsRun, findBounds, IntTy.goName, checkIntegerTypeBounds, Bounds.run, runGuards, Cond.eval, Term.eval, num,
      F.cmp, holds_compare, Res.eval, checkBounds, IntTy.lo, IntTy.hi, IntTy.signed, IntTy.bits]
    by_cases h1 : v < -2147483648 <;> by_cases h2 : (2147483647 : Int) < v <;> simp [h1, h2]
  | int =>
    simp [boundsRun, findBounds, IntTy.goName, checkIntegerTypeBounds, Bounds.run, runGuards, Cond.eval, Term.eval, num,
      F.cmp, holds_compare, Res.eval, checkBounds, IntTy.lo, IntTy.hi, IntTy.signed, IntTy.bits]
    by_cases h1 : v < -9223372036854775808 <;> by_cases h2 : (9223372036854775807 : Int) < v <;> simp [h1, h2]
  | u8 =>
    simp [boundsRun, findBounds, IntTy.goName, checkIntegerTypeBounds, Bounds.run, runGuards, Cond.eval, Term.eval, num,
      F.cmp, holds_compare, Res.eval, checkBounds, IntTy.lo, IntTy.hi, IntTy.signed, IntTy.bits]
    by_cases h1 : v < 0 <;> by_cases h2 : (255 : Int) < v <;> simp [h1, h2]
  | u16 =>
    simp [boundsRun, findBounds, IntTy.goName, checkIntegerTypeBounds, Bounds.run, runGuards, Cond.eval, Term.eval, num,
      F.cmp, holds_compare, Res.eval, checkBounds, IntTy.lo, IntTy.hi, IntTy.signed, IntTy.bits]
    by_cases h1 : v < 0 <;> by_cases h2 : (65535 : Int) < v <;> simp [h1, h2]
  | u32 =>
    simp [boundsRun, findBounds, IntTy.goName, checkIntegerTypeBounds, Bounds.run, runGuards, Cond.eval, Term.eval, num,
      F.cmp, holds_compare, Res.eval, checkBounds, IntTy.lo, IntTy.hi, IntTy.signed, IntTy.bits]
    by_cases h1 : v < 0 <;> by_cases h2 : (4294967295 : Int) < v <;> simp [h1, h2]
  | u64 =>
    simp [boundsRun, findBounds, IntTy.goName, checkIntegerTypeBounds, Bounds.run, runGuards, Cond.eval, Term.eval, num,
      F.cmp, holds_compare, Res.eval, checkBounds, IntTy.lo, IntTy.hi, IntTy.signed, IntTy.bits]
    by_cases h1 : v < 0 <;> simp [h1, hv']
  | uint =>
    simp [boundsRun, findBounds, IntTy.goName, checkIntegerTypeBounds, Bounds.run, runGuards, Cond.eval, Term.eval, num,
      F.cmp, holds_compare, Res.eval, checkBounds, IntTy.lo, IntTy.hi, IntTy.signed, IntTy.bits]
    by_cases h1 : v < 0 <;> simp [h1, hv']

def boundsNext (t : IntTy) : Val → Option (R Val)
  | .int n => (boundsRun t n).map (fun r => Val.int <$> r)
  | _ => none


/-- The step after a clause of `ToInteger`: bounds check on success, the error otherwise. -/
theorem after_bounds (t : IntTy) (r : R Int) (hr : ∀ n, r = .ok n → n ≤ 2 ^ 64 - 1) :
    (match (Val.int <$> r : R Val) with
      | .ok v => boundsNext t v
      | .error e => some (.error e)) = some (Val.int <$> (r >>= checkBounds t)) := by
  cases r with
  | error e => rfl
  | ok n =>
    simp only [Functor.map, Except.map, boundsNext, bounds_table t n (hr n rfl), Option.map, bind, Except.bind]

theorem ToInteger_table (f32 f64 : F → List Nat) (t : IntTy) (s : Src) (ty : String) (hty : ty ∈ goTypes s)
    (hn : ∀ n, Coerce.toInt64 s = .ok n → n ≤ 2 ^ 64 - 1) :
    ToInteger.run (env f32 f64) ty s (boundsNext t) = some (Val.int <$> Coerce.toInteger t s) := by
  cases s with
  | int t' v =>
    rw [C17.toInteger_nonbool t _ (by intro b h; cases h), ← after_bounds t _ hn]
    cases t' <;> simp [goTypes, IntTy.goName] at hty <;> subst hty <;> simp only [ToInteger, Table.run, find] <;> table_simp <;>
      split <;> simp
  | f32 x => rw [C17.toInteger_nonbool t _ (by intro b h; cases h), ← after_bounds t _ hn]; simp [goTypes] at hty; subst hty; simp only [ToInteger, Table.run, find]; table_simp; cases Coerce.floatToInt64 x <;> rfl
  | f64 x => rw [C17.toInteger_nonbool t _ (by intro b h; cases h), ← after_bounds t _ hn]; simp [goTypes] at hty; subst hty; simp only [ToInteger, Table.run, find]; table_simp; cases Coerce.floatToInt64 x <;> rfl
  | bool b => simp [goTypes] at hty; subst hty; simp only [ToInteger, Table.run, find]; cases b <;> table_simp <;> rfl
  | str i => rw [C17.toInteger_nonbool t _ (by intro b h; cases h), ← after_bounds t _ hn]; simp [goTypes] at hty; subst hty; simp only [ToInteger, Table.run, find]; table_simp; cases Coerce.stringToInt64 i <;> rfl
  | big v => rw [C17.toInteger_nonbool t _ (by intro b h; cases h), ← after_bounds t _ hn]; simp [goTypes] at hty; subst hty; simp only [ToInteger, Table.run, find]; table_simp
  | cplx re im mag => rw [C17.toInteger_nonbool t _ (by intro b h; cases h), ← after_bounds t _ hn]; simp [goTypes] at hty; rcases hty with h | h <;> subst h <;> simp only [ToInteger, Table.run, find] <;> table_simp
  | nilptr => simp [goTypes] at hty
  | other => rw [C17.toInteger_nonbool t _ (by intro b h; cases h), ← after_bounds t _ hn]; simp [goTypes] at hty; subst hty; simp only [ToInteger, Table.run, find]; table_simp

/-! ## `toFloat32` (the float32 path of `ToFloat[T]`) -/

/-- What follows `toFloat32`'s switch: `fval, err := ToFloat64(d)` (through the regenerated
    `ToFloat64` table), then the regenerated guards over `fval` and the narrowing. -/
def f32Tail (e : Env) (ty : String) (s : Src) : Option (R Val) :=
  match Gen.CoerceDispatch.ToFloat64.run e ty s noNext with
  | some (.ok (.flt f)) => runGuards e (.f64 f) toFloat32_tail.guards toFloat32_tail.res
  | some (.error err) => some (.error err)
  | _ => none

theorem f32_tail (f32 f64 : F → List Nat) (f : F) :
    runGuards (env f32 f64) (.f64 f) toFloat32_tail.guards toFloat32_tail.res =
      some (Val.flt <$> (if absGtMaxF32 f then (.error .overflow : R F) else .ok (roundF32 f))) := by
  cases f with
  | fin a k =>
    simp [toFloat32_tail, runGuards, Cond.eval, Term.eval, num, fAbs, F.cmp, holds_compare, Res.eval,
      absGtMaxF32, maxF32, Functor.map, Except.map]
    split <;> simp
  | nan => simp [toFloat32_tail, runGuards, Cond.eval, Term.eval, num, fAbs, F.cmp, Rel.holds, Res.eval,
      absGtMaxF32, roundF32, Functor.map, Except.map]
  | pinf => simp [toFloat32_tail, runGuards, Cond.eval, Term.eval, num, fAbs, F.cmp, Rel.holds, Res.eval,
      absGtMaxF32, Functor.map, Except.map]
  | ninf => simp [toFloat32_tail, runGuards, Cond.eval, Term.eval, num, fAbs, F.cmp, Rel.holds, Res.eval,
      absGtMaxF32, Functor.map, Except.map]

set_option maxRecDepth 20000 in
theorem toFloat32_table (f32 f64 : F → List Nat) (s : Src) (ty : String) (hty : ty ∈ goTypes s)
    (hs : ∀ x, s ≠ .f32 x) :
    Gen.CoerceDispatch.toFloat32.run (env f32 f64) ty s (fun _ => f32Tail (env f32 f64) ty s) =
      some (Val.flt <$> Coerce.toFloat32 s) := by
  have tail : ∀ r : R F, Gen.CoerceDispatch.ToFloat64.run (env f32 f64) ty s noNext = some (Val.flt <$> r) →
      f32Tail (env f32 f64) ty s = some (Val.flt <$> (r >>= fun f => if absGtMaxF32 f then (.error .overflow : R F) else .ok (roundF32 f))) := by
    intro r h
    cases r with
    | error e => simp [f32Tail, h, Functor.map, Except.map, bind, Except.bind]
    | ok f => simp only [f32Tail, h, Functor.map, Except.map, f32_tail, bind, Except.bind]
  have t64 := ToFloat64_table f32 f64 s ty hty
  cases s with
  | int t v =>
    cases t <;> simp [goTypes, IntTy.goName] at hty <;> subst hty <;> simp only [Gen.CoerceDispatch.toFloat32, Table.run, find] <;> table_simp
  | f32 x => exact absurd rfl (hs x)
  | f64 x => simp [goTypes] at hty; subst hty; simp only [Gen.CoerceDispatch.toFloat32, Table.run, find]; simp [Branch.run, runGuards, Res.eval, Coerce.toFloat32]; rw [tail _ t64]; generalize Coerce.toFloat64 _ = r; cases r <;> rfl
  | bool b => simp [goTypes] at hty; subst hty; cases b <;> simp only [Gen.CoerceDispatch.toFloat32, Table.run, find] <;> simp [Branch.run, runGuards, Res.eval] <;> rw [tail _ t64] <;> simp only [Coerce.toFloat32]
  | str i => simp [goTypes] at hty; subst hty; simp only [Gen.CoerceDispatch.toFloat32, Table.run, find]; table_simp
  | big v => simp [goTypes] at hty; subst hty; simp only [Gen.CoerceDispatch.toFloat32, Table.run, find]; table_simp
  | cplx re im mag => simp [goTypes] at hty; rcases hty with h | h <;> subst h <;> simp only [Gen.CoerceDispatch.toFloat32, Table.run, find] <;> simp [Branch.run, runGuards, Res.eval, Coerce.toFloat32] <;> rw [tail _ t64] <;> generalize Coerce.toFloat64 _ = r <;> cases r <;> rfl
  | nilptr => simp [goTypes] at hty
  | other => simp [goTypes] at hty; subst hty; simp only [Gen.CoerceDispatch.toFloat32, Table.run, find]; simp [Branch.run, runGuards, Res.eval, Coerce.toFloat32]; rw [tail _ t64]; generalize Coerce.toFloat64 _ = r; cases r <;> rfl

/-! ## the string helpers: trim, blank guard, library call with its literal arguments -/

theorem stringToInt64_table (f32 f64 : F → List Nat) (i : StrInfo) :
    runGuards (env f32 f64) (.str i) Gen.CoerceDispatch.stringToInt64.guards Gen.CoerceDispatch.stringToInt64.res =
      some (Val.int <$> Coerce.stringToInt64 i) := by
  simp [Gen.CoerceDispatch.stringToInt64, runGuards, Cond.eval, Res.eval, libCall, Coerce.stringToInt64, Functor.map, Except.map]
  cases i.blank <;> simp
  cases i.pInt <;> rfl

theorem stringToFloat_table (f32 f64 : F → List Nat) (i : StrInfo) :
    runGuards (env f32 f64) (.str i) stringToFloat_64.guards stringToFloat_64.res =
      some (Val.flt <$> Coerce.stringToFloat i.blank i.pFloat) ∧
    runGuards (env f32 f64) (.str i) stringToFloat_32.guards stringToFloat_32.res =
      some (Val.flt <$> Coerce.stringToFloat i.blank i.pFloat32) := by
  constructor <;>
    simp [stringToFloat_64, stringToFloat_32, runGuards, Cond.eval, Res.eval, libCall, Functor.map, Except.map] <;>
    cases i.blank <;> simp [Coerce.stringToFloat]

theorem stringToFloat64_table (f32 f64 : F → List Nat) (i : StrInfo) :
    runGuards (env f32 f64) (.str i) Gen.CoerceDispatch.stringToFloat64.guards Gen.CoerceDispatch.stringToFloat64.res =
      some (Val.flt <$> Coerce.stringToFloat64 i) := by
  simp [Gen.CoerceDispatch.stringToFloat64, runGuards, Res.eval, env, fns5, fStringToFloat64]

theorem bigIntToFloat64_table (f32 f64 : F → List Nat) (v : Int) :
    runGuards (env f32 f64) (.big v) Gen.CoerceDispatch.bigIntToFloat64.guards Gen.CoerceDispatch.bigIntToFloat64.res =
      some (Val.flt <$> finOrOverflow (bigToF64 v)) := by
  simp [Gen.CoerceDispatch.bigIntToFloat64, runGuards, Cond.eval, Res.eval, env, raws5, fBigToF64]

/-- The calls `stringToInt64` / `stringToFloat` / `stringToBigInt` make on the text, in order, with
    their arguments — in particular base 10 and 64 bits for `ParseInt`, base 10 then base 16 on
    `trimmed[2:]` behind the `0x`/`0X` prefix test for `SetString`. -/
theorem string_calls :
    stringToInt64_calls = ["strings.TrimSpace(s)", "strconv.ParseInt(trimmed, 10, 64)"] ∧
    stringToFloat_calls = ["strings.TrimSpace(s)", "strconv.ParseFloat(trimmed, bitSize)", "math.IsNaN(f)"] ∧
    stringToBigInt_calls = ["strings.TrimSpace(s)", "big.NewInt(0)", "n.SetString(trimmed, 10)",
      "strings.HasPrefix(trimmed, \"0x\")", "strings.HasPrefix(trimmed, \"0X\")", "n.SetString(trimmed[2:], 16)"] := by
  decide

/-! ## `To[T]`, the schemas' `Coerce` methods, the truthy words -/

def Tgt.goName : Tgt → String
  | .int t => IntTy.goName t
  | .f32 => "float32" | .f64 => "float64" | .bool => "bool" | .str => "string" | .big => "*big.Int"

/-- The helper the model's `to` uses for a target. -/
def Tgt.helper : Tgt → String
  | .int .i64 => "ToInt64"
  | .int t => "ToInteger[" ++ IntTy.goName t ++ "]"
  | .f32 => "ToFloat[float32]" | .f64 => "ToFloat64" | .bool => "ToBool" | .str => "ToString" | .big => "ToBigInt"

/-- **`coerce.To[T]` routes every target of the property to the helper the model's `to` uses.** -/
theorem To_routes (t : Tgt) : findRoute (Tgt.goName t) Gen.CoerceDispatch.To = some (Tgt.helper t) := by
  cases t with
  | int ty => cases ty <;> decide
  | _ => decide

/-- The integer schemas coerce through `ToInteger[T]` of their own element type (for `int64`:
    `ToInteger[int64]`, which is `ToInt64` by `c17_integer_i64_eq`), the float schemas through
    `ToFloat[float32]` / `ToFloat[float64]`. -/
theorem schema_routes :
    (∀ ty : IntTy, findRoute (IntTy.goName ty) integerCoerce = some ("coerce.ToInteger[" ++ IntTy.goName ty ++ "]")) ∧
    findRoute "float32" floatCoerce = some "coerce.ToFloat[float32]" ∧
    findRoute "default" floatCoerce = some "coerce.ToFloat[float64]" := by
  refine ⟨fun ty => by cases ty <;> decide, by decide, by decide⟩

/-! ## `engine.parsePrimitiveValue` and the `Parse` methods (round 4c, audit M5) -/

set_option maxRecDepth 100000

/-- **The coercion branch of `parsePrimitiveValue`, as it is in the source**: under `internals.Coerce` the helper is
    `coerce.To[T]` applied to the INPUT UNCHANGED (`.param 0`), success is `err == nil`, and the coerced value `v` is
    handed to `validateWithChecks(v, internals.Checks, validator, ctx)` — literally the call the `input.(T)` branch
    makes (first step of `parsePrimitiveValue_steps`): same checks, same validator, same context.  That is
    `CoerceSchema.parseValue`'s `| .ok v => Prim.checked … false v` — "validates the coerced value exactly as the
    non-coercing schema validates that value". -/
theorem parsePrimitiveValue_coerce_table :
    parsePrimitiveValue_coerce = { guard := "internals.Coerce", helper := "coerce.To[T]", args := [.param 0], bound := "v", success := "err == nil", validate := "validateWithChecks", validateArgs := ["v", "internals.Checks", "validator", "ctx"] } ∧
    parsePrimitiveValue_steps.head? = some ("v, ok := input.(T); ok",
      "return " ++ parsePrimitiveValue_coerce.validate ++ "(" ++ ", ".intercalate parsePrimitiveValue_coerce.validateArgs ++ ")") := by
  decide

/-- **The order of `parsePrimitiveValue`'s tests** is the order of `CoerceSchema.parseValue`'s branches: `input.(T)`,
    `input.(*T)` (nil pointer → `handleNilPointer`, else `validatePointer`), `input == nil`, the reflection
    dereference (nil → `handleNilPointer`, a `T` → `validateWithChecks`), THEN the coercion, then the invalid-type
    issue: coercion is attempted only after every exact type match failed, and nothing but the error follows it. -/
theorem parsePrimitiveValue_order :
    parsePrimitiveValue_steps.map Prod.fst =
      ["v, ok := input.(T); ok", "p, ok := input.(*T); ok", "input == nil", "", "nilPtr", "v, ok := deref.(T); ok",
       "internals.Coerce", "", "", ""] ∧
    parsePrimitiveValue_steps.lookup "p, ok := input.(*T); ok" =
      some "if p == nil { return handleNilPointer[T](internals, expectedType, ctx) }; return validatePointer(*p, p, internals.Checks, validator, ctx)" ∧
    parsePrimitiveValue_steps.lookup "v, ok := deref.(T); ok" = some "return validateWithChecks(v, internals.Checks, validator, ctx)" ∧
    parsePrimitiveValue_steps.lookup "nilPtr" = some "return handleNilPointer[T](internals, expectedType, ctx)" ∧
    (parsePrimitiveValue_steps.drop 7).map Prod.snd =
      ["raw := issues.CreateInvalidTypeIssue(expectedType, input)", "raw.Inst = internals",
       "return nil, issues.NewZodError([]core.ZodIssue{issues.FinalizeIssue(raw, ctx, nil)})"] := by
  decide

/-- The Go base type of a schema receiver for a target of the property. -/
def Tgt.recv : Tgt → String
  | .int _ => "ZodIntegerTyped" | .f32 | .f64 => "ZodFloatTyped" | .bool => "ZodBool" | .str => "ZodString" | .big => "ZodBigInt"

def findParse (recv : String) : List ParseRoute → Option ParseRoute
  | [] => none
  | r :: rs => if r.recv = recv then some r else findParse recv rs

/-- **Schema routing, every target**: the `Parse` method of the schema type serving target `t` calls
    `engine.ParsePrimitive` on its input unchanged with the validator `engine.ApplyChecks[T]`, where `T` is the
    target's Go type (the generic `T` of the integer / float schemas ranges over the element types) — and
    `coerce.To[T]` routes that `T` to the helper the model's `to` uses (`To_routes`).  Bool, String and BigInt
    schemas included (they have no `Coerce`-method switch; before round 4c their routing was tied by the run only). -/
theorem schema_parse_routes (t : Tgt) :
    ∃ r, findParse (Tgt.recv t) primitiveParse = some r ∧ r.entry = "engine.ParsePrimitive" ∧ r.input = .param 0 ∧
      r.validator = "engine.ApplyChecks[" ++ r.base ++ "]" ∧ (r.base = "T" ∨ r.base = Tgt.goName t) ∧
      (r.pre = "" ∨ t = .big) ∧
      findRoute (Tgt.goName t) Gen.CoerceDispatch.To = some (Tgt.helper t) := by
  cases t with
  | int ty => exact ⟨_, rfl, rfl, rfl, rfl, Or.inl rfl, Or.inl rfl, To_routes _⟩
  | f32 => exact ⟨_, rfl, rfl, rfl, rfl, Or.inl rfl, Or.inl rfl, To_routes _⟩
  | f64 => exact ⟨_, rfl, rfl, rfl, rfl, Or.inl rfl, Or.inl rfl, To_routes _⟩
  | bool => exact ⟨_, rfl, rfl, rfl, rfl, Or.inr rfl, Or.inl rfl, To_routes _⟩
  | str => exact ⟨_, rfl, rfl, rfl, rfl, Or.inr rfl, Or.inl rfl, To_routes _⟩
  | big => exact ⟨_, rfl, rfl, rfl, rfl, Or.inr rfl, Or.inr rfl, To_routes _⟩

/-- What `ZodBigInt.Parse` does before the engine call: only the nil-input guard (C03's business). -/
theorem bigint_parse_pre :
    (findParse "ZodBigInt" primitiveParse).map (·.pre) =
      some "if isNilBigIntInput(input) { r, sub, done, err := z.parseNilInput(ctx...) if done { return r, err } input = sub }" := by
  decide

/-- **The truthy table is the one in the source**: `stringToBool` trims, lowers, and its switch
    holds exactly the words of `boolTable`. -/
theorem bool_words (w : String) : boolTable w = boolWords.lookup w := by
  unfold boolTable
  split
  case h_12 h1 h2 h3 h4 h5 h6 h7 h8 h9 h10 h11 =>
    simp only [boolWords, List.lookup]
    rw [beq_eq_false_iff_ne.mpr h1, beq_eq_false_iff_ne.mpr h2, beq_eq_false_iff_ne.mpr h3, beq_eq_false_iff_ne.mpr h4,
      beq_eq_false_iff_ne.mpr h5, beq_eq_false_iff_ne.mpr h6, beq_eq_false_iff_ne.mpr h7, beq_eq_false_iff_ne.mpr h8,
      beq_eq_false_iff_ne.mpr h9, beq_eq_false_iff_ne.mpr h10, beq_eq_false_iff_ne.mpr h11]
  all_goals decide

theorem bool_pre : boolPre = ["s = strings.TrimSpace(s)", "switch strings.ToLower(s)"] := by decide

/-! ## what surrounds the switches (structure fingerprints)

The text of each function outside its type switch — the `reflectx.Deref` preamble and its
nil-pointer error, `ToInteger`'s tail (`checkIntegerTypeBounds(val, zero)` then `T(val)`),
`toFloat32`'s tail, the whole of `ToFloat[T]` and of the three string helpers — exactly as the
hand model was transcribed from. An edit there changes one of these obligations. -/

set_option maxRecDepth 100000 in
theorem frames :
    Gen.CoerceDispatch.ToBool_frame =
      "d, ok := reflectx.Deref(v); if !ok { return false, NewNilPointerError(\"bool\") }; «switch x := d.(type)»" ∧
    Gen.CoerceDispatch.ToString_frame =
      "d, ok := reflectx.Deref(v); if !ok { return \"\", NewNilPointerError(\"string\") }; «switch x := d.(type)»" ∧
    Gen.CoerceDispatch.ToInt64_frame =
      "d, ok := reflectx.Deref(v); if !ok { return 0, NewNilPointerError(\"int64\") }; «switch x := d.(type)»" ∧
    Gen.CoerceDispatch.ToFloat64_frame =
      "d, ok := reflectx.Deref(v); if !ok { return 0, NewNilPointerError(\"float64\") }; «switch x := d.(type)»" ∧
    Gen.CoerceDispatch.ToBigInt_frame =
      "d, ok := reflectx.Deref(v); if !ok { return nil, NewNilPointerError(\"*big.Int\") }; «switch x := d.(type)»" ∧
    Gen.CoerceDispatch.ToInteger_frame =
      "var zero T; d, ok := reflectx.Deref(v); if !ok { return zero, NewNilPointerError(\"integer type\") }; var val int64; var err error; «switch x := d.(type)»; if err := checkIntegerTypeBounds(val, zero); err != nil { return zero, err }; return T(val), nil" ∧
    Gen.CoerceDispatch.toFloat32_frame =
      "«switch x := d.(type)»; fval, err := ToFloat64(d); if err != nil { return 0, err }; if math.Abs(fval) > math.MaxFloat32 { return 0, NewOverflowError(fval, \"float32\") }; return float32(fval), nil" ∧
    Gen.CoerceDispatch.stringToInt64_text =
      "trimmed := strings.TrimSpace(s); if trimmed == \"\" { return 0, nil }; i, err := strconv.ParseInt(trimmed, 10, 64); if err != nil { return 0, NewFormatError(s, \"int64\") }; return i, nil" ∧
    Gen.CoerceDispatch.stringToFloat_text =
      "trimmed := strings.TrimSpace(s); if trimmed == \"\" { return 0, nil }; f, err := strconv.ParseFloat(trimmed, bitSize); if err != nil || math.IsNaN(f) { return 0, NewFormatError(s, fmt.Sprintf(\"float%d\", bitSize)) }; return f, nil" ∧
    Gen.CoerceDispatch.stringToBigInt_text =
      "trimmed := strings.TrimSpace(s); if trimmed == \"\" { return big.NewInt(0), nil }; n := new(big.Int); if _, ok := n.SetString(trimmed, 10); ok { return n, nil }; if strings.HasPrefix(trimmed, \"0x\") || strings.HasPrefix(trimmed, \"0X\") { if _, ok := n.SetString(trimmed[2:], 16); ok { return n, nil } }; return nil, NewFormatError(s, \"big integer\")" ∧
    Gen.CoerceDispatch.ToFloat_text =
      "var zero T; d, ok := reflectx.Deref(v); if !ok { return zero, NewNilPointerError(fmt.Sprintf(\"%T\", zero)) }; if result, ok := d.(T); ok { if math.IsNaN(float64(result)) { return zero, NewFormatError(\"NaN\", fmt.Sprintf(\"%T\", zero)) } return result, nil }; if _, ok := any(zero).(float32); ok { f, err := toFloat32(d) if err != nil { return zero, err } return T(f), nil }; fval, err := ToFloat64(d); if err != nil { return zero, err }; return T(fval), nil" := by
  refine ⟨rfl, rfl, rfl, rfl, rfl, rfl, rfl, rfl, rfl, rfl, rfl⟩

/-- Every function starts by dereferencing and answers a nil pointer with the nil-pointer error
    (`toFloat32` is entered after `ToFloat[T]` has done so). -/
theorem deref_first :
    Gen.CoerceDispatch.ToBool.deref = true ∧ Gen.CoerceDispatch.ToString.deref = true ∧ ToInt64.deref = true ∧
    ToFloat64.deref = true ∧ ToBigInt.deref = true ∧ ToInteger.deref = true ∧ Gen.CoerceDispatch.toFloat32.deref = false := by
  decide

theorem nil_table (e : Env) (t : Table) (ty : String) (next : Val → Option (R Val)) (h : t.deref = true) :
    t.run e ty .nilptr next = some (.error .nilPtr) := by
  simp [Table.run, h]

/-! ## coverage: every `case` type of every switch is accounted for -/

/-- Go types the model has a source for. -/
def modelled : List String :=
  ["int", "int8", "int16", "int32", "int64", "uint", "uint8", "uint16", "uint32", "uint64", "float32", "float64",
   "bool", "string", "big.Int", "complex64", "complex128"]

/-- Go types that occur in the switches and are declared outside the property's sources (notes/C17.md):
    `[]byte` and `time.Time` (→ string only), and `*big.Int` (reached only by a `**big.Int` input, since
    `reflectx.Deref` strips one pointer level). -/
def outside : List String := ["[]byte", "time.Time", "*big.Int"]

def allTables : List Table :=
  [Gen.CoerceDispatch.ToBool, Gen.CoerceDispatch.ToString, ToInt64, ToFloat64, ToBigInt, ToInteger, Gen.CoerceDispatch.toFloat32]

/-- **No clause of any switch names a type the model does not know about.** A new source type in
    `pkg/coerce` (say `json.Number`) makes this fail, naming the table. -/
theorem case_types_known :
    ∀ t ∈ allTables, ∀ b ∈ t.branches, ∀ ty ∈ b.types, ty ∈ modelled ∨ ty ∈ outside := by
  decide

/-- No clause was left untranslated (`.unknown`) in a guard or a result of a modelled type. -/
def Res.known : Res → Bool
  | .unknown _ => false
  | _ => true

theorem results_known : ∀ t ∈ allTables, ∀ b ∈ t.branches, Res.known b.res = true := by decide

/-! ## the exactness theorems, restated over the regenerated tables -/

/-- **C17 (int64), over the regenerated table**: whatever the `ToInt64` switch that is in the
    source now returns for a source is the integer that source denotes, in the int64 range. -/
theorem c17_int64_sound_table (sem : C17.StrSem) (f32 f64 : F → List Nat) (s : Src) (ty : String) (n : Int)
    (hty : ty ∈ goTypes s) (hwf : C17.wf s)
    (h : ToInt64.run (env f32 f64) ty s noNext = some (.ok (.int n))) :
    C17.denotesInt sem s n ∧ IntTy.i64.inRange n := by
  rw [ToInt64_table f32 f64 s ty hty] at h
  cases hr : Coerce.toInt64 s with
  | error e => rw [hr] at h; cases h
  | ok m =>
    rw [hr] at h
    have : m = n := by simpa [Functor.map, Except.map] using h
    subst this
    exact C17.c17_int64_sound sem s m hwf hr

/-- **C17 (every integer target), over the regenerated tables** (`ToInteger` switch, then the
    regenerated `checkIntegerTypeBounds` constants). -/
theorem c17_integer_sound_table (sem : C17.StrSem) (f32 f64 : F → List Nat) (t : IntTy) (s : Src) (ty : String) (n : Int)
    (hty : ty ∈ goTypes s) (hwf : C17.wf s)
    (h : ToInteger.run (env f32 f64) ty s (boundsNext t) = some (.ok (.int n))) :
    C17.denotesInt sem s n ∧ t.inRange n := by
  have hn : ∀ n, Coerce.toInt64 s = .ok n → n ≤ 2 ^ 64 - 1 := by
    intro m hm
    have := (C17.c17_int64_sound sem s m hwf hm).2
    simp [IntTy.inRange, IntTy.lo, IntTy.hi, IntTy.signed, IntTy.bits] at this
    omega
  rw [ToInteger_table f32 f64 t s ty hty hn] at h
  cases hr : Coerce.toInteger t s with
  | error e => rw [hr] at h; cases h
  | ok m =>
    rw [hr] at h
    have : m = n := by simpa [Functor.map, Except.map] using h
    subst this
    exact C17.c17_integer_sound sem t s m hwf hr

example : ToInt64.run (env (fun _ => []) (fun _ => [])) "float64" (.f64 (.fin 12 2)) noNext = some (.ok (.int 3)) ∧
    ToInt64.run (env (fun _ => []) (fun _ => [])) "float64" (.f64 (.fin (2 ^ 63) 0)) noNext = some (.error .overflow) ∧
    ToInteger.run (env (fun _ => []) (fun _ => [])) "int64" (.int .i64 300) (boundsNext .u8) = some (.error .overflow) ∧
    ToInteger.run (env (fun _ => []) (fun _ => [])) "int64" (.int .i64 255) (boundsNext .u8) = some (.ok (.int 255)) := by
  decide

end Gozod.C17D
