/-
  Gozod.Model.CoerceSchema — a coercing primitive schema (`gozod/coerce`: `Int8()` … `BigInt()`) as the
  engine runs it: `internal/engine.ParsePrimitive` → `parsePrimitiveValue` (parser.go:639-683) with
  `internals.Coerce` set, over the PLAIN schema's parse of C01 (`Gozod.Prim.parse`, imported — not
  re-stated here) and the checks of C16 (`implCmp`, `NumFloat.multipleOfNum`, `NumBig.xcmp` / `xmul`).

  Round 4c (audit M5): the third sentence of C17 ("a coercing schema then validates the coerced value
  exactly as the non-coercing schema validates that value") used to be `unfold parseCoerced; rw [h]` over a
  one-check toy (`Coerce.Chk`, whose `holds` answered `true` on every mismatched value).  Now:

  * `parseValue`   transcribes `parsePrimitiveValue` branch by branch (the order of its tests, which
                   helper validates under each: `validateWithChecks` / `validatePointer` /
                   `handleNilPointer` / `coerce.To[T]` then `validateWithChecks`), over a check CHAIN
                   (bounds, MultipleOf / Step, lengths, prefix, a user refinement);
  * the plain schema is `Prim.parse (env t) internals` — C01's model, C16's checks;
  * `Proofs/C17Schema.lean` proves `c17_schema_eq : parseValue … = (to … t x) ▹ Prim.parse …(.val ·)`;
  * `driver_c17` computes BOTH sides (`parseValue` for the coercing schema, `plainOnCoerced` for the plain
    schema on `coerce.To[T](input)`) and the harness observes both real schemas.
  A check applied to a value of the wrong kind is FALSE (Go: `validate.Gt("x", 1)` is false → issue), not
  `true` as the old totalisation had it.
  Core-only.
-/
import Gozod.Model.Coerce
import Gozod.Model.NumFloat
import Gozod.Model.NumBig
import Gozod.Model.Prim
namespace Gozod.CoerceSchema
open Gozod Gozod.Coerce

/-- Predicate ids of the check chain of a primitive schema (each a `Check.pred p false none`). -/
inductive CP where
  | cmp (op : CmpOp) (b : Num)      -- Gt/Gte/Lt/Lte (Min = Gte, Max = Lte: `C16D.methods_table`): int64 / float64 bound
  | mul (d : Num)                   -- MultipleOf / Step: int64 / float64 divisor
  | cmpBig (op : CmpOp) (b : Int)   -- BigInt schema: a `*big.Int` bound
  | mulBig (d : Int)                -- BigInt schema: MultipleOf(*big.Int)
  | minLen (n : Nat) | maxLen (n : Nat)
  | hasPrefix (p : List Nat)        -- String().StartsWith(p)
  | refine                          -- a user refinement (the harness's fixed menu, by value kind: `refineSpec`)
  deriving Repr, Inhabited

/-- The user refinement the harness attaches (`Refine(func(v T) bool)`), by kind of value:
    integers and big integers: even; floats: whole (`math.Trunc(x) == x`; NaN is not, ±Inf is);
    bool: true; string: non-empty. -/
def refineSpec : Val → Bool
  | .int v => v % 2 == 0
  | .flt (.fin a k) => isWhole a k
  | .flt .nan => false
  | .flt _ => true
  | .bool b => b
  | .str bs => !bs.isEmpty

def isPrefix : List Nat → List Nat → Bool
  | [], _ => true
  | _ :: _, [] => false
  | p :: ps, b :: bs => p == b && isPrefix ps bs

/-- The operand `validate.*` receives for a value of a schema with target `t`. -/
def operand (t : Tgt) : Val → Option Num
  | .int v => (match t with
    | .int ty => some (Num.ofInt ty v)
    | _ => none)
  | .flt x => (match t with
    | .f32 | .f64 => some (.f x)
    | _ => none)
  | _ => none

/-- What the check's `validate` call answers on the value (the CODE's algorithm: C16's model).
    A value of another kind than the check is made for fails the check. -/
def holds (t : Tgt) (p : CP) (v : Val) : Bool :=
  match p with
  | .cmp op b => (match operand t v with
    | some n => implCmp op n b
    | none => false)
  | .mul d => (match operand t v with
    | some n => NumFloat.multipleOfNum n d
    | none => false)
  | .cmpBig op b => (match t, v with
    | .big, .int n => NumBig.xcmp op (.big n) (.big b)
    | _, _ => false)
  | .mulBig d => (match t, v with
    | .big, .int n => NumBig.xmul (.big n) (.big d)
    | _, _ => false)
  | .minLen n => (match v with
    | .str bs => decide (bs.length ≥ n)
    | _ => false)
  | .maxLen n => (match v with
    | .str bs => decide (bs.length ≤ n)
    | _ => false)
  | .hasPrefix p => (match v with
    | .str bs => isPrefix p bs
    | _ => false)
  | .refine => refineSpec v

/-- The DOCUMENTED meaning of the check, written against the values (mathematical order, integer
    divisibility, byte length) — independent of `holds`; `none` = no exact specification (the float
    ε-rule of MultipleOf, which C16 bounds on both sides instead). -/
def specHolds (t : Tgt) (p : CP) (v : Val) : Option Bool :=
  match p, v with
  | .cmp op b, .int n => (match t with
    | .int _ => some (specCmp op (.i n) b)           -- the integer itself, whatever holds it
    | _ => some false)
  | .cmp op b, .flt x => (match t with
    | .f32 | .f64 => some (specCmp op (.f x) b)
    | _ => some false)
  | .mul d, .int n => (match t with
    | .int _ => (match d with
      | .i dv => some (specMultipleOfInt n dv)
      | .u dv => some (specMultipleOfInt n dv)
      | .f _ => none)                               -- an integer against a float divisor: the ε-rule
    | _ => some false)
  | .mul _, .flt _ => (match t with
    | .f32 | .f64 => none
    | _ => some false)
  | .cmpBig op b, .int n => (match t with
    | .big => some (op.holdsInt n b)
    | _ => some false)
  | .mulBig d, .int n => (match t with
    | .big => some (specMultipleOfInt n d)
    | _ => some false)
  | .minLen n, .str bs => some (decide (n ≤ bs.length))
  | .maxLen n, .str bs => some (decide (bs.length ≤ n))
  | .hasPrefix p, .str bs => some (p.length ≤ bs.length && bs.take p.length == p)
  | .refine, v => some (refineSpec v)
  | _, _ => some false

/-- Interpretation of the check ids for C01's engine model. No overwrites, no transforms here. -/
def env (t : Tgt) : Env CP Unit Unit Val :=
  { holds := holds t, apply := fun _ v => v, trans := fun _ v => v }

/-- A primitive schema: target type, check chain, built by the pointer constructor or not, coercing or not. -/
structure Schema where
  tgt : Tgt
  checks : List CP := []
  ptrSchema : Bool := false
  coerce : Bool := false
  deriving Repr, Inhabited

/-- `ZodTypeInternals` of the schema as C01's model reads it (`Coerce` is not among the fields `Prim` reads:
    the plain and the coercing schema have THE SAME internals up to that flag). -/
def Schema.internals (s : Schema) : Prim.Internals CP Unit Val :=
  { checks := s.checks.map (fun p => Check.pred p false none), ptrSchema := s.ptrSchema, ctorPtr := s.ptrSchema }

/-- The non-coercing twin. -/
def Schema.plain (s : Schema) : Schema := { s with coerce := false }

/-- How `parsePrimitiveValue`'s type tests classify the input for a schema with base type `T`
    (`ptr`: the value was handed in behind one pointer). -/
def classify (t : Tgt) (ptr : Bool) (x : Src) : Prim.Input Val :=
  match exact t x with
  | some v => if ptr then .ptr v else .val v
  | none => (match x with
    | .nilptr => .nil
    | _ => .foreign)

/-- **The plain schema** (`gozod.Int8()` …): C01's `ParsePrimitive` on the classified input. -/
def parsePlain (s : Schema) (ptr : Bool) (x : Src) : Prim.Out Val :=
  Prim.parse (env s.tgt) s.internals (classify s.tgt ptr x)

/-- **`parsePrimitiveValue`** (parser.go:639-683), branch by branch, behind `ParsePrimitive`'s nil handling:
      `input.(T)`            → `validateWithChecks(v, …)`
      `input.(*T)`, non-nil  → `validatePointer(*p, p, …)`
      nil / nil pointer      → `handleNilPointer` (modifiers; C03's business, here: `Prim.nilPath`)
      reflection deref to T  → `validateWithChecks` (the harness hands in at most one pointer level: `input.(*T)`)
      `internals.Coerce`     → `coerce.To[T](input)`; `err == nil` → `validateWithChecks(v, …)` — THE SAME call
                               as for `input.(T)`; an error falls through
      otherwise              → invalid-type issue. -/
def parseValue (fmt32 fmt64 : F → List Nat) (s : Schema) (ptr : Bool) (x : Src) : Prim.Out Val :=
  match exact s.tgt x with
  | some v =>
    if ptr then Prim.checked (env s.tgt) s.internals true v
    else Prim.checked (env s.tgt) s.internals false v
  | none =>
    match x with
    | .nilptr => Prim.nilPath (env s.tgt) s.internals
    | x =>
      if s.coerce then
        match to fmt32 fmt64 s.tgt x with
        | .ok v => Prim.checked (env s.tgt) s.internals false v
        | .error _ => .errType
      else .errType

/-- The plain schema applied to what `coerce.To[T]` made of the input (the right-hand side of the third
    sentence; what the harness computes as `gozod.X().…Parse(coerce.To[T](input))`): an error of the
    coercion is an error. -/
def plainOnCoerced (fmt32 fmt64 : F → List Nat) (s : Schema) (x : Src) : Prim.Out Val :=
  match to fmt32 fmt64 s.tgt x with
  | .ok v => Prim.parse (env s.tgt) s.plain.internals (.val v)
  | .error _ => .errType

end Gozod.CoerceSchema
