/-
  C01 — primitive schemas accept exactly the values satisfying type and every check.
-/
import Gozod.Model.Prim
import Gozod.Model.NumChecks
import Gozod.Proofs.C10
import Gozod.Proofs.C16
import Gozod.Proofs.FloatMulRound

namespace Gozod.C01
open Gozod Gozod.Prim

variable {P O T V : Type}

/-- The payload of a non-nil input of the schema's type (or a pointer to it). -/
def payload : Input V → Option V
  | .val v => some v
  | .ptr v => some v
  | _ => none

/-- A schema "built by chaining built-in checks": no nil-related modifier is set. -/
def plain (i : Internals P O V) : Prop :=
  i.optional = false ∧ i.nilable = false ∧ i.nonOptional = false ∧
  i.dv = none ∧ i.df = none ∧ i.pv = none ∧ i.pf = none

/-- **C01 (acceptance).** For every primitive schema, every check chain, every environment
    interpreting the checks, and every non-nil input: Parse succeeds iff the input has the
    schema's Go type (as a value or through a pointer) and no attached check fails on the value
    threaded through the overwrites before it. -/
theorem c01_accept_iff (env : Env P O T V) (i : Internals P O V) (x : Input V)
    (hx : x ≠ .nil ∧ x ≠ .nilPtr) :
    (∃ r, parse env i x = .okVal r) ↔
      ∃ v, payload x = some v ∧ ∀ k, k < i.checks.length → failsAt env i.checks k v = false := by
  cases x with
  | nil => exact absurd rfl hx.1
  | nilPtr => exact absurd rfl hx.2
  | foreign => simp [parse, payload]
  | val v =>
    simp only [parse, checked, payload, Option.some.injEq, exists_eq_left']
    rw [← C10.c10_runOn_ok_iff env i.ptrSchema false i.checks v]
    by_cases h : (runChecksOn env i.ptrSchema false i.checks v).issues = [] <;> simp [h]
  | ptr v =>
    simp only [parse, checked, payload, Option.some.injEq, exists_eq_left']
    rw [← C10.c10_runOn_ok_iff env i.ptrSchema true i.checks v]
    by_cases h : (runChecksOn env i.ptrSchema true i.checks v).issues = [] <;> simp [h]

/-- **C01 (result).** On success the returned value is the input threaded through the declared
    overwrites, and nothing else. -/
theorem c01_result (env : Env P O T V) (i : Internals P O V) (x : Input V) (r v : V)
    (hv : payload x = some v) (h : parse env i x = .okVal r) :
    r = seenAt env i.checks i.checks.length v := by
  cases x with
  | nil => simp [payload] at hv
  | nilPtr => simp [payload] at hv
  | foreign => simp [payload] at hv
  | val w =>
    simp only [payload, Option.some.injEq] at hv; subst hv
    simp only [parse, checked] at h
    have h2 := C10.c10_runOn_issues env i.ptrSchema false i.checks w
    by_cases hi : (runChecksOn env i.ptrSchema false i.checks w).issues = []
    · rw [if_pos hi] at h; rw [h2.1] at hi
      injection h with h; rw [← h, h2.2 hi, C10.c10_ok_value env i.checks w hi]
    · rw [if_neg hi] at h; cases h
  | ptr w =>
    simp only [payload, Option.some.injEq] at hv; subst hv
    simp only [parse, checked] at h
    have h2 := C10.c10_runOn_issues env i.ptrSchema true i.checks w
    by_cases hi : (runChecksOn env i.ptrSchema true i.checks w).issues = []
    · rw [if_pos hi] at h; rw [h2.1] at hi
      injection h with h; rw [← h, h2.2 hi, C10.c10_ok_value env i.checks w hi]
    · rw [if_neg hi] at h; cases h

/-- **C01 (foreign kinds).** A value that is neither of the schema's type nor a pointer to it is
    never accepted (no coercion unless asked for). -/
theorem c01_foreign_rejected (env : Env P O T V) (i : Internals P O V) :
    parse env i .foreign = .errType := rfl

/-! ### Numeric checks mean the mathematical relation (bridge to C16) -/

open FloatMul in
/-- `Float.Int` (`val == math.Trunc(val)`) holds exactly when the value has no fractional part. -/
theorem isIntF_eq_spec (x : F) : isIntF x = specIsIntF x := by
  cases x with
  | fin a k =>
    simp only [isIntF, specIsIntF, F.truncInt]
    by_cases h : (2:Int)^k ∣ a
    · simp [h, Int.tdiv_mul_cancel h]
    · have : ¬ (a.tdiv (2^k) * 2^k = a) := fun e => h ⟨a.tdiv (2^k), by rw [Int.mul_comm]; exact e.symm⟩
      simp [h, this]
  | _ => rfl

open NumChecks in
/-- Every numeric check of the model holds exactly when its documented (mathematical) meaning
    holds, for well-formed operands: comparisons by `c16_cmp`, integer multiples by
    `multipleOfInts_exact`. -/
theorem c01_num_holds_spec (p : NPred) (v : Num) (hv : C16.Num.wf v)
    (hp : match p with
          | .cmp _ b => C16.Num.wf b
          | .mult d => C16.Num.wf d ∧ C16.isInt d = true ∧ C16.isInt v = true
          | .finite => True
          | .safe => True
          | .multF d => FloatMul.F.rep d ∧ ∀ x, v = .f x → FloatMul.F.rep x   -- operands are binary64 values (`ofBits_rep`)
          | .isInt => True) :
    holds p v = specHolds p v := by
  cases p with
  | cmp op b => exact C16.c16_cmp op v b hv hp
  | mult d =>
    obtain ⟨hd, hid, hiv⟩ := hp
    have := C16.multipleOfInts_exact v d hv hd hiv hid
    simp only [holds, specHolds, this]
    cases v <;> cases d <;> simp_all [C16.isInt, C16.ival]
  | finite => rfl
  | safe =>
    have wlo : C16.Num.wf (safeBound v (-(2 ^ 53 - 1))) := by
      cases v <;> simp [safeBound, C16.Num.wf, IntTy.inRange, IntTy.lo, IntTy.hi, IntTy.signed, IntTy.bits]
    have whi : C16.Num.wf (safeBound v (2 ^ 53 - 1)) := by
      cases v <;> simp [safeBound, C16.Num.wf, IntTy.inRange, IntTy.lo, IntTy.hi, IntTy.signed, IntTy.bits]
    simp only [holds, specHolds, C16.c16_cmp _ v _ hv wlo, C16.c16_cmp _ v _ hv whi]
  | multF d =>
    cases v with
    | f x => simp only [holds, specHolds]; exact FloatMul.implMultF_eq_specMultF x d (hp.2 x rfl) hp.1
    | _ => rfl
  | isInt =>
    cases v with
    | f x => simp only [holds, specHolds]; exact isIntF_eq_spec x
    | _ => rfl

/-! ### Float checks: the check holds iff the documented relation holds, for every binary64 input
    (finite, NaN, ±Inf, −0 — `F.ofBits` decodes every bit pattern) -/

open NumChecks FloatMul in
/-- **Float `MultipleOf` / `Step`.** For every pair of binary64 bit patterns the check evaluates to the
    documented ε-relation on the exact remainder and the exact difference: the rounded subtraction in
    the code never changes the verdict. -/
theorem c01_float_multipleOf (vb db : Nat) :
    holds (.multF (F.ofBits db)) (.f (F.ofBits vb)) = specMultF (F.ofBits vb) (F.ofBits db) := by
  simp only [holds]
  exact implMultF_eq_specMultF _ _ (ofBits_rep vb) (ofBits_rep db)

open NumChecks in
/-- **Float comparisons** (`Gt/Gte/Lt/Lte/Min/Max/Positive/Negative/NonNegative/NonPositive`): the
    mathematical order on the extended reals, false when a NaN is involved — every input, every bound. -/
theorem c01_float_cmp (op : CmpOp) (x b : F) :
    holds (.cmp op (.f b)) (.f x) = (match F.cmp x b with | none => false | some o => op.ofOrdering o) := by
  simp only [holds, implCmp, cmpNum]
  cases F.cmp x b <;> rfl

open NumChecks in
/-- A NaN input fails every comparison check, whatever the bound. -/
theorem c01_float_nan_rejected (op : CmpOp) (b : Num) : holds (.cmp op b) (.f .nan) = false := by
  cases b <;> simp [holds, implCmp, cmpNum, F.cmp, cmpIntFloat]

open NumChecks in
/-- **`Finite`** holds exactly on the finite values. -/
theorem c01_float_finite_iff (x : F) : holds .finite (.f x) = true ↔ ∃ a k, x = .fin a k := by
  cases x <;> simp [holds, isFinite]

open NumChecks in
/-- **`Safe`** on a float: −(2^53−1) ≤ x ≤ 2^53−1 in the mathematical order; NaN and ±Inf fail. -/
theorem c01_float_safe_iff (x : F) :
    holds .safe (.f x) = true ↔
      F.cmp x (F.ofInt (-(2 ^ 53 - 1))) ∈ [some .gt, some .eq] ∧ F.cmp x (F.ofInt (2 ^ 53 - 1)) ∈ [some .lt, some .eq] := by
  simp only [holds, safeBound, implCmp, cmpNum, Bool.and_eq_true]
  cases h1 : F.cmp x (F.ofInt (-(2 ^ 53 - 1))) with
  | none => simp
  | some o1 =>
    cases h2 : F.cmp x (F.ofInt (2 ^ 53 - 1)) with
    | none => simp
    | some o2 => cases o1 <;> cases o2 <;> simp [CmpOp.ofOrdering]

open NumChecks FloatMul in
/-- **`Int`** on a float holds exactly when the value has no fractional part. -/
theorem c01_float_int (x : F) : holds .isInt (.f x) = specIsIntF x := by
  simp only [holds]; exact isIntF_eq_spec x

example : NumChecks.holds (.multF (F.ofBits 0x3FB999999999999A)) (.f (F.ofBits 0x3FD3333333333333)) = true := by
  decide +kernel   -- 0.3 is a multiple of 0.1 under the ε-rule (math.Mod gives 0.09999999999999998)

/-! Enum / Literal membership (Go's `==` on interface values): Model/GoEq.lean, Proofs/C01Enum.lean. -/

end Gozod.C01
