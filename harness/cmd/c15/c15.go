package main

// C15 — Parse neither writes to caller data nor lets results alias schema-held state.
//
//  ptr      every schema type (base, .Optional(), .Nilable(), pointer constructor) × every probe value that the
//           schema accepts, passed as a fresh pointer through Parse and StrictParse: the input graph is digested
//           (contents + addresses) before and after, and the result is compared with the pointer that went in.
//  dflt     every schema type with a Default / Prefault whose value nests maps, slices and pointers: Parse(nil), deep
//           in-place mutation of everything reachable from the result, Parse(nil) again on the same schema and on
//           a schema derived from it, mutate again, Parse a third time: all results must look like the first one.
//  reparse  Parse(valid input), deep mutation of the result, Parse(a fresh copy of the input) again.
//
// The op line is the abstract case (entry point / overwrite present / nesting depth of the default); the Lean
// store model (parsePtr / parseNil / mutate) predicts the verdicts.

import (
	"fmt"
	"os"
	"reflect"
	"strings"

	"verifharness/hx"
	"verifharness/storex"
)

func main() {
	if err := run(hx.ParseFlags()); err != nil {
		fmt.Fprintln(os.Stderr, "harness error:", err)
		os.Exit(3)
	}
}

func typ(s any) string {
	t := fmt.Sprintf("%T", s)
	if i := strings.Index(t, "["); i >= 0 {
		t = t[:i]
	}
	if i := strings.LastIndex(t, "."); i >= 0 {
		t = t[i+1:]
	}
	return t
}

// mutate changes, in place, everything reachable from v through maps, slices and pointers.
func mutate(v reflect.Value, d int) {
	if !v.IsValid() || d > 8 {
		return
	}
	switch v.Kind() {
	case reflect.Interface:
		if !v.IsNil() {
			mutate(v.Elem(), d+1)
		}
	case reflect.Ptr:
		if v.IsNil() {
			return
		}
		mutate(v.Elem(), d+1)
		setScalar(v.Elem())
	case reflect.Map:
		if v.IsNil() {
			return
		}
		for _, k := range v.MapKeys() {
			e := v.MapIndex(k)
			mutate(e, d+1)
			if nv, ok := scalarFor(e); ok {
				func() { defer func() { _ = recover() }(); v.SetMapIndex(k, nv) }()
			}
		}
		if v.Type().Key().Kind() == reflect.String {
			func() {
				defer func() { _ = recover() }()
				nk := reflect.New(v.Type().Key()).Elem()
				nk.SetString("zzMUT")
				v.SetMapIndex(nk, sentinel(v.Type().Elem()))
			}()
		}
	case reflect.Slice:
		for i := 0; i < v.Len(); i++ {
			mutate(v.Index(i), d+1)
			setScalar(v.Index(i))
		}
	case reflect.Struct:
		for i := 0; i < v.NumField(); i++ {
			if v.Field(i).CanSet() {
				mutate(v.Field(i), d+1)
				setScalar(v.Field(i))
			}
		}
	}
}

func sentinel(t reflect.Type) reflect.Value {
	v := reflect.New(t).Elem()
	switch t.Kind() {
	case reflect.String:
		v.SetString("MUT")
	case reflect.Int, reflect.Int8, reflect.Int16, reflect.Int32, reflect.Int64:
		v.SetInt(99)
	case reflect.Uint, reflect.Uint8, reflect.Uint16, reflect.Uint32, reflect.Uint64:
		v.SetUint(99)
	case reflect.Float32, reflect.Float64:
		v.SetFloat(99.5)
	case reflect.Interface:
		if t.NumMethod() == 0 {
			v.Set(reflect.ValueOf("MUT"))
		}
	}
	return v
}

// scalarFor: replacement for a map entry holding a scalar (entries holding containers are mutated in place instead)
func scalarFor(e reflect.Value) (reflect.Value, bool) {
	x := e
	for x.Kind() == reflect.Interface && !x.IsNil() {
		x = x.Elem()
	}
	switch x.Kind() {
	case reflect.String, reflect.Int, reflect.Int8, reflect.Int16, reflect.Int32, reflect.Int64, reflect.Uint, reflect.Uint8,
		reflect.Uint16, reflect.Uint32, reflect.Uint64, reflect.Float32, reflect.Float64, reflect.Bool:
		return sentinel(e.Type()), true
	}
	return reflect.Value{}, false
}

func setScalar(v reflect.Value) {
	if !v.CanSet() {
		return
	}
	if nv, ok := scalarFor(v); ok {
		v.Set(nv)
	}
}

// nesting is the depth of reference nesting (map/slice/pointer levels) of a value.
func nesting(v reflect.Value, d int) int {
	if !v.IsValid() || d > 8 {
		return 0
	}
	best := 0
	up := func(n int) {
		if n > best {
			best = n
		}
	}
	switch v.Kind() {
	case reflect.Interface:
		if !v.IsNil() {
			return nesting(v.Elem(), d)
		}
	case reflect.Ptr:
		if !v.IsNil() {
			up(1 + nesting(v.Elem(), d+1))
		}
	case reflect.Map:
		if !v.IsNil() {
			up(1)
			it := v.MapRange()
			for it.Next() {
				up(1 + nesting(it.Value(), d+1))
			}
		}
	case reflect.Slice:
		if !v.IsNil() {
			up(1)
			for i := 0; i < v.Len(); i++ {
				up(1 + nesting(v.Index(i), d+1))
			}
		}
	case reflect.Struct:
		for i := 0; i < v.NumField(); i++ {
			up(nesting(v.Field(i), d+1))
		}
	}
	return best
}

func parseVia(s any, entry string, in any) (out any, err error, ok bool) {
	if entry == "parse" {
		o, e, p := storex.ParseAny(s, in)
		return o, e, p == ""
	}
	m := reflect.ValueOf(s).MethodByName("StrictParse")
	if !m.IsValid() || in == nil || !reflect.TypeOf(in).AssignableTo(m.Type().In(0)) {
		return nil, nil, false
	}
	var r []reflect.Value
	if hx.Safely(func() { r = m.Call([]reflect.Value{reflect.ValueOf(in)}) }) != "" {
		return nil, nil, false
	}
	if !r[1].IsNil() {
		return nil, r[1].Interface().(error), true
	}
	return r[0].Interface(), nil, true
}

func hasOverwrite(s storex.Schema) bool {
	for _, c := range s.Internals().Checks {
		if z := c.Zod(); z != nil && z.Def != nil && z.Def.Check == "overwrite" {
			return true
		}
	}
	return s.Internals().Transform != nil
}

func run(c hx.Config) error {
	o, err := hx.NewOut(c.OutDir)
	if err != nil {
		return err
	}
	for _, b := range storex.Bases() {
		base := b.Mk().(storex.Schema)
		variants := []struct {
			name string
			s    storex.Schema
		}{{"base", base}}
		for _, m := range []string{"Optional", "Nilable", "Nullish"} {
			if r, ok, _ := storex.Call(base, m, 0); ok {
				variants = append(variants, struct {
					name string
					s    storex.Schema
				}{m, r})
			}
		}
		// an addCheck-class derivation too (strict entry with checks takes another path)
		for _, m := range []string{"Min", "Gte", "Refine", "RefineAny", "NonEmpty"} {
			if r, ok, _ := storex.Call(base, m, 0); ok {
				variants = append(variants, struct {
					name string
					s    storex.Schema
				}{m, r})
				if r2, ok2, _ := storex.Call(r, "Optional", 0); ok2 {
					variants = append(variants, struct {
						name string
						s    storex.Schema
					}{m + ".Optional", r2})
				}
				break
			}
		}
		// ---- ptr ----
		for _, v := range variants {
			in := v.s.Internals()
			ptrish := in.Optional || in.Nilable || strings.HasSuffix(b.Name, "Ptr")
			ow := 0
			if hasOverwrite(v.s) {
				ow = 1
			}
			for pi := range storex.Probes() {
				val := storex.Probes()[pi]
				if val == nil || reflect.TypeOf(val).Kind() == reflect.Ptr {
					continue
				}
				if _, e, p := storex.ParseAny(v.s, val); e != nil || p != "" {
					continue
				}
				for _, entry := range []string{"parse", "strict"} {
					pp := reflect.New(reflect.TypeOf(val))
					pp.Elem().Set(reflect.ValueOf(storex.Probes()[pi]))
					inp := pp.Interface()
					before := storex.DeepHash(inp)
					out, e, ok := parseVia(v.s, entry, inp)
					if !ok || e != nil {
						continue
					}
					u := "u"
					if storex.DeepHash(inp) != before {
						u = "W"
					}
					same := "-"
					if ptrish && out != nil && reflect.TypeOf(out) == reflect.TypeOf(inp) {
						same = "d"
						if reflect.ValueOf(out).Pointer() == pp.Pointer() {
							same = "s"
						}
					}
					want := "s"
					if same == "-" {
						want = "-"
					}
					o.Emit(fmt.Sprintf("c15 ptr %s %d %s #%s.%s probe=%d %s", entry, ow, want, b.Name, v.name, pi, typ(v.s)), u+" "+same)
					o.Count("ptr:" + entry)
				}
			}
		}
		// ---- reparse ----
		for pi := range storex.Probes() {
			r1, e, p := storex.ParseAny(base, storex.Probes()[pi])
			if e != nil || p != "" || r1 == nil {
				continue
			}
			c1 := storex.Canon(r1)
			hold := reflect.New(reflect.TypeOf(r1))
			hold.Elem().Set(reflect.ValueOf(r1))
			mutate(hold.Elem(), 0)
			r2, _, _ := storex.ParseAny(base, storex.Probes()[pi])
			obs := "same"
			if storex.Canon(r2) != c1 {
				obs = "CHANGED"
			}
			o.Emit(fmt.Sprintf("c15 reparse #%s probe=%d %s", b.Name, pi, typ(base)), obs)
			o.Count("reparse")
		}
		// ---- dflt ----
		for _, m := range []string{"Default", "Prefault"} {
			for variant := 0; variant < 3; variant++ {
				s, ok, _ := storex.Call(base, m, variant)
				if !ok {
					continue
				}
				var dv any
				if m == "Default" {
					dv = s.Internals().DefaultValue
				} else {
					dv = s.Internals().PrefaultValue
				}
				depth := nesting(reflect.ValueOf(dv), 0)
				r1, e, p := storex.ParseAny(s, nil)
				if e != nil || p != "" || r1 == nil {
					o.Count("dflt:skipped-not-accepted")
					continue
				}
				c1 := storex.Canon(r1)
				var verd []string
				cmp := func(r any) {
					if storex.Canon(r) == c1 {
						verd = append(verd, "same")
					} else {
						verd = append(verd, "CHANGED")
					}
				}
				mut := func(r any) {
					if r == nil {
						return
					}
					hold := reflect.New(reflect.TypeOf(r))
					hold.Elem().Set(reflect.ValueOf(r))
					mutate(hold.Elem(), 0)
				}
				mut(r1)
				r2, _, _ := storex.ParseAny(s, nil)
				cmp(r2)
				sib := storex.Schema(s)
				if d, ok2, _ := storex.Call(s, "Describe", 0); ok2 {
					sib = d
				}
				r3, _, _ := storex.ParseAny(sib, nil)
				cmp(r3)
				mut(r2)
				mut(r3)
				r4, _, _ := storex.ParseAny(s, nil)
				cmp(r4)
				o.Emit(fmt.Sprintf("c15 dflt %s %d #%s.%s/%d %s", strings.ToLower(m), depth, b.Name, m, variant, typ(s)), strings.Join(verd, ","))
				o.Count(fmt.Sprintf("dflt:%s:depth%d", m, depth))
			}
		}
	}
	return o.Close(map[string]any{"bases": len(storex.Bases())})
}
