/-
  Gozod.Model.Prim — `ParsePrimitive` and `ParsePrimitiveStrict` (internal/engine/parser.go:23-105,
  644-853) for a primitive schema whose checks are interpreted by an `Env`, with the modifier
  fields carrying concrete values.

  Inputs are classified the way `parsePrimitiveValue` classifies them:
    nil            untyped nil
    val v          a value of the schema's base Go type T
    ptr v          a non-nil *T
    nilPtr         a nil *T
    foreign        anything else (another Go kind, a pointer to another type, **T): no coercion
-/
import Gozod.Model.Checks
namespace Gozod.Prim
open Gozod

inductive Input (V : Type) where
  | nil | val (v : V) | ptr (v : V) | nilPtr | foreign
  deriving Repr

structure Internals (P O V : Type) where
  checks : List (Check P O) := []
  ptrSchema : Bool := false              -- built by the pointer constructor / Optional / Nilable: R = *T
  optional : Bool := false
  nilable : Bool := false
  nonOptional : Bool := false
  dv : Option V := none                  -- DefaultValue
  df : Option V := none                  -- DefaultFunc (its result)
  pv : Option V := none
  pf : Option V := none
  admitsNil : Bool := false              -- type code `unknown`
  ctorPtr : Bool := false                -- the checks were attached to a schema built by the pointer constructor
                                         -- (their wrappers' type parameter is *T): decides how they treat a nil payload
  isRefine : P → Bool := fun _ => false  -- which predicates are user refinements (`custom` checks)

/-- Result of a parse entry point, as the property observes it. -/
inductive Out (V : Type) where
  | okVal (v : V)                        -- a value (delivered as T or *T according to the schema)
  | okNil                                -- nil
  | errChecks (positions : List Nat)     -- issues of the schema's own checks
  | errNonOptional
  | errType
  deriving Repr, DecidableEq

section
variable {P O T V : Type}

/-- `filterNilChecks` + `ApplyChecks[any](nil, …)` (modifiers.go:80-85, 109-127): on the nil value only
    overwrite and refine/custom checks run. A refine wrapper accepts nil only when it was attached to a
    pointer-typed schema, and no earlier overwrite has turned the payload into a typed nil pointer
    (types/string.go:414-440, 553-573). Returns the positions of the refinements that report an issue. -/
def nilCheckIssues (i : Internals P O V) : Nat → List (Check P O) → Bool → List Nat
  | _, [], _ => []
  | k, .overwrite _ :: cs, typedNil => nilCheckIssues i (k + 1) cs (typedNil || i.ctorPtr)
  | k, .pred p abort _ :: cs, typedNil =>
    if i.isRefine p then
      (if !i.ctorPtr || typedNil then (if abort then [k] else k :: nilCheckIssues i (k + 1) cs typedNil)
       else nilCheckIssues i (k + 1) cs typedNil)
    else nilCheckIssues i (k + 1) cs typedNil

/-- Before /repo 7db47f1 an accepted nil (Optional / Nilable) was run through the refinements and custom checks too. -/
def legacyNilVerdict (i : Internals P O V) : Out V :=
  match nilCheckIssues i 0 i.checks false with
  | [] => .okNil
  | ps => .errChecks ps

def checked (env : Env P O T V) (i : Internals P O V) (ptrIn : Bool) (v : V) : Out V :=
  let r := runChecksOn env i.ptrSchema ptrIn i.checks v
  if r.issues = [] then .okVal r.val else .errChecks r.issues

/-- `overwriteChecks` (modifiers.go:131-143, /repo 4f7c1d7): the value-rewriting checks, in order. -/
def overwritesOnly : List (Check P O) → List (Check P O)
  | [] => []
  | .overwrite o :: cs => .overwrite o :: overwritesOnly cs
  | .pred _ _ _ :: cs => overwritesOnly cs

/-- What `processModifiersCore` does with a default since /repo 4f7c1d7: a default bypasses validation, only the
    overwrite checks are handed to `ApplyChecks`. -/
def onDefault (env : Env P O T V) (i : Internals P O V) (d : V) : Out V :=
  checked env { i with checks := overwritesOnly i.checks } false d

/-- Before 4f7c1d7: ALL checks ran on the default as soon as one of them was an overwrite. -/
def legacyOnDefault (env : Env P O T V) (i : Internals P O V) (d : V) : Out V :=
  checked env i false d

/-- `processModifiersCore` on a nil input followed by the `handled` / prefault continuation of
    `ParsePrimitive` (no engine-level transform on primitives). -/
def nilPath (env : Env P O T V) (i : Internals P O V) : Out V :=
  match i.dv, i.df with
  | some d, _ => if hasOverwrite i.checks then onDefault env i d else .okVal d
  | none, some d => if hasOverwrite i.checks then onDefault env i d else .okVal d
  | none, none =>
    match i.pv, i.pf with
    | some p, _ => checked env i false p
    | none, some p => checked env i false p
    | none, none =>
      if i.nonOptional then .errNonOptional
      else if i.optional || i.nilable then .okNil   -- /repo 7db47f1: an accepted nil only meets the overwrite checks
                                                    -- (no issues from those); before: `legacyNilVerdict`
      else if i.admitsNil then .okNil
      else .errType

/-- `ParsePrimitive`. -/
def parse (env : Env P O T V) (i : Internals P O V) : Input V → Out V
  | .nil => nilPath env i
  | .nilPtr => nilPath env i
  | .val v => checked env i false v
  | .ptr v => checked env i true v
  | .foreign => .errType

/-- The fast-path test of `ParsePrimitiveStrict` (parser.go:87-93): PrefaultFunc is not consulted. -/
def strictFast (i : Internals P O V) : Bool :=
  i.checks.isEmpty && i.dv.isNone && i.pv.isNone && !i.optional && !i.nilable && !i.nonOptional && i.df.isNone

/-- `ParsePrimitiveStrict` on an input of the schema's static type R (`val` when R = T, `ptr` /
    `nilPtr` when R = *T). With checks the value is extracted, validated once and re-wrapped. -/
def strictParse (env : Env P O T V) (i : Internals P O V) : Input V → Out V
  | .nil => nilPath env i
  | .nilPtr => nilPath env i
  | .val v => if strictFast i then .okVal v
              else if i.checks.isEmpty then .okVal v            -- validateAndReturn: nothing to do
              else checked env i false v                        -- parsePrimitiveStrictWithChecks
  | .ptr v => if strictFast i then .okVal v
              else if i.checks.isEmpty then .okVal v
              else checked env i false v                        -- validator runs on the extracted value: no pointer pass
  | .foreign => .errType

/-! ## Histories of derivations and parses (C09, round 2)

  Schemas live in a heap. Every cell holds the schema's *configuration* (`Internals`, the fields the
  public API reads and writes) and whatever else the implementation keeps per schema (`H`: nothing in
  the pinned code; a memoised fast-path flag would live here). The strict entry points consult
  `Impl.fast cfg hid` where the pinned code evaluates the fast-path condition in line.  -/

/-- `ParsePrimitiveStrict` with the answer of its fast-path test passed in. -/
def strictParseWith (env : Env P O T V) (i : Internals P O V) (fast : Bool) : Input V → Out V
  | .nil => nilPath env i
  | .nilPtr => nilPath env i
  | .val v => if fast then .okVal v
              else if i.checks.isEmpty then .okVal v
              else checked env i false v
  | .ptr v => if fast then .okVal v
              else if i.checks.isEmpty then .okVal v
              else checked env i false v
  | .foreign => .errType

theorem strictParse_eq_with (env : Env P O T V) (i : Internals P O V) (x : Input V) :
    strictParse env i x = strictParseWith env i (strictFast i) x := by
  cases x <;> rfl

/-- The six entry points. -/
inductive EP where
  | parse | strict | parseAny | mustParse | mustStrict | mustParseAny
  deriving Repr, DecidableEq

def EP.isStrict : EP → Bool
  | .strict => true
  | .mustStrict => true
  | _ => false

/-- How a type's `CloneFrom(src)` rewrites the receiver: `keepChecks` = `*z.internals = *src.internals;
    z.internals.Checks = orig` (integer, float, bool, enum, time, slice, object, …); `copyAll` = the
    receiver takes the source's internals, checks included (string: a `Clone()` of them; union, map,
    record, …: the very same pointer — equal configurations either way). -/
inductive CloneKind where
  | keepChecks | copyAll
  deriving Repr, DecidableEq

/-- The receiver's configuration after `CloneFrom`: a function of the two operands' configurations. -/
def cloneCfg (k : CloneKind) (dst src : Internals P O V) : Internals P O V :=
  match k with
  | .copyAll => src
  | .keepChecks => { src with checks := dst.checks, ctorPtr := dst.ctorPtr, isRefine := dst.isRefine }

structure Cell (P O V H : Type) where
  cfg : Internals P O V
  hid : H

/-- What an implementation may do with per-schema state besides the configuration. -/
structure Impl (P O V H : Type) where
  /-- the answer the strict entry points use for "nothing to do for a non-nil input" -/
  fast : Internals P O V → H → Bool
  /-- hidden state of a schema produced by a constructor or by `Clone()` + setters -/
  init : Internals P O V → H
  /-- hidden state after a call of an entry point -/
  onRun : EP → Internals P O V → H → Input V → H
  /-- hidden state of the receiver after `CloneFrom` (receiver, source) -/
  onClone : CloneKind → Cell P O V H → Cell P O V H → H

/-- The pinned code: no per-schema state besides the configuration; the fast-path condition is
    recomputed from the configuration on every call. -/
def pinned : Impl P O V Unit where
  fast := fun c _ => strictFast c
  init := fun _ => ()
  onRun := fun _ _ _ _ => ()
  onClone := fun _ _ _ => ()

/-- One step of a history. -/
inductive Op (P O V : Type) where
  | mk (cfg : Internals P O V)                                   -- a constructor call
  | chain (j : Nat) (f : Internals P O V → Internals P O V)      -- any copy-on-write method of schema j
  | cloneFrom (k : CloneKind) (dst src : Nat)                    -- schema dst .CloneFrom(schema src)
  | run (ep : EP) (j : Nat) (x : Input V)                        -- an entry point of schema j on x

def runEP {H : Type} (m : Impl P O V H) (env : Env P O T V) (ep : EP) (c : Cell P O V H) (x : Input V) : Out V :=
  if ep.isStrict then strictParseWith env c.cfg (m.fast c.cfg c.hid) x else parse env c.cfg x

/-- `CloneFrom` is a no-op unless both operands have the same Go type (`source.(*ZodX[T, R])`). -/
def sameGoType (a b : Internals P O V) : Bool := a.ptrSchema == b.ptrSchema

def step {H : Type} (m : Impl P O V H) (env : Env P O T V) (h : List (Cell P O V H)) :
    Op P O V → List (Cell P O V H) × Option (Out V)
  | .mk c => (h ++ [⟨c, m.init c⟩], none)
  | .chain j f =>
    match h[j]? with
    | some c => (h ++ [⟨f c.cfg, m.init (f c.cfg)⟩], none)
    | none => (h, none)
  | .cloneFrom k d s =>
    match h[d]?, h[s]? with
    | some cd, some cs =>
      if sameGoType cd.cfg cs.cfg then (h.set d ⟨cloneCfg k cd.cfg cs.cfg, m.onClone k cd cs⟩, none)
      else (h, none)
    | _, _ => (h, none)
  | .run ep j x =>
    match h[j]? with
    | some c => (h.set j ⟨c.cfg, m.onRun ep c.cfg c.hid x⟩, some (runEP m env ep c x))
    | none => (h, none)

/-- Run a history; the outputs of its `run` steps in order. -/
def exec {H : Type} (m : Impl P O V H) (env : Env P O T V) :
    List (Cell P O V H) → List (Op P O V) → List (Cell P O V H) × List (Out V)
  | h, [] => (h, [])
  | h, op :: ops =>
    let (h', o) := step m env h op
    let (h'', os) := exec m env h' ops
    (h'', match o with | some r => r :: os | none => os)

/-- The reference: configurations only; parses do not touch the heap and every entry point answers
    what `Parse` answers on the schema's current configuration. -/
def cfgStep (h : List (Internals P O V)) : Op P O V → List (Internals P O V)
  | .mk c => h ++ [c]
  | .chain j f =>
    match h[j]? with
    | some c => h ++ [f c]
    | none => h
  | .cloneFrom k d s =>
    match h[d]?, h[s]? with
    | some cd, some cs => if sameGoType cd cs then h.set d (cloneCfg k cd cs) else h
    | _, _ => h
  | .run _ _ _ => h

def specOut (env : Env P O T V) (h : List (Internals P O V)) : Op P O V → Option (Out V)
  | .run _ j x => (h[j]?).map fun c => parse env c x
  | _ => none

def execSpec (env : Env P O T V) : List (Internals P O V) → List (Op P O V) → List (Internals P O V) × List (Out V)
  | h, [] => (h, [])
  | h, op :: ops =>
    let (h'', os) := execSpec env (cfgStep h op) ops
    (h'', match specOut env h op with | some r => r :: os | none => os)

def Op.isRun : Op P O V → Bool
  | .run _ _ _ => true
  | _ => false

/-- A memoising implementation (the shape of change the histories are there to catch): the strict
    entry points cache the fast-path answer per schema; `Clone()` + setters drop the cache; a
    `keepChecks` `CloneFrom` struct-copies the source's internals, cache included. -/
def memoising : Impl P O V (Option Bool) where
  fast := fun c h => h.getD (strictFast c)
  init := fun _ => none
  onRun := fun ep c h _ => if ep.isStrict then some (h.getD (strictFast c)) else h
  onClone := fun k _ s => match k with
    | .keepChecks => s.hid
    | .copyAll => none

end
end Gozod.Prim
