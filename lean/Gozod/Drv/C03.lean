/-
  Line handler for C03.
    c03 nil <rule ptrTy|nilable> <admitsNil 0/1> <ownNilPath 0/1> <op>*     → "<model outcome>\t<spec verdict on the implementation's outcome>"
    c03 val …                                              → "same\tsame"   (a non-nil input must be validated as by the base schema;
                                                                               the harness compares with the base schema itself)
  op := Optional | Nilable | Nullish | NonOptional | Default:v|i | DefaultFunc:v|i | Prefault:v|i | PrefaultFunc:v|i | Overwrite | Refine
  The raw line is "<op line> @ <implementation outcome>"; the spec verdict echoes the implementation's
  outcome when `specNil` admits it and is "spec-rejects:<expected>" otherwise.
-/
import Gozod.Model.Modifiers
namespace Gozod.Drv.C03
open Gozod.Mods

def parseOp : String → Option Op
  | "Optional" => some .optional | "Nilable" => some .nilable | "Nullish" => some .nullish
  | "NonOptional" => some .nonOptional
  | "Default:v" => some (.dflt true) | "Default:i" => some (.dflt false)
  | "DefaultFunc:v" => some (.dfltFn true) | "DefaultFunc:i" => some (.dfltFn false)
  | "Prefault:v" => some (.prefault true) | "Prefault:i" => some (.prefault false)
  | "PrefaultFunc:v" => some (.prefaultFn true) | "PrefaultFunc:i" => some (.prefaultFn false)
  | "Overwrite" => some .overwrite | "Refine" => some .refine
  | _ => none

def renderOutcome : Outcome → String
  | .dflt false => "default:value" | .dflt true => "default:func"
  | .prefaultOk false => "prefault:value" | .prefaultOk true => "prefault:func"
  | .checkError => "err:checks" | .nonOptional => "err:nonoptional" | .nil => "nil"
  | .typeError => "err:type" | .refineError => "err:custom"

def allOutcomes : List Outcome :=
  [.dflt false, .dflt true, .prefaultOk false, .prefaultOk true, .checkError, .nonOptional, .nil, .typeError, .refineError]

def parseOutcome (s : String) : Option Outcome := allOutcomes.find? (fun o => renderOutcome o == s)

def handleLine (line : String) : String :=
  let (lhs, impl) := match line.splitOn " @ " with
    | [a, b] => (a, some b)
    | _ => (line, none)
  match (lhs.splitOn " ").filter (· ≠ "") with
  | "c03" :: "val" :: _ => "same\tsame"
  | "c03" :: "nil" :: rule :: adm :: own :: ops =>
    let rule := if rule == "nilable" then RefineRule.nilableFlag else RefineRule.ptrTy
    let adm := adm == "1"
    match ops.mapM parseOp with
    | none => "bad-op"
    | some h =>
      -- own = 1: the type has its own nil path (discriminated union, lazy) that the engine model does
      -- not cover; such cases are judged by the specification only (the model echoes the observation)
      let m := if own == "1" then impl.getD "-" else renderOutcome (nilOutcome adm (applyAll rule {} h))
      let s := match impl with
        | none => "-"
        | some io =>
          match parseOutcome io with
          | some o => if specNil adm h o then io
                      else "spec-rejects:expected " ++ " | ".intercalate ((allOutcomes.filter (specNil adm h)).map renderOutcome)
          | none => "spec-rejects:unclassified-outcome"
      m ++ "\t" ++ s
  | _ => "bad-op"

end Gozod.Drv.C03
