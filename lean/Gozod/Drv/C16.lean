/-
  Line handlers for C16 (numeric comparison / MultipleOf).
  cmp <op> <kind> <val> <kind> <val>   → "<model> <spec>"   (1/0)
  mul <kind> <val> <kind> <val>        → "<model> <spec>"
  fmul <kind> <val> <kind> <val>       → "<model>\t-"   (a float operand: the documented ε-rule, `NumFloat.multipleOfNum`;
                                          the model observation is the oracle)
  kind ∈ i8 i16 i32 i64 int u8 u16 u32 u64 uint (val = decimal integer)
       | f32 f64 (val = decimal of the IEEE-754 binary64 bit pattern of the widened value)
-/
import Gozod.Model.Num
import Gozod.Model.NumFloat
namespace Gozod.Drv.C16
open Gozod

def parseNum (kind val : String) : Option Num :=
  if kind == "f64" || kind == "f32" then
    val.toNat?.map (fun b => Num.f (F.ofBits b))
  else do
    let t ← IntTy.ofString? kind
    let v ← val.toInt?
    if t.inRange v then some (Num.ofInt t v) else none

def b2s (b : Bool) : String := if b then "1" else "0"

def specMul (a b : Num) : Option Bool :=
  match a, b with
  | .f _, _ => none
  | _, .f _ => none
  | a, b =>
    let iv : Num → Int := fun n => match n with | .i v => v | .u v => v | .f _ => 0
    some (specMultipleOfInt (iv a) (iv b))

def handle : List String → String
  | ["cmp", op, ka, a, kb, b] =>
    match CmpOp.ofString? op, parseNum ka a, parseNum kb b with
    | some op, some x, some y => s!"{b2s (implCmp op x y)} {b2s (specCmp op x y)}"
    | _, _, _ => "bad-op"
  | ["mul", ka, a, kb, b] =>
    match parseNum ka a, parseNum kb b with
    | some x, some y =>
      match specMul x y with
      | some s => s!"{b2s (multipleOfInts x y)} {b2s s}"
      | none => "bad-op"
    | _, _ => "bad-op"
  | ["fmul", ka, a, kb, b] =>
    match parseNum ka a, parseNum kb b with
    | some x, some y => s!"{b2s (NumFloat.multipleOfNum x y)}\t-"
    | _, _ => "bad-op"
  | _ => "bad-op"

end Gozod.Drv.C16
