/-
  Line handler for C14:  c14 race <scenario>  →  "norace ok<TAB>norace ok".
  The model's prediction is the theorem's content: no unsynchronised conflicting accesses (outside the
  locations listed in `Gozod.C14.knownRacy`), results equal to the run-alone results.
-/
import Gozod.Model.LockSet
import Gozod.Gen.LockSets
namespace Gozod.Drv.C14
open Gozod.LockSet

/-- `conflicts`: the cells of the regenerated table (outside `knownRacy`) that are not `ok`, as
    `<loc>=<fn>+<fn>` joined by `,` — used to aim the race harness when the table proof breaks. -/
def conflictLine : String :=
  let cs := conflicts (without knownRacy Gen.LockSets.table)
  let locs := (cs.map (·.1)).eraseDups
  ",".intercalate (locs.map (fun l =>
    let fns := ((cs.filter (·.1 == l)).flatMap (fun c => [c.2.1, c.2.2])).eraseDups
    s!"{l}={"+".intercalate fns}"))

def handle : List String → String
  | ["conflicts"] => s!"conflicts:{conflictLine}"
  | ["race", _] => "norace ok\tnorace ok"
  | _ => "bad-op"

end Gozod.Drv.C14
