/-
  C16, the float branch of `validate.MultipleOf` (the documented ε-rule), the other direction:
  what an *accepted* value satisfies.

  `C16F.c16_float_multiple_complete` says the rule never rejects an exact multiple.  Here:

  * `c16_float_multiple_sound_bound` — if `MultipleOf(v, d)` holds (finite `v`, finite non-zero `d`)
    then, with `r = |fmod(v, d)|` (exact) and `ε = max(1e-10, fl(|d|·1e-6))` the float the code
    computes, either `r < ε`, or `(|d| − r)·(1 − 2^-53) < ε + 2^-1075`: the distance from `v` to the
    nearer neighbouring multiple of `d` is below `ε`, up to one rounding of the subtraction
    `r − |d|` (relative 2^-53, absolute 2^-1075 in the subnormal range);
  * `remainder_is_distance` — `r` and `|d| − r` are the distances from `v` to the two multiples of
    `d` that enclose it (`n₀·d` with `n₀ = trunc(v/d)`, and the next one away from zero);
  * `roundMag_lower` — the rounding lemma used: a float64 rounding loses at most a relative 2^-53
    or an absolute 2^-1075.

  So the ε-rule is two-sided: exact multiples pass, and whatever passes is within
  `ε·(1 + 2^-52)` of a multiple.  `float_multiple_not_exact` (C16F) shows the tolerance is real.
-/
import Gozod.Proofs.C16Float
import Gozod.Proofs.C17

set_option exponentiation.threshold 2000
namespace Gozod.C16F
open Gozod Gozod.Coerce Gozod.NumFloat

/-! ## arithmetic -/

theorem arithA (n m k2 kk W T P1 P : Nat) (hq : m * kk = W * k2) (key : n * P1 ≤ W * P) :
    n * k2 * P1 * T ≤ (m * T + k2) * kk * P := by
  calc n * k2 * P1 * T = (n * P1) * (k2 * T) := by ac_rfl
    _ ≤ (W * P) * (k2 * T) := Nat.mul_le_mul_right _ key
    _ = (W * k2) * T * P := by ac_rfl
    _ = (m * kk) * T * P := by rw [hq]
    _ = (m * T) * kk * P := by ac_rfl
    _ ≤ (m * T + k2) * kk * P := by
        apply Nat.mul_le_mul_right; apply Nat.mul_le_mul_right; omega

theorem arithB (n m k2 kk W Z T H P1 P : Nat) (hP : P1 ≤ P) (hT : T = 2 * H) (hq : m * kk = W * k2)
    (h1 : 2 * n ≤ 2 * W + Z) (hk : kk = Z * H) :
    n * k2 * P1 * T ≤ (m * T + k2) * kk * P := by
  have key : n * T ≤ (2 * W + Z) * H := by
    rw [hT]
    calc n * (2 * H) = (2 * n) * H := by ac_rfl
      _ ≤ (2 * W + Z) * H := Nat.mul_le_mul_right _ h1
  have e1 : (2 * W + Z) * H = W * T + Z * H := by
    rw [hT, Nat.add_mul]; congr 1; ac_rfl
  calc n * k2 * P1 * T ≤ n * k2 * P * T := by
        apply Nat.mul_le_mul_right; apply Nat.mul_le_mul_left; exact hP
    _ = (k2 * P) * (n * T) := by ac_rfl
    _ ≤ (k2 * P) * ((2 * W + Z) * H) := Nat.mul_le_mul_left _ key
    _ = (k2 * P) * (W * T + Z * H) := by rw [e1]
    _ = ((W * k2) * T + k2 * (Z * H)) * P := by
        rw [Nat.mul_add, Nat.add_mul]; congr 1 <;> ac_rfl
    _ = ((m * kk) * T + k2 * kk) * P := by rw [hq, hk]
    _ = (m * T + k2) * kk * P := by
        congr 1; rw [Nat.add_mul]; congr 1; ac_rfl

/-- From `m/2^k' < e/2^m'` and the lower bound of the rounding: the bound on the exact value. -/
theorem arithC (M m e k2 m2 KK T P1 P : Nat) (hKK : 0 < KK) (hT : 0 < T) (hPp : 0 < P)
    (U : M * k2 * P1 * T ≤ (m * T + k2) * KK * P) (V : m * m2 < e * k2) :
    M * m2 * P1 * T < (e * T + m2) * P * KK := by
  apply Nat.lt_of_mul_lt_mul_left (a := k2)
  calc k2 * (M * m2 * P1 * T) = (M * k2 * P1 * T) * m2 := by ac_rfl
    _ ≤ ((m * T + k2) * KK * P) * m2 := Nat.mul_le_mul_right _ U
    _ = ((m * m2) * T + k2 * m2) * (KK * P) := by
        have : (m * T + k2) * m2 = (m * m2) * T + k2 * m2 := by rw [Nat.add_mul]; congr 1; ac_rfl
        rw [← this]; ac_rfl
    _ < ((e * k2) * T + k2 * m2) * (KK * P) := by
        apply Nat.mul_lt_mul_of_pos_right
        · apply Nat.add_lt_add_right
          exact Nat.mul_lt_mul_of_pos_right V hT
        · exact Nat.mul_pos hKK hPp
    _ = k2 * ((e * T + m2) * P * KK) := by
        have : (e * k2) * T + k2 * m2 = k2 * (e * T + m2) := by rw [Nat.mul_add]; congr 1; ac_rfl
        rw [this]; ac_rfl

theorem keyA (n W Z C P1 P : Nat) (hP : P = P1 + 1) (hC : P = 2 * C) (h1 : 2 * n ≤ 2 * W + Z) (h2 : Z * C ≤ n) :
    n * P1 ≤ W * P := by
  have a1 : n * P = n * P1 + n := by rw [hP, Nat.mul_add, Nat.mul_one]
  have a2 : n * P = (2 * n) * C := by rw [hC]; ac_rfl
  have a3 : (2 * n) * C ≤ (2 * W + Z) * C := Nat.mul_le_mul_right _ h1
  have a4 : (2 * W + Z) * C = W * P + Z * C := by rw [hC, Nat.add_mul]; congr 1; ac_rfl
  omega

/-! ## a float64 rounding loses at most a relative 2^-53 or an absolute 2^-1075 -/

/-- With `(m, k') = roundMag 53 1074 n k` (the float64 nearest to `n/2^k`):
    `n/2^k · (1 − 2^-53) ≤ m/2^k' + 2^-1075`. -/
theorem roundMag_lower (n k : Nat) (hn : n ≠ 0) :
    n * 2 ^ (roundMag 53 1074 n k).2 * 9007199254740991 * 2 ^ 1075 ≤
      ((roundMag 53 1074 n k).1 * 2 ^ 1075 + 2 ^ (roundMag 53 1074 n k).2) * 2 ^ k * 9007199254740992 := by
  obtain ⟨⟨hlo, _⟩, hu⟩ := C17.roundMag_correct 53 1074 n k hn
  have hu' := hu _ rfl
  generalize hA : (((n.log2 : Nat) : Int) + 1 - 1 - ((k : Nat) : Int) - (((53 : Nat) : Int) - 1)) = A at hu'
  by_cases hs : ((k : Nat) : Int) + max A (-((1074 : Nat) : Int)) ≤ 0
  · rw [hu'.1 hs]
    exact arithA n n (2 ^ k) (2 ^ k) n _ _ _ rfl (Nat.mul_le_mul_left _ (by decide))
  · have hq := hu'.2 (by omega)
    generalize hsd : (((k : Nat) : Int) + max A (-((1074 : Nat) : Int))).toNat = s at hq
    have hspos : 0 < s := by omega
    have hnear := (C17.rneDiv_nearest n s hspos).2.1
    generalize rneDiv n s = q at hq hnear
    generalize roundMag 53 1074 n k = r at hq ⊢
    by_cases hA' : A ≥ -1074
    · -- normal range: 2^s · 2^52 = 2^(log2 n) ≤ n
      have hs' : s + 52 = n.log2 := by omega
      have h2 : 2 ^ s * 4503599627370496 ≤ n := by
        have : (2 : Nat) ^ s * 2 ^ 52 = 2 ^ n.log2 := by rw [← Nat.pow_add, hs']
        have h52 : (2 : Nat) ^ 52 = 4503599627370496 := by decide
        rw [h52] at this; omega
      exact arithA _ _ _ _ _ _ _ _ hq (keyA n _ _ 4503599627370496 _ _ (by decide) (by decide) hnear h2)
    · -- subnormal range: the ulp is 2^-1074, 2^k = 2^s · 2^1074
      have hs' : s + 1074 = k := by omega
      have hk : (2 : Nat) ^ k = 2 ^ s * 2 ^ 1074 := by rw [← Nat.pow_add, hs']
      exact arithB n r.1 (2 ^ r.2) (2 ^ k) (q * 2 ^ s) (2 ^ s) (2 ^ 1075) (2 ^ 1074) 9007199254740991 9007199254740992 (by decide)
        (by rw [show (1075 : Nat) = 1074 + 1 from rfl, Nat.pow_succ, Nat.mul_comm]) hq (by omega) hk

/-! ## the ε-rule, soundness side -/

/-- ε as `validate.MultipleOf` computes it: `max(1e-10, math.Abs(div)*1e-6)`. -/
def epsOf (d : F) : F := fmax c1em10 (fmul (fabs d) c1em6)

theorem flt_fin (a : Int) (k : Nat) (b : Int) (l : Nat) : flt (.fin a k) (.fin b l) = true ↔ a * 2 ^ l < b * 2 ^ k := by
  simp only [flt, F.cmp]
  constructor
  · intro h
    have : compare (a * 2 ^ l) (b * 2 ^ k) = .lt := by simpa using h
    exact Int.compare_eq_lt.mp this
  · intro h; rw [Int.compare_eq_lt.mpr h]; rfl

theorem floatMultipleOf_fin (a b : Int) (k l : Nat) (hb : b ≠ 0) :
    floatMultipleOf (.fin a k) (.fin b l) =
      (flt (.fin ((Int.tmod (a * 2 ^ l) (b * 2 ^ k)).natAbs : Int) (k + l)) (epsOf (.fin b l)) ||
       flt (fabs (fsub (.fin ((Int.tmod (a * 2 ^ l) (b * 2 ^ k)).natAbs : Int) (k + l)) (.fin (b.natAbs : Int) l)))
         (epsOf (.fin b l))) := by
  simp [floatMultipleOf, F.isNaN, isZeroF, hb, fmod, fabs, epsOf]

/-- ε is positive. -/
theorem epsOf_pos (b : Int) (l : Nat) (e : Int) (m : Nat) (h : epsOf (.fin b l) = .fin e m) : 0 < e := by
  have h6 : c1em6 = .fin 4722366482869645 72 := by decide
  have hne : fmul (fabs (.fin b l)) c1em6 ≠ .nan := by
    rw [h6]; simp only [fabs, fmul]; exact roundFin_not_nan _ _ _ _ _
  have hz := zero_lt_eps 0 _ hne
  unfold epsOf at h
  rw [h, flt_fin] at hz
  simp only [Int.zero_mul] at hz
  have : (0 : Int) < 2 ^ 0 := by decide
  simpa using hz

/-- **The ε-rule, soundness side.**  If `MultipleOf(v, d)` holds for finite `v = a/2^k` and
    finite non-zero `d = b/2^l`, then with `r = |fmod(v, d)|` (numerator `R` over `2^(k+l)`),
    `|d|` (numerator `D`) and `ε = e/2^m` the float the code computes:
    `r < ε`, or `r < |d|` and `(|d| − r)·(2^53 − 1)/2^53 < ε + 2^-1075`. -/
theorem c16_float_multiple_sound_bound (a b : Int) (k l : Nat) (hb : b ≠ 0) (e : Int) (m : Nat)
    (heps : epsOf (.fin b l) = .fin e m) (h : floatMultipleOf (.fin a k) (.fin b l) = true) :
    0 < e ∧
    ((Int.tmod (a * 2 ^ l) (b * 2 ^ k)).natAbs * 2 ^ m < e.toNat * 2 ^ (k + l) ∨
     ((Int.tmod (a * 2 ^ l) (b * 2 ^ k)).natAbs < b.natAbs * 2 ^ k ∧
      (b.natAbs * 2 ^ k - (Int.tmod (a * 2 ^ l) (b * 2 ^ k)).natAbs) * 2 ^ m * 9007199254740991 * 2 ^ 1075 <
        (e.toNat * 2 ^ 1075 + 2 ^ m) * 9007199254740992 * 2 ^ (k + l))) := by
  have hepos := epsOf_pos b l e m heps
  refine ⟨hepos, ?_⟩
  obtain ⟨en, rfl⟩ := Int.eq_ofNat_of_zero_le (Int.le_of_lt hepos)
  simp only [Int.toNat_natCast]
  rw [floatMultipleOf_fin a b k l hb, heps, Bool.or_eq_true] at h
  generalize hR : (Int.tmod (a * 2 ^ l) (b * 2 ^ k)).natAbs = R at h ⊢
  -- r < |d|
  have hD : R < b.natAbs * 2 ^ k := by
    rw [← hR, Int.natAbs_tmod, Int.natAbs_mul b, Int.natAbs_pow]
    apply Nat.mod_lt
    exact Nat.mul_pos (by omega) (Nat.pow_pos (by decide))
  rcases h with h | h
  · left
    rw [flt_fin] at h
    exact_mod_cast h
  · right
    refine ⟨hD, ?_⟩
    generalize hDd : b.natAbs * 2 ^ k = D at hD ⊢
    -- the subtraction r − |d|, rounded
    have hN : (R : Int) * 2 ^ l - (b.natAbs : Int) * 2 ^ (k + l) = -(((D - R) * 2 ^ l : Nat) : Int) := by
      have hD' : (D : Int) = (b.natAbs : Int) * 2 ^ k := by rw [← hDd]; norm_cast
      have h1 : (((D - R) * 2 ^ l : Nat) : Int) = ((D : Int) - R) * 2 ^ l := by
        rw [Int.natCast_mul, Int.natCast_sub (Nat.le_of_lt hD)]; norm_cast
      rw [h1, hD', Int.pow_add, Int.sub_mul, Int.neg_sub, Int.mul_assoc]
    have hM : (D - R) * 2 ^ l ≠ 0 := Nat.mul_ne_zero (by omega) (Nat.pos_iff_ne_zero.mp (Nat.pow_pos (by decide)))
    simp only [fsub, rnd, hN] at h
    unfold roundFin at h
    simp only [Int.natAbs_neg, Int.natAbs_natCast] at h
    have hlow := roundMag_lower ((D - R) * 2 ^ l) (k + l + l) hM
    generalize roundMag 53 1074 ((D - R) * 2 ^ l) (k + l + l) = r at h hlow
    obtain ⟨m', k'⟩ := r
    simp only [] at h hlow
    by_cases hov : m' ≥ 2 ^ 1024 * 2 ^ k'
    · rw [if_pos hov] at h
      have hneg : -(((D - R) * 2 ^ l : Nat) : Int) < 0 := by
        have : 0 < (D - R) * 2 ^ l := Nat.pos_of_ne_zero hM
        omega
      rw [if_pos hneg] at h
      simp [fabs, flt, F.cmp] at h
    · rw [if_neg hov] at h
      have hneg : -(((D - R) * 2 ^ l : Nat) : Int) < 0 := by
        have : 0 < (D - R) * 2 ^ l := Nat.pos_of_ne_zero hM
        omega
      rw [if_pos hneg] at h
      simp only [fabs, Int.natAbs_neg, Int.natAbs_natCast] at h
      rw [flt_fin] at h
      have V : m' * 2 ^ m < en * 2 ^ k' := by exact_mod_cast h
      have hC := arithC ((D - R) * 2 ^ l) m' en (2 ^ k') (2 ^ m) (2 ^ (k + l + l)) (2 ^ 1075)
        9007199254740991 9007199254740992 (Nat.pow_pos (by decide)) (Nat.pow_pos (by decide)) (by decide) hlow V
      -- cancel 2^l
      apply Nat.lt_of_mul_lt_mul_right (a := 2 ^ l)
      calc (D - R) * 2 ^ m * 9007199254740991 * 2 ^ 1075 * 2 ^ l
          = (D - R) * 2 ^ l * 2 ^ m * 9007199254740991 * 2 ^ 1075 := by ac_rfl
        _ < (en * 2 ^ 1075 + 2 ^ m) * 9007199254740992 * 2 ^ (k + l + l) := hC
        _ = (en * 2 ^ 1075 + 2 ^ m) * 9007199254740992 * 2 ^ (k + l) * 2 ^ l := by
            rw [Nat.pow_add 2 (k + l) l]; ac_rfl

/-- `r` and `|d| − r` are the distances from `v` to the two multiples of `d` enclosing it:
    with `x = a·2^l`, `y = b·2^k` (so `v/d = x/y`), `n₀ = trunc(x/y)`:
    `|x − n₀·y| = |x tmod y|`, and for the next multiple away from zero, `n₁ = n₀ ± 1`,
    `|x − n₁·y| = |y| − |x tmod y|`. -/
theorem remainder_is_distance (x y : Int) (hy : y ≠ 0) :
    (x - Int.tdiv x y * y).natAbs = (Int.tmod x y).natAbs ∧
    ∃ n1 : Int, (n1 = Int.tdiv x y + 1 ∨ n1 = Int.tdiv x y - 1) ∧
      (x - n1 * y).natAbs = y.natAbs - (Int.tmod x y).natAbs := by
  have hdm : y * Int.tdiv x y + Int.tmod x y = x := Int.mul_tdiv_add_tmod x y
  have h0 : x - Int.tdiv x y * y = Int.tmod x y := by
    rw [Int.mul_comm]; omega
  have hlt : (Int.tmod x y).natAbs < y.natAbs := by
    rw [Int.natAbs_tmod]; exact Nat.mod_lt _ (by omega)
  refine ⟨by rw [h0], ?_⟩
  -- the sign of the remainder is the sign of x; step away from zero
  by_cases hs : (0 ≤ Int.tmod x y ∧ 0 < y) ∨ (Int.tmod x y < 0 ∧ y < 0)
  · refine ⟨Int.tdiv x y + 1, Or.inl rfl, ?_⟩
    have : x - (Int.tdiv x y + 1) * y = Int.tmod x y - y := by
      rw [Int.add_mul, Int.one_mul, Int.mul_comm]; omega
    rw [this]; omega
  · refine ⟨Int.tdiv x y - 1, Or.inr rfl, ?_⟩
    have : x - (Int.tdiv x y - 1) * y = Int.tmod x y + y := by
      rw [Int.sub_mul, Int.one_mul, Int.mul_comm]; omega
    rw [this]; omega

/-- The bound is not vacuous: 0.3 against 0.1 is accepted through the second disjunct
    (`fmod(0.3, 0.1)` is within ε of 0.1), 10000005 against 10^7 through the first. -/
example : floatMultipleOf (F.ofBits 0x3FD3333333333333) (F.ofBits 0x3FB999999999999A) = true ∧
    floatMultipleOf (.fin 10000005 0) (.fin 10000000 0) = true := by decide +kernel

end Gozod.C16F
