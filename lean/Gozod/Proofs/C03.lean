/-
  C03 — nil handling follows Default > Prefault > NonOptional > Optional/Nilable,
        for every sequence of modifier calls.
-/
import Gozod.Model.Modifiers
import Gozod.Gen.C03Tables

namespace Gozod.C03
open Gozod.Mods

/-! ### what a history does to the internals (by induction over the history, any start state) -/

theorem applyAll_cons (rule : RefineRule) (i : I) (op : Op) (h : List Op) :
    applyAll rule i (op :: h) = applyAll rule (apply rule i op) h := rfl

theorem dv_applyAll (rule : RefineRule) (h : List Op) : ∀ i : I,
    (applyAll rule i h).dv = (lastDv h).orElse fun _ => i.dv := by
  induction h with
  | nil => intro i; simp [applyAll, lastDv]
  | cons op h ih =>
    intro i; rw [applyAll_cons, ih]
    cases op <;> simp [apply, lastDv] <;> cases lastDv h <;> simp

theorem df_applyAll (rule : RefineRule) (h : List Op) : ∀ i : I,
    (applyAll rule i h).df = (lastDf h).orElse fun _ => i.df := by
  induction h with
  | nil => intro i; simp [applyAll, lastDf]
  | cons op h ih =>
    intro i; rw [applyAll_cons, ih]
    cases op <;> simp [apply, lastDf] <;> cases lastDf h <;> simp

theorem pv_applyAll (rule : RefineRule) (h : List Op) : ∀ i : I,
    (applyAll rule i h).pv = (lastPv h).orElse fun _ => i.pv := by
  induction h with
  | nil => intro i; simp [applyAll, lastPv]
  | cons op h ih =>
    intro i; rw [applyAll_cons, ih]
    cases op <;> simp [apply, lastPv] <;> cases lastPv h <;> simp

theorem pf_applyAll (rule : RefineRule) (h : List Op) : ∀ i : I,
    (applyAll rule i h).pf = (lastPf h).orElse fun _ => i.pf := by
  induction h with
  | nil => intro i; simp [applyAll, lastPf]
  | cons op h ih =>
    intro i; rw [applyAll_cons, ih]
    cases op <;> simp [apply, lastPf] <;> cases lastPf h <;> simp

theorem nonOptional_applyAll (rule : RefineRule) (h : List Op) : ∀ i : I,
    (applyAll rule i h).nonOptional = (i.nonOptional || h.any isNonOptionalOp) := by
  induction h with
  | nil => intro i; simp [applyAll]
  | cons op h ih =>
    intro i; rw [applyAll_cons, ih]
    cases op <;> simp [apply, isNonOptionalOp]

/-- Without a `NonOptional` call, Optional/Nilable are in force iff one of
    Optional/Nilable/Nullish was called (or they were set initially). -/
theorem optnil_applyAll (rule : RefineRule) (h : List Op) : ∀ i : I,
    h.any isNonOptionalOp = false →
    ((applyAll rule i h).optional || (applyAll rule i h).nilable) =
      (i.optional || i.nilable || h.any isOptionalOp) := by
  induction h with
  | nil => intro i _; simp [applyAll]
  | cons op h ih =>
    intro i hn
    simp only [List.any_cons, Bool.or_eq_false_iff] at hn
    rw [applyAll_cons, ih _ hn.2]
    cases op <;> simp [apply, isOptionalOp, isNonOptionalOp] at hn ⊢ <;>
      cases i.optional <;> cases i.nilable <;> simp

def isOverwriteOp : Op → Bool
  | .overwrite => true
  | _ => false

/-- `hasOverwrite` is set exactly by the overwrite calls of the history. -/
theorem hasOverwrite_applyAll (rule : RefineRule) (h : List Op) : ∀ i : I,
    (applyAll rule i h).hasOverwrite = (i.hasOverwrite || h.any isOverwriteOp) := by
  induction h with
  | nil => intro i; simp [applyAll]
  | cons op h ih =>
    intro i; rw [applyAll_cons, ih]
    cases op <;> simp [apply, isOverwriteOp]

theorem any_default_iff (h : List Op) :
    h.any isDefaultOp = ((lastDv h).isSome || (lastDf h).isSome) := by
  induction h with
  | nil => rfl
  | cons op h ih =>
    cases op <;> simp [isDefaultOp, lastDv, lastDf, ih] <;>
      cases lastDv h <;> cases lastDf h <;> simp

theorem any_prefault_iff (h : List Op) :
    h.any isPrefaultOp = ((lastPv h).isSome || (lastPf h).isSome) := by
  induction h with
  | nil => rfl
  | cons op h ih =>
    cases op <;> simp [isPrefaultOp, lastPv, lastPf, ih] <;>
      cases lastPv h <;> cases lastPf h <;> simp

/-! ## The property -/

/-- The full statement: after *every* history of modifier and check-attaching calls the nil
    outcome is the documented one. -/
def c03_history_full (rule : RefineRule) (admitsNil : Bool) : Prop :=
  ∀ h : List Op, specNil admitsNil h (nilOutcome admitsNil (applyAll rule {} h)) = true

/-- **C03, engine path — full strength.** For every history of Optional/Nilable/Nullish/NonOptional/Default/
    DefaultFunc/Prefault/PrefaultFunc calls — and of Overwrite / Refine calls in between — of any length and in any
    order, a nil input yields: the default if one was set (unchecked, whether or not it satisfies the checks), else the
    prefault through the full pipeline, else the nonoptional error, else nil if Optional/Nilable/Nullish was called or
    the type admits nil, else a type error. (Until 4f7c1d7 / 7db47f1 this needed the hypothesis that no overwrite and
    no refinement is attached: `c03_legacy_witness_*`.) -/
theorem c03_history (rule : RefineRule) (admitsNil : Bool) : c03_history_full rule admitsNil := by
  intro h
  have hdv := dv_applyAll rule h {}
  have hdf := df_applyAll rule h {}
  have hpv := pv_applyAll rule h {}
  have hpf := pf_applyAll rule h {}
  have hno := nonOptional_applyAll rule h {}
  simp only [Bool.false_or] at hno
  have hon := optnil_applyAll rule h {}
  simp only [Bool.false_or] at hon
  unfold nilOutcome specNil
  rw [hdv, hdf, hpv, hpf, hno, any_default_iff, any_prefault_iff]
  generalize ((applyAll rule {} h).optional || (applyAll rule {} h).nilable) = X at hon ⊢
  generalize h.any isNonOptionalOp = A at hon ⊢
  generalize h.any isOptionalOp = B at hon ⊢
  generalize lastDv h = d1
  generalize lastDf h = d2
  generalize lastPv h = p1
  generalize lastPf h = p2
  cases A with
  | true =>
    rcases d1 with _ | _ | _ <;> rcases d2 with _ | _ | _ <;> rcases p1 with _ | _ | _ <;>
      rcases p2 with _ | _ | _ <;> rfl
  | false =>
    have := hon rfl; subst this
    rcases d1 with _ | _ | _ <;> rcases d2 with _ | _ | _ <;> rcases p1 with _ | _ | _ <;>
      rcases p2 with _ | _ | _ <;> cases X <;> cases admitsNil <;> rfl

/-- **A non-nil input is not affected by the modifiers**: `processModifiersCore` returns
    "not handled" for every non-nil input, so the same value parser runs (modifiers.go:49). The
    model expresses this by `nilOutcome` being the only place the modifier fields are read. -/
theorem c03_outcome_reads_only_modifiers (admitsNil : Bool) (i j : I)
    (h : i.dv = j.dv ∧ i.df = j.df ∧ i.pv = j.pv ∧ i.pf = j.pf ∧ i.nonOptional = j.nonOptional ∧
         i.optional = j.optional ∧ i.nilable = j.nilable ∧ i.hasOverwrite = j.hasOverwrite ∧
         i.refines = j.refines) : nilOutcome admitsNil i = nilOutcome admitsNil j := by
  obtain ⟨h1, h2, h3, h4, h5, h6, h7, _, _⟩ := h
  unfold nilOutcome; rw [h1, h2, h3, h4, h5, h6, h7]

/-! ### Witnesses: the statement discriminates — the nil pass as it was before 4f7c1d7 / 7db47f1 falsifies it -/

/-- Before 4f7c1d7 — `String().Trim().Default(bad).Parse(nil)`: with an overwrite attached the default value was
    run through all checks, so a default that does not satisfy them was an error. -/
theorem c03_legacy_witness_default_checked :
    ¬ ∀ h : List Op, specNil false h (legacyNilOutcome false (applyAll .ptrTy {} h)) = true := by
  intro hfull
  have := hfull [.overwrite, .dflt false]
  revert this; decide

/-- Since 4f7c1d7 that history yields the default. -/
example : nilOutcome false (applyAll .ptrTy {} [.overwrite, .dflt false]) = .dflt false := by decide

/-- **"…without running checks"** — the full statement about check callbacks: with a default set, no check callback of
    the schema runs on a nil input. (False today: `c03_witness_overwrite_on_default`.) -/
def c03_default_runs_no_check_full (rule : RefineRule) : Prop :=
  ∀ h : List Op, h.any isDefaultOp = true → overwriteRunsOnDefault (applyAll rule {} h) = false

/-- It holds for every history without an overwrite call (refinements and every validating check are skipped). -/
theorem c03_default_runs_no_check_partial (rule : RefineRule) (h : List Op)
    (ho : h.any isOverwriteOp = false) : overwriteRunsOnDefault (applyAll rule {} h) = false := by
  unfold overwriteRunsOnDefault
  rw [hasOverwrite_applyAll, ho]; simp

/-- `Complex().Default(1+1i).Overwrite(square).Parse(nil)` is `2i`: the overwrite checks still rewrite the default
    (pinned by TestComplex_Overwrite / TestStringBool_Overwrite "default value interaction"). -/
theorem c03_witness_overwrite_on_default : ¬ c03_default_runs_no_check_full .nilableFlag := by
  intro hfull
  have := hfull [.dflt true, .overwrite] (by decide)
  revert this; decide

/-- Before 7db47f1 — `String().Refine(f).Optional().Parse(nil)`: refinements ran on the nil value and a wrapper
    attached before `Optional()` rejects nil. -/
theorem c03_legacy_witness_refine_on_nil :
    ¬ ∀ h : List Op, specNil false h (legacyNilOutcome false (applyAll .ptrTy {} h)) = true := by
  intro hfull
  have := hfull [.refine, .optional]
  revert this; decide

/-- `Int().Refine(f).Nilable().Parse(nil)` likewise for the Nilable-flag rule. -/
theorem c03_legacy_witness_refine_on_nil_int :
    ¬ ∀ h : List Op, specNil false h (legacyNilOutcome false (applyAll .nilableFlag {} h)) = true := by
  intro hfull
  have := hfull [.refine, .nilable]
  revert this; decide

/-- Since 7db47f1 those histories yield nil. -/
example : nilOutcome false (applyAll .ptrTy {} [.refine, .optional]) = .nil ∧
    nilOutcome false (applyAll .nilableFlag {} [.refine, .nilable]) = .nil := by decide

/-! ## Wrapped schemas: `Transform` / `Pipe` chains around a modified schema (core/transform.go) -/

theorem internals_attach (s : WS) (n : Nat) (w : W) : (s.attach n w).internals = s.internals := by
  cases w <;> rfl

/-- Every node of a wrapper chain carries the base schema's modifier fields (each constructor clones
    its source's internals), so `t.source.Internals()` answers for the base at every level. -/
theorem internals_wrapFrom (ws : List W) : ∀ (s : WS) (n : Nat),
    (s.wrapFrom n ws).internals = s.internals := by
  induction ws with
  | nil => intro s n; rfl
  | cons w ws ih => intro s n; simp only [WS.wrapFrom]; rw [ih, internals_attach]

theorem internals_wrap (i : I) (ws : List W) : (wrap i ws).internals = i :=
  internals_wrapFrom ws (.base i) 1

/-- One wrapper on top of a result + log, nothing short-circuited. -/
def step (p : R × List Call) (n : Nat) (w : W) : R × List Call :=
  match p, w with
  | (.ok v, log), .tf => (.ok (.app n v), log ++ [⟨false, n, v⟩])
  | (.ok v, log), .pipe => (.ok v, log ++ [⟨true, n, v⟩])
  | (.err o, log), _ => (.err o, log)

def extendP (p : R × List Call) (n : Nat) (ws : List W) : R × List Call :=
  match p with
  | (.ok v, log) => ((runAll v n ws).1 |> .ok, log ++ (runAll v n ws).2)
  | (.err o, log) => (.err o, log)

theorem parse_attach_plain (adm : Bool) (inp : In) (s : WS) (n : Nat) (w : W)
    (h : (inp.isNil && hasDefault s.internals) = false) :
    (s.attach n w).parse adm inp = step (s.parse adm inp) n w := by
  cases w
  · simp only [WS.attach, WS.parse, h, step]
    rcases s.parse adm inp with ⟨_ | _, _⟩ <;> simp
  · simp only [WS.attach, WS.parse, step]
    rcases s.parse adm inp with ⟨_ | _, _⟩ <;> rfl

theorem extendP_step (p : R × List Call) (n : Nat) (w : W) (ws : List W) :
    extendP (step p n w) (n + 1) ws = extendP p n (w :: ws) := by
  rcases p with ⟨_ | _, log⟩ <;> cases w <;> simp [step, extendP, runAll, List.append_assoc]

theorem extendP_nil (p : R × List Call) (n : Nat) : extendP p n [] = p := by
  rcases p with ⟨_ | _, log⟩ <;> simp [extendP, runAll]

/-- Without the default short-circuit a wrapper chain runs every wrapper once, in order, each on
    the output of the previous one (induction over the chain, for any inner schema). -/
theorem parse_wrapFrom_plain (adm : Bool) (inp : In) (ws : List W) : ∀ (s : WS) (n : Nat),
    (inp.isNil && hasDefault s.internals) = false →
    (s.wrapFrom n ws).parse adm inp = extendP (s.parse adm inp) n ws := by
  induction ws with
  | nil => intro s n _; simp only [WS.wrapFrom]; rw [extendP_nil]
  | cons w ws ih =>
    intro s n h
    simp only [WS.wrapFrom]
    rw [ih (s.attach n w) (n + 1) (by rw [internals_attach]; exact h), parse_attach_plain adm inp s n w h,
      extendP_step]

theorem extendP_base (r : R) (n : Nat) (ws : List W) : extendP (r, []) n ws = extend r n ws := by
  cases r <;> simp [extendP, extend]

/-- **No default, or a non-nil input**: the wrapped schema yields the base schema's result passed
    through `f₁ … fₙ` (and pipe targets), each exactly once and in order; an error of the base stays
    that error and no callback runs. This covers the prefault (validated by the base first), the
    Optional/Nilable nil, and every non-nil input. -/
theorem c03_wrapped_plain (adm : Bool) (inp : In) (i : I) (ws : List W)
    (h : (inp.isNil && hasDefault i) = false) :
    (wrap i ws).parse adm inp = extend (parseBase adm i inp) 1 ws := by
  unfold wrap
  rw [parse_wrapFrom_plain adm inp ws (.base i) 1 h]
  simp only [WS.parse]; rw [extendP_base]

/-- The calls a chain makes when every transform is skipped: the pipe targets, each on the same value. -/
def pipeCalls (v : V) (n : Nat) : List W → List Call
  | [] => []
  | .tf :: ws => pipeCalls v (n + 1) ws
  | .pipe :: ws => ⟨true, n, v⟩ :: pipeCalls v (n + 1) ws

def stepD (p : R × List Call) (n : Nat) (w : W) : R × List Call :=
  match p, w with
  | (.ok v, log), .pipe => (.ok v, log ++ [⟨true, n, v⟩])
  | p, _ => p

def extendD (p : R × List Call) (n : Nat) (ws : List W) : R × List Call :=
  match p with
  | (.ok v, log) => (.ok v, log ++ pipeCalls v n ws)
  | (.err o, log) => (.err o, log)

theorem parse_attach_default (adm : Bool) (s : WS) (n : Nat) (w : W) (h : hasDefault s.internals = true) :
    (s.attach n w).parse adm .nil = stepD (s.parse adm .nil) n w := by
  cases w
  · simp only [WS.attach, WS.parse, h, In.isNil, Bool.and_self, if_true, stepD]
    rcases s.parse adm .nil with ⟨_ | _, _⟩ <;> rfl
  · simp only [WS.attach, WS.parse, stepD]
    rcases s.parse adm .nil with ⟨_ | _, _⟩ <;> rfl

theorem extendD_step (p : R × List Call) (n : Nat) (w : W) (ws : List W) :
    extendD (stepD p n w) (n + 1) ws = extendD p n (w :: ws) := by
  rcases p with ⟨_ | _, log⟩ <;> cases w <;> simp [stepD, extendD, pipeCalls, List.append_assoc]

theorem parse_wrapFrom_default (adm : Bool) (ws : List W) : ∀ (s : WS) (n : Nat),
    hasDefault s.internals = true →
    (s.wrapFrom n ws).parse adm .nil = extendD (s.parse adm .nil) n ws := by
  induction ws with
  | nil => intro s n _; rcases hp : s.parse adm .nil with ⟨_ | _, log⟩ <;> simp [WS.wrapFrom, extendD, pipeCalls, hp]
  | cons w ws ih =>
    intro s n h
    simp only [WS.wrapFrom]
    rw [ih (s.attach n w) (n + 1) (by rw [internals_attach]; exact h), parse_attach_default adm s n w h,
      extendD_step]

/-- **Default set, nil input, any wrapper chain**: the result is exactly what the base schema
    returned (the default value; or the base's error), *no transform function is called* however
    many are chained, and the only callbacks are the pipe targets (second schemas: they receive what
    their source stage returned), each given that same value. -/
theorem c03_wrapped_default (adm : Bool) (i : I) (ws : List W) (h : hasDefault i = true) :
    (wrap i ws).parse adm .nil =
      match baseNil adm i with
      | .ok v => (.ok v, pipeCalls v 1 ws)
      | .err o => (.err o, []) := by
  unfold wrap
  rw [parse_wrapFrom_default adm ws (.base i) 1 h]
  simp only [WS.parse, parseBase]
  cases baseNil adm i <;> simp [extendD]

def isTf : W → Bool
  | .tf => true
  | .pipe => false

/-- A chain of transforms only. -/
def noPipe (ws : List W) : Bool := ws.all isTf

theorem pipeCalls_noPipe (v : V) (ws : List W) : ∀ n, noPipe ws = true → pipeCalls v n ws = [] := by
  induction ws with
  | nil => intros; rfl
  | cons w ws ih =>
    intro n h
    simp only [noPipe, List.all_cons, Bool.and_eq_true] at h
    cases w
    · simp only [pipeCalls]; exact ih (n + 1) (by simpa [noPipe] using h.2)
    · simp [isTf] at h

theorem pipeCalls_only_pipes (v : V) (ws : List W) : ∀ n, ∀ c ∈ pipeCalls v n ws, c.pipe = true ∧ c.arg = v := by
  induction ws with
  | nil => intro n c hc; simp [pipeCalls] at hc
  | cons w ws ih =>
    intro n c hc
    cases w
    · exact ih (n + 1) c hc
    · simp only [pipeCalls, List.mem_cons] at hc
      rcases hc with rfl | hc
      · exact ⟨rfl, rfl⟩
      · exact ih (n + 1) c hc

/-- With a default and a nil input no transform callback is ever in the log (full strength: every
    chain, pipes included). -/
theorem c03_default_skips_all_transforms (adm : Bool) (i : I) (ws : List W) (h : hasDefault i = true) :
    ∀ c ∈ ((wrap i ws).parse adm .nil).2, c.pipe = true := by
  rw [c03_wrapped_default adm i ws h]
  cases baseNil adm i with
  | ok v => exact fun c hc => (pipeCalls_only_pipes v ws 1 c hc).1
  | err o => intro c hc; simp at hc

theorem hasDefault_applyAll (rule : RefineRule) (h : List Op) :
    hasDefault (applyAll rule {} h) = h.any isDefaultOp := by
  unfold hasDefault
  rw [dv_applyAll, df_applyAll, any_default_iff]
  cases lastDv h <;> cases lastDf h <;> rfl

theorem mem_allOutcomes (o : Outcome) : o ∈ allOutcomes := by
  cases o <;> (try rename_i k; cases k) <;> simp [allOutcomes]

theorem specNilW_of (adm : Bool) (h : List Op) (ws : List W) (o : Outcome) (obs : R × List Call)
    (h1 : specNil adm h o = true) (h2 : obs = specWrapped o ws) : specNilW adm h ws obs = true := by
  unfold specNilW
  rw [List.any_eq_true]
  exact ⟨o, mem_allOutcomes o, by simp [h1, h2]⟩

theorem pipeCalls_eq_spec (v : V) (ws : List W) : ∀ n, pipeCalls v n ws = runPipesOnly v n ws := by
  induction ws with
  | nil => intro n; rfl
  | cons w ws ih => intro n; cases w <;> simp [pipeCalls, runPipesOnly, ih]

/-- The full statement for wrapped schemas: after every history (check-attaching calls included) and
    under every chain of `Transform` / `Pipe` wrappers a nil input yields the documented observation —
    result **and** callback log. -/
def c03_wrapped_full (rule : RefineRule) (admitsNil : Bool) : Prop :=
  ∀ (h : List Op) (ws : List W),
    specNilW admitsNil h ws ((wrap (applyAll rule {} h) ws).parse admitsNil .nil) = true

/-- **C03 under wrappers — every history, every chain (full strength).** For every history (any length, any
    order, check-attaching calls included) and **every** chain of `Transform(fᵢ)` / `Pipe(Tᵢ)` wrappers a nil input
    yields: the default value, no Transform callback called (pipe targets receive the default); else the validated
    prefault passed through every wrapper once each in order; else the nonoptional error, nothing called; else
    nil passed through the wrappers (Optional/Nilable/type admits nil); else a type error, nothing called. -/
theorem c03_wrapped (rule : RefineRule) (admitsNil : Bool) : c03_wrapped_full rule admitsNil := by
  intro h ws
  have hs := c03_history rule admitsNil h
  have hd := hasDefault_applyAll rule h
  generalize hI : applyAll rule {} h = i at hs hd
  apply specNilW_of admitsNil h ws (nilOutcome admitsNil i) _ hs
  cases hany : h.any isDefaultOp with
  | true =>
    rw [hany] at hd
    rw [c03_wrapped_default admitsNil i ws hd]
    -- with a default set the base outcome is the default
    have hout : ∃ k, nilOutcome admitsNil i = .dflt k := by
      unfold hasDefault at hd
      unfold nilOutcome
      rcases hdv : i.dv with _ | v
      · rcases hdf : i.df with _ | v
        · rw [hdv, hdf] at hd; cases hd
        · exact ⟨true, by simp⟩
      · exact ⟨false, by simp⟩
    obtain ⟨k, hk⟩ := hout
    simp only [baseNil, hk, specWrapped, pipeCalls_eq_spec]
  | false =>
    rw [hany] at hd
    rw [c03_wrapped_plain admitsNil .nil i ws (by simp [hd])]
    -- without a default the base outcome is not the default class
    have hnd : ∀ k, nilOutcome admitsNil i ≠ .dflt k := by
      intro k
      unfold hasDefault at hd
      have h1 : i.dv = none := by cases hdv : i.dv <;> simp_all
      have h2 : i.df = none := by cases hdf : i.df <;> simp_all
      unfold nilOutcome
      rw [h1, h2]
      simp only
      split <;> (try split) <;> (try split) <;> (try split) <;> (try split) <;> simp
    simp only [parseBase, baseNil]
    cases ho : nilOutcome admitsNil i with
    | dflt k => exact absurd ho (hnd k)
    | _ => simp [specWrapped, extend]

/-- **A non-nil input is not affected by the modifiers, under every wrapper chain**: result and
    callback log are those of the unmodified base schema under the same wrappers, namely the base
    verdict followed by every wrapper once in order. -/
theorem c03_wrapped_nonnil (adm : Bool) (i : I) (ws : List W) (valid : Bool) :
    (wrap i ws).parse adm (if valid then .valid else .invalid) = specValW valid ws ∧
    (wrap i ws).parse adm (if valid then .valid else .invalid) =
      (wrap {} ws).parse adm (if valid then .valid else .invalid) := by
  cases valid <;> simp [c03_wrapped_plain, In.isNil, specValW, parseBase]

/-- Non-vacuity of the wrapper theorems: a default under three chained transforms, a prefault under
    transform–pipe–transform, and an Optional nil under two transforms. -/
example :
    (wrap (applyAll .ptrTy {} [.dflt true, .optional]) [.tf, .tf, .tf]).parse false .nil
      = (.ok (.src (.dflt false)), []) ∧
    (wrap (applyAll .ptrTy {} [.prefault true]) [.tf, .pipe, .tf]).parse false .nil
      = (.ok (.app 3 (.app 1 (.src (.prefaultOk false)))),
         [⟨false, 1, .src (.prefaultOk false)⟩, ⟨true, 2, .app 1 (.src (.prefaultOk false))⟩,
          ⟨false, 3, .app 1 (.src (.prefaultOk false))⟩]) ∧
    (wrap (applyAll .ptrTy {} [.optional]) [.tf, .tf]).parse false .nil
      = (.ok (.app 2 (.app 1 (.src .nil))), [⟨false, 1, .src .nil⟩, ⟨false, 2, .app 1 (.src .nil)⟩]) ∧
    (wrap (applyAll .ptrTy {} [.nonOptional]) [.tf, .pipe]).parse false .nil = (.err .nonOptional, []) := by
  decide

/-- Non-vacuity: histories of every shape exercise every branch. -/
example :
    nilOutcome false (applyAll .ptrTy {} [.optional, .dflt false, .nonOptional, .prefaultFn true]) = .dflt false ∧
    nilOutcome false (applyAll .ptrTy {} [.nilable, .nonOptional, .optional]) = .nonOptional ∧
    nilOutcome false (applyAll .ptrTy {} [.prefault false, .nullish]) = .checkError ∧
    nilOutcome false (applyAll .ptrTy {} []) = .typeError := by decide

/-! ## Histories of parses: one `*core.ParseContext` through a sequence of parses / the children of a container -/

/-- The code as it is leaves the context as it found it. -/
theorem step_ctx (c : Ctx) (s : Sch) (inp : In) : (ctxStep c s inp).1 = c := by
  obtain ⟨adm, i⟩ := s
  cases inp
  · simp only [ctxStep, processModifiersCtx, In.isNil]
    rcases i.dv with _ | _ <;> rcases i.df with _ | _ <;> rcases i.pv with _ | _ <;> rcases i.pf with _ | _ <;>
      (try rfl) <;> cases i.nonOptional <;> (try rfl) <;> cases (i.optional || i.nilable) <;> (try rfl) <;>
      cases adm <;> rfl
  · rfl
  · rfl

/-- The context-threaded transcription computes what the context-free one (`parseBase` = `nilOutcome` for a nil
    input) computes: the earlier theorems speak about every parse of every sequence. -/
theorem step_eq_parseBase (c : Ctx) (s : Sch) (inp : In) :
    (ctxStep c s inp).2 = parseBase s.admitsNil s.i inp := by
  obtain ⟨adm, i⟩ := s
  cases inp
  · simp only [ctxStep, processModifiersCtx, In.isNil, parseBase, baseNil, nilOutcome]
    rcases i.dv with _ | v1 <;> rcases i.df with _ | v2 <;> rcases i.pv with _ | v3 <;> rcases i.pf with _ | v4
    all_goals first
      | rfl
      | (cases i.nonOptional <;> cases (i.optional || i.nilable) <;> cases adm <;> rfl)
      | (cases v3 <;> rfl) | (cases v4 <;> rfl)
  · rfl
  · rfl

theorem runSeq_cons (stp : Ctx → Sch → In → Ctx × R) (c : Ctx) (p : Sch × In) (ps : List (Sch × In)) :
    runSeq stp c (p :: ps) =
      ((runSeq stp (stp c p.1 p.2).1 ps).1, (stp c p.1 p.2).2 :: (runSeq stp (stp c p.1 p.2).1 ps).2) := rfl

/-- After any sequence of parses the context is what the caller made it. -/
theorem runSeq_ctx (ps : List (Sch × In)) : ∀ c : Ctx, (runSeq ctxStep c ps).1 = c := by
  induction ps with
  | nil => intro c; rfl
  | cons p ps ih => intro c; rw [runSeq_cons]; simp only; rw [ih, step_ctx]

/-- The results of a sequence through one context are the results of each parse on its own, through a context
    nobody has used. -/
theorem runSeq_results (ps : List (Sch × In)) : ∀ c : Ctx,
    (runSeq ctxStep c ps).2 = ps.map fun p => (ctxStep {} p.1 p.2).2 := by
  induction ps with
  | nil => intro c; rfl
  | cons p ps ih =>
    intro c; rw [runSeq_cons]; simp only [List.map_cons]
    rw [ih, step_eq_parseBase, step_eq_parseBase]

/-- The statement C03 needs of a step function: whatever the context was initially and whatever parses it has
    been through, the next parse yields what it yields through a fresh context. -/
def ctxHistoryIndependent (stp : Ctx → Sch → In → Ctx × R) : Prop :=
  ∀ (c0 : Ctx) (earlier : List (Sch × In)) (s : Sch) (inp : In),
    (stp (runSeq stp c0 earlier).1 s inp).2 = (stp {} s inp).2

/-- **C03 over histories of parses.** For every initial context (any field set by the caller), every sequence
    of earlier parses through it — any schemas, any inputs, failing and succeeding prefaults and defaults in
    between — the outcome of the next parse is the outcome through a fresh context. -/
theorem c03_ctx_history : ctxHistoryIndependent ctxStep := by
  intro c0 earlier s inp
  rw [step_eq_parseBase, step_eq_parseBase]

/-- The statement discriminates: a step function that parses the prefault under a flag on the context and
    restores the flag only on success is rejected — after `String().Min(5).Prefault("ab").Parse(nil, ctx)` the
    parse `String().Optional().Prefault("hello").Parse(nil, ctx)` yields nil instead of the prefault. -/
theorem c03_ctx_history_discriminates : ¬ ctxHistoryIndependent stepLeaky := by
  intro h
  have := h {} [(⟨false, applyAll .ptrTy {} [.prefault false]⟩, .nil)]
    ⟨false, applyAll .ptrTy {} [.optional, .prefault true]⟩ .nil
  revert this; decide

/-- One parse of a sequence as the harness describes it: type rule, nil admission, modifier history, input. -/
structure PStep where
  rule : RefineRule
  admitsNil : Bool
  h : List Op
  inp : In

def PStep.sch (p : PStep) : Sch := ⟨p.admitsNil, applyAll p.rule {} p.h⟩

/-- Every result of the sequence is the documented one for that parse's own history and input. -/
def seqMeetsSpec (c0 : Ctx) (ps : List PStep) : Bool :=
  ((runSeq ctxStep c0 (ps.map fun p => (p.sch, p.inp))).2.zip ps).all fun rp => specStep rp.2.admitsNil rp.2.h rp.2.inp rp.1

theorem specStep_parseBase (p : PStep) :
    specStep p.admitsNil p.h p.inp (parseBase p.admitsNil (applyAll p.rule {} p.h) p.inp) = true := by
  have hs := c03_history p.rule p.admitsNil p.h
  cases hi : p.inp
  · simp only [parseBase, baseNil]
    cases ho : nilOutcome p.admitsNil (applyAll p.rule {} p.h) <;> simp [specStep, ho] at hs ⊢ <;> exact hs
  · rfl
  · rfl

/-- The full statement over sequences. -/
def c03_ctx_seq_full : Prop := ∀ (c0 : Ctx) (ps : List PStep), seqMeetsSpec c0 ps = true

/-- **C03 for every sequence of parses through one context (full strength)**: whatever the initial context, every
    parse of the sequence (nil or non-nil input, any modifier and check-attaching calls in any order on each schema)
    yields the outcome the statement assigns to its own history and input. -/
theorem c03_ctx_seq : c03_ctx_seq_full := by
  intro c0 ps
  unfold seqMeetsSpec
  rw [runSeq_results]
  induction ps with
  | nil => rfl
  | cons p ps ih =>
    simp only [List.map_cons, List.zip_cons_cons, List.all_cons, Bool.and_eq_true]
    refine ⟨?_, ih⟩
    rw [step_eq_parseBase]
    exact specStep_parseBase p

/-- Non-vacuity: a context with the flag set by the caller, a failing prefault first, then an Optional schema with
    a valid prefault, a defaulted one, a non-nil input and a required one. -/
example :
    (runSeq ctxStep { isPrefaultContext := true, reportInput := true }
      [(⟨false, applyAll .ptrTy {} [.prefault false]⟩, .nil),
       (⟨false, applyAll .ptrTy {} [.optional, .prefaultFn true]⟩, .nil),
       (⟨false, applyAll .nilableFlag {} [.dflt false, .prefault true]⟩, .nil),
       (⟨false, applyAll .nilableFlag {} [.nonOptional]⟩, .valid),
       (⟨false, {}⟩, .nil)]).2
      = [.err .checkError, .ok (.src (.prefaultOk true)), .ok (.src (.dflt false)), .ok .inp, .err .typeError] := by
  decide

/-! ## The last clause: non-nil inputs and the type's own configuration -/

theorem applyAllC_cons {Cfg : Type} (drops : Kind → Op → Bool) (k : Kind) (rule : RefineRule) (zero : Cfg) (s : SchC Cfg)
    (op : Op) (h : List Op) :
    applyAllC drops k rule zero s (op :: h) = applyAllC drops k rule zero (applyC drops k rule zero s op) h := rfl

/-- The embedded internals of the derived schema are those of the bare history model: every theorem about
    `applyAll` (the nil outcome) speaks about the schema with its configuration too. -/
theorem applyAllC_i {Cfg : Type} (drops : Kind → Op → Bool) (k : Kind) (rule : RefineRule) (zero : Cfg) (h : List Op) :
    ∀ s : SchC Cfg, (applyAllC drops k rule zero s h).i = applyAll rule s.i h ∧
      (applyAllC drops k rule zero s h).admitsNil = s.admitsNil := by
  induction h with
  | nil => intro s; exact ⟨rfl, rfl⟩
  | cons op h ih => intro s; rw [applyAllC_cons, applyAll_cons]; exact ih (applyC drops k rule zero s op)

/-- The configuration after a history, for ANY table `drops` of configuration-dropping methods: untouched unless one
    of the calls is a dropping method — then the zero value, whatever came before or after (no modifier restores it). -/
theorem applyAllC_cfg {Cfg : Type} (drops : Kind → Op → Bool) (k : Kind) (rule : RefineRule) (zero : Cfg) (h : List Op) :
    ∀ s : SchC Cfg, (applyAllC drops k rule zero s h).cfg = if h.any (drops k) then zero else s.cfg := by
  induction h with
  | nil => intro s; rfl
  | cons op h ih =>
    intro s
    rw [applyAllC_cons, ih]
    simp only [List.any_cons, applyC]
    by_cases h1 : drops k op = true <;> by_cases h2 : h.any (drops k) = true <;> simp [h1, h2]

/-- A non-nil input never reaches a modifier branch: `processModifiersCore` answers "not handled" at once
    (`if !isNilInput(input)`, the first statement — `c03_pmc_structure_as_transcribed`), whatever the modifier state. -/
theorem processModifiers_nonNil (c : Ctx) (s : Sch) : processModifiersCtx c s .valid = (c, .notHandled) := rfl

/-- So a non-nil input is answered by the type's value parser under the schema's configuration, the context untouched. -/
theorem ctxStepX_nonNil {Cfg X Y : Type} (validate : Cfg → X → Option Y) (c : Ctx) (s : SchC Cfg) (x : X) :
    ctxStepX validate c s (some x) =
      (c, match validate s.cfg x with | some y => .accepted y | none => .rejected) := rfl

/-- The frame statement for a table `drops`: whatever the type (its kind `k`), its value parser `validate`, its
    configuration, the modifier state it starts from and the context, a non-nil input is validated after ANY history
    of modifier (and check-attaching) calls exactly as before it. -/
def nonnilFrame (drops : Kind → Op → Bool) : Prop :=
  ∀ (Cfg X Y : Type) (validate : Cfg → X → Option Y) (k : Kind) (rule : RefineRule) (zero : Cfg) (h : List Op)
    (s : SchC Cfg) (x : X) (c : Ctx),
    ctxStepX validate c (applyAllC drops k rule zero s h) (some x) = ctxStepX validate c s (some x)

/-- For any table: a history none of whose calls is a dropping method leaves non-nil inputs alone. -/
theorem c03_nonnil_frame_of {Cfg X Y : Type} (drops : Kind → Op → Bool) (validate : Cfg → X → Option Y) (k : Kind)
    (rule : RefineRule) (zero : Cfg) (h : List Op) (hk : h.any (drops k) = false) (s : SchC Cfg) (x : X) (c : Ctx) :
    ctxStepX validate c (applyAllC drops k rule zero s h) (some x) = ctxStepX validate c s (some x) := by
  rw [ctxStepX_nonNil, ctxStepX_nonNil, applyAllC_cfg, hk]; rfl

/-- **C03, last clause — full strength.** With the code's table (`dropsCfg`: no modifier method of any type rebuilds
    the internals without the configuration — `c03_cfg_drops_as_modelled`, decided over the regenerated table): for every
    type, value parser, configuration, start state, context and EVERY history of modifier and check-attaching calls, a
    non-nil input yields exactly what the schema without the modifiers yields — verdict and value (up to the static
    constraint type T / *T of the result, which the Go type of the derived schema fixes) — and leaves the context as
    it was. -/
theorem c03_nonnil_frame : nonnilFrame dropsCfg := by
  intro Cfg X Y validate k rule zero h s x c
  apply c03_nonnil_frame_of
  induction h with
  | nil => rfl
  | cons op h ih => simp only [List.any_cons, ih, Bool.or_false]; rfl

/-- The nil side of the same schema is the history model's: `c03_history` & co. apply unchanged. -/
theorem c03_frame_nil_side {Cfg X Y : Type} (drops : Kind → Op → Bool) (validate : Cfg → X → Option Y) (k : Kind)
    (rule : RefineRule) (zero : Cfg) (h : List Op) (s : SchC Cfg) (c : Ctx) :
    (ctxStepX validate c (applyAllC drops k rule zero s h) none).2 =
      .nilPath (parseBase s.admitsNil (applyAll rule s.i h) .nil) := by
  obtain ⟨hi, ha⟩ := applyAllC_i drops k rule zero h s
  simp only [ctxStepX, step_eq_parseBase, hi, ha]

/-- A record as the witnesses see it: configuration = "is the key schema there", input = "does the key schema admit
    the input's keys"; the value parser rejects inadmissible keys only while the key schema is there. -/
def recordValidate (keyed : Bool) (keysAdmitted : Bool) : Option Unit :=
  if keyed && !keysAdmitted then none else some ()

/-- The statement discriminates — before 66ed2d6: `Record(Enum("a","b"), Int()).NonOptional().Parse(map[string]int{"a": 50,
    "zzz": 50})` succeeded where `Record(Enum("a","b"), Int()).Parse(…)` reports the unrecognized key: `NonOptional`
    rebuilt the internals without `KeyType` (and `Loose`). -/
theorem c03_legacy_frame_witness_record : ¬ nonnilFrame legacyDropsCfg := by
  intro hfull
  have := hfull Bool Bool Unit recordValidate .record .nilableFlag false [.nonOptional] ⟨true, false, {}⟩ false {}
  revert this; decide

/-- A partial struct likewise: configuration = `IsPartial`, input = "are all fields non-zero and valid"; the parser
    skips zero fields only while partial. Before ef151cb `FromStruct[T]().Partial().NonOptional().Parse(T{})` was
    rejected where `FromStruct[T]().Partial().Parse(T{})` succeeds. -/
def structValidate (isPartial : Bool) (allFieldsValid : Bool) : Option Unit :=
  if isPartial || allFieldsValid then some () else none

theorem c03_legacy_frame_witness_struct : ¬ nonnilFrame legacyDropsCfg := by
  intro hfull
  have := hfull Bool Bool Unit structValidate .structp .nilableFlag false [.optional, .nonOptional] ⟨true, false, {}⟩ false {}
  revert this; decide

/-- Non-vacuity: a history with every kind of call on a record keeps the key schema, and the input that depends on it
    is still rejected; the nil side of the same schema is the default. -/
example :
    (ctxStepX recordValidate {} (applyAllC dropsCfg .record .nilableFlag false ⟨true, false, {}⟩
        [.optional, .dflt true, .nonOptional, .prefaultFn false, .nullish, .refine]) (some false)).2 = .rejected ∧
    (ctxStepX recordValidate {} (applyAllC dropsCfg .record .nilableFlag false ⟨true, false, {}⟩
        [.optional, .dflt true, .nonOptional, .prefaultFn false, .nullish]) none).2 = .nilPath (.ok (.src (.dflt false))) := by decide

/-! ## The regenerated tables (`Gozod/Gen/C03Tables.lean`, go/ast over /repo's working tree on every run)

  These are statements about the WHOLE extracted table: an edit of the source that adds a field to ParseContext,
  writes or reads one of its state fields anywhere in the library, reorders `processModifiersCore`, puts state
  handling around it in `processModifiers`, or adds a schema type with modifier methods changes a proof
  obligation here — not only a sampled run. -/

open Gozod.Gen in
/-- `Ctx` mirrors every field of `core.ParseContext`. -/
theorem c03_ctx_fields_as_modelled : C03Tables.ctxFields = ctxFieldsExpected := by decide

open Gozod.Gen in
/-- No function of the library assigns a field of a ParseContext (or through a `*ParseContext` variable) — the
    premise of `ctxStep` returning the context it was given (`step_ctx`). -/
theorem c03_ctx_never_written : (C03Tables.ctxSites.filter fun s => s.kind == "write") = [] := by decide

open Gozod.Gen in
/-- `IsPrefaultContext` is named nowhere, and `ReportInput` only by the context constructors and `FinalizeIssue`
    (attaching the raw input to a finished issue): nothing a verdict depends on reads the context's state. -/
theorem c03_ctx_state_read_only_for_messages :
    (C03Tables.ctxSites.all fun s => ctxSiteAllowed s.file s.fn s.field s.kind) = true := by decide

open Gozod.Gen in
/-- `processModifiersCore`'s branch order is the one `nilOutcome` / `processModifiersCtx` transcribe, and
    `processModifiers` / `processModifiersStrict` are that single call. -/
theorem c03_pmc_structure_as_transcribed :
    C03Tables.pmcBranches = pmcBranchesExpected ∧
    C03Tables.processModifiersBody = processModifiersBodyExpected ∧
    C03Tables.processModifiersStrictBody = processModifiersBodyExpected := by decide

open Gozod.Gen in
/-- **The non-nil branch returns before any modifier field is read** (table fact, regenerated from
    internal/engine/modifiers.go on every run): `processModifiersCore`'s first statement is
    `if !isNilInput(input) { return nil, false, nil }` — no initialiser, no else; neither it nor `isNilInput` mentions
    `internals`, `ctx` or `expectedType`. This is what makes `processModifiers_nonNil` / `ctxStepX_nonNil` (true by
    `rfl` of the model) statements about the code: the model's non-nil path does not read the modifier state because
    the real one does not. -/
theorem c03_pmc_nonnil_returns_first :
    C03Tables.pmcBranches.head? = some ("if " ++ C03Tables.pmcFirstCond) ∧
    C03Tables.pmcFirstCond = pmcFirstCondExpected ∧
    C03Tables.pmcFirstBody = pmcFirstBodyExpected ∧
    C03Tables.pmcFirstHasElse = false ∧
    C03Tables.pmcFirstIdents.any stateIdent = false ∧
    C03Tables.isNilInputIdents.any stateIdent = false := by decide

open Gozod.Gen in
/-- **Nowhere else in internal/engine does a non-nil parse read a modifier field** — every read site of the regenerated
    table is after the non-nil return of `processModifiersCore`, under an `isNilInput(input)` conjunct, in
    `resolveDefault` (whose only caller is `processModifiersCore`), in the schema-building `MergeInternalsState`, or the
    one listed fast-path test of `ParsePrimitiveStrict` (see `modifierReadAllowed`). A new read on a non-nil path
    (a modifier leaking into validation) changes the table and stops this theorem. -/
theorem c03_modifier_reads_off_nonnil_path :
    (C03Tables.modifierReads.all fun s => modifierReadAllowed s.file s.fn s.field s.kind) = true ∧
    C03Tables.resolveDefaultCallers = ["processModifiersCore"] ∧
    (C03Tables.modifierReads.any fun s => s.fn == "processModifiersCore" && s.kind == "pmc-after-nonnil-return") = true := by
  decide

open Gozod.Gen in
/-- **Every** schema type of package `types` that declares one of the eight modifier methods is built by the
    harness table (both lists are extracted: the first from the sources, the second by reflection on what the
    table's constructors return). -/
theorem c03_harness_covers_every_schema_type :
    (C03Tables.schemaTypes.all fun t => C03Tables.harnessTypes.contains t.1) = true := by decide

open Gozod.Gen in
/-- **`dropsCfg` is the code's table**: for EVERY row of the harness table (all 54 schema types and the constructor
    variants) and every one of the twelve modifier calls, the method — called on the schema as constructed and on its
    `Optional()` variant — returns a schema lacking a configuration field of its receiver exactly where the model says
    so (both directions: no unmodelled drop, no modelled drop that the code does not have). The premise of
    `c03_nonnil_frame`'s hypothesis, over the whole regenerated table. -/
theorem c03_cfg_drops_as_modelled :
    (C03Tables.cfgRows.all fun r => C03Tables.modOps.all fun op =>
      (C03Tables.cfgDrops.any fun d => d.1 == r.1 && d.2.1 == op) == cfgDropModelled r.2 op) = true := by decide

open Gozod.Gen in
/-- All twelve modifier calls are in the table, and every row's kind is one the model knows. -/
theorem c03_cfg_table_covers_modifiers :
    (C03Tables.modOps.all fun op => (modOpOfName op).isSome) = true ∧ C03Tables.modOps.length = 12 ∧
    (C03Tables.cfgRows.all fun r => r.2 == "plain" || r.2 == "record" || r.2 == "structp") = true := by decide

open Gozod.Gen in
/-- Non-vacuity: the table is not empty and the format types are in it. -/
example : C03Tables.schemaTypes.length ≥ 50 ∧ C03Tables.harnessTypes.contains "ZodBigInt" = true := by decide

end Gozod.C03
