package main

// C19 — error formatters lose nothing.
//
// Every case is one ZodError; the op line carries its issue tree
//
//	c19 <n> issue*      issue := I <code> <npath> seg* m<hex> <nbranches> (<n> issue*)* <nissues> issue*
//
// and the implementation's observation is the canonical rendering of the four reports
// gozod.FlattenError / TreeifyError / FormatError / PrettifyError (map entries sorted, strings in hex):
//
//	flat=F[form]{key:[msgs];…} tree=T[errors]{key:tree;…}(tree;…) fmt=M[errors]{key:fmt;…} pretty=P<hex>
//
// Errors come from (a) generated issue lists wrapped in a ZodError — a struct literal (nil formatter) or a
// copy of a real error with its Issues replaced (default formatter); (b) real failing Parse calls of
// generated schemas on generated values.

import (
	"encoding/hex"
	"fmt"
	"math"
	"os"
	"sort"
	"strconv"
	"strings"
	"time"

	"github.com/kaptinlin/gozod"
	"github.com/kaptinlin/gozod/core"
	"github.com/kaptinlin/gozod/types"

	"verifharness/hx"
)

func main() {
	cfg := hx.ParseFlags()
	if *genPath != "" || *genPathsPath != "" {
		if *genPath != "" {
			if err := runGen(*genPath); err != nil {
				fmt.Fprintln(os.Stderr, "translator error:", err)
				os.Exit(3)
			}
		}
		if *genPathsPath != "" {
			if err := runGenPaths(*genPathsPath); err != nil {
				fmt.Fprintln(os.Stderr, "path-type translator error:", err)
				os.Exit(3)
			}
		}
		return
	}
	if err := run(cfg); err != nil {
		fmt.Fprintln(os.Stderr, "harness error:", err)
		os.Exit(3)
	}
}

// ---------------------------------------------------------------- encoding of the issue tree

var knownCodes = []core.IssueCode{
	core.InvalidType, core.InvalidValue, core.InvalidFormat, core.InvalidUnion, core.InvalidKey, core.InvalidElement,
	core.TooBig, core.TooSmall, core.NotMultipleOf, core.UnrecognizedKeys, core.Custom, core.InvalidSchema,
	core.InvalidDiscriminator, core.IncompatibleTypes, core.MissingRequired, core.TypeConversion, core.NilPointer,
}

func isKnown(c core.IssueCode) bool {
	for _, k := range knownCodes {
		if k == c {
			return true
		}
	}
	return false
}

func hx_(s string) string { return hex.EncodeToString([]byte(s)) }

// encIssue appends the tokens of one issue.  A path element is a string (k<hex>), an int (i<n> when ≥ 0,
// j<n> for −n), or a value of any other dynamic type, which the formatters read through fmt's %v only:
// o<hex of that text>.
func encIssue(b *strings.Builder, is core.ZodIssue) bool {
	b.WriteString(" I ")
	if isKnown(is.Code) {
		b.WriteString(string(is.Code))
	} else {
		b.WriteString("?" + hx_(string(is.Code)))
	}
	b.WriteString(" " + strconv.Itoa(len(is.Path)))
	for _, el := range is.Path {
		switch v := el.(type) {
		case string:
			b.WriteString(" k" + hx_(v))
		case int:
			if v < 0 {
				b.WriteString(" j" + strconv.FormatUint(uint64(-int64(v)), 10))
			} else {
				b.WriteString(" i" + strconv.Itoa(v))
			}
		default:
			b.WriteString(" o" + hx_(fmt.Sprintf("%v", el)))
		}
	}
	b.WriteString(" m" + hx_(is.Message))
	b.WriteString(" " + strconv.Itoa(len(is.Errors)))
	for _, br := range is.Errors {
		b.WriteString(" " + strconv.Itoa(len(br)))
		for _, x := range br {
			if !encIssue(b, x) {
				return false
			}
		}
	}
	b.WriteString(" " + strconv.Itoa(len(is.Issues)))
	for _, x := range is.Issues {
		if !encIssue(b, x) {
			return false
		}
	}
	return true
}

func encIssues(list []core.ZodIssue, dm bool) (string, bool) {
	var b strings.Builder
	b.WriteString("c19 " + cfgToken + " " + dmToken(dm) + " " + strconv.Itoa(len(list)))
	for _, x := range list {
		if !encIssue(&b, x) {
			return "", false
		}
	}
	return b.String(), true
}

// ---------------------------------------------------------------- canonical rendering of the reports

// sortedKeys returns the keys in byte order (= code point order, the order the Lean driver uses).
func sortedKeys[V any](m map[string]V) []string {
	ks := make([]string, 0, len(m))
	for k := range m {
		ks = append(ks, k)
	}
	sort.Strings(ks)
	return ks
}

func rList(ms []string) string {
	h := make([]string, len(ms))
	for i, m := range ms {
		h[i] = "m" + hx_(m) // the marker keeps a list holding one empty message apart from an empty list
	}
	return "[" + strings.Join(h, ",") + "]"
}

func rFlat(f *gozod.FlattenedError) string {
	if f == nil {
		return "nil"
	}
	var ents []string
	for _, k := range sortedKeys(f.FieldErrors) {
		ents = append(ents, hx_(k)+":"+rList(f.FieldErrors[k]))
	}
	return "F" + rList(f.FormErrors) + "{" + strings.Join(ents, ";") + "}"
}

func rTree(t *gozod.ZodErrorTree) string {
	if t == nil {
		return "nil"
	}
	var ents []string
	for _, k := range sortedKeys(t.Properties) {
		ents = append(ents, hx_(k)+":"+rTree(t.Properties[k]))
	}
	items := make([]string, len(t.Items))
	for i, it := range t.Items {
		items[i] = rTree(it)
	}
	return "T" + rList(t.Errors) + "{" + strings.Join(ents, ";") + "}(" + strings.Join(items, ";") + ")"
}

func rFmt(m gozod.ZodFormattedError) string {
	if m == nil {
		return "nil"
	}
	errs := "?"
	if e, ok := m["_errors"].([]string); ok {
		errs = rList(e)
	}
	var ents []string
	for _, k := range sortedKeys(m) {
		if k == "_errors" {
			continue
		}
		sub, ok := m[k].(gozod.ZodFormattedError)
		if !ok {
			ents = append(ents, hx_(k)+":?")
			continue
		}
		ents = append(ents, hx_(k)+":"+rFmt(sub))
	}
	return "M" + errs + "{" + strings.Join(ents, ";") + "}"
}

// lastPanic keeps the text of the most recent panic of a guarded call (for the op comment).
var lastPanic string

func guarded(f func() string) string {
	var out string
	if p := hx.Safely(func() { out = f() }); p != "" {
		if i := strings.IndexByte(p, '\n'); i >= 0 {
			p = p[:i]
		}
		lastPanic = p
		return "panic"
	}
	return out
}

// ---------------------------------------------------------------- the state of the code the model is pinned to
//
// Every op line names the state of the three places Model/IssuesGo.lean keeps two transcriptions of
// (`cfg=<treeNeg><treeOther><dotOther><nilSafe>`, 1 = fixed).  Since c65f4c0 / 6ff3a13 / e8b2b50 are in /repo the
// model is PINNED to the fixed code: a tree that behaves like the old code again differs from the model.

const cfgToken = "cfg=1111"

// dmToken names in the op line whether the messages of the case are the library's own (an issue's Message, or
// the DEFAULT formatter's text where that is empty): then the clause "a non-empty error never formats to an empty
// report" is asked of all four reports unconditionally (spec column); with a user-supplied mapper / formatter,
// which may return "", PrettifyError's report is "" exactly for one root issue with an empty message
// (Gozod.C19.c19_go_prettify_empty_iff).
func dmToken(dm bool) string {
	if dm {
		return "dm=1"
	}
	return "dm=0"
}

// withNe appends the clause "a non-empty error never formats to an empty report", judged on the implementation
// alone: ne=1 iff the error has no issue, or each of the three structured reports carries at least one message
// (every message is rendered `m<hex>`; nothing else in a rendering contains an 'm') and the pretty report is
// not the empty string.
func withNe(obs string, nIssues int) string {
	ne := "1"
	if nIssues > 0 {
		for _, part := range strings.Split(obs, " ") {
			kv := strings.SplitN(part, "=", 2)
			if len(kv) != 2 {
				continue
			}
			switch kv[0] {
			case "flat", "tree", "fmt":
				if !strings.Contains(kv[1], "m") {
					ne = "0"
				}
			case "pretty":
				if kv[1] == "P" {
					ne = "0"
				}
			}
		}
	}
	return obs + " ne=" + ne
}

func observe(ze *gozod.ZodError) string {
	fl := guarded(func() string { return rFlat(gozod.FlattenError(ze)) })
	tr := guarded(func() string { return rTree(gozod.TreeifyError(ze)) })
	fm := guarded(func() string { return rFmt(gozod.FormatError(ze)) })
	pr := guarded(func() string { return "P" + hx_(gozod.PrettifyError(ze)) })
	return "flat=" + fl + " tree=" + tr + " fmt=" + fm + " pretty=" + pr
}

// ---------------------------------------------------------------- the other entry points
//
// Every report has more than one way in.  A case is observed through ONE of these variants (named in the op
// comment); the op line always carries mapper(issue) for the mapper the variant uses, so the model is the same.
//
//	default           FlattenError / TreeifyError / FormatError / PrettifyError
//	error-method      …, the pretty report taken from err.Error()
//	custom-formatter  FlattenErrorWithFormatter(e, CF) / TreeifyErrorWithMapper(e, M_CF) / FormatError(e with
//	                  SetFormatter(CF)) / PrettifyErrorWithFormatter(e, CF); M_CF = own message, else CF's output
//	custom-mapper     FlattenErrorWithMapper(e, M2) / TreeifyErrorWithMapper(e, M2); FormatError and PrettifyError
//	                  (no mapper entry point is exported for them) on the error whose messages are M2's outputs
//	with-mapper-default  FlattenErrorWithMapper / TreeifyErrorWithMapper with the identity-on-Message mapper,
//	                  PrettifyErrorWithFormatter(e, e.Formatter())
//	blank-formatter   as custom-formatter, with a formatter that returns "" for root issues and for `custom`
//	                  ones: an issue without a message of its own then HAS the empty message (the hypothesis
//	                  `msg ≠ ""` of c19_nonempty / c19_go_nonempty is not met; its witness is re-derived here)

type customFormatter struct{}

func (customFormatter) FormatMessage(raw core.ZodRawIssue) string {
	return "CF<" + string(raw.Code) + "#" + strconv.Itoa(len(raw.Path)) + ">"
}

// mCF is what defaultIssueMapper(customFormatter{}) must compute, written here from its documentation.
func mCF(is core.ZodIssue) string {
	if is.Message != "" {
		return is.Message
	}
	return "CF<" + string(is.Code) + "#" + strconv.Itoa(len(is.Path)) + ">"
}

type blankFormatter struct{}

func (blankFormatter) FormatMessage(raw core.ZodRawIssue) string {
	if len(raw.Path) == 0 || raw.Code == core.Custom {
		return ""
	}
	return "BF<" + string(raw.Code) + ">"
}

// mBF is what defaultIssueMapper(blankFormatter{}) must compute, written here from its documentation.
func mBF(is core.ZodIssue) string {
	if is.Message != "" {
		return is.Message
	}
	if len(is.Path) == 0 || is.Code == core.Custom {
		return ""
	}
	return "BF<" + string(is.Code) + ">"
}

func m2(is core.ZodIssue) string {
	return "<" + string(is.Code) + "@" + strconv.Itoa(len(is.Path)) + ">" + is.Message
}

// mapDeep returns a deep copy of the list with every Message replaced by f(issue).
func mapDeep(list []core.ZodIssue, f func(core.ZodIssue) string) []core.ZodIssue {
	if list == nil {
		return nil
	}
	out := make([]core.ZodIssue, len(list))
	for i, is := range list {
		is.Message = f(list[i])
		if is.Errors != nil {
			brs := make([][]core.ZodIssue, len(is.Errors))
			for j, br := range is.Errors {
				brs[j] = mapDeep(br, f)
			}
			is.Errors = brs
		}
		is.Issues = mapDeep(is.Issues, f)
		out[i] = is
	}
	return out
}

var variants = []string{"default", "error-method", "custom-formatter", "custom-mapper", "with-mapper-default", "blank-formatter"}

// defaultMessages: the variant's messages are the library's own (see dmToken)
func defaultMessages(variant string) bool {
	return variant == "default" || variant == "error-method" || variant == "with-mapper-default"
}

// observeVia returns the issue list whose messages are mapper(issue) for the variant's mapper (nil = the
// library's default mapper: `filled` asks the library) and the observation through the variant's entry points.
func observeVia(variant string, ze *gozod.ZodError) ([]core.ZodIssue, string) {
	part := func(name string, f func() string) string { return name + "=" + guarded(f) }
	join := func(ps ...string) string { return strings.Join(ps, " ") }
	switch variant {
	case "error-method":
		return nil, join(
			part("flat", func() string { return rFlat(gozod.FlattenError(ze)) }),
			part("tree", func() string { return rTree(gozod.TreeifyError(ze)) }),
			part("fmt", func() string { return rFmt(gozod.FormatError(ze)) }),
			part("pretty", func() string { return "P" + hx_(ze.Error()) }))
	case "custom-formatter":
		cf := customFormatter{}
		withCF := *ze
		withCF.SetFormatter(cf)
		return mapDeep(ze.Issues, mCF), join(
			part("flat", func() string { return rFlat(gozod.FlattenErrorWithFormatter(ze, cf)) }),
			part("tree", func() string { return rTree(gozod.TreeifyErrorWithMapper(ze, mCF)) }),
			part("fmt", func() string { return rFmt(gozod.FormatError(&withCF)) }),
			part("pretty", func() string { return "P" + hx_(gozod.PrettifyErrorWithFormatter(ze, cf)) }))
	case "blank-formatter":
		bf := blankFormatter{}
		withBF := *ze
		withBF.SetFormatter(bf)
		return mapDeep(ze.Issues, mBF), join(
			part("flat", func() string { return rFlat(gozod.FlattenErrorWithFormatter(ze, bf)) }),
			part("tree", func() string { return rTree(gozod.TreeifyErrorWithMapper(ze, mBF)) }),
			part("fmt", func() string { return rFmt(gozod.FormatError(&withBF)) }),
			part("pretty", func() string { return "P" + hx_(gozod.PrettifyErrorWithFormatter(ze, bf)) }))
	case "custom-mapper":
		mapped := *ze
		mapped.Issues = mapDeep(ze.Issues, m2)
		return mapped.Issues, join(
			part("flat", func() string { return rFlat(gozod.FlattenErrorWithMapper(ze, m2)) }),
			part("tree", func() string { return rTree(gozod.TreeifyErrorWithMapper(ze, m2)) }),
			part("fmt", func() string { return rFmt(gozod.FormatError(&mapped)) }),
			part("pretty", func() string { return "P" + hx_(gozod.PrettifyError(&mapped)) }))
	case "with-mapper-default":
		return nil, join(
			part("flat", func() string { return rFlat(gozod.FlattenErrorWithFormatter(ze, ze.Formatter())) }),
			part("tree", func() string { return rTree(gozod.TreeifyError(ze)) }),
			part("fmt", func() string { return rFmt(gozod.FormatError(ze)) }),
			part("pretty", func() string { return "P" + hx_(gozod.PrettifyErrorWithFormatter(ze, ze.Formatter())) }))
	}
	return nil, observe(ze)
}

// ---------------------------------------------------------------- synthesised issue lists

var keyPool = []string{
	"a", "b", "user", "name", "items", "A_1", "x9", // plain identifiers
	"0", "1", "12", "007", "7up", // look like numbers / start with a digit
	"a.b", "user.name", "x y", "first-name", "k\"]", "[0]", "é", "名", "", // need quoting
	"-a\"][\"-b", "-a", "-b", "a\\", "a\\\"", "x[1]", "x", "\"", "\\", "a\"].b", // quotes, backslashes, brackets
	"_errors", "errors", "properties", "formErrors", // names the reports use themselves
}
var idxPool = []int{0, 0, 1, 1, 2, 3, 5, 7, 12, 19}
var otherCodes = []core.IssueCode{"my_code", "nonoptional", "", "invalid type", "INVALID_TYPE"}

// path elements that are neither string nor non-negative int: the library itself files map keys and set
// elements of any comparable type in paths (types/map.go, types/set.go), and users build paths freely.
type namedKey string
type point struct{ X, Y int }
type stringer struct{ s string }

func (s stringer) String() string { return s.s }

var exoticPool = []any{
	-1, -1, -2, -7, -12, math.MinInt64 + 1, // negative ints
	int64(0), int64(1), int64(-1), int8(3), uint(0), uint8(2), uint64(7), // other integer types
	1.5, 0.0, -2.5, float32(2), math.Inf(1), 1e21, // floats
	true, false, nil, 'a', complex(1, 2),
	namedKey("a"), namedKey("0"), namedKey("a.b"), namedKey(""), namedKey("_errors"), namedKey("\"a.b\""), // named string types
	point{1, 2}, [2]int{0, 1}, struct{}{}, time.Second, // structs, arrays, Stringers
	stringer{"a"}, stringer{"0"}, stringer{"\"k\""}, stringer{"_errors"}, stringer{"-1"}, stringer{"x]"},
	errString("boom"),
}

type errString string

func (e errString) Error() string { return string(e) }

type synth struct {
	r        *hx.Rng
	next     int
	dup      bool
	odd      bool
	blank    bool
	exotic   bool // this list draws path elements of other dynamic types too (a fifth of the lists)
	maxDepth int // nesting depth of wrapper issues: 3, or 6 for a tenth of the lists
}

func (g *synth) msg() string {
	g.next++
	if g.blank && g.r.Chance(20) {
		return "" // the formatters then ask the error's MessageFormatter
	}
	if g.dup && g.r.Chance(30) {
		return "m" + strconv.Itoa(g.r.Intn(g.next))
	}
	if g.odd && g.r.Chance(20) {
		return hx.Pick(g.r, []string{"a; b", "x: y", "; ", ": ", "Validation failed", " ", "[0]: m"}) + strconv.Itoa(g.next)
	}
	return "m" + strconv.Itoa(g.next)
}

func (g *synth) path(maxLen int) []any {
	n := g.r.Intn(maxLen + 1)
	p := make([]any, 0, n)
	for i := 0; i < n; i++ {
		if g.exotic && g.r.Chance(35) {
			p = append(p, hx.Pick(g.r, exoticPool))
		} else if g.r.Chance(35) {
			p = append(p, hx.Pick(g.r, idxPool))
		} else if g.r.Chance(60) {
			p = append(p, keyPool[g.r.Intn(7)])
		} else {
			p = append(p, hx.Pick(g.r, keyPool))
		}
	}
	return p
}

func (g *synth) code() core.IssueCode {
	if g.r.Chance(8) {
		return hx.Pick(g.r, otherCodes)
	}
	if g.r.Chance(35) {
		return hx.Pick(g.r, []core.IssueCode{core.InvalidUnion, core.InvalidKey, core.InvalidElement})
	}
	return hx.Pick(g.r, knownCodes)
}

func (g *synth) issue(depth int) core.ZodIssue {
	is := core.ZodIssue{}
	is.Code = g.code()
	is.Path = g.path(max(4-depth, 1))
	if g.r.Chance(5) {
		is.Path = nil
	}
	is.Message = g.msg()
	if depth < g.maxDepth {
		// Errors/Issues are filled for wrapper codes mostly, and now and then for any code
		wantBr := is.Code == core.InvalidUnion && g.r.Chance(75) || g.r.Chance(4)
		wantIs := (is.Code == core.InvalidKey || is.Code == core.InvalidElement) && g.r.Chance(65) || g.r.Chance(4)
		if wantBr {
			nb := g.r.Intn(4)
			is.Errors = make([][]core.ZodIssue, nb)
			for i := range is.Errors {
				for k := g.r.Intn(4); k > 0; k-- {
					is.Errors[i] = append(is.Errors[i], g.issue(depth+1))
				}
			}
		}
		if wantIs {
			for k := g.r.Intn(4); k > 0; k-- {
				is.Issues = append(is.Issues, g.issue(depth+1))
			}
		}
	}
	return is
}

func (g *synth) list() []core.ZodIssue {
	n := 0
	switch {
	case g.r.Chance(4):
		n = 0
	case g.r.Chance(45):
		n = 1 + g.r.Intn(3)
	default:
		n = g.r.Intn(21)
	}
	g.next = 0
	g.dup = g.r.Chance(25)
	g.odd = g.r.Chance(25)
	g.blank = g.r.Chance(15)
	g.exotic = g.r.Chance(20)
	g.maxDepth = 3
	if g.r.Chance(10) {
		g.maxDepth = 6
	}
	if n == 0 && g.r.Bool() {
		return nil // a ZodError whose Issues slice was never set
	}
	l := make([]core.ZodIssue, 0, n)
	for i := 0; i < n; i++ {
		if i > 0 && g.r.Chance(6) {
			l = append(l, l[g.r.Intn(i)]) // the very same issue reported twice
			continue
		}
		l = append(l, g.issue(0))
	}
	return l
}

// mapperOutput is mapper(issue) as the library computes it for an issue without a message of its
// own: the single issue, moved to the root, flattened on an error that has the default formatter.
func mapperOutput(base *gozod.ZodError, is core.ZodIssue) string {
	cp := *base
	is.Path = nil
	cp.Issues = []core.ZodIssue{is}
	var out string
	if p := hx.Safely(func() { out = gozod.FlattenError(&cp).FormErrors[0] }); p != "" {
		return "<mapper-panicked>"
	}
	return out
}

// filled returns a deep copy of the list in which every empty message is replaced by mapper(issue):
// that is what the op line (and so the model, whose Issue.msg stands for mapper(issue)) carries.
func filled(base *gozod.ZodError, list []core.ZodIssue) []core.ZodIssue {
	if list == nil {
		return nil
	}
	out := make([]core.ZodIssue, len(list))
	for i, is := range list {
		if is.Message == "" {
			is.Message = mapperOutput(base, is)
		}
		if is.Errors != nil {
			brs := make([][]core.ZodIssue, len(is.Errors))
			for j, br := range is.Errors {
				brs[j] = filled(base, br)
			}
			is.Errors = brs
		}
		is.Issues = filled(base, is.Issues)
		out[i] = is
	}
	return out
}

// ---------------------------------------------------------------- real failing Parse calls

type schemaGen struct{ r *hx.Rng }

var fieldPool = []string{"a", "b", "name", "0", "a.b", "x y", "_errors", "items", "t", "v"}

func (g *schemaGen) leaf() (core.ZodSchema, string) {
	switch g.r.Intn(9) {
	case 0:
		return gozod.String().Min(3), "String().Min(3)"
	case 1:
		return gozod.String().Email(), "String().Email()"
	case 2:
		return gozod.Int().Min(5).MultipleOf(2), "Int().Min(5).MultipleOf(2)"
	case 3:
		return gozod.Int().Max(3), "Int().Max(3)"
	case 4:
		return gozod.Bool(), "Bool()"
	case 5:
		return gozod.Literal("x"), `Literal("x")`
	case 6:
		return gozod.Enum("a", "b"), `Enum("a","b")`
	case 7:
		return gozod.String().Max(1).StartsWith("q"), "String().Max(1).StartsWith(q)"
	default:
		return gozod.Float64().Positive(), "Float64().Positive()"
	}
}

func (g *schemaGen) schema(depth int) (core.ZodSchema, string) {
	if depth >= 3 || g.r.Chance(30) {
		return g.leaf()
	}
	switch g.r.Intn(9) {
	case 0, 1:
		shape := core.ObjectSchema{}
		var ds []string
		for k := 1 + g.r.Intn(3); k > 0; k-- {
			f := hx.Pick(g.r, fieldPool)
			if _, dup := shape[f]; dup {
				continue
			}
			s, d := g.schema(depth + 1)
			shape[f] = s
			ds = append(ds, strconv.Quote(f)+":"+d)
		}
		if g.r.Chance(30) {
			return gozod.StrictObject(shape), "StrictObject{" + strings.Join(ds, ",") + "}"
		}
		return gozod.Object(shape), "Object{" + strings.Join(ds, ",") + "}"
	case 2:
		s, d := g.schema(depth + 1)
		return gozod.Slice[any](s), "Slice[any](" + d + ")"
	case 3:
		var items []any
		var ds []string
		for k := 1 + g.r.Intn(3); k > 0; k-- {
			s, d := g.schema(depth + 1)
			items = append(items, s)
			ds = append(ds, d)
		}
		return gozod.Array(items...), "Array(" + strings.Join(ds, ",") + ")"
	case 4:
		var items []core.ZodSchema
		var ds []string
		for k := 1 + g.r.Intn(3); k > 0; k-- {
			s, d := g.schema(depth + 1)
			items = append(items, s)
			ds = append(ds, d)
		}
		return gozod.Tuple(items...), "Tuple(" + strings.Join(ds, ",") + ")"
	case 5:
		var opts []any
		var ds []string
		for k := 1 + g.r.Intn(3); k > 0; k-- {
			s, d := g.schema(depth + 1)
			opts = append(opts, s)
			ds = append(ds, d)
		}
		return gozod.Union(opts), "Union(" + strings.Join(ds, ",") + ")"
	case 6:
		s, d := g.schema(depth + 1)
		return types.Record(gozod.String().Min(2), s), "Record(String().Min(2)," + d + ")"
	case 7:
		s, d := g.schema(depth + 1)
		switch g.r.Intn(6) {
		case 4:
			ks, kd := hx.Pick(g.r, []core.ZodSchema{gozod.Int(), gozod.Float64(), gozod.Bool(), gozod.Any(), gozod.String(), gozod.Int64()}), ""
			kd = fmt.Sprintf("%T", ks)
			return gozod.Map(ks, s), "Map(" + kd + "," + d + ")"
		case 5:
			l, ld := g.leaf()
			return gozod.Set[any](l), "Set[any](" + ld + ")"
		case 0:
			return gozod.Map(gozod.String(), s), "Map(String()," + d + ")"
		case 1:
			s2, d2 := g.schema(depth + 1)
			return gozod.Intersection(s, s2), "Intersection(" + d + "," + d2 + ")"
		case 2:
			return gozod.DiscriminatedUnion("t", []any{
				gozod.Object(core.ObjectSchema{"t": gozod.Literal("a"), "v": s}),
				gozod.Object(core.ObjectSchema{"t": gozod.Literal("b")}),
			}), `DiscriminatedUnion("t",[Object{t:"a",v:` + d + `},Object{t:"b"}])`
		default:
			return gozod.Object(core.ObjectSchema{"t": gozod.String().Optional(), "v": s}).Refine(func(map[string]any) bool { return false }),
				"Object{t:String().Optional(),v:" + d + "}.Refine(false)"
		}
	default:
		return g.leaf()
	}
}

// keys of map[any]any / elements of map[any]struct{} values: the library files them in issue paths as they are
var anyKeyPool = []any{"a", "b", "0", "_errors", 0, 1, 2, -1, -3, int64(0), int64(5), uint8(1), 1.5, -0.5, true, false,
	namedKey("a"), point{1, 2}, [2]int{0, 1}, time.Second, stringer{"a"}, 'x'}

func (g *schemaGen) value(depth int) (any, string) {
	k := g.r.Intn(12)
	if depth >= 3 && k >= 6 {
		k = g.r.Intn(6)
	}
	switch k {
	case 10:
		m := map[any]any{}
		var ds []string
		for c := 1 + g.r.Intn(3); c > 0; c-- {
			key := hx.Pick(g.r, anyKeyPool)
			if _, dup := m[key]; dup {
				continue
			}
			v, d := g.value(depth + 1)
			m[key] = v
			ds = append(ds, fmt.Sprintf("%#v:%s", key, d))
		}
		return m, "map[any]any{" + strings.Join(ds, ",") + "}"
	case 11:
		m := map[any]struct{}{}
		var ds []string
		for c := 1 + g.r.Intn(3); c > 0; c-- {
			key := hx.Pick(g.r, anyKeyPool)
			m[key] = struct{}{}
		}
		for key := range m {
			ds = append(ds, fmt.Sprintf("%#v", key))
		}
		sort.Strings(ds)
		return m, "map[any]struct{}{" + strings.Join(ds, ",") + "}"
	case 0:
		s := hx.Pick(g.r, []string{"", "x", "ab", "hello", "a@b.co", "ABC", "a", "b"})
		return s, strconv.Quote(s)
	case 1:
		n := hx.Pick(g.r, []int{-1, 0, 2, 3, 4, 5, 6, 7, 100})
		return n, strconv.Itoa(n)
	case 2:
		b := g.r.Bool()
		return b, strconv.FormatBool(b)
	case 3:
		return nil, "nil"
	case 4:
		f := hx.Pick(g.r, []float64{-1.5, 0, 2.5})
		return f, strconv.FormatFloat(f, 'g', -1, 64)
	case 5:
		return "x", `"x"`
	case 6, 7:
		m := map[string]any{}
		var ds []string
		for c := g.r.Intn(4); c > 0; c-- {
			f := hx.Pick(g.r, fieldPool)
			if _, dup := m[f]; dup {
				continue
			}
			v, d := g.value(depth + 1)
			m[f] = v
			ds = append(ds, strconv.Quote(f)+":"+d)
		}
		return m, "map{" + strings.Join(ds, ",") + "}"
	default:
		var l []any
		var ds []string
		for c := g.r.Intn(4); c > 0; c-- {
			v, d := g.value(depth + 1)
			l = append(l, v)
			ds = append(ds, d)
		}
		if l == nil {
			l = []any{}
		}
		return l, "[" + strings.Join(ds, ",") + "]"
	}
}

// ---------------------------------------------------------------- main loop

func run(c hx.Config) error {
	o, err := hx.NewOut(c.OutDir)
	if err != nil {
		return err
	}
	r := hx.NewRng(c.Seed)

	// a real error to borrow the default formatter from
	_, e0 := gozod.String().Parse(1)
	var base *gozod.ZodError
	if !gozod.IsZodError(e0, &base) {
		return fmt.Errorf("String().Parse(1) did not return a ZodError")
	}

	emit := func(list []core.ZodIssue, ze *gozod.ZodError, how string) {
		variant := "default"
		if i := strings.Index(how, " corpus via "); i >= 0 {
			variant, how = how[i+len(" corpus via "):], how[:i+len(" corpus")]
		} else if !strings.HasSuffix(how, "corpus") && r.Chance(45) {
			variant = hx.Pick(r, variants[1:])
		}
		lastPanic = ""
		mapped, obs := observeVia(variant, ze)
		if mapped == nil {
			mapped = filled(base, list)
		}
		obs = withNe(obs, len(list))
		op, _ := encIssues(mapped, defaultMessages(variant))
		if lastPanic != "" {
			how += " [a call panicked: " + lastPanic + "]"
			o.Count("panicked")
		}
		o.Emit(op+" # "+how+" via "+variant, obs)
		o.Count("source:" + strings.SplitN(how, " ", 2)[0])
		o.Count("entry:" + variant)
		o.Count(fmt.Sprintf("issues:%02d", min(len(list), 20)))
		o.Count(fmt.Sprintf("nesting:%d", nesting(list)))
		for _, is := range list {
			o.Count("code:" + string(is.Code))
			o.Count(fmt.Sprintf("pathlen:%d", min(len(is.Path), 6)))
			if len(is.Path) > 0 {
				o.Count("first-segment:" + segClass(is.Path[0]))
			}
			for _, el := range is.Path[min(1, len(is.Path)):] {
				o.Count("later-segment:" + segClass(el))
			}
		}
	}

	// corpus: the shapes of the first sightings
	corpus := [][]core.ZodIssue{
		{mk(core.Custom, []any{-1}, "m1")},
		{mk(core.Custom, []any{"a", 1.5}, "m1"), mk(core.Custom, []any{"a"}, "m2")},
		{mk(core.Custom, []any{int64(0)}, "m1"), mk(core.Custom, []any{0}, "m2")},
		{mk(core.Custom, []any{namedKey("\"a.b\"")}, "m1"), mk(core.Custom, []any{"a.b"}, "m2")},
		{mk(core.Custom, []any{nil, true, point{1, 2}}, "m1")},
		{},
		{mk(core.InvalidUnion, nil, "m1")},
		{mk(core.InvalidElement, []any{0}, "m1")},
		{mk("my_code", []any{"a"}, "m1")},
		{mk(core.Custom, []any{"_errors", "z"}, "m1")},
		{mk(core.Custom, []any{"a", "_errors"}, "m1")},
		{mk(core.Custom, []any{"a.b"}, "m1"), mk(core.Custom, []any{"a", "b"}, "m2")},
		{mk(core.Custom, []any{"0"}, "m1"), mk(core.Custom, []any{0}, "m2")},
		{mk(core.Custom, []any{7}, "m1")},
		{mk(core.InvalidType, []any{"a"}, "")},
	}
	for _, l := range corpus {
		emit(l, &gozod.ZodError{Issues: l}, "synth-literal corpus")
	}
	// the witness of c19_go_prettify_nonempty_full_false on the real code (a formatter that returns ""), and its
	// neighbours: two such issues, one with a path, one with a message of its own, the default formatter
	for _, l := range [][]core.ZodIssue{
		{mk(core.Custom, nil, "")},
		{mk(core.Custom, nil, ""), mk(core.InvalidType, nil, "")},
		{mk(core.Custom, []any{"a"}, "")},
		{mk(core.Custom, nil, "m1")},
		{mk(core.InvalidUnion, nil, "")},
	} {
		emit(l, &gozod.ZodError{Issues: l}, "synth-literal corpus via blank-formatter")
		emit(l, &gozod.ZodError{Issues: l}, "synth-literal corpus via default")
		emit(l, &gozod.ZodError{Issues: l}, "synth-literal corpus via error-method")
	}

	// a nil *ZodError (what `var ze *gozod.ZodError` is before IsZodError fills it): it has no issues
	emitNil := func() {
		lastPanic = ""
		var nz *gozod.ZodError
		obs := withNe(observe(nz), 0)
		how := "nil-error"
		if lastPanic != "" {
			how += " [a call panicked: " + lastPanic + "]"
			o.Count("panicked")
		}
		o.Emit("c19 "+cfgToken+" dm=1 nil # "+how+" via default", obs)
		o.Count("source:nil-error")
		o.Count("entry:default")
	}
	emitNil()

	nSynth, nParse := 6000, 6000
	if c.Thorough() {
		nSynth, nParse = 150000, 150000
	}
	if *aim != "" {
		// a modelled Go function was edited since its fingerprint was recorded: every synthesised case reaches all
		// four formatters and ToDotPath, so the aimed run is simply a larger one
		nSynth *= 4
		o.Count("aimed:" + *aim)
	}
	g := &synth{r: r}
	for i := 0; i < nSynth; i++ {
		l := g.list()
		if r.Bool() {
			emit(l, &gozod.ZodError{Issues: l}, "synth-literal")
		} else {
			cp := *base
			cp.Issues = l
			emit(l, &cp, "synth-on-real-error")
		}
	}

	sg := &schemaGen{r: r}
	made := 0
	for tries := 0; made < nParse && tries < nParse*20; tries++ {
		s, sd := sg.schema(0)
		v, vd := sg.value(0)
		var perr error
		if p := hx.Safely(func() { _, perr = s.ParseAny(v) }); p != "" {
			o.Count("skipped:parse-panicked")
			continue
		}
		if perr == nil {
			o.Count("parse:accepted")
			continue
		}
		var ze *gozod.ZodError
		if !gozod.IsZodError(perr, &ze) {
			o.Count("skipped:not-a-zoderror")
			continue
		}
		made++
		emit(ze.Issues, ze, "parse "+sd+".Parse("+vd+")")
	}
	return o.Close(map[string]any{"parse_errors": made})
}

// nesting is the depth of the deepest nested issue (0 = no issue has branch errors or sub-issues).
func nesting(list []core.ZodIssue) int {
	d := 0
	for _, is := range list {
		for _, br := range is.Errors {
			if len(br) > 0 {
				d = max(d, 1+nesting(br))
			}
		}
		if len(is.Issues) > 0 {
			d = max(d, 1+nesting(is.Issues))
		}
	}
	return d
}

// segClass names how ToDotPath has to write a segment.
func segClass(el any) string {
	k, ok := el.(string)
	if !ok {
		if n, isInt := el.(int); isInt {
			if n < 0 {
				return "int-negative"
			}
			return "index"
		}
		return fmt.Sprintf("other-type:%T", el)
	}
	switch {
	case k == "":
		return "key-empty"
	case strings.ContainsAny(k, "\"\\"):
		return "key-quoted-with-quote-or-backslash"
	}
	plain := !(k[0] >= '0' && k[0] <= '9')
	for _, c := range k {
		if !(c >= 'a' && c <= 'z' || c >= 'A' && c <= 'Z' || c >= '0' && c <= '9' || c == '_') {
			plain = false
		}
	}
	if plain {
		return "key-identifier"
	}
	return "key-quoted"
}

func mk(code core.IssueCode, path []any, msg string) core.ZodIssue {
	is := core.ZodIssue{}
	is.Code, is.Path, is.Message = code, path, msg
	return is
}
