import Gozod.Drv.Loop
import Gozod.Drv.C09
def main : IO Unit := Gozod.Drv.runLines Gozod.Drv.C09.handleLine
