/-
  Gozod.Model.UVal — one value domain for the check engine across schema types (C10, round 4):
  strings (`String()`), integers (`Int()/IntPtr()`), slices of integers (`Slice(Int())`) and a
  two-field object (`Object({a: Int, b: Int})`). `executeChecks` is the same function for all of
  them; `Gozod.runFrom` is generic in the value type, so the same model runs with `V := UV`.

  Predicates are the built-in checks of each type plus the harness' fixed family of user callbacks
  (refinements, when-guards, multi-issue `Check` functions); overwrites are the string built-ins and
  the fixed family of custom overwrite functions per type; transforms are the fixed family, including
  type-changing ones (string → int, int → string, slice → int, …) for Transform/Pipe chains across types.
  The theorems quantify over every environment; this file only fixes the one the correspondence runs.
-/
import Gozod.Model.Str
import Gozod.Model.StrU
namespace Gozod.UVal
open Gozod

inductive UV where
  | str (b : Bytes)
  | int (i : Int)
  | ints (l : List Int)
  | obj (a b : Int)
  | nil                                    -- a nil interface value (a Transform may return it)
  deriving Repr, DecidableEq, Inhabited

/-- The kind of a value: which base schema accepts it (`s` String, `i` Int, `l` Slice[int], `o` Object). -/
def UV.kind : UV → String
  | .str _ => "s" | .int _ => "i" | .ints _ => "l" | .obj _ _ => "o" | .nil => "n"

inductive UPred where
  | s (p : Str.SPred)                      -- the string checks (on `str` values)
  | igte (n : Int) | ilte (n : Int) | igt (n : Int) | ilt (n : Int) | imul (n : Int)   -- Int: Gte/Min, Lte/Max, Gt, Lt, MultipleOf
  | lmin (n : Nat) | lmax (n : Nat) | llen (n : Nat)                                   -- Slice: Min, Max, Length (NonEmpty = Min 1)
  | measurable                             -- the built-in `When` of the size checks (checks.MinSize/MaxSize/Size:
                                           -- `reflectx.HasSize(v) || reflectx.HasLength(v)`): true on a slice value
  | custom (k : Nat)                       -- Refine / when callbacks: fixed family on every kind of value
  | multi (k : Nat)                        -- `Check(fn)`: fn pushes `issueCount k v` issues; holds iff it pushes none
  deriving Repr, DecidableEq

inductive UOw where
  | s (o : Str.SOw)
  | custom (k : Nat)
  deriving Repr, DecidableEq

def sum : List Int → Int
  | [] => 0
  | x :: xs => x + sum xs

/-- The fixed family of user predicates (mirrored in harness/cmd/c10/uval.go). -/
def customPred (k : Nat) : UV → Bool
  | .str b => Str.customPred k b
  | .int i =>
    match k % 6 with
    | 0 => i % 2 == 0
    | 1 => i > 0
    | 2 => false
    | 3 => true
    | 4 => i ≥ 3
    | _ => i == 1
  | .ints l =>
    match k % 6 with
    | 0 => l.length % 2 == 0
    | 1 => l.contains 7
    | 2 => false
    | 3 => true
    | 4 => l.length ≥ 3
    | _ => l.head? == some 1
  | .obj a b =>
    match k % 6 with
    | 0 => (a + b) % 2 == 0
    | 1 => a < b
    | 2 => false
    | 3 => true
    | 4 => a ≥ 3
    | _ => b == 1
  | .nil => false

/-- How many issues the fixed `Check` function number `k` pushes on a value. -/
def issueCount (k : Nat) (v : UV) : Nat :=
  match k % 4 with
  | 0 => if customPred 0 v then 0 else 2
  | 1 => if customPred 4 v then 0 else 1
  | 2 => 3
  | _ => 0

/-- The fixed family of custom overwrites. -/
def customOw (k : Nat) : UV → UV
  | .str b => .str (Str.customOw k b)
  | .int i =>
    match k % 4 with
    | 0 => .int (i + 1)
    | 1 => .int (i * 2)
    | 2 => .int (-i)
    | _ => .int (i - 3)
  | .ints l =>
    match k % 4 with
    | 0 => .ints (l ++ [7])
    | 1 => .ints (l.drop 1)
    | 2 => .ints l.reverse
    | _ => .ints (l ++ [0])
  | .obj a b =>
    match k % 4 with
    | 0 => .obj (a + 1) b
    | 1 => .obj b a
    | 2 => .obj a (b * 2)
    | _ => .obj (a - 3) b
  | .nil => .nil

/-- Decimal rendering of an integer as bytes (`strconv.Itoa`). -/
def itoa (i : Int) : Bytes := (toString i).toUTF8.toList.map (·.toNat)

/-- The fixed family of transforms. Below 100: same type in, same type out; from 100: type-changing. -/
def customTrV (k : Nat) : UV → UV
  | .nil => .nil
  | .str b => if k == 100 then .int b.length else if k == 103 then .ints [b.length, 1] else .str (Str.customTr k b)
  | .int i =>
    if k == 101 then .str (itoa i) else if k == 103 then .ints [i, i] else if k == 104 then .obj i 1
    else match k % 3 with
      | 0 => .int (i + 10)
      | 1 => .int (i * 3)
      | _ => .int (-i)
  | .ints l =>
    if k == 100 then .int l.length else if k == 102 then .int (sum l)
    else match k % 3 with
      | 0 => .ints (l ++ [9])
      | 1 => .ints (5 :: l)
      | _ => .ints l.reverse
  | .obj a b =>
    if k == 102 then .int (a + b)
    else match k % 3 with
      | 0 => .obj (a + 10) b
      | 1 => .obj a (b + 1)
      | _ => .obj b a

/-- Transform 105 returns nil whatever it is given (a Transform callback may return `nil, nil`). -/
def customTr (k : Nat) (v : UV) : UV := if k == 105 then .nil else customTrV k v

def holds : UPred → UV → Bool
  | .s p, .str b => Str.holds p b
  | .igte n, .int i => i ≥ n
  | .ilte n, .int i => i ≤ n
  | .igt n, .int i => i > n
  | .ilt n, .int i => i < n
  | .imul n, .int i => n != 0 && Int.tmod i n == 0
  | .lmin n, .ints l => l.length ≥ n
  | .lmax n, .ints l => l.length ≤ n
  | .llen n, .ints l => l.length == n
  | .measurable, _ => true
  | .custom k, v => customPred k v
  | .multi k, v => issueCount k v == 0
  | _, _ => false                          -- a built-in check on a value of another kind (not generated)

def apply : UOw → UV → UV
  | .s o, .str b => .str (StrU.apply o b)
  | .s _, v => v
  | .custom k, v => customOw k v

def env : Env UPred UOw Nat UV := ⟨holds, apply, customTr⟩

end Gozod.UVal
