import Gozod.Drv.Loop
import Gozod.Drv.C18
def main : IO Unit := Gozod.Drv.runTokens Gozod.Drv.C18.handle
