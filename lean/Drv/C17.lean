import Gozod.Drv.Loop
import Gozod.Drv.C17
def main : IO Unit := Gozod.Drv.runTokens Gozod.Drv.C17.handle
