"""C10 — checks run in attachment order; overwrites feed later checks; abort stops them; transform/pipe."""
import os, subprocess
from . import common as C

MANIFEST = dict(
   technique="Lean 4 proof by list induction over executeChecks (loop invariant Inv/Post, generic in value type and in all user callbacks; validatePointer's pointer pass for strings and for containers; typed Transform/Pipe pipelines) + differential correspondence of the model and of an independent clause-by-clause judge against real string, integer, slice and object schemas with logging callbacks + go/ast structure fingerprint of the engine loop + behavioural table of what every schema type's wrappers do with a raw pointer payload, regenerated on every run",
   text="Theorems c10_value_threading, c10_issue_order, c10_first_failing, c10_abort_stops, c10_ok_iff_no_fail, c10_runOn_ok_iff, c10_abort_stops_all (abort over the whole callback log, pointer inputs included), c10_container_all / c10_container_ok_iff / c10_container_abort (container schemas, which route every input through validatePointer), c10_transform_once, c10_pipe(_ok_iff), c10_pipeT_ok_iff + c10_base_type_error (the target's type dispatch is part of 'both succeed'), c10_base_ok_iff/_ok_value hold for every check list, input and environment of callbacks (no bound on length); c10_generic_all / c10_generic_ok_iff / c10_generic_abort: the same for EVERY schema type and input route, whatever its wrappers do with the raw pointer payload of validatePointer's second pass (strings and containers are instances: runChecksG_string, runChecksG_container) — an overwrite is applied to the value once; c10_baseG_ok_iff / c10_baseG_type_error / c10_pipeG_ok_iff / c10_pipeG_first_fails / c10_transformG_once: pipelines with each stage's type dispatch, a type error names its stage; c10_rawclass_expected / _total / _containers / _strings over the whole regenerated table Gen/RawClass.lean. The model (executeChecks, validatePointer as of /repo 49e6e91, ZodTransform/ZodPipe) is tied to /repo by (1) real String()/StringPtr() pipelines, (2) pipelines over String / StringPtr / Int / IntPtr / Slice[int] / Object bases, value and pointer inputs of every kind, root pipes through ZodIntegerTyped.Pipe, with built-in checks, Refine/RefineAny/Check (multi-issue)/Overwrite, abort and when, Transform/Pipe chains across types incl. nil-returning transforms and ill-typed pipe targets, comparing verdict, value, issue positions and multiplicities, callback log, and judging the implementation's observation clause by clause (seenAt/failsAt/abortAt) independently of the model's loop, (3) the go/ast statement skeleton of executeChecks, CheckAborted, RunChecksOnValue, ApplyChecks, hasOverwriteCheck, validatePointerWithOverwrite, validatePointer, validateWithChecks compared with Model/ChecksShape.lean.",
   note="Trusted: Lean kernel; axioms propext/Classical.choice/Quot.sound at most; Go harness + comparer; the raw-payload table is behavioural (one probe per cell) and matters for the callback log only (c10_rawclass_irrelevant). Built-in check evaluations are not observable (only user callbacks are logged). Value threading over the whole callback log is false for pointer inputs with overwrites (the pointer pass after acceptance calls When guards on the un-overwritten payload): witness c10_first_pass_witness, open finding; c10_value_threading_partial states the excluded region. The defects of the code before 49e6e91 are kept as theorems about legacyRunChecksOn / legacyRunChecksC.",
   design="DESIGN.md §5 C10; notes/C10.md")

MODULES = ["Gozod.Proofs.C10", "Gozod.Proofs.C10C", "Gozod.Proofs.C10G", "Gozod.Proofs.C10Raw"]
THEOREMS = ["Gozod.C10." + t for t in [
    "runChecks_post", "c10_value_threading", "c10_issue_order", "c10_first_failing", "c10_abort_stops",
    "c10_ok_iff_no_fail", "c10_ok_value", "firstPass_early", "c10_runOn_issues", "c10_runOn_ok_iff",
    "c10_value_threading_partial", "c10_abort_stops_partial", "c10_transform_once", "c10_pipe",
    "c10_pipe_ok_iff", "c10_base_ok_iff", "c10_base_ok_value", "c10_first_pass_witness",
    "c10_abort_stops_all", "c10_legacy_runOn_issues", "c10_legacy_first_pass_witness",
    "firstPassC_cooked", "firstPassC_vacFree", "runFrom_issues_ne_nil", "firstPassC_of_ok", "c10_container_all",
    "c10_container_ok_iff", "c10_container_abort", "c10_legacy_container_partial", "c10_legacy_container_witness",
    "parsePipelineK_erase", "parsePipelineT_typed", "c10_pipeT_ok_iff", "c10_base_type_error",
    "firstPassG_cooked", "firstPassG_issues_ne_nil", "firstPassG_of_ok", "c10_generic_all", "c10_generic_ok_iff", "c10_generic_abort",
    "firstPassG_container", "runChecksG_container", "firstPassG_string", "runChecksG_string",
    "c10_baseG_ok_iff", "c10_baseG_ok_value", "c10_baseG_type_error", "c10_pipeG_ok_iff", "c10_pipeG_first_fails", "c10_transformG_once",
    "c10_rawclass_expected", "c10_rawclass_total", "c10_rawclass_refany", "c10_rawclass_containers", "c10_rawclass_strings", "c10_rawclass_irrelevant"]]

def key(op, impl, M, S):
    how = C.op_comment(op)
    body = C.op_body(op)
    if body.startswith("c10shape"):
        return "shape:" + body.split(" ")[1]
    if impl.startswith("panic"): return "panic"
    if "?history-dependent" in impl:
        # judged on the implementation alone: the same chain built in one go and built with a parse after every
        # prefix (history=parse-after-every-prefix) gave different observations
        return "history-dependent:" + ("string" if body.startswith("c10 ") else "universal")
    reason = S[len("spec-rejects:"):] if (S or "").startswith("spec-rejects:") else "observation-differs"
    if "Int.Pipe(" in how:
        # the directed family: a Pipe built with ZodIntegerTyped.Pipe (hands the target an int64 copy)
        return "int-method-pipe:" + reason
    if "Refine(CustomParams)" in how:
        # the directed family: CustomParams handed to ZodIntegerTyped.Refine
        return "int-refine-customparams:" + reason
    # a pointer to a string somewhere in the pipeline (input or a StringPtr() stage) first: that is where the
    # pointer pass of validatePointer is observable for strings; container stages otherwise
    if "*" in body.split(" | ")[-1] or "StringPtr" in how:
        where = "ptr"
    elif "Slice[" in how or "Object{" in how:
        where = "container"
    else:
        where = "val"
    modelled = "first-pass" if impl == M else "unmodelled"
    return "%s:%s:%s" % (reason, where, modelled)

def describe(op):
    return ("harness/cmd/c10: B <tag> <ptr> <n> checks… = gozod.String()/StringPtr() with the listed checks (message m<tag>.<pos>), "
            "T = .Transform, P = .Pipe; input hex (trailing * = passed as *string). c10u lines: B <tag> <kind> … with kind s/i/l/o = String / Int / Slice[int](Int()) / "
            "Object{a: Int, b: Int}; checks igte/ilte/igt/ilt/imul n = Gte|Min/Lte|Max/Gt/Lt/MultipleOf, lmin/lmax/llen n = Min/Max/Length, ref k abort when = Refine/RefineAny "
            "with CustomParams, chk k abort when = Check(fn pushing issueCount k issues), ow k = Overwrite(custom k); values i<int> l<ints> o<a>:<b>; the schema names are in the op comment. "
            "Comment 'history=parse-after-every-prefix': the chain is built step by step and every prefix (String(), then each schema a check / overwrite / refinement returned, "
            "then every inner Transform / Pipe stage) is PARSED (the case's input by value / by pointer, other values, a float, nil) before the next step is attached to it; "
            "'?history-dependent' = that build and the build in one go gave different observations on the same input. "
            "c10shape <func>: go/ast statement skeleton of internal/engine/{checker,parser}.go vs lean/Gozod/Model/ChecksShape.lean")

GEN_RAW = os.path.join(C.LEAN, "Gozod", "Gen", "RawClass.lean")

def translate(res):
    """Regenerate Gen/RawClass.lean: what every (schema type, check kind) does with the raw pointer payload of
    validatePointer's pass over the pointer, probed through the public API of REPO (written only when changed)."""
    ok, out = C.build_harness("C10")
    if not ok:
        return "harness does not build against the current tree:\n" + out[-3000:]
    before = open(GEN_RAW).read() if os.path.exists(GEN_RAW) else ""
    rc, out = C.run([C.harness_bin("C10"), "-out", C.BUILD, "-gen-rawclass", GEN_RAW], env=C.goenv(), timeout=300)
    if rc != 0:
        return "translator failed (rc=%d): %s" % (rc, out[-2000:])
    if open(GEN_RAW).read() != before:
        res.notes.append("lean/Gozod/Gen/RawClass.lean changed and was rewritten")
    return ""

def raw_offenders():
    try:
        p = subprocess.run([C.driver_bin("C10")], input="c10raw offenders\n", capture_output=True, text=True, timeout=120)
        return p.stdout.strip()
    except Exception as e:
        return "(driver unavailable: %s)" % e

def run(res):
    with C.Lock("c10-gen"):
        return _run(res)

def _run(res):
    err = translate(res)
    if err:
        C.tie_broken(res, "translator C10/RawClass", err)
        return res.finish()
    ok, detail = C.prove(res, MODULES, THEOREMS)
    if not ok:
        if "C10Raw" in detail or "c10_rawclass" in detail:
            C.lake_build(["driver_c10"])
            detail = ("the raw-payload classification probed from the current tree differs from the expectation in Model/RawClassSpec.lean:\n  "
                      + raw_offenders().replace(" ; ", "\n  ") + "\n\n" + detail)
        C.tie_broken(res, "proof Gozod.Proofs.C10", detail)
    data, err = C.correspond(res, "C10", extra_args=["-repo", C.REPO], feed_impl=True)
    if data is None:
        C.tie_broken(res, "correspondence C10/executeChecks", err)
        return res.finish()
    C.decide(res, "C10", data, key, "C10/executeChecks+validatePointer+transform+pipe", describe=describe)
    res.coverage["rule"] = ("c10 lines: random pipelines of String()/StringPtr() bases with 0-8 checks drawn from Min/Max/Length/StartsWith/EndsWith/Includes/"
        "Lowercase/Uppercase (constants near the input's length / fragments of the input), Trim/ToLowerCase/ToUpperCase/custom overwrites, "
        "refinements (35% abort, 35% when-guard), wrapped 0-3 deep in Transform/Pipe; ASCII inputs of length 0-8 incl. leading/trailing spaces, passed as string or *string. "
        "c10u lines: bases String / StringPtr / Int / IntPtr / Slice[int](Int()) / Object{a,b}, inputs as values or (35%) pointers, with 0-6 checks (built-ins of the type, Refine/RefineAny with CustomParams, multi-issue Check functions pushing 0-3 issues, custom overwrites), "
        "0-3 levels of Transform/Pipe with same-type, type-changing and nil-returning transforms, 8% pipe targets of another kind than their input (type errors observed and judged per stage), root pipes from an Int base through ZodIntegerTyped.Pipe (PM); "
        "c10shape lines: one per fingerprinted engine function. distinct = distinct op lines.")
    res.assumptions += ["callbacks are the harness' fixed deterministic family (theorems quantify over all)",
                        "a Default short-circuiting a Transform (documented in ZodTransform.Parse) is read as outside 'on a type-correct input'"]
    return res.finish()
