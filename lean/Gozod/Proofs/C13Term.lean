/-
  C13 — "gozodgen terminates", over the model of the analyzer's type conversion (`Model/GenTerm.lean`).

  PART 1 — the live analyzer (/repo HEAD, `typesToReflectTypeOn` with the stack of named types):
  * `convV_measure_named`, `convV_measure_child`: the measure Lean's termination checker accepted for `convV`, stated:
    unfolding a named type removes it from `rem` (first component drops), every other recursive call is on a proper
    subterm with the same `rem` (second component drops).
  * `c13_term` (FULL statement, true): for EVERY environment of named types — recursive ones included — and every field type,
    some fuel suffices for `convS` (the statement-by-statement transcription, where termination is not built in), and the
    result is `convV env (range |env|) t`.  `c13_term_prog`: the same for every field of a program.
  * `convS_mono`: more fuel never changes the answer.
  * the driver's `tconv` op renders `convV`'s result and the run compares it with the reflect.Type the real analyzer built
    for the same type graph (hook `GOZODGEN_VERIF_TYPES`).

  PART 2 — LEGACY witnesses about `convF`, the analyzer BEFORE 65a0069 (nothing executes it any more):
  * `c13_term_legacy_full` is FALSE: `type A []A` (`c13_term_diverges`, `c13_term_full_false`).
  * `c13_term_acyclic`, `c13_term_struct_graphs`: where the old code did terminate; `c13_fix_agrees_acyclic`: on those
    (ranked) environments the live conversion returns what the old one returned — 65a0069 changed nothing there.
-/
import Gozod.Model.GenTerm
namespace Gozod.C13
open Gozod.GenTerm

/-! ## Part 1 — the live analyzer -/

/-- the measure, named type: `n` leaves `rem` -/
theorem convV_measure_named (rem : List Nat) (n : Nat) (h : n ∈ rem) (u : GT) :
    Prod.Lex (· < ·) (· < ·) (convMeasure (rem.erase n) u) (convMeasure rem (.named n)) := by
  apply Prod.Lex.left
  rw [List.length_erase_of_mem h]
  exact Nat.sub_lt (List.length_pos_of_mem h) (by decide)

/-- the measure, structural calls: same `rem`, smaller type -/
theorem convV_measure_child (rem : List Nat) (e k v : GT) :
    Prod.Lex (· < ·) (· < ·) (convMeasure rem e) (convMeasure rem (.pointer e)) ∧
    Prod.Lex (· < ·) (· < ·) (convMeasure rem e) (convMeasure rem (.slice e)) ∧
    Prod.Lex (· < ·) (· < ·) (convMeasure rem e) (convMeasure rem (.array e)) ∧
    Prod.Lex (· < ·) (· < ·) (convMeasure rem k) (convMeasure rem (.map k v)) ∧
    Prod.Lex (· < ·) (· < ·) (convMeasure rem v) (convMeasure rem (.map k v)) := by
  refine ⟨?_, ?_, ?_, ?_, ?_⟩ <;> (apply Prod.Lex.right; simp [GT.size]; try omega)

theorem convS_mono (env : Env) : ∀ (f : Nat) (st : List Nat) (t : GT) (r : RT), convS env f st t = some r → convS env (f + 1) st t = some r
  | 0, st, t, r, h => by simp [convS] at h
  | f + 1, st, t, r, h => by
    cases t with
    | basic => simpa [convS] using h
    | pointer e =>
      simp only [convS, Option.map_eq_some_iff] at h ⊢
      obtain ⟨a, ha, rfl⟩ := h
      exact ⟨a, convS_mono env f st e a ha, rfl⟩
    | slice e =>
      simp only [convS, Option.map_eq_some_iff] at h ⊢
      obtain ⟨a, ha, rfl⟩ := h
      exact ⟨a, convS_mono env f st e a ha, rfl⟩
    | array e =>
      simp only [convS, Option.map_eq_some_iff] at h ⊢
      obtain ⟨a, ha, rfl⟩ := h
      exact ⟨a, convS_mono env f st e a ha, rfl⟩
    | map k v =>
      simp only [convS] at h
      cases hk : convS env f st k with
      | none => simp [hk] at h
      | some a =>
        cases hv : convS env f st v with
        | none => simp [hk, hv] at h
        | some b =>
          simp [hk, hv] at h; subst h
          simp [convS, convS_mono env f st k a hk, convS_mono env f st v b hv]
    | named n =>
      simp only [convS] at h ⊢
      by_cases hc : st.contains n = true
      · rw [if_pos hc] at h ⊢; exact h
      · rw [if_neg hc] at h ⊢
        cases hn : env[n]? with
        | none => simpa [hn] using h
        | some u => simp only [hn] at h ⊢; exact convS_mono env f (st ++ [n]) u r h
    | time => simpa [convS] using h
    | struct => simpa [convS] using h
    | iface => simpa [convS] using h
    | other => simpa [convS] using h

theorem convS_mono_le (env : Env) (st : List Nat) (t : GT) (r : RT) : ∀ (f g : Nat), f ≤ g → convS env f st t = some r → convS env g st t = some r := by
  intro f g hle
  induction hle with
  | refl => exact id
  | step _ ih => intro h; exact convS_mono env _ st t r (ih h)

/-- how the stack of the Go function and the `rem` of `convV` correspond: `rem` lists, without repetition, exactly the
    named types of the environment that are not on the stack -/
def Inv (env : Env) (rem st : List Nat) : Prop := rem.Nodup ∧ ∀ n, n < env.length → (n ∈ rem ↔ n ∉ st)

theorem inv_step (env : Env) (rem st : List Nat) (n : Nat) (hI : Inv env rem st) : Inv env (rem.erase n) (st ++ [n]) := by
  refine ⟨hI.1.erase n, ?_⟩
  intro m hm
  rw [hI.1.mem_erase_iff]
  constructor
  · rintro ⟨hne, hmem⟩
    intro hin
    rcases List.mem_append.mp hin with h | h
    · exact ((hI.2 m hm).mp hmem) h
    · exact hne (by simpa using h)
  · intro hnot
    have h1 : m ∉ st := fun h => hnot (List.mem_append.mpr (Or.inl h))
    have h2 : m ≠ n := fun h => hnot (List.mem_append.mpr (Or.inr (by simp [h])))
    exact ⟨h2, (hI.2 m hm).mpr h1⟩

/-- every call of the live function returns, with `convV`'s answer — by the recursion `convV` itself is defined by -/
theorem convS_complete (env : Env) (rem : List Nat) (t : GT) (st : List Nat) (hI : Inv env rem st) :
    ∃ f, convS env f st t = some (convV env rem t) := by
  match t with
  | .basic => exact ⟨1, by simp [convS, convV]⟩
  | .time => exact ⟨1, by simp [convS, convV]⟩
  | .struct => exact ⟨1, by simp [convS, convV]⟩
  | .iface => exact ⟨1, by simp [convS, convV]⟩
  | .other => exact ⟨1, by simp [convS, convV]⟩
  | .pointer e =>
    obtain ⟨f, hf⟩ := convS_complete env rem e st hI
    exact ⟨f + 1, by simp [convS, convV, hf]⟩
  | .slice e =>
    obtain ⟨f, hf⟩ := convS_complete env rem e st hI
    exact ⟨f + 1, by simp [convS, convV, hf]⟩
  | .array e =>
    obtain ⟨f, hf⟩ := convS_complete env rem e st hI
    exact ⟨f + 1, by simp [convS, convV, hf]⟩
  | .map k v =>
    obtain ⟨fk, hfk⟩ := convS_complete env rem k st hI
    obtain ⟨fv, hfv⟩ := convS_complete env rem v st hI
    have h1 := convS_mono_le env st k _ fk (max fk fv) (Nat.le_max_left _ _) hfk
    have h2 := convS_mono_le env st v _ fv (max fk fv) (Nat.le_max_right _ _) hfv
    exact ⟨max fk fv + 1, by simp [convS, convV, h1, h2]⟩
  | .named n =>
    by_cases h : n ∈ rem
    · cases hn : env[n]? with
      | none =>
        refine ⟨1, ?_⟩
        by_cases hc : n ∈ st <;> simp [convS, convV, h, hn, hc]
      | some u =>
        have hlt : n < env.length := by
          rcases Nat.lt_or_ge n env.length with h' | h'
          · exact h'
          · rw [List.getElem?_eq_none h'] at hn; cases hn
        have hns : n ∉ st := (hI.2 n hlt).mp h
        obtain ⟨f, hf⟩ := convS_complete env (rem.erase n) u (st ++ [n]) (inv_step env rem st n hI)
        exact ⟨f + 1, by simp [convS, convV, h, hn, hns, hf]⟩
    · refine ⟨1, ?_⟩
      by_cases hc : n ∈ st
      · simp [convS, convV, h, hc]
      · cases hn : env[n]? with
        | none => simp [convS, convV, h, hn, hc]
        | some u =>
          exfalso
          have hlt : n < env.length := by
            rcases Nat.lt_or_ge n env.length with h' | h'
            · exact h'
            · rw [List.getElem?_eq_none h'] at hn; cases hn
          exact h ((hI.2 n hlt).mpr hc)
termination_by (rem.length, t.size)
decreasing_by
  all_goals simp_wf
  all_goals first
    | (apply Prod.Lex.right; simp [GT.size]; try omega)
    | (apply Prod.Lex.left; rw [List.length_erase_of_mem h]; exact Nat.sub_lt (List.length_pos_of_mem h) (by decide))

theorem inv_init (env : Env) : Inv env (List.range env.length) [] :=
  ⟨List.nodup_range, fun n hn => by simp [hn]⟩

/-- **Termination of the live analyzer — the FULL statement**: for every environment of named types (self-referential and
    mutually recursive ones included) and every field type, the conversion as written in /repo HEAD returns, and what it
    returns is `convV env (range |env|) t` (a named type met again on the way down has become `any`). -/
theorem c13_term (env : Env) (t : GT) : ∃ f, convS env f [] t = some (convV env (List.range env.length) t) :=
  convS_complete env _ t [] (inv_init env)

theorem c13_term_all (env : Env) : ∀ ts : List GT, ∃ f, ∀ t ∈ ts, convS env f [] t = some (convV env (List.range env.length) t)
  | [] => ⟨0, fun _ h => by cases h⟩
  | t :: ts => by
    obtain ⟨f1, h1⟩ := c13_term env t
    obtain ⟨f2, h2⟩ := c13_term_all env ts
    refine ⟨max f1 f2, fun t' ht' => ?_⟩
    rcases List.mem_cons.mp ht' with rfl | hm
    · exact convS_mono_le env [] _ _ f1 _ (Nat.le_max_left _ _) h1
    · exact convS_mono_le env [] t' _ f2 _ (Nat.le_max_right _ _) (h2 t' hm)

/-- … for every field of every struct of a program at once: one fuel value serves all -/
theorem c13_term_prog (p : Prog) : ∃ f, p.fields.map (convS p.env f []) = (analyzeV p).map some := by
  obtain ⟨f, hf⟩ := c13_term_all p.env p.fields
  refine ⟨f, ?_⟩
  unfold analyzeV
  rw [List.map_map]
  exact List.map_congr_left (fun t ht => by simp [hf t ht])

/-- the self-referential types the legacy analyzer diverged on, under the live one: `type A []A` is `[]any`, `type M map[int]M` … -/
example : convV [.slice (.named 0)] [0] (.named 0) = .slice .any := by simp [convV]
example : convS [.slice (.named 0)] 3 [] (.named 0) = some (.slice .any) := by decide
example : convS [.slice (.named 1), .slice (.named 0)] 5 [] (.named 0) = some (.slice (.slice .any)) := by decide
example : convS [.map .basic (.named 0)] 3 [] (.pointer (.named 0)) = none ∧ convS [.map .basic (.named 0)] 4 [] (.pointer (.named 0)) = some (.ptr (.map .basic .any)) := by decide

/-! ## Part 2 — LEGACY: the analyzer before 65a0069 (`convF`), witnesses only -/


theorem convF_mono (env : Env) : ∀ (f : Nat) (t : GT) (r : RT), convF env f t = some r → convF env (f + 1) t = some r
  | 0, t, r, h => by simp [convF] at h
  | f + 1, t, r, h => by
    cases t with
    | basic => simpa [convF] using h
    | pointer e =>
      simp only [convF, Option.map_eq_some_iff] at h ⊢
      obtain ⟨a, ha, rfl⟩ := h
      exact ⟨a, convF_mono env f e a ha, rfl⟩
    | slice e =>
      simp only [convF, Option.map_eq_some_iff] at h ⊢
      obtain ⟨a, ha, rfl⟩ := h
      exact ⟨a, convF_mono env f e a ha, rfl⟩
    | array e =>
      simp only [convF, Option.map_eq_some_iff] at h ⊢
      obtain ⟨a, ha, rfl⟩ := h
      exact ⟨a, convF_mono env f e a ha, rfl⟩
    | map k v =>
      simp only [convF] at h
      cases hk : convF env f k with
      | none => simp [hk] at h
      | some a =>
        cases hv : convF env f v with
        | none => simp [hk, hv] at h
        | some b =>
          simp [hk, hv] at h; subst h
          simp [convF, convF_mono env f k a hk, convF_mono env f v b hv]
    | named n =>
      simp only [convF] at h ⊢
      cases hn : env[n]? with
      | none => simpa [hn] using h
      | some u => simp only [hn] at h ⊢; exact convF_mono env f u r h
    | time => simpa [convF] using h
    | struct => simpa [convF] using h
    | iface => simpa [convF] using h
    | other => simpa [convF] using h

theorem convF_mono_le (env : Env) (t : GT) (r : RT) : ∀ (f g : Nat), f ≤ g → convF env f t = some r → convF env g t = some r := by
  intro f g hle
  induction hle with
  | refl => exact id
  | step _ ih => intro h; exact convF_mono env _ t r (ih h)

/-- LEGACY full statement (about the code before 65a0069): the conversion of every type in every environment terminates. -/
def c13_term_full : Prop := ∀ (env : Env) (t : GT), ∃ f, (convF env f t).isSome

/-- `type A []A`: the conversion of `A` never terminates (no amount of fuel suffices) -/
theorem c13_term_diverges : ∀ f, convF [.slice (.named 0)] f (.named 0) = none ∧ convF [.slice (.named 0)] f (.slice (.named 0)) = none
  | 0 => by simp [convF]
  | f + 1 => by
    obtain ⟨h1, h2⟩ := c13_term_diverges f
    constructor
    · simp [convF, h2]
    · simp [convF, h1]

theorem c13_term_full_false : ¬ c13_term_full := by
  intro h
  obtain ⟨f, hf⟩ := h [.slice (.named 0)] (.named 0)
  rw [(c13_term_diverges f).1] at hf
  cases hf

/-- ranked environments: the underlying type of a named type mentions only names of lower rank -/
def refsBelow (rank : Nat → Nat) (bound : Nat) : GT → Prop
  | .pointer e | .slice e | .array e => refsBelow rank bound e
  | .map k v => refsBelow rank bound k ∧ refsBelow rank bound v
  | .named n => rank n < bound
  | _ => True

def Ranked (env : Env) (rank : Nat → Nat) : Prop := ∀ n u, env[n]? = some u → refsBelow rank (rank n) u

theorem term_ranked (env : Env) (rank : Nat → Nat) (hr : Ranked env rank) :
    ∀ (b : Nat) (t : GT), refsBelow rank b t → ∃ f, (convF env f t).isSome := by
  intro b
  induction b using Nat.strongRecOn with
  | _ b ihb =>
    intro t
    induction t with
    | basic => intro _; exact ⟨1, rfl⟩
    | time => intro _; exact ⟨1, rfl⟩
    | struct => intro _; exact ⟨1, rfl⟩
    | iface => intro _; exact ⟨1, rfl⟩
    | other => intro _; exact ⟨1, rfl⟩
    | pointer e ih =>
      intro h; obtain ⟨f, hf⟩ := ih h
      refine ⟨f + 1, ?_⟩
      cases hc : convF env f e with
      | none => simp [hc] at hf
      | some a => simp [convF, hc]
    | slice e ih =>
      intro h; obtain ⟨f, hf⟩ := ih h
      refine ⟨f + 1, ?_⟩
      cases hc : convF env f e with
      | none => simp [hc] at hf
      | some a => simp [convF, hc]
    | array e ih =>
      intro h; obtain ⟨f, hf⟩ := ih h
      refine ⟨f + 1, ?_⟩
      cases hc : convF env f e with
      | none => simp [hc] at hf
      | some a => simp [convF, hc]
    | map k v ihk ihv =>
      intro h
      obtain ⟨fk, hfk⟩ := ihk h.1
      obtain ⟨fv, hfv⟩ := ihv h.2
      refine ⟨max fk fv + 1, ?_⟩
      cases hk : convF env fk k with
      | none => simp [hk] at hfk
      | some a =>
        cases hv : convF env fv v with
        | none => simp [hv] at hfv
        | some c =>
          have h1 := convF_mono_le env k a fk (max fk fv) (Nat.le_max_left _ _) hk
          have h2 := convF_mono_le env v c fv (max fk fv) (Nat.le_max_right _ _) hv
          simp [convF, h1, h2]
    | named n =>
      intro h
      cases hn : env[n]? with
      | none => exact ⟨1, by simp [convF, hn]⟩
      | some u =>
        obtain ⟨f, hf⟩ := ihb (rank n) h u (hr n u hn)
        refine ⟨f + 1, ?_⟩
        simpa [convF, hn] using hf

/-- **Termination on ranked (acyclic) environments**, all field types. -/
theorem c13_term_acyclic (env : Env) (rank : Nat → Nat) (hr : Ranked env rank) (t : GT) :
    ∃ f, (convF env f t).isSome := by
  -- every type has all its names below some bound
  have hb : ∀ t : GT, ∃ b, refsBelow rank b t := by
    intro t
    induction t with
    | pointer e ih => exact ih
    | slice e ih => exact ih
    | array e ih => exact ih
    | map k v ihk ihv =>
      obtain ⟨bk, hk⟩ := ihk; obtain ⟨bv, hv⟩ := ihv
      have mono : ∀ (t : GT) (a b : Nat), a ≤ b → refsBelow rank a t → refsBelow rank b t := by
        intro t
        induction t with
        | pointer e ih => exact ih
        | slice e ih => exact ih
        | array e ih => exact ih
        | map k v ihk ihv => intro a b hab h; exact ⟨ihk a b hab h.1, ihv a b hab h.2⟩
        | named n => intro a b hab h; exact Nat.lt_of_lt_of_le h hab
        | _ => intro _ _ _ _; trivial
      exact ⟨max bk bv, mono k _ _ (Nat.le_max_left _ _) hk, mono v _ _ (Nat.le_max_right _ _) hv⟩
    | named n => exact ⟨rank n + 1, Nat.lt_succ_self _⟩
    | _ => exact ⟨0, trivial⟩
  obtain ⟨b, h⟩ := hb t
  exact term_ranked env rank hr b t h

/-- **Circular struct graphs terminate**: if every named type of the package is a struct type — whatever its fields
    refer to — every field type is converted, because `Named → Underlying() = *types.Struct` ends in the default case. -/
theorem c13_term_struct_graphs (env : Env) (hs : ∀ u ∈ env, u = .struct) (t : GT) : ∃ f, (convF env f t).isSome := by
  apply c13_term_acyclic env (fun _ => 0)
  intro n u hn
  have := hs u (List.mem_of_getElem? hn)
  subst this
  trivial

-- Node { Next *Node; Children []*Node }, Department ⇄ Employee: three struct types, fields pointing at each other
example : ∃ f, (convF [.struct, .struct, .struct] f (.slice (.pointer (.named 2)))).isSome :=
  c13_term_struct_graphs _ (by simp) _
example : analyzeF ⟨[.struct, .struct, .struct], [.basic, .pointer (.named 0), .slice (.pointer (.named 0)), .pointer (.named 2), .map .basic (.named 1)]⟩ 4 = true := by decide

theorem refsBelow_mono (rank : Nat → Nat) : ∀ (t : GT) (a b : Nat), a ≤ b → refsBelow rank a t → refsBelow rank b t := by
  intro t
  induction t with
  | pointer e ih => exact ih
  | slice e ih => exact ih
  | array e ih => exact ih
  | map k v ihk ihv => intro a b hab h; exact ⟨ihk a b hab h.1, ihv a b hab h.2⟩
  | named n => intro a b hab h; exact Nat.lt_of_lt_of_le h hab
  | _ => intro _ _ _ _; trivial

theorem fix_agrees_ranked (env : Env) (rank : Nat → Nat) (hr : Ranked env rank) :
    ∀ (b : Nat) (t : GT) (rem : List Nat), refsBelow rank b t → (∀ m, m < env.length → rank m < b → m ∈ rem) →
      ∃ f, convF env f t = some (convV env rem t) := by
  intro b
  induction b using Nat.strongRecOn with
  | _ b ihb =>
    intro t
    induction t with
    | basic => intro _ _ _; exact ⟨1, by simp [convF, convV]⟩
    | time => intro _ _ _; exact ⟨1, by simp [convF, convV]⟩
    | struct => intro _ _ _; exact ⟨1, by simp [convF, convV]⟩
    | iface => intro _ _ _; exact ⟨1, by simp [convF, convV]⟩
    | other => intro _ _ _; exact ⟨1, by simp [convF, convV]⟩
    | pointer e ih =>
      intro rem h hrem; obtain ⟨f, hf⟩ := ih rem h hrem
      exact ⟨f + 1, by simp [convF, convV, hf]⟩
    | slice e ih =>
      intro rem h hrem; obtain ⟨f, hf⟩ := ih rem h hrem
      exact ⟨f + 1, by simp [convF, convV, hf]⟩
    | array e ih =>
      intro rem h hrem; obtain ⟨f, hf⟩ := ih rem h hrem
      exact ⟨f + 1, by simp [convF, convV, hf]⟩
    | map k v ihk ihv =>
      intro rem h hrem
      obtain ⟨fk, hfk⟩ := ihk rem h.1 hrem
      obtain ⟨fv, hfv⟩ := ihv rem h.2 hrem
      have h1 := convF_mono_le env k _ fk (max fk fv) (Nat.le_max_left _ _) hfk
      have h2 := convF_mono_le env v _ fv (max fk fv) (Nat.le_max_right _ _) hfv
      exact ⟨max fk fv + 1, by simp [convF, convV, h1, h2]⟩
    | named n =>
      intro rem h hrem
      cases hn : env[n]? with
      | none =>
        refine ⟨1, ?_⟩
        by_cases hm : n ∈ rem <;> simp [convF, convV, hn, hm]
      | some u =>
        have hlt : n < env.length := by
          rcases Nat.lt_or_ge n env.length with h' | h'
          · exact h'
          · rw [List.getElem?_eq_none h'] at hn; cases hn
        have hm : n ∈ rem := hrem n hlt h
        obtain ⟨f, hf⟩ := ihb (rank n) h u (rem.erase n) (hr n u hn) (fun m hml hmr =>
          (List.mem_erase_of_ne (fun e => by subst e; exact Nat.lt_irrefl _ hmr)).mpr (hrem m hml (Nat.lt_trans hmr h)))
        exact ⟨f + 1, by simp [convF, convV, hn, hm, hf]⟩

/-- **65a0069 changed nothing where the old analyzer terminated normally** (ranked = acyclic environments, the circular
    struct graphs of the testdata included): the live conversion returns exactly what the legacy one returned. -/
theorem c13_fix_agrees_acyclic (env : Env) (rank : Nat → Nat) (hr : Ranked env rank) (t : GT) :
    ∃ f, convF env f t = some (convV env (List.range env.length) t) := by
  have hb : ∃ b, refsBelow rank b t := by
    induction t with
    | pointer e ih => exact ih
    | slice e ih => exact ih
    | array e ih => exact ih
    | map k v ihk ihv =>
      obtain ⟨bk, hk⟩ := ihk; obtain ⟨bv, hv⟩ := ihv
      exact ⟨max bk bv, refsBelow_mono rank k _ _ (Nat.le_max_left _ _) hk, refsBelow_mono rank v _ _ (Nat.le_max_right _ _) hv⟩
    | named n => exact ⟨rank n + 1, Nat.lt_succ_self _⟩
    | _ => exact ⟨0, trivial⟩
  obtain ⟨b, h⟩ := hb
  exact fix_agrees_ranked env rank hr b t _ h (fun m hm _ => by simp [hm])

end Gozod.C13
