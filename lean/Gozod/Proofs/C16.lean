/-
  C16 — numeric bounds and multiples are decided exactly over each type's whole range.

  Property theorems only.  Model: `Gozod.Model.Num` (transcription of
  `pkg/validate.compareNumeric`, `cmpInts`, `cmpIntFloat`, `multipleOfInts`).
-/
import Gozod.Model.Num

namespace Gozod.C16
open Gozod

/-- A `Num` is well-formed when its payload fits the Go type that holds it. -/
def Num.wf : Num → Prop
  | .i v => IntTy.i64.inRange v
  | .u v => IntTy.u64.inRange v
  | .f _ => True

theorem ofInt_wf (t : IntTy) (v : Int) (h : t.inRange v) : Num.wf (Num.ofInt t v) := by
  cases t <;> simp [Num.ofInt, IntTy.signed, Num.wf, IntTy.inRange, IntTy.lo, IntTy.hi, IntTy.bits] at * <;> omega

theorem ofInt_toF (t : IntTy) (v : Int) : (Num.ofInt t v).toF = F.ofInt v := by
  unfold Num.ofInt; split <;> rfl

/-! ### integers against integers -/

theorem castU64_id (a : Int) (h0 : 0 ≤ a) (h1 : a < 2 ^ 64) : castU64 a = a := by
  unfold castU64; exact Int.emod_eq_of_lt h0 h1

/-- The integer payload of an integer-holding `Num`. -/
def ival : Num → Int
  | .i v => v | .u v => v | .f _ => 0

def isInt : Num → Bool
  | .f _ => false | _ => true

/-- `cmpInts` is the mathematical order, for every pairing of signed/unsigned holders. -/
theorem cmpInts_exact (a b : Num) (ha : Num.wf a) (hb : Num.wf b)
    (hfa : isInt a = true) (hfb : isInt b = true) :
    cmpInts a b = compare (ival a) (ival b) := by
  cases a with
  | f x => simp [isInt] at hfa
  | i va =>
    cases b with
    | f x => simp [isInt] at hfb
    | i vb => rfl
    | u vb =>
      simp only [cmpInts, ival]
      simp only [Num.wf, IntTy.inRange, IntTy.lo, IntTy.hi, IntTy.signed, IntTy.bits] at ha hb
      simp only [Bool.false_eq_true, ↓reduceIte] at ha hb
      split
      · next h => rw [eq_comm, Int.compare_eq_lt]; omega
      · next h => rw [castU64_id va (by omega) (by omega)]
  | u va =>
    cases b with
    | f x => simp [isInt] at hfb
    | u vb => rfl
    | i vb =>
      simp only [cmpInts, ival]
      simp only [Num.wf, IntTy.inRange, IntTy.lo, IntTy.hi, IntTy.signed, IntTy.bits] at ha hb
      simp only [Bool.false_eq_true, ↓reduceIte] at ha hb
      split
      · next h => rw [eq_comm, Int.compare_eq_gt]; omega
      · next h => rw [castU64_id vb (by omega) (by omega)]

theorem ofOrdering_compare (op : CmpOp) (v b : Int) :
    op.ofOrdering (compare v b) = op.holdsInt v b := by
  rcases Int.lt_trichotomy v b with h | h | h
  · have : compare v b = .lt := Int.compare_eq_lt.mpr h
    rw [this]
    cases op <;> simp [CmpOp.ofOrdering, CmpOp.holdsInt] <;> omega
  · subst h
    have : compare v v = .eq := Int.compare_eq_eq.mpr rfl
    rw [this]
    cases op <;> simp [CmpOp.ofOrdering, CmpOp.holdsInt]
  · have : compare v b = .gt := Int.compare_eq_gt.mpr h
    rw [this]
    cases op <;> simp [CmpOp.ofOrdering, CmpOp.holdsInt] <;> omega

theorem ofInt_isInt (t : IntTy) (v : Int) : isInt (Num.ofInt t v) = true := by
  unfold Num.ofInt; split <;> rfl

theorem ofInt_ival (t : IntTy) (v : Int) : ival (Num.ofInt t v) = v := by
  unfold Num.ofInt; split <;> rfl

theorem cmpNum_ints (a b : Num) (ha : isInt a = true) (hb : isInt b = true) :
    cmpNum a b = some (cmpInts a b) := by
  cases a <;> cases b <;> simp_all [isInt, cmpNum]

/-- **C16 (integers).** For every pair of Go integer types, every in-range input `v` and bound
    `b`, and every operator, the implementation's verdict is the mathematical comparison. -/
theorem c16_int_cmp (op : CmpOp) (t t' : IntTy) (v b : Int)
    (hv : t.inRange v) (hb : t'.inRange b) :
    implCmp op (Num.ofInt t v) (Num.ofInt t' b) = op.holdsInt v b := by
  have h := cmpInts_exact (Num.ofInt t v) (Num.ofInt t' b) (ofInt_wf t v hv) (ofInt_wf t' b hb)
    (ofInt_isInt t v) (ofInt_isInt t' b)
  rw [← ofOrdering_compare]
  unfold implCmp
  rw [cmpNum_ints _ _ (ofInt_isInt t v) (ofInt_isInt t' b), h, ofInt_ival, ofInt_ival]

/-- Sign shorthands (`Positive`, `Negative`, `NonNegative`, `NonPositive`) pass the untyped
    constant `0`, an `int`. -/
theorem c16_sign (op : CmpOp) (t : IntTy) (v : Int) (hv : t.inRange v) :
    implCmp op (Num.ofInt t v) (Num.ofInt .int 0) = op.holdsInt v 0 :=
  c16_int_cmp op t .int v 0 hv (by decide)

/-! ### floats against floats -/

/-- **C16 (floats).** Definitional in the model: Go's `<`/`>` on float64 are the IEEE order,
    which is what `F.cmp` is; the NaN guard of `cmpFloats` makes every relation false. -/
theorem c16_float_cmp (op : CmpOp) (x y : F) :
    implCmp op (.f x) (.f y) = specCmp op (.f x) (.f y) := rfl

theorem c16_nan_left (op : CmpOp) (b : Num) : implCmp op (.f .nan) b = false := by
  cases b <;> simp [implCmp, cmpNum, F.cmp, cmpIntFloat]

theorem c16_nan_right (op : CmpOp) (v : Num) : implCmp op v (.f .nan) = false := by
  cases v with
  | f x => cases x <;> simp [implCmp, cmpNum, F.cmp]
  | i v => simp [implCmp, cmpNum, cmpIntFloat]
  | u v => simp [implCmp, cmpNum, cmpIntFloat]

/-- Negative zero equals positive zero: both decode to `fin 0 _`. -/
theorem c16_neg_zero : F.ofBits (2 ^ 63) = F.fin 0 1074 ∧ F.ofBits 0 = F.fin 0 1074 := by
  constructor <;> rfl

theorem c16_zero_eq (k l : Nat) : F.cmp (F.fin 0 k) (F.fin 0 l) = some .eq := by
  simp [F.cmp]

/-! ### integers against floats (bounds given as float64, e.g. through struct tags) -/

theorem tdiv_mul_le_of_nonneg (a : Int) (k : Nat) (h : 0 ≤ a) :
    Int.tdiv a (2 ^ k) * 2 ^ k ≤ a ∧ a < (Int.tdiv a (2 ^ k) + 1) * 2 ^ k := by
  have hp : (0 : Int) < 2 ^ k := Int.pow_pos (by decide)
  rw [Int.tdiv_eq_ediv_of_nonneg h]
  constructor
  · exact Int.ediv_mul_le a (Int.ne_of_gt hp)
  · have := Int.lt_ediv_add_one_mul_self a hp
    exact this

theorem tdiv_mul_ge_of_neg (a : Int) (k : Nat) (h : a < 0) :
    a ≤ Int.tdiv a (2 ^ k) * 2 ^ k ∧ (Int.tdiv a (2 ^ k) - 1) * 2 ^ k < a := by
  have hp : (0 : Int) < 2 ^ k := Int.pow_pos (by decide)
  have hneg : 0 ≤ -a := by omega
  have e : Int.tdiv a (2 ^ k) = -(Int.tdiv (-a) (2 ^ k)) := by
    rw [Int.neg_tdiv, Int.neg_neg]
  have ⟨h1, h2⟩ := tdiv_mul_le_of_nonneg (-a) k hneg
  rw [e]
  constructor
  · have : -(-a).tdiv (2 ^ k) * 2 ^ k = -((-a).tdiv (2 ^ k) * 2 ^ k) := Int.neg_mul _ _
    omega
  · have : (-(-a).tdiv (2 ^ k) - 1) * 2 ^ k = -(((-a).tdiv (2 ^ k) + 1) * 2 ^ k) := by
      rw [← Int.neg_mul]; congr 1; omega
    omega

/-- Comparing an integer `v` with `a / 2^k` given the truncation `t`. -/
theorem compare_scaled (v a : Int) (k : Nat) :
    compare (v * 2 ^ k) a = cmpWithTrunc v (Int.tdiv a (2 ^ k)) a k := by
  have hp : (0 : Int) < 2 ^ k := Int.pow_pos (by decide)
  unfold cmpWithTrunc fracTie
  rcases Int.lt_trichotomy v (Int.tdiv a (2 ^ k)) with h | h | h
  · have c : compare v (Int.tdiv a (2 ^ k)) = .lt := Int.compare_eq_lt.mpr h
    rw [c]; simp only
    rw [Int.compare_eq_lt]
    by_cases ha : 0 ≤ a
    · have ⟨h1, _⟩ := tdiv_mul_le_of_nonneg a k ha
      have : v * 2 ^ k < Int.tdiv a (2 ^ k) * 2 ^ k := Int.mul_lt_mul_of_pos_right h hp
      omega
    · have ⟨_, h2⟩ := tdiv_mul_ge_of_neg a k (by omega)
      have : v * 2 ^ k ≤ (Int.tdiv a (2 ^ k) - 1) * 2 ^ k :=
        Int.mul_le_mul_of_nonneg_right (by omega) (Int.le_of_lt hp)
      omega
  · subst h
    have c : compare (Int.tdiv a (2 ^ k)) (Int.tdiv a (2 ^ k)) = .eq := Int.compare_eq_eq.mpr rfl
    rw [c]; simp only
    by_cases h1 : a > Int.tdiv a (2 ^ k) * 2 ^ k
    · rw [if_pos h1, Int.compare_eq_lt]; omega
    · rw [if_neg h1]
      by_cases h2 : a < Int.tdiv a (2 ^ k) * 2 ^ k
      · rw [if_pos h2, Int.compare_eq_gt]; omega
      · rw [if_neg h2, Int.compare_eq_eq]; omega
  · have c : compare v (Int.tdiv a (2 ^ k)) = .gt := Int.compare_eq_gt.mpr h
    rw [c]; simp only
    rw [Int.compare_eq_gt]
    by_cases ha : 0 ≤ a
    · have ⟨_, h2⟩ := tdiv_mul_le_of_nonneg a k ha
      have : (Int.tdiv a (2 ^ k) + 1) * 2 ^ k ≤ v * 2 ^ k :=
        Int.mul_le_mul_of_nonneg_right (by omega) (Int.le_of_lt hp)
      omega
    · have ⟨h1, _⟩ := tdiv_mul_ge_of_neg a k (by omega)
      have : Int.tdiv a (2 ^ k) * 2 ^ k < v * 2 ^ k := Int.mul_lt_mul_of_pos_right h hp
      omega

theorem tdiv_nonpos_of_neg (a : Int) (k : Nat) (h : a < 0) : Int.tdiv a (2 ^ k) ≤ 0 := by
  have hp : (0 : Int) < 2 ^ k := Int.pow_pos (by decide)
  have e : Int.tdiv a (2 ^ k) = -(Int.tdiv (-a) (2 ^ k)) := by rw [Int.neg_tdiv, Int.neg_neg]
  have : 0 ≤ Int.tdiv (-a) (2 ^ k) := Int.tdiv_nonneg (by omega) (Int.le_of_lt hp)
  omega

/-- **C16 (mixed).** An integer against a float64 bound is ordered exactly as the rationals
    they denote, with no rounding of the integer. -/
theorem c16_int_float_cmp (n : Num) (x : F) (hn : Num.wf n) (hnf : isInt n = true) :
    cmpIntFloat n x = F.cmp n.toF x := by
  cases x with
  | nan => cases n <;> simp_all [cmpIntFloat, F.cmp, Num.toF, F.ofInt, isInt]
  | pinf => cases n <;> simp_all [cmpIntFloat, F.cmp, Num.toF, F.ofInt, isInt]
  | ninf => cases n <;> simp_all [cmpIntFloat, F.cmp, Num.toF, F.ofInt, isInt]
  | fin a k =>
    have hp : (0 : Int) < 2 ^ k := Int.pow_pos (by decide)
    have ht : F.truncInt a k = Int.tdiv a (2 ^ k) := rfl
    cases n with
    | f y => simp [isInt] at hnf
    | u v =>
      simp only [Num.wf, IntTy.inRange, IntTy.lo, IntTy.hi, IntTy.signed, IntTy.bits,
        Bool.false_eq_true, ↓reduceIte] at hn
      simp only [cmpIntFloat, Num.toF, F.ofInt, F.cmp, Int.pow_zero, Int.mul_one]
      by_cases h : a < 0
      · rw [if_pos h]
        congr 1; rw [eq_comm, Int.compare_eq_gt]
        have : 0 ≤ v * 2 ^ k := Int.mul_nonneg hn.1 (Int.le_of_lt hp)
        omega
      · rw [if_neg h]
        have ⟨h1, _⟩ := tdiv_mul_le_of_nonneg a k (by omega)
        by_cases h' : F.truncInt a k ≥ 2 ^ 64
        · rw [if_pos h']; rw [ht] at h'
          congr 1; rw [eq_comm, Int.compare_eq_lt]
          have : v * 2 ^ k < 2 ^ 64 * 2 ^ k := Int.mul_lt_mul_of_pos_right (by omega) hp
          have : (2:Int) ^ 64 * 2 ^ k ≤ Int.tdiv a (2 ^ k) * 2 ^ k :=
            Int.mul_le_mul_of_nonneg_right h' (Int.le_of_lt hp)
          omega
        · rw [if_neg h', compare_scaled, ht]
    | i v =>
      simp only [Num.wf, IntTy.inRange, IntTy.lo, IntTy.hi, IntTy.signed, IntTy.bits,
        ↓reduceIte] at hn
      simp only [cmpIntFloat, Num.toF, F.ofInt, F.cmp, Int.pow_zero, Int.mul_one]
      by_cases h' : F.truncInt a k ≥ 2 ^ 63
      · rw [if_pos h']; rw [ht] at h'
        congr 1; rw [eq_comm, Int.compare_eq_lt]
        have ha : 0 ≤ a := by
          apply Decidable.byContradiction; intro hc
          have := tdiv_nonpos_of_neg a k (by omega)
          omega
        have ⟨h1, _⟩ := tdiv_mul_le_of_nonneg a k ha
        have : v * 2 ^ k < 2 ^ 63 * 2 ^ k := Int.mul_lt_mul_of_pos_right (by omega) hp
        have : (2:Int) ^ 63 * 2 ^ k ≤ Int.tdiv a (2 ^ k) * 2 ^ k :=
          Int.mul_le_mul_of_nonneg_right h' (Int.le_of_lt hp)
        omega
      · rw [if_neg h']; rw [ht] at h'
        by_cases h'' : F.truncInt a k < -(2 ^ 63)
        · rw [if_pos h'']; rw [ht] at h''
          congr 1; rw [eq_comm, Int.compare_eq_gt]
          have ha : a < 0 := by
            apply Decidable.byContradiction; intro hc
            have : 0 ≤ Int.tdiv a (2 ^ k) := Int.tdiv_nonneg (by omega) (Int.le_of_lt hp)
            omega
          have ⟨h1, h2⟩ := tdiv_mul_ge_of_neg a k ha
          have : Int.tdiv a (2 ^ k) * 2 ^ k ≤ (-(2 ^ 63) - 1) * 2 ^ k :=
            Int.mul_le_mul_of_nonneg_right (by omega) (Int.le_of_lt hp)
          have : (-(2 ^ 63)) * 2 ^ k ≤ v * 2 ^ k :=
            Int.mul_le_mul_of_nonneg_right (by omega) (Int.le_of_lt hp)
          have e : (-(2 ^ 63) - 1 : Int) * 2 ^ k = (-(2 ^ 63)) * 2 ^ k - 2 ^ k := by
            rw [Int.sub_mul, Int.one_mul]
          omega
        · rw [if_neg h'', compare_scaled, ht]

theorem flip_compare (x y : Int) : Ordering.flip (compare x y) = compare y x := by
  rcases Int.lt_trichotomy x y with h | h | h
  · rw [Int.compare_eq_lt.mpr h, Int.compare_eq_gt.mpr h]; rfl
  · subst h; rw [Int.compare_eq_eq.mpr rfl]; rfl
  · rw [Int.compare_eq_gt.mpr h, Int.compare_eq_lt.mpr h]; rfl

theorem F.cmp_flip (x y : F) : (F.cmp x y).map Ordering.flip = F.cmp y x := by
  cases x <;> cases y <;> simp [F.cmp, Ordering.flip]
  exact flip_compare _ _

/-- **C16, all operand kinds.** The implementation's verdict is the mathematical comparison of
    the values denoted, false when a NaN is involved. -/
theorem c16_cmp (op : CmpOp) (v b : Num) (hv : Num.wf v) (hb : Num.wf b) :
    implCmp op v b = specCmp op v b := by
  cases v with
  | f x =>
    cases b with
    | f y => rfl
    | i w =>
      have h := c16_int_float_cmp (.i w) x hb rfl
      simp only [implCmp, specCmp, cmpNum, h, F.cmp_flip, Num.toF]
    | u w =>
      have h := c16_int_float_cmp (.u w) x hb rfl
      simp only [implCmp, specCmp, cmpNum, h, F.cmp_flip, Num.toF]
  | i w =>
    cases b with
    | f y =>
      have h := c16_int_float_cmp (.i w) y hv rfl
      simp only [implCmp, specCmp, cmpNum, h, Num.toF]
    | i w' =>
      have h := cmpInts_exact (.i w) (.i w') hv hb rfl rfl
      simp [implCmp, specCmp, cmpNum, h, Num.toF, F.ofInt, F.cmp, ival]
    | u w' =>
      have h := cmpInts_exact (.i w) (.u w') hv hb rfl rfl
      simp [implCmp, specCmp, cmpNum, h, Num.toF, F.ofInt, F.cmp, ival]
  | u w =>
    cases b with
    | f y =>
      have h := c16_int_float_cmp (.u w) y hv rfl
      simp only [implCmp, specCmp, cmpNum, h, Num.toF]
    | i w' =>
      have h := cmpInts_exact (.u w) (.i w') hv hb rfl rfl
      simp [implCmp, specCmp, cmpNum, h, Num.toF, F.ofInt, F.cmp, ival]
    | u w' =>
      have h := cmpInts_exact (.u w) (.u w') hv hb rfl rfl
      simp [implCmp, specCmp, cmpNum, h, Num.toF, F.ofInt, F.cmp, ival]

/-! ### MultipleOf on integers -/

theorem tmod_eq_zero_iff_dvd (v d : Int) : Int.tmod v d = 0 ↔ d ∣ v := by
  constructor
  · intro h; exact Int.dvd_of_tmod_eq_zero h
  · intro h; exact Int.tmod_eq_zero_of_dvd h

theorem multipleOfInts_exact (a b : Num) (ha : Num.wf a) (hb : Num.wf b)
    (hia : isInt a = true) (hib : isInt b = true) :
    multipleOfInts a b = specMultipleOfInt (ival a) (ival b) := by
  unfold specMultipleOfInt
  cases a with
  | f x => simp [isInt] at hia
  | u v =>
    cases b with
    | f x => simp [isInt] at hib
    | u d =>
      simp only [multipleOfInts, ival]
      by_cases h0 : d = 0
      · simp [h0]
      · simp only [h0, ↓reduceIte, ne_eq, not_false_eq_true, true_and]
        rw [Bool.eq_iff_iff]; simp only [beq_iff_eq, decide_eq_true_eq]
        exact ⟨Int.dvd_of_emod_eq_zero, Int.emod_eq_zero_of_dvd⟩
    | i d =>
      simp only [Num.wf, IntTy.inRange, IntTy.lo, IntTy.hi, IntTy.signed, IntTy.bits,
        Bool.false_eq_true, ↓reduceIte] at ha hb
      simp only [multipleOfInts, ival]
      by_cases h0 : d = 0
      · simp [h0]
      · simp only [h0, ↓reduceIte, ne_eq, not_false_eq_true, true_and]
        rw [Bool.eq_iff_iff]; simp only [beq_iff_eq, decide_eq_true_eq]
        by_cases hneg : d < 0
        · simp only [hneg, ↓reduceIte]
          rw [castU64_id (-(d + 1)) (by omega) (by omega)]
          have : -(d + 1) + 1 = -d := by omega
          rw [this]
          exact ⟨fun h => Int.neg_dvd.mp (Int.dvd_of_emod_eq_zero h),
                 fun h => Int.emod_eq_zero_of_dvd (Int.neg_dvd.mpr h)⟩
        · simp only [hneg, ↓reduceIte]
          rw [castU64_id d (by omega) (by omega)]
          exact ⟨Int.dvd_of_emod_eq_zero, Int.emod_eq_zero_of_dvd⟩
  | i v =>
    cases b with
    | f x => simp [isInt] at hib
    | i d =>
      simp only [multipleOfInts, ival]
      by_cases h0 : d = 0
      · simp [h0]
      · simp only [h0, ↓reduceIte, ne_eq, not_false_eq_true, true_and]
        rw [Bool.eq_iff_iff]; simp only [goRem, beq_iff_eq, decide_eq_true_eq]
        exact tmod_eq_zero_iff_dvd v d
    | u d =>
      simp only [Num.wf, IntTy.inRange, IntTy.lo, IntTy.hi, IntTy.signed, IntTy.bits,
        Bool.false_eq_true, ↓reduceIte] at ha hb
      simp only [multipleOfInts, ival]
      by_cases h0 : d = 0
      · simp [h0]
      · simp only [h0, ↓reduceIte, ne_eq, not_false_eq_true, true_and]
        by_cases hbig : d > 2 ^ 63 - 1
        · rw [if_pos hbig]
          rw [Bool.eq_iff_iff]
          simp only [Bool.or_eq_true, beq_iff_eq, Bool.and_eq_true, decide_eq_true_eq]
          constructor
          · rintro (h | ⟨h1, h2⟩)
            · subst h; exact Int.dvd_zero d
            · subst h1; subst h2; exact Int.dvd_neg.mpr (Int.dvd_refl _)
          · intro ⟨c, hc⟩
            rcases Int.lt_trichotomy c 0 with hc0 | hc0 | hc0
            · by_cases hc1 : c = -1
              · subst hc1; right; omega
              · have h2 : c ≤ -2 := by omega
                have : d * c ≤ d * (-2) := Int.mul_le_mul_of_nonneg_left h2 (by omega)
                omega
            · subst hc0; left; omega
            · have h1 : 1 ≤ c := by omega
              have : d * 1 ≤ d * c := Int.mul_le_mul_of_nonneg_left h1 (by omega)
              omega
        · rw [if_neg hbig]
          rw [Bool.eq_iff_iff]; simp only [goRem, beq_iff_eq, decide_eq_true_eq]
          exact tmod_eq_zero_iff_dvd v d

/-- **C16 (MultipleOf).** On integers the check holds exactly when the input is an integer
    multiple of the (non-zero) divisor; a zero divisor accepts nothing. -/
theorem c16_multiple_int (t t' : IntTy) (v d : Int) (hv : t.inRange v) (hd : t'.inRange d) :
    multipleOfInts (Num.ofInt t v) (Num.ofInt t' d) = specMultipleOfInt v d := by
  have h := multipleOfInts_exact _ _ (ofInt_wf t v hv) (ofInt_wf t' d hd)
    (ofInt_isInt t v) (ofInt_isInt t' d)
  rw [h, ofInt_ival, ofInt_ival]

/-! ### the pinned commit's algorithm is *not* exact (the defect, as theorems) -/

/-- At the pinned commit every comparison went through float64: above 2^53 it is wrong. -/
theorem legacy_cmp_inexact :
    ¬ ∀ v b : Int, IntTy.i64.inRange v → IntTy.i64.inRange b →
        legacyCmpInt .gt v b = CmpOp.gt.holdsInt v b := by
  intro h
  have := h (2 ^ 53 + 1) (2 ^ 53) (by decide) (by decide)
  revert this; decide

/-- The legacy ε-test accepted 10000005 as a multiple of 10000000. -/
theorem legacy_multiple_eps :
    legacyMultipleOfSmall 10000005 10000000 = true ∧ specMultipleOfInt 10000005 10000000 = false := by
  decide

/-- Non-vacuity: hypotheses of the theorems above are met by non-trivial values, and the fixed
    algorithm gets the legacy witnesses right. -/
example : IntTy.i64.inRange (2 ^ 53 + 1) ∧ IntTy.u64.inRange (2 ^ 64 - 1) ∧
    implCmp .gt (Num.ofInt .i64 (2 ^ 53 + 1)) (Num.ofInt .i64 (2 ^ 53)) = true ∧
    implCmp .lt (Num.ofInt .i64 (-1)) (Num.ofInt .u64 (2 ^ 64 - 1)) = true ∧
    multipleOfInts (Num.ofInt .i64 10000005) (Num.ofInt .i64 10000000) = false := by decide

end Gozod.C16
