/-
  Gozod.Model.FormatSpecTime — the default `gozod.IsoTime()` (no options): the definition is `Fmt.isoTimeOpt .any`
  (hh:mm, optional :ss, optional fraction '.' digit+).  `validate.ISOTime` matches its own pattern, which also takes a
  ',' before the fraction; the bisimulation checker wants every byte the pattern mentions in the alphabet, so

    * `isoTimeC`      the definition over the alphabet extended by ',' (on which it has no step): `C20.isoTimeC_run` proves it
                      accepts the same strings
    * `isoTimeComma`  the excluded region of the `_partial` theorem: times of day written hh:mm:ss ',' digit+

  Core-only.
-/
import Gozod.Model.FormatSpec
namespace Gozod
namespace Fmt

/-- `S` over a larger alphabet: the extra bytes have no step -/
def Spec.extend (S : Spec) (extra : List Nat) : Spec :=
  { S with support := extra ++ S.support, step := fun q c => if extra.elem c then none else S.step q c }

def isoTimeC : Spec := Spec.extend (isoTimeOpt .any) [44]

/-- hh:mm:ss ',' digit+  (`y = 1` once the comma was read) -/
def isoTimeComma : Spec where
  State := DateSt
  beq := DateSt.beq
  beq_eq := DateSt.beq_eq
  init := ⟨11, 0, 0, 0, 0⟩
  support := 44 :: 58 :: digits
  step := fun q c =>
    if q.pos = 19 then (if c = 44 then some { q with pos := 20, y := 1 } else none)
    else if c = 44 then none
    else timeStepO ⟨.any, 0, false⟩ q c
  acc := fun q => q.pos = 21 && q.y = 1
  code := DateSt.code
  pp := DateSt.pp

end Fmt
end Gozod
