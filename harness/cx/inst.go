package cx

import (
	"fmt"
	"sort"

	"verifharness/hx"
)

func pickLen(r *hx.Rng, size []string) int {
	var ok []int
	for n := 0; n <= 3; n++ {
		good := true
		for _, c := range size {
			var k string
			var m int
			fmt.Sscanf(c, "%s %d", &k, &m)
			switch k {
			case "min":
				good = good && n >= m
			case "max":
				good = good && n <= m
			case "eq":
				good = good && n == m
			}
		}
		if good {
			ok = append(ok, n)
		}
	}
	if len(ok) == 0 {
		return 2
	}
	return hx.Pick(r, ok)
}

// Valid synthesises an instance the schema is meant to accept (best effort; the harness checks).
func (s *Sch) Valid(r *hx.Rng) any {
	switch s.Kind {
	case "leaf":
		if len(s.Valids) == 0 {
			return "no-valid-instance"
		}
		return hx.Pick(r, s.Valids)
	case "slice":
		n := pickLen(r, s.Size)
		e := s.Members[0]
		switch s.ElemT {
		case "str":
			out := make([]string, 0, n)
			for range n {
				if v, ok := e.Valid(r).(string); ok {
					out = append(out, v)
				}
			}
			return out
		case "mapSA":
			out := make([]map[string]any, 0, n)
			for range n {
				if v, ok := e.Valid(r).(map[string]any); ok {
					out = append(out, v)
				}
			}
			return out
		}
		out := make([]any, n)
		for i := range n {
			out[i] = e.Valid(r)
		}
		return out
	case "array", "tuple":
		out := []any{}
		for i := range s.NItems {
			out = append(out, s.Members[i].Valid(r))
		}
		if s.Rest >= 0 {
			for range r.Intn(3) {
				out = append(out, s.Members[s.Rest].Valid(r))
			}
		}
		return out
	case "map":
		out := map[any]any{}
		for range pickLen(r, s.Size) {
			out[s.Members[0].Valid(r)] = s.Members[1].Valid(r)
		}
		return out
	case "record":
		out := map[string]any{}
		if s.EnumKeys != nil {
			for _, k := range s.EnumKeys {
				if !s.Partial || r.Bool() {
					out[k] = s.Members[1].Valid(r)
				}
			}
			return out
		}
		for range pickLen(r, s.Size) {
			if k, ok := s.Members[0].Valid(r).(string); ok {
				out[k] = s.Members[1].Valid(r)
			}
		}
		if s.Loose && r.Bool() {
			out["loose-unmatched-key-longer"] = 12345
		}
		return out
	case "set":
		out := map[string]struct{}{}
		for range pickLen(r, s.Size) {
			if k, ok := s.Members[0].Valid(r).(string); ok {
				out[k] = struct{}{}
			}
		}
		return out
	case "object":
		out := map[string]any{}
		for i, f := range s.Fields {
			m := s.Members[i]
			if o, _ := optFlags(m.Z); o && r.Chance(40) && !s.required(f) {
				continue
			}
			v := m.Valid(r)
			if _, x := optFlags(m.Z); x && v == nil {
				continue
			}
			out[f] = v
		}
		if s.Mode != "strict" && r.Chance(35) {
			if s.Catchall >= 0 {
				out["u"] = s.Members[s.Catchall].Valid(r)
			} else {
				out["u"] = 1
			}
		}
		return out
	case "struct":
		var v S1
		for i, f := range s.Fields {
			x := s.Members[i].Valid(r)
			switch f {
			case "A":
				v.A = x
			case "B":
				v.B = x
			case "C":
				v.C = x
			}
		}
		if s.PtrC && r.Bool() {
			return &v
		}
		return v
	case "union", "xor":
		return hx.Pick(r, s.Members).Valid(r)
	case "inter":
		l, rr := s.Members[0].Valid(r), s.Members[1].Valid(r)
		lm, ok1 := l.(map[string]any)
		rm, ok2 := rr.(map[string]any)
		if ok1 && ok2 {
			out := map[string]any{}
			for k, v := range lm {
				out[k] = v
			}
			for k, v := range rm {
				if _, dup := out[k]; !dup {
					out[k] = v
				}
			}
			return out
		}
		if s.Members[0].Name == "String().Min(2)" {
			return "ab"
		}
		return l
	case "du":
		return hx.Pick(r, s.Members).Valid(r)
	case "lazy", "wrap":
		return s.Members[0].Valid(r)
	}
	panic("Valid " + s.Kind)
}

// required: the written .Required(...) call names field f.
func (s *Sch) required(f string) bool {
	if s.ReqCall == nil {
		return false
	}
	if len(*s.ReqCall) == 0 {
		return true
	}
	for _, k := range *s.ReqCall {
		if k == f {
			return true
		}
	}
	return false
}

// Invalid returns a value the schema is meant to reject. sameT: keep the Go type `goT`
// (needed inside typed containers such as []string).
func (s *Sch) Invalid(r *hx.Rng, goT string) (any, bool) {
	var cands []any
	if s.Kind == "leaf" {
		cands = append(cands, s.InvalidsT...)
		if goT == "" {
			cands = append(cands, s.InvalidsAny...)
		}
	} else if goT == "" {
		cands = []any{42, "wrong", []any{"zz", 1.5}, map[string]any{"zz": 1.5}, true}
	} else if goT == "mapSA" {
		cands = []any{map[string]any{"zz": 1.5}, map[string]any{}}
	}
	// keep only candidates the schema really rejects
	var bad []any
	for _, c := range cands {
		if goT == "str" {
			if _, ok := c.(string); !ok {
				continue
			}
		}
		if goT == "mapSA" {
			if _, ok := c.(map[string]any); !ok {
				continue
			}
		}
		rejected := false
		hx.Safely(func() {
			_, err := s.Own(Clone(c))
			rejected = err != nil
		})
		if rejected {
			bad = append(bad, c)
		}
	}
	if len(bad) == 0 {
		return nil, false
	}
	return hx.Pick(r, bad), true
}

// Child is an immediate location inside a container value.
type Child struct {
	Elem    any  // path element (int index, map key, field name)
	M       *Sch // the member schema asked about it
	V       any  // the value there
	GoT     string
	Replace func(nv any) any // the container with this child replaced
}

func sortedKeys[V any](m map[string]V) []string {
	ks := make([]string, 0, len(m))
	for k := range m {
		ks = append(ks, k)
	}
	sort.Strings(ks)
	return ks
}

// Children lists the member-checked locations of a (valid-shaped) container value.
func (s *Sch) Children(v any) []Child {
	var out []Child
	switch s.Kind {
	case "slice":
		e := s.Members[0]
		switch xs := v.(type) {
		case []any:
			for i, x := range xs {
				out = append(out, Child{i, e, x, "", func(nv any) any { c := append([]any{}, xs...); c[i] = nv; return c }})
			}
		case []string:
			for i, x := range xs {
				out = append(out, Child{i, e, x, "str", func(nv any) any { c := append([]string{}, xs...); c[i] = nv.(string); return c }})
			}
		case []map[string]any:
			for i, x := range xs {
				out = append(out, Child{i, e, x, "mapSA", func(nv any) any {
					c := append([]map[string]any{}, xs...)
					c[i] = nv.(map[string]any)
					return c
				}})
			}
		}
	case "array", "tuple":
		if xs, ok := v.([]any); ok {
			for i, x := range xs {
				var m *Sch
				if i < s.NItems {
					m = s.Members[i]
				} else if s.Rest >= 0 {
					m = s.Members[s.Rest]
				} else {
					continue
				}
				out = append(out, Child{i, m, x, "", func(nv any) any { c := append([]any{}, xs...); c[i] = nv; return c }})
			}
		}
	case "map":
		if mv, ok := v.(map[any]any); ok {
			for k, x := range mv {
				out = append(out, Child{k, s.Members[1], x, "", func(nv any) any {
					c := map[any]any{}
					for a, b := range mv {
						c[a] = b
					}
					c[k] = nv
					return c
				}})
			}
			sort.Slice(out, func(i, j int) bool { return AtomKey(out[i].Elem) < AtomKey(out[j].Elem) })
		}
	case "record", "object":
		if mv, ok := v.(map[string]any); ok {
			for _, k := range sortedKeys(mv) {
				var m *Sch
				if s.Kind == "record" {
					m = s.Members[1]
				} else {
					for i, f := range s.Fields {
						if f == k {
							m = s.Members[i]
						}
					}
					if m == nil && s.Catchall >= 0 && s.Mode == "passthrough" {
						m = s.Members[s.Catchall]
					}
					if m == nil {
						continue
					}
				}
				out = append(out, Child{k, m, mv[k], "", func(nv any) any {
					c := map[string]any{}
					for a, b := range mv {
						c[a] = b
					}
					c[k] = nv
					return c
				}})
			}
		}
	case "set":
		if mv, ok := v.(map[string]struct{}); ok {
			for _, k := range sortedKeys(mv) {
				out = append(out, Child{k, s.Members[0], k, "str", func(nv any) any {
					c := map[string]struct{}{}
					for a := range mv {
						if a != k {
							c[a] = struct{}{}
						}
					}
					c[nv.(string)] = struct{}{}
					return c
				}})
			}
		}
	case "struct":
		sv, isVal := v.(S1)
		if p, ok := v.(*S1); ok && p != nil {
			sv, isVal = *p, true
		}
		if isVal {
			for i, f := range s.Fields {
				var x any
				switch f {
				case "A":
					x = sv.A
				case "B":
					x = sv.B
				case "C":
					x = sv.C
				default:
					continue
				}
				out = append(out, Child{f, s.Members[i], x, "", func(nv any) any {
					c := sv
					switch f {
					case "A":
						c.A = nv
					case "B":
						c.B = nv
					case "C":
						c.C = nv
					}
					return c
				}})
			}
		}
	}
	return out
}

// Corrupt plants one fault in a valid instance: it descends to a random location and replaces the
// value there by one its member schema rejects. Returns the new value and the fault's path.
func (s *Sch) Corrupt(r *hx.Rng, v any, goT string, depth int) (any, []any, bool) {
	// pass-through composites: the same value goes to the target / selected member
	switch s.Kind {
	case "wrap":
		return s.Members[0].Corrupt(r, v, goT, depth)
	case "lazy":
		if r.Bool() {
			return s.Members[0].Corrupt(r, v, goT, depth)
		}
	case "du":
		if mv, ok := v.(map[string]any); ok && r.Chance(70) {
			if i, ok := s.DiscMap[AtomKey(mv[s.Disc])]; ok {
				nv, loc, ok := s.Members[i].Corrupt(r, v, goT, depth)
				return nv, s.discFault(loc), ok
			}
		}
	case "inter":
		if r.Chance(70) {
			return hx.Pick(r, s.Members).Corrupt(r, v, goT, depth)
		}
	}
	ch := s.Children(v)
	if len(ch) > 0 && depth > 0 && r.Chance(75) {
		c := hx.Pick(r, ch)
		nv, sub, ok := c.M.Corrupt(r, c.V, c.GoT, depth-1)
		if ok {
			el := c.Elem
			if s.Kind == "set" { // the element IS the key: after the replacement it is addressed by its new value
				el = nv
			}
			return c.Replace(nv), append([]any{el}, sub...), true
		}
	}
	nv, ok := s.Invalid(r, goT)
	return nv, []any{}, ok
}

// WrongShapes are inputs of every modelled Go representation, fed to every container kind.
func WrongShapes() []any {
	one := "ab"
	sa := []any{"ab", 1}
	msa := map[string]any{"a": "ab"}
	maa := map[any]any{"ab": "cd"}
	ss := []string{"ab"}
	var nsa []any
	var nmsa map[string]any
	return []any{
		"str", 42, true, 3.5,
		[]any{}, sa, []any{nil}, ss, []string{}, []int{1},
		map[string]any{}, msa, map[string]any{"a": nil}, maa, map[any]any{1: "x"}, map[any]any{}, map[string]int{"a": 1},
		map[string]struct{}{"ab": {}}, map[string]struct{}{},
		S1{A: "ab"}, &S1{B: 1},
		nil, []any(nil), []string(nil), map[string]any(nil), map[any]any(nil), map[string]struct{}(nil),
		(*[]any)(nil), (*map[string]any)(nil), (*S1)(nil), (*string)(nil),
		&sa, &ss, &msa, &maa, &one, &nsa, &nmsa,
	}
}

// Unmodelled reports inputs whose extraction path is outside the Lean model (documented there).
func (s *Sch) Unmodelled(v any) bool {
	switch s.Kind {
	case "object":
		switch v.(type) {
		case S1, *S1:
			return true
		}
	case "struct":
		switch v.(type) {
		case map[string]any, map[any]any:
			return true
		}
	}
	return false
}

// ---------- several faults in one input (C05) ----------

func (s *Sch) childByElem(v any, key string) (Child, bool) {
	for _, c := range s.Children(v) {
		if AtomKey(c.Elem) == key {
			return c, true
		}
	}
	return Child{}, false
}

// through returns the member a pass-through composite hands the same value to (nil if it has none / it is unknown).
func (s *Sch) through(r *hx.Rng, v any) *Sch {
	switch s.Kind {
	case "wrap", "lazy":
		return s.Members[0]
	case "du":
		if mv, ok := v.(map[string]any); ok {
			if i, ok := s.DiscMap[AtomKey(mv[s.Disc])]; ok {
				return s.Members[i]
			}
		}
	case "inter":
		return hx.Pick(r, s.Members)
	case "union", "xor": // the member that accepts the (valid) value
		for _, m := range s.Members {
			ok := false
			hx.Safely(func() { _, err := m.Own(Clone(v)); ok = err == nil })
			if ok && m.Kind != "leaf" {
				return m
			}
		}
	}
	return nil
}

// discFault: a fault planted in the DISCRIMINATOR of a discriminated union's value is a fault of the whole value — the
// discriminator decides which option's schema every sibling field is read by (replacing "p" by another option's value
// makes the union report the OTHER option's complaints about the siblings) — so its location is the union's value itself.
func (s *Sch) discFault(loc []any) []any {
	if s.Kind == "du" && len(loc) > 0 && loc[0] == any(s.Disc) {
		return []any{}
	}
	return loc
}

func (s *Sch) discFaults(locs [][]any) [][]any {
	for i := range locs {
		locs[i] = s.discFault(locs[i])
	}
	return locs
}

func prefixed(el any, subs [][]any) [][]any {
	out := make([][]any, len(subs))
	for i, p := range subs {
		out[i] = append([]any{el}, p...)
	}
	return out
}

// CorruptMany plants up to k faults, one below each of k DISTINCT children of v (each at any depth
// below that child): the container then has to report issues of several members side by side.
func (s *Sch) CorruptMany(r *hx.Rng, v any, goT string, k, depth int) (any, [][]any, bool) {
	if t := s.through(r, v); t != nil {
		nv, locs, ok := t.CorruptMany(r, v, goT, k, depth)
		return nv, s.discFaults(locs), ok
	}
	ch := s.Children(v)
	if len(ch) == 0 {
		nv, loc, ok := s.Corrupt(r, v, goT, depth)
		return nv, [][]any{loc}, ok
	}
	if s.Kind == "record" {
		// a record stops at the FIRST value its value schema rejects, in map order (types/record.go:739): with two
		// faulty entries the reported one differs from call to call, so a record gets one faulty entry at a time
		k = 1
	}
	keys := make([]string, len(ch))
	for i, c := range ch {
		keys[i] = AtomKey(c.Elem)
	}
	for i := len(keys) - 1; i > 0; i-- { // shuffle
		j := r.Intn(i + 1)
		keys[i], keys[j] = keys[j], keys[i]
	}
	if len(keys) > k {
		keys = keys[:k]
	}
	cur := v
	var locs [][]any
	seen := map[string]bool{}
	for _, key := range keys {
		c, ok := s.childByElem(cur, key)
		if !ok {
			continue
		}
		nv, sub, ok := c.M.Corrupt(r, c.V, c.GoT, depth-1)
		if !ok {
			continue
		}
		el := c.Elem
		if s.Kind == "set" {
			el = nv
		}
		if msg := hx.Safely(func() { cur = c.Replace(nv) }); msg != "" {
			continue // the value cannot be stored in this (typed) container
		}
		loc := append([]any{el}, sub...)
		if id := fmt.Sprintf("%#v", loc); !seen[id] {
			seen[id] = true
			locs = append(locs, loc)
		}
	}
	return cur, locs, len(locs) > 0
}

// CorruptBelow walks `descend` container levels down (preferring composite children) and plants k
// faults side by side there: descend = 0 in sibling members of the top container, 1 in sibling
// elements of one of its members, 2 inside ONE element of a member (that element reports ≥ 2 issues).
func (s *Sch) CorruptBelow(r *hx.Rng, v any, goT string, descend, k, depth int) (any, [][]any, bool) {
	if t := s.through(r, v); t != nil {
		nv, locs, ok := t.CorruptBelow(r, v, goT, descend, k, depth)
		return nv, s.discFaults(locs), ok
	}
	if descend > 0 {
		var comp []Child
		for _, c := range s.Children(v) {
			if c.M.Kind != "leaf" && s.Kind != "set" {
				comp = append(comp, c)
			}
		}
		if len(comp) > 0 {
			c := hx.Pick(r, comp)
			nv, subs, ok := c.M.CorruptBelow(r, c.V, c.GoT, descend-1, k, depth-1)
			if !ok {
				return nil, nil, false
			}
			return c.Replace(nv), prefixed(c.Elem, subs), true
		}
	}
	return s.CorruptMany(r, v, goT, k, depth)
}
