/-
  Gozod.Model.ChecksShape — the structure fingerprint of the engine functions that `Gozod.runFrom`,
  `firstPassFrom`, `runChecksOn` (Model/Checks.lean) and `Prim.checked` transcribe.

  `harness/cmd/c10/fingerprint.go` extracts with go/ast, from the CURRENT source tree, the statement
  skeleton of each function (pre-order, one line per statement, `>` per nesting level, comments and
  layout dropped). The C10 driver compares it line by line with `expected` below; a difference is a
  broken tie: the report names the function, the statement and the clause of the model that statement
  stands for (`clauseOf`), which is where the search for a failing input is aimed.
  When the library's loop is edited on purpose, re-read the edit against the model, update the model
  if the behaviour changed, and only then update this expectation.
-/
namespace Gozod.ChecksShape

def shape_executeChecks : List String := [
  "func executeChecks(value any, checks []core.ZodCheck, payload *core.ParsePayload, _ *core.ParseContext) *core.ParsePayload",
  "n := len(checks)",
  "if n == 0",
  ">return payload",
  "cur := payload.Issues()",
  "if cap(cur) < len(cur)+n",
  ">payload.SetIssues(slices.Grow(cur, n))",
  "path := payload.Path()",
  "val := value",
  "for i := range n",
  ">c := checks[i]",
  ">if c == nil",
  ">>continue",
  ">ci := c.Zod()",
  ">if ci == nil || ci.Check == nil",
  ">>continue",
  ">if ci.When != nil",
  ">>if CheckAborted(*payload, 0)",
  ">>>continue",
  ">>wp := core.NewParsePayloadWithPath(val, payload.Path())",
  ">>if !ci.When(wp)",
  ">>>continue",
  ">cp := core.NewParsePayloadWithPath(val, path)",
  ">ci.Check(cp)",
  ">val = cp.Value()",
  ">iss := cp.Issues()",
  ">if len(iss) == 0",
  ">>continue",
  ">if ci.Def != nil && ci.Def.Error != nil",
  ">>errFn := *ci.Def.Error",
  ">>for j := range iss",
  ">>>iss[j].Message = errFn(iss[j])",
  ">>>iss[j].Inst = ci",
  ">payload.AddIssues(iss...)",
  ">if ci.Def.Abort",
  ">>break",
  "payload.SetValue(val)",
  "return payload"
]

def shape_CheckAborted : List String := [
  "func CheckAborted(x core.ParsePayload, start int) bool",
  "iss := x.Issues()",
  "if start >= len(iss)",
  ">return false",
  "for _, issue := range iss[start:]",
  ">if !issue.Continue",
  ">>return true",
  "return false"
]

def shape_RunChecksOnValue : List String := [
  "func RunChecksOnValue(value any, checks []core.ZodCheck, payload *core.ParsePayload, ctx ...*core.ParseContext) *core.ParsePayload",
  "if payload == nil || len(checks) == 0",
  ">return payload",
  "return executeChecks(value, checks, payload, firstContext(ctx))"
]

def shape_ApplyChecks : List String := [
  "func ApplyChecks[T any](value T, checks []core.ZodCheck, ctx *core.ParseContext) (T, error)",
  "if len(checks) == 0",
  ">return value, nil",
  "payload := core.NewParsePayload(value)",
  "r := RunChecksOnValue(value, checks, payload, ctx)",
  "if r.HasIssues()",
  ">return value, issues.NewZodError(issues.ConvertRawIssuesToIssues(r.Issues(), ctx))",
  "if r.Value() == nil",
  ">var zero T",
  ">return zero, nil",
  "return convertResultToType[T](r.Value())"
]

def shape_hasOverwriteCheck : List String := [
  "func hasOverwriteCheck(checks []core.ZodCheck) bool",
  "for _, c := range checks",
  ">if ci := c.Zod(); ci != nil && ci.Def != nil && ci.Def.Check == \"overwrite\"",
  ">>return true",
  "return false"
]

def shape_validatePointerWithOverwrite : List String := [
  "func validatePointerWithOverwrite[T any](ptr *T, checks []core.ZodCheck, ctx *core.ParseContext) (*T, bool)",
  "vp, err := ApplyChecks(ptr, checks, ctx)",
  "if err == nil && vp != ptr",
  ">return vp, true",
  "return ptr, false"
]

def shape_validatePointer : List String := [
  "func validatePointer[T any](value T, ptr *T, checks []core.ZodCheck, validator func(T, []core.ZodCheck, *core.ParseContext) (T, error), ctx *core.ParseContext) (any, error)",
  "if validator == nil",
  ">return ptr, nil",
  "v, err := validator(value, checks, ctx)",
  "if err != nil",
  ">return nil, err",
  "if hasOverwriteCheck(checks)",
  ">if np, changed := validatePointerWithOverwrite(ptr, checks, ctx); changed",
  ">>return np, nil",
  ">*ptr = v",
  ">return ptr, nil",
  "if sameValue(reflect.ValueOf(&v).Elem(), reflect.ValueOf(ptr).Elem())",
  ">return ptr, nil",
  "if sameEntries(reflect.ValueOf(&v).Elem(), reflect.ValueOf(ptr).Elem())",
  ">return ptr, nil",
  "return &v, nil"
]

def shape_validateWithChecks : List String := [
  "func validateWithChecks[T any](value T, checks []core.ZodCheck, validator func(T, []core.ZodCheck, *core.ParseContext) (T, error), ctx *core.ParseContext) (any, error)",
  "v, err := validator(value, checks, ctx)",
  "if err != nil",
  ">return nil, err",
  "return v, nil"
]

def expected : String → Option (List String)
  | "executeChecks" => some shape_executeChecks
  | "CheckAborted" => some shape_CheckAborted
  | "RunChecksOnValue" => some shape_RunChecksOnValue
  | "ApplyChecks" => some shape_ApplyChecks
  | "hasOverwriteCheck" => some shape_hasOverwriteCheck
  | "validatePointerWithOverwrite" => some shape_validatePointerWithOverwrite
  | "validatePointer" => some shape_validatePointer
  | "validateWithChecks" => some shape_validateWithChecks
  | _ => none

/-- Which clause of the model statement number `i` of `fn` stands for. -/
def clauseOf (fn : String) (i : Nat) : String :=
  match fn, i with
  | "executeChecks", 8 => "runFrom: initial loop value"
  | "executeChecks", 9 => "runFrom: recursion over the check list, i = position"
  | "executeChecks", 16 => "runFrom pred-with-when case"
  | "executeChecks", 17 => "when: skipped without evaluating the guard once an issue exists (iss ≠ [])"
  | "executeChecks", 19 => "when: guard sees the threaded value (Ev.when i val)"
  | "executeChecks", 20 => "when: guard false → check skipped"
  | "executeChecks", 22 => "run: check sees the threaded value (Ev.check / Ev.over i val)"
  | "executeChecks", 23 => "run: env.holds p val / env.apply o val"
  | "executeChecks", 24 => "value threading: val := payload value after the check"
  | "executeChecks", 26 => "no issue → next check"
  | "executeChecks", 33 => "issue append: iss ++ [i]"
  | "executeChecks", 34 => "abort test after the append"
  | "executeChecks", 35 => "abort: stop, later checks neither run nor reported"
  | "executeChecks", 36 => "Run.val := final threaded value"
  | "CheckAborted", 5 => "any earlier issue counts (no creator sets Continue)"
  | "ApplyChecks", 5 => "Prim.checked: issues = [] ↔ ok"
  | "ApplyChecks", 10 => "result = threaded value"
  | "hasOverwriteCheck", 2 => "hasOverwrite"
  | "validatePointerWithOverwrite", 1 => "first pass runs ALL checks with the pointer as payload"
  | "validatePointerWithOverwrite", 2 => "early-return condition: no issue and a new pointer"
  | "validatePointer", 3 => "regular pass FIRST: runChecks on the pointee decides (since /repo 49e6e91)"
  | "validatePointer", 4 => "rejected by the validator: nothing else runs"
  | "validatePointer", 6 => "runChecksOn / runChecksC: ptrIn && hasOverwrite cs, after an accepting regular pass"
  | "validatePointer", 7 => "firstPassFrom / firstPassC afterwards; its value is the result when it has no issue and made a new pointer"
  | "validatePointer", 9 => "overwrite attached, pass over the pointer not taken: the regular result, written through the pointer (value = Run.val of the regular pass)"
  | "validatePointer", 11 => "no overwrite (since /repo e584c0e): the validator handed back what the pointer refers to: the caller's pointer is the result, nothing is stored (value = Run.val)"
  | "validatePointer", 13 => "no overwrite (since /repo 3302475): the validator built a map holding exactly the caller's entries: the caller's pointer is the result, nothing is stored (value = Run.val; C10 compares values, C15 the pointer identity)"
  | "validatePointer", 15 => "no overwrite, the validator built a new value: a pointer of its own to the regular result (value = Run.val)"
  | _, _ => "bookkeeping (no clause of the model depends on it directly)"

def functions : List String := ["executeChecks", "CheckAborted", "RunChecksOnValue", "ApplyChecks", "hasOverwriteCheck", "validatePointerWithOverwrite", "validatePointer", "validateWithChecks"]

end Gozod.ChecksShape
