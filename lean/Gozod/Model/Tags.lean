/-
  Vocabulary of the struct-tag rule matrix (C06, C13) and the *documented meaning* oracle.

  Nothing here models `types/struct.go`: the behaviour of the code is the regenerated table
  `Gozod.Gen.tagTable` (one block per field type, one observation per probe value).  This file fixes
  the types the table is written in and `Spec.accept`, the reading of docs/tags.md:

    * "Fields are optional unless marked `required`": a nil pointer field is accepted iff the tag
      has no `required`; a non-nil / non-pointer field is "present", so `required` adds nothing
      (the "and non-empty" of the String table is not applied by this oracle: the Quick Reference
      and every example read `required` as presence).
    * `min=N`/`max=N`/`length=N`: string length in bytes (DESIGN §3.6), numeric value, number of elements.
    * `positive`/`negative`/`nonnegative`/`nonpositive`: `> 0`, `< 0`, `>= 0`, `<= 0`.
    * `nonempty`: at least one element.
    * `email`/`url`/`uuid`/`regex=^aa*$`: judged on blatant members / non-members only (the probe
      strings are built to be exactly one of: all-`a`, all-`z`, an e-mail address, an http URL, a
      v4 UUID) — exact format languages are C20's business.
    * a nested struct field is valid iff its own tagged fields are.
-/
namespace Gozod.Tags

inductive Base
  | string
  | int | int8 | int16 | int32 | int64
  | uint | uint8 | uint16 | uint32 | uint64
  | float32 | float64
  | bool
  | slice_string | slice_int | slice_int64 | slice_float64 | slice_bool
  | slice_int32 | slice_uint8 | slice_slice_string | slice_struct | slice_ptr_string
  | map_string_string | map_string_int | map_string_any | map_string_float64
  | struct | structT
  deriving DecidableEq, Repr

inductive Cls | str | num | bool | slice | map | struct
  deriving DecidableEq, Repr

def Base.cls : Base → Cls
  | .string => .str
  | .int | .int8 | .int16 | .int32 | .int64 | .uint | .uint8 | .uint16 | .uint32 | .uint64
  | .float32 | .float64 => .num
  | .bool => .bool
  | .slice_string | .slice_int | .slice_int64 | .slice_float64 | .slice_bool | .slice_int32
  | .slice_uint8 | .slice_slice_string | .slice_struct | .slice_ptr_string => .slice
  | .map_string_string | .map_string_int | .map_string_any | .map_string_float64 => .map
  | .struct | .structT => .struct

structure FTy where
  ptr : Bool
  base : Base
  deriving DecidableEq, Repr

/-- A tag rule instance (the parameter is part of the instance). -/
inductive TRule
  | required
  | min (n : Int) | max (n : Int) | length (n : Nat)
  | gt (n : Int) | gte (n : Int) | lt (n : Int) | lte (n : Int)   -- not in the docs/tags.md tables; implemented, meaning by name
  | email | url | uuid | regex          -- regex is always `regex=^aa*$` in the matrix
  | positive | negative | nonnegative | nonpositive
  | nonempty
  deriving DecidableEq, Repr

inductive StrKind | plain | other | email | url | uuid
  deriving DecidableEq, Repr

/-- A boundary value for one field. -/
inductive Probe
  | nil                               -- nil pointer (pointer field types only)
  | num (twice : Int)                 -- the number twice/2 (halves only for float fields)
  | str (k : StrKind) (len : Nat)     -- a string of exactly `len` bytes of the given kind
  | elems (n : Nat)                   -- non-nil slice / map with n valid elements
  | flag (b : Bool)
  | inner (ok : Bool)                 -- nested struct whose own tagged field is valid / invalid
  deriving DecidableEq, Repr

/-- docs/tags.md: which rule is documented for which class of field type. -/
def documented (r : TRule) (c : Cls) : Bool :=
  match r, c with
  | .required, _ => true
  | .min _, .str | .min _, .num | .min _, .slice => true
  | .max _, .str | .max _, .num | .max _, .slice => true
  | .length _, .str | .length _, .slice => true
  | .email, .str | .url, .str | .uuid, .str | .regex, .str => true
  | .gt _, .num | .gte _, .num | .lt _, .num | .lte _, .num => true
  | .positive, .num | .negative, .num | .nonnegative, .num | .nonpositive, .num => true
  | .nonempty, .slice => true
  | _, _ => false

namespace Spec

/-- Documented meaning of one rule on one present (non-nil) value. -/
def ruleHolds (r : TRule) (p : Probe) : Bool :=
  match r, p with
  | .required, _ => true
  | .min n, .num t => decide (2 * n ≤ t)
  | .max n, .num t => decide (t ≤ 2 * n)
  | .gt n, .num t => decide (2 * n < t)
  | .gte n, .num t => decide (2 * n ≤ t)
  | .lt n, .num t => decide (t < 2 * n)
  | .lte n, .num t => decide (t ≤ 2 * n)
  | .min n, .str _ l => decide (n ≤ (l : Int))
  | .max n, .str _ l => decide ((l : Int) ≤ n)
  | .length n, .str _ l => decide (l = n)
  | .min n, .elems k => decide (n ≤ (k : Int))
  | .max n, .elems k => decide ((k : Int) ≤ n)
  | .length n, .elems k => decide (k = n)
  | .nonempty, .elems k => decide (1 ≤ k)
  | .email, .str k _ => decide (k = .email)
  | .url, .str k _ => decide (k = .url)
  | .uuid, .str k _ => decide (k = .uuid)
  | .regex, .str k _ => decide (k = .plain)
  | .positive, .num t => decide (0 < t)
  | .negative, .num t => decide (t < 0)
  | .nonnegative, .num t => decide (0 ≤ t)
  | .nonpositive, .num t => decide (t ≤ 0)
  | _, _ => true

/-- Documented verdict for a field carrying `rules` (in any order) and holding `p`. -/
def accept (rules : List TRule) (p : Probe) : Bool :=
  match p with
  | .nil => !rules.contains .required
  | .inner ok => ok && rules.all (ruleHolds · p)
  | _ => rules.all (ruleHolds · p)

end Spec

/-- One field type of the matrix: its probes, and per rule / ordered rule pair the verdict the
    real schema gave on each probe (`true` = the field raised no issue). -/
structure Block where
  fty : FTy
  probes : List Probe
  singles : List (TRule × List Bool)
  /-- `(r₁, r₂, observations for tag "r₁,r₂", observations for tag "r₂,r₁")` -/
  pairs : List (TRule × TRule × List Bool × List Bool)
  deriving Repr

def expected (rules : List TRule) (ps : List Probe) : List Bool := ps.map (Spec.accept rules)

/-! ### token syntax shared with the harness (op lines) -/

def Base.ofString? : String → Option Base
  | "string" => some .string
  | "int" => some .int | "int8" => some .int8 | "int16" => some .int16 | "int32" => some .int32 | "int64" => some .int64
  | "uint" => some .uint | "uint8" => some .uint8 | "uint16" => some .uint16 | "uint32" => some .uint32 | "uint64" => some .uint64
  | "float32" => some .float32 | "float64" => some .float64
  | "bool" => some .bool
  | "slice_string" => some .slice_string | "slice_int" => some .slice_int | "slice_int64" => some .slice_int64
  | "slice_float64" => some .slice_float64 | "slice_bool" => some .slice_bool | "slice_int32" => some .slice_int32
  | "slice_uint8" => some .slice_uint8 | "slice_slice_string" => some .slice_slice_string
  | "slice_struct" => some .slice_struct | "slice_ptr_string" => some .slice_ptr_string
  | "map_string_string" => some .map_string_string | "map_string_int" => some .map_string_int
  | "map_string_any" => some .map_string_any | "map_string_float64" => some .map_string_float64
  | "struct" => some .struct | "structT" => some .structT
  | _ => none

def FTy.ofString? (s : String) : Option FTy :=
  if s.startsWith "ptr_" then (Base.ofString? (s.drop 4).toString).map (FTy.mk true)
  else (Base.ofString? s).map (FTy.mk false)

def TRule.ofString? (s : String) : Option TRule :=
  match s.splitOn "=" with
  | ["required"] => some .required
  | ["email"] => some .email | ["url"] => some .url | ["uuid"] => some .uuid
  | ["regex", _] => some .regex
  | ["positive"] => some .positive | ["negative"] => some .negative
  | ["nonnegative"] => some .nonnegative | ["nonpositive"] => some .nonpositive
  | ["nonempty"] => some .nonempty
  | ["min", n] => n.toInt?.map .min
  | ["max", n] => n.toInt?.map .max
  | ["gt", n] => n.toInt?.map .gt | ["gte", n] => n.toInt?.map .gte
  | ["lt", n] => n.toInt?.map .lt | ["lte", n] => n.toInt?.map .lte
  | ["length", n] => n.toNat?.map .length
  | _ => none

def StrKind.ofString? : String → Option StrKind
  | "plain" => some .plain | "other" => some .other | "email" => some .email
  | "url" => some .url | "uuid" => some .uuid | _ => none

def Probe.ofString? (s : String) : Option Probe :=
  match s.splitOn ":" with
  | ["nil"] => some .nil
  | ["n", t] => t.toInt?.map .num
  | ["i", v] => v.toInt?.map (fun v => .num (2 * v))
  | ["s", k, l] => do let k ← StrKind.ofString? k; let l ← l.toNat?; pure (.str k l)
  | ["e", n] => n.toNat?.map .elems
  | ["b", "1"] => some (.flag true) | ["b", "0"] => some (.flag false)
  | ["in", "1"] => some (.inner true) | ["in", "0"] => some (.inner false)
  | _ => none

end Gozod.Tags
