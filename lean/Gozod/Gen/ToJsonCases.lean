/- REGENERATED on every `./check C07` run by harness/cmd/c07/cases.go (go/ast) from
   <repo>/jsonschema/to.go and <repo>/core/constants.go.  DO NOT EDIT. -/
namespace Gozod.Gen.ToJsonCases

/-- every `ZodTypeCode` constant of core/constants.go (prefix `ZodType` dropped). -/
inductive Code
  | String
  | Number
  | NaN
  | Integer
  | BigInt
  | Bool
  | Date
  | Nil
  | Any
  | Unknown
  | Never
  | Array
  | Slice
  | Tuple
  | Object
  | Struct
  | Record
  | Map
  | Set
  | Union
  | Xor
  | Discriminated
  | Intersection
  | StringBool
  | Function
  | Lazy
  | Literal
  | Enum
  | Optional
  | Nilable
  | Default
  | Prefault
  | Pipeline
  | Transform
  | Pipe
  | Custom
  | Check
  | Refine
  | IPv4
  | IPv6
  | CIDRv4
  | CIDRv6
  | Email
  | URL
  | Hostname
  | MAC
  | E164
  | Time
  | Iso
  | ISODateTime
  | ISODate
  | ISOTime
  | ISODuration
  | File
  | Float32
  | Float64
  | Float
  | Int
  | Int8
  | Int16
  | Int32
  | Int64
  | Uint
  | Uint8
  | Uint16
  | Uint32
  | Uint64
  | Uintptr
  | Complex64
  | Complex128
  | NonOptional
  deriving DecidableEq, Repr

def Code.all : List Code := [.String, .Number, .NaN, .Integer, .BigInt, .Bool, .Date, .Nil, .Any, .Unknown, .Never, .Array, .Slice, .Tuple, .Object, .Struct, .Record, .Map, .Set, .Union, .Xor, .Discriminated, .Intersection, .StringBool, .Function, .Lazy, .Literal, .Enum, .Optional, .Nilable, .Default, .Prefault, .Pipeline, .Transform, .Pipe, .Custom, .Check, .Refine, .IPv4, .IPv6, .CIDRv4, .CIDRv6, .Email, .URL, .Hostname, .MAC, .E164, .Time, .Iso, .ISODateTime, .ISODate, .ISOTime, .ISODuration, .File, .Float32, .Float64, .Float, .Int, .Int8, .Int16, .Int32, .Int64, .Uint, .Uint8, .Uint16, .Uint32, .Uint64, .Uintptr, .Complex64, .Complex128, .NonOptional]

/-- the `"type"` strings of the lib.Schema literals assigned in doConvert. -/
inductive JType
  | string
  | integer
  | number
  | boolean
  | null
  deriving DecidableEq, Repr

def JType.all : List JType := [.string, .integer, .number, .boolean, .null]

/-- the `"format"` strings assigned in doConvert. -/
inductive JFormat
  | date_time
  | email
  | time
  | date
  | duration
  deriving DecidableEq, Repr

def JFormat.all : List JFormat := [.date_time, .email, .time, .date, .duration]

/-- the converter methods called from doConvert. -/
inductive Call
  | applyStringBag
  | applyNumericRangeDefaults
  | convertUnion
  | convertXor
  | convert
  | convertDiscriminatedUnion
  | convertIntersection
  | convertRecord
  | convertObject
  | convertArray
  | convertTuple
  | convertEnum
  | convertLiteral
  | convertFile
  | convertLazy
  | convertMap
  | applyBag
  deriving DecidableEq, Repr

def Call.all : List Call := [.applyStringBag, .applyNumericRangeDefaults, .convertUnion, .convertXor, .convert, .convertDiscriminatedUnion, .convertIntersection, .convertRecord, .convertObject, .convertArray, .convertTuple, .convertEnum, .convertLiteral, .convertFile, .convertLazy, .convertMap, .applyBag]

structure Branch where
  codes : List Code
  types : List JType
  format : Option JFormat
  calls : List Call
  unrep : Bool
  inner : Bool
  notKw : Bool
  fallsThrough : Bool
  isDefault : Bool
  deriving DecidableEq, Repr

/-- the case clauses of `switch internals.Type` in (*converter).doConvert, in source order. -/
def branches : List Branch := [
  { codes := [.String, .IPv4, .IPv6, .Hostname, .MAC, .E164, .CIDRv4, .CIDRv6, .URL], types := [.string], format := none, calls := [.applyStringBag], unrep := false, inner := false, notKw := false, fallsThrough := false, isDefault := false },
  { codes := [.Int, .Integer, .Int8, .Int16, .Int32, .Int64, .Uint, .Uint8, .Uint16, .Uint32, .Uint64, .Uintptr], types := [.integer], format := none, calls := [.applyNumericRangeDefaults], unrep := false, inner := false, notKw := false, fallsThrough := false, isDefault := false },
  { codes := [.Float], types := [.number], format := none, calls := [], unrep := false, inner := false, notKw := false, fallsThrough := false, isDefault := false },
  { codes := [.Float32, .Float64], types := [.number], format := none, calls := [.applyNumericRangeDefaults], unrep := false, inner := false, notKw := false, fallsThrough := false, isDefault := false },
  { codes := [.Bool], types := [.boolean], format := none, calls := [], unrep := false, inner := false, notKw := false, fallsThrough := false, isDefault := false },
  { codes := [.Nil], types := [.null], format := none, calls := [], unrep := false, inner := false, notKw := false, fallsThrough := false, isDefault := false },
  { codes := [.Any, .Unknown], types := [], format := none, calls := [], unrep := false, inner := false, notKw := false, fallsThrough := false, isDefault := false },
  { codes := [.Never], types := [], format := none, calls := [], unrep := false, inner := false, notKw := true, fallsThrough := false, isDefault := false },
  { codes := [.Union], types := [], format := none, calls := [.convertUnion], unrep := false, inner := false, notKw := false, fallsThrough := false, isDefault := false },
  { codes := [.Xor], types := [], format := none, calls := [.convertXor], unrep := false, inner := false, notKw := false, fallsThrough := false, isDefault := false },
  { codes := [.Pipe, .Pipeline], types := [], format := none, calls := [.convert], unrep := true, inner := true, notKw := false, fallsThrough := false, isDefault := false },
  { codes := [.Transform], types := [], format := none, calls := [.convert], unrep := true, inner := true, notKw := false, fallsThrough := false, isDefault := false },
  { codes := [.Discriminated], types := [], format := none, calls := [.convertDiscriminatedUnion], unrep := false, inner := false, notKw := false, fallsThrough := false, isDefault := false },
  { codes := [.Intersection], types := [], format := none, calls := [.convertIntersection], unrep := false, inner := false, notKw := false, fallsThrough := false, isDefault := false },
  { codes := [.Record], types := [], format := none, calls := [.convertRecord], unrep := false, inner := false, notKw := false, fallsThrough := false, isDefault := false },
  { codes := [.Object, .Struct], types := [], format := none, calls := [.convertObject], unrep := false, inner := false, notKw := false, fallsThrough := false, isDefault := false },
  { codes := [.Slice, .Array], types := [], format := none, calls := [.convertArray], unrep := false, inner := false, notKw := false, fallsThrough := false, isDefault := false },
  { codes := [.Tuple], types := [], format := none, calls := [.convertTuple], unrep := false, inner := false, notKw := false, fallsThrough := false, isDefault := false },
  { codes := [.Enum], types := [], format := none, calls := [.convertEnum], unrep := false, inner := false, notKw := false, fallsThrough := false, isDefault := false },
  { codes := [.Literal], types := [], format := none, calls := [.convertLiteral], unrep := false, inner := false, notKw := false, fallsThrough := false, isDefault := false },
  { codes := [.File], types := [], format := none, calls := [.convertFile], unrep := false, inner := false, notKw := false, fallsThrough := false, isDefault := false },
  { codes := [.Lazy], types := [], format := none, calls := [.convertLazy], unrep := false, inner := false, notKw := false, fallsThrough := false, isDefault := false },
  { codes := [.Map], types := [], format := none, calls := [.convertMap], unrep := false, inner := false, notKw := false, fallsThrough := false, isDefault := false },
  { codes := [.Set], types := [], format := none, calls := [], unrep := true, inner := false, notKw := false, fallsThrough := false, isDefault := false },
  { codes := [.Number], types := [.number], format := none, calls := [], unrep := false, inner := false, notKw := false, fallsThrough := false, isDefault := false },
  { codes := [.BigInt], types := [], format := none, calls := [], unrep := true, inner := false, notKw := false, fallsThrough := false, isDefault := false },
  { codes := [.Date], types := [.string], format := some .date_time, calls := [], unrep := false, inner := false, notKw := false, fallsThrough := false, isDefault := false },
  { codes := [.Email], types := [.string], format := some .email, calls := [], unrep := false, inner := false, notKw := false, fallsThrough := false, isDefault := false },
  { codes := [.Time], types := [.string], format := some .time, calls := [], unrep := false, inner := false, notKw := false, fallsThrough := false, isDefault := false },
  { codes := [.ISODateTime, .Iso], types := [.string], format := some .date_time, calls := [], unrep := false, inner := false, notKw := false, fallsThrough := false, isDefault := false },
  { codes := [.ISODate], types := [.string], format := some .date, calls := [], unrep := false, inner := false, notKw := false, fallsThrough := false, isDefault := false },
  { codes := [.ISOTime], types := [.string], format := some .time, calls := [], unrep := false, inner := false, notKw := false, fallsThrough := false, isDefault := false },
  { codes := [.ISODuration], types := [.string], format := some .duration, calls := [], unrep := false, inner := false, notKw := false, fallsThrough := false, isDefault := false },
  { codes := [.Optional, .Nilable, .Default, .Prefault, .Refine, .Check], types := [], format := none, calls := [.convert], unrep := true, inner := true, notKw := false, fallsThrough := false, isDefault := false },
  { codes := [.NaN, .StringBool, .Function, .Custom, .Complex64, .Complex128, .NonOptional], types := [], format := none, calls := [], unrep := false, inner := false, notKw := false, fallsThrough := true, isDefault := false },
  { codes := [], types := [], format := none, calls := [], unrep := true, inner := false, notKw := false, fallsThrough := false, isDefault := true }
]

/-- converter methods called in doConvert after the switch (on every branch that did not return). -/
def tailCalls : List Call := [.applyBag]

/-- `numericRangeDefaults`: inclusive range per code, as the emitted document shows it
    (Go constant → float64 → lib.NewRat → JSON text → exact integer). -/
def rangeDefaults : List (Code × Int × Int) := [
  (.Int, (-9223372036854776000), 9223372036854776000),
  (.Integer, (-9223372036854776000), 9223372036854776000),
  (.Int8, (-128), 127),
  (.Int16, (-32768), 32767),
  (.Int32, (-2147483648), 2147483647),
  (.Int64, (-9223372036854776000), 9223372036854776000),
  (.Uint, 0, 18446744073709552000),
  (.Uint8, 0, 255),
  (.Uint16, 0, 65535),
  (.Uint32, 0, 4294967295),
  (.Uint64, 0, 18446744073710000000),
  (.Float32, (-340282346638528860000000000000000000000), 340282346638528860000000000000000000000),
  (.Float64, (-179769313486231570000000000000000000000000000000000000000000000000000000000000000000000000000000000000000000000000000000000000000000000000000000000000000000000000000000000000000000000000000000000000000000000000000000000000000000000000000000000000000000000000000000000000000000000000000000000000000000000000000), 179769313486231570000000000000000000000000000000000000000000000000000000000000000000000000000000000000000000000000000000000000000000000000000000000000000000000000000000000000000000000000000000000000000000000000000000000000000000000000000000000000000000000000000000000000000000000000000000000000000000000000000)
]

/-- applyNumericRangeDefaults returns at once unless `c.depth` equals this. -/
def rangeDefaultsDepth : Nat := 1

/-- `compositeTypes`: what Reused:"ref" moves to `$defs`. -/
def compositeTypes : List Code := [.Object, .Struct, .Slice, .Array, .Record, .Union, .Intersection]

/-- the Bag keys applyBag's `switch k` knows. -/
inductive BagKey
  | minLength
  | maxLength
  | format
  | contentEncoding
  | contentMediaType
  | minimum
  | maximum
  | multipleOf
  | exclusiveMinimum
  | exclusiveMaximum
  | minItems
  | maxItems
  | minProperties
  | maxProperties
  | minSize
  | maxSize
  | mime
  deriving DecidableEq, Repr

def BagKey.all : List BagKey := [.minLength, .maxLength, .format, .contentEncoding, .contentMediaType, .minimum, .maximum, .multipleOf, .exclusiveMinimum, .exclusiveMaximum, .minItems, .maxItems, .minProperties, .maxProperties, .minSize, .maxSize, .mime]

/-- the lib.Schema fields its clauses assign (`A+B` = both). -/
inductive KwField
  | MinLength
  | MaxLength
  | Format
  | ContentEncoding
  | ContentMediaType
  | Minimum
  | Maximum
  | MultipleOf
  | ExclusiveMinimum
  | ExclusiveMaximum
  | MinItems
  | MaxItems
  | MinProperties
  | MaxProperties
  deriving DecidableEq, Repr

def KwField.all : List KwField := [.MinLength, .MaxLength, .Format, .ContentEncoding, .ContentMediaType, .Minimum, .Maximum, .MultipleOf, .ExclusiveMinimum, .ExclusiveMaximum, .MinItems, .MaxItems, .MinProperties, .MaxProperties]

def bagTable : List (BagKey × KwField) := [
  (.minLength, .MinLength),
  (.maxLength, .MaxLength),
  (.format, .Format),
  (.contentEncoding, .ContentEncoding),
  (.contentMediaType, .ContentMediaType),
  (.minimum, .Minimum),
  (.maximum, .Maximum),
  (.multipleOf, .MultipleOf),
  (.exclusiveMinimum, .ExclusiveMinimum),
  (.exclusiveMaximum, .ExclusiveMaximum),
  (.minItems, .MinItems),
  (.maxItems, .MaxItems),
  (.minProperties, .MinProperties),
  (.maxProperties, .MaxProperties),
  (.minSize, .MinLength),
  (.maxSize, .MaxLength),
  (.mime, .ContentMediaType)
]

/-- option values the converter tests (`c.opts.<Field> ==/!= "<value>"`), sorted. -/
inductive OptTest
  | Cycles_throw
  | IO_input
  | Reused_ref
  | Unrepresentable_any
  deriving DecidableEq, Repr

def OptTest.all : List OptTest := [.Cycles_throw, .IO_input, .Reused_ref, .Unrepresentable_any]

end Gozod.Gen.ToJsonCases
