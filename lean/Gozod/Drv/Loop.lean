/-
  Shared stdin→stdout loop for the per-property line-protocol drivers.
  One op per input line, one observation per output line.  Tokens are space-separated;
  everything from a token starting with `#` on is a comment (the harness records there how
  the case was run against the implementation).
-/
namespace Gozod.Drv

def stripComment : List String → List String
  | [] => []
  | t :: ts => if t.startsWith "#" then [] else t :: stripComment ts

def tokens (line : String) : List String :=
  stripComment ((line.splitOn " ").filter (· ≠ ""))

def chomp (line : String) : String :=
  let cs := line.toList.reverse.dropWhile (fun c => c == '\n' || c == '\r')
  String.ofList cs.reverse

partial def loop (handle : String → String) (hin hout : IO.FS.Stream) : IO Unit := do
  let line ← hin.getLine
  if line.isEmpty then return ()
  hout.putStrLn (handle (chomp line))
  loop handle hin hout

/-- `main` of a driver whose handler works on the token list (first token = property tag, dropped). -/
def runTokens (handle : List String → String) : IO Unit := do
  let hin ← IO.getStdin
  let hout ← IO.getStdout
  loop (fun l => match tokens l with
                 | _ :: rest => handle rest
                 | [] => "bad-op") hin hout

/-- `main` of a driver whose handler works on the raw line (e.g. JSON payloads). -/
def runLines (handle : String → String) : IO Unit := do
  let hin ← IO.getStdin
  let hout ← IO.getStdout
  loop handle hin hout

end Gozod.Drv
