package main

// C18, round 4: deeper nesting (union branch, lazy, pipe, struct field, intersection, record key; random chains of
// depth 2-4), the dynamic link between the behavioural catalogue and the static one (which FinalizeIssue call finalised
// the leaf's issue: reach.txt), issue-DEPENDENT error maps (`c18 dep`), and the parameter table of the locales.

import (
	"fmt"
	"os"
	"runtime"
	"sort"
	"strings"

	"github.com/kaptinlin/gozod"
	"github.com/kaptinlin/gozod/core"
	"github.com/kaptinlin/gozod/locales"
	"github.com/kaptinlin/gozod/types"

	"verifharness/hx"
)

type structWrap struct {
	F any `json:"f"`
}

// deepWrappers: positions the round-3 catalogue did not have.
func deepWrappers() []wrapper {
	return []wrapper{
		// (the branches of a plain Union / Xor do not report their issues at all: ZodIssue carries no branch errors, so there
		// is no message to attribute there; the matched variant of a discriminated union reports its issues directly)
		{"du-branch", func(s core.ZodSchema) core.ZodSchema {
			return gozod.DiscriminatedUnion("t", []any{
				gozod.Object(core.ObjectSchema{"t": gozod.Literal("a"), "f": s}),
				gozod.Object(core.ObjectSchema{"t": gozod.Literal("b")})})
		}, func(v any) any { return map[string]any{"t": "a", "f": v} }, `DiscriminatedUnion("t",[{t:"a",f:S},{t:"b"}]).Parse({"t":"a","f":v})`},
		{"lazy", func(s core.ZodSchema) core.ZodSchema { return types.LazyAny(func() any { return s }) },
			func(v any) any { return v }, "LazyAny(func() any {return S}).Parse(v)"},
		{"pipe", func(s core.ZodSchema) core.ZodSchema {
			return gozod.Any().Pipe(types.LazyAny(func() any { return s }))
		}, func(v any) any { return v }, "Any().Pipe(LazyAny(S)).Parse(v)"},
		{"struct-field", func(s core.ZodSchema) core.ZodSchema { return types.Struct[structWrap](core.StructSchema{"f": s}) },
			func(v any) any { return structWrap{F: v} }, "Struct[struct{F any `json:\"f\"`}]({f:S}).Parse(struct{F: v})"},
		{"intersection", func(s core.ZodSchema) core.ZodSchema { return types.Intersection(s, gozod.Any()) },
			func(v any) any { return v }, "Intersection(S,Any()).Parse(v)"},
		{"record-key", func(s core.ZodSchema) core.ZodSchema { return types.Record(s, gozod.Any()) },
			func(v any) any {
				if k, ok := v.(string); ok {
					return map[string]any{k: 1}
				}
				return map[string]any{}
			}, `Record(S,Any()).Parse({v:1})`},
	}
}

func compose(ws []wrapper) wrapper {
	if len(ws) == 1 {
		return ws[0]
	}
	outer, inner := ws[0], compose(ws[1:])
	return wrapper{
		id:   outer.id + ">" + inner.id,
		wrap: func(s core.ZodSchema) core.ZodSchema { return outer.wrap(inner.wrap(s)) },
		in:   func(v any) any { return outer.in(inner.in(v)) },
		desc: outer.desc + " where its S = " + inner.desc,
	}
}

// randomChains: nesting chains of depth 2..4 over all one-level wrappers (top excluded).
func randomChains(c hx.Config, one []wrapper) []wrapper {
	r := hx.NewRng(c.Seed ^ 0xdee9)
	n := 40
	if c.Thorough() {
		n = 400
	}
	var out []wrapper
	seen := map[string]bool{}
	for len(out) < n {
		d := 2 + r.Intn(3)
		ws := make([]wrapper, d)
		for i := range ws {
			ws[i] = one[1+r.Intn(len(one)-1)]
		}
		w := compose(ws)
		if !seen[w.id] {
			seen[w.id] = true
			out = append(out, w)
		}
	}
	return out
}

// ---------------------------------------------------------------- dynamic reach: which FinalizeIssue call made the message

func relFile(fr runtime.Frame) string {
	fn := fr.Function
	i := strings.Index(fn, "kaptinlin/gozod")
	if i < 0 {
		return ""
	}
	pkg := fn[i+len("kaptinlin/gozod"):]
	pkg = strings.TrimPrefix(pkg, "/")
	// package path ends at the first '.' after the last '/'
	slash := strings.LastIndex(pkg, "/")
	dot := strings.Index(pkg[slash+1:], ".")
	if dot >= 0 {
		pkg = pkg[:slash+1+dot]
	}
	base := fr.File[strings.LastIndex(fr.File, "/")+1:]
	if pkg == "" {
		return base
	}
	return pkg + "/" + base
}

// captureReach parses the site with a recording global error map and returns the caller of FinalizeIssue that resolved
// the leaf's issue (fin), the first frame outside internal/issues (outer), and the raw issue the map saw.
func captureReach(lf leaf, w wrapper) (fin, outer string, seen *core.ZodRawIssue) {
	core.SetConfig(nil)
	defer core.SetConfig(nil)
	core.SetConfig(&core.ZodConfig{CustomError: func(raw core.ZodRawIssue) string {
		if raw.Code != lf.code || fin != "" {
			return ""
		}
		cp := raw
		seen = &cp
		pcs := make([]uintptr, 64)
		n := runtime.Callers(1, pcs)
		frames := runtime.CallersFrames(pcs[:n])
		state := 0
		for {
			fr, more := frames.Next()
			switch state {
			case 0:
				if strings.HasSuffix(fr.Function, "internal/issues.FinalizeIssue") {
					state = 1
				}
			case 1:
				fin = fmt.Sprintf("%s:%d", relFile(fr), fr.Line)
				state = 2
				fallthrough
			case 2:
				if !strings.Contains(fr.Function, "/internal/issues.") {
					outer = fmt.Sprintf("%s:%d", relFile(fr), fr.Line)
					state = 3
				}
			}
			if !more || state == 3 {
				break
			}
		}
		return ""
	}})
	hx.Safely(func() { _, _ = w.wrap(lf.build(nil, nil)).ParseAny(w.in(lf.input)) })
	return
}

// captureSeen: the raw issue of the leaf's code as ANY message source is shown it (check function, schema function,
// per-parse map, global map — whichever is asked first).
func captureSeen(lf leaf, w wrapper) (seen *core.ZodRawIssue) {
	rec := func(raw core.ZodRawIssue) string {
		if raw.Code == lf.code {
			// the LAST call counts: a refinement's message function is called twice (resolveErrorMessage with a bare issue,
			// then executeChecks with the issue as reported), and the second answer is the message
			cp := raw
			seen = &cp
		}
		return ""
	}
	var c, s []any
	if lf.chk {
		c = []any{(func(core.ZodRawIssue) string)(rec)}
	}
	if lf.sch {
		s = []any{(func(core.ZodRawIssue) string)(rec)}
	}
	core.SetConfig(nil)
	defer core.SetConfig(nil)
	core.SetConfig(&core.ZodConfig{CustomError: rec})
	hx.Safely(func() { _, _ = w.wrap(lf.build(c, s)).ParseAny(w.in(lf.input), &core.ParseContext{Error: rec}) })
	return
}

// ---------------------------------------------------------------- issue-dependent maps

// a map kind decides, from the raw issue, whether the source answers:
//
//	K always   T only invalid_type   N every code but invalid_type   I only when the input is a Go string
//	O only when the issue carries an origin   Z only too_small / too_big   F only invalid_format   E never
const depKinds = "KTNIOZFE"

func depAnswers(kind byte, raw core.ZodRawIssue) bool {
	switch kind {
	case 'K':
		return true
	case 'T':
		return raw.Code == core.InvalidType
	case 'N':
		return raw.Code != core.InvalidType
	case 'I':
		_, ok := raw.Input.(string)
		return ok
	case 'O':
		o, _ := raw.Properties["origin"].(string)
		return o != ""
	case 'Z':
		return raw.Code == core.TooSmall || raw.Code == core.TooBig
	case 'F':
		return raw.Code == core.InvalidFormat
	}
	return false
}

func depMap(kind byte, tag string) core.ZodErrorMap {
	return func(raw core.ZodRawIssue) string {
		if depAnswers(kind, raw) {
			return tag + ":" + string(raw.Code)
		}
		return ""
	}
}

// runDep: spec[i] is the map kind of source i of "cspgl" ('-' = not configured).  The winner is the tag of the map whose
// answer is the message; a "!" is appended when the answering map was shown an issue of another code than the reported one.
func runDep(lf leaf, w wrapper, spec string) string {
	var c, s []any
	if spec[0] != '-' {
		c = []any{(func(core.ZodRawIssue) string)(depMap(spec[0], "CHK"))}
	}
	if spec[1] != '-' {
		s = []any{(func(core.ZodRawIssue) string)(depMap(spec[1], "SCH"))}
	}
	core.SetConfig(nil)
	cfg := &core.ZodConfig{}
	if spec[3] != '-' {
		cfg.CustomError = depMap(spec[3], "CUS")
	}
	if spec[4] != '-' {
		cfg.LocaleError = depMap(spec[4], "LOC")
	}
	core.SetConfig(cfg)
	defer core.SetConfig(nil)
	var err error
	if p := hx.Safely(func() {
		schema := w.wrap(lf.build(c, s))
		if spec[2] != '-' {
			_, err = schema.ParseAny(w.in(lf.input), &core.ParseContext{Error: depMap(spec[2], "CTX")})
		} else {
			_, err = schema.ParseAny(w.in(lf.input))
		}
	}); p != "" {
		return "panic"
	}
	var ze *gozod.ZodError
	if err == nil || !gozod.IsZodError(err, &ze) {
		return "n"
	}
	is, ok := findIssue(ze.Issues, lf.code)
	if !ok {
		return "n"
	}
	for tag, letter := range map[string]string{"CHK": "c", "SCH": "s", "CTX": "p", "CUS": "g", "LOC": "l"} {
		if strings.HasPrefix(is.Message, tag+":") {
			if is.Message[len(tag)+1:] != string(is.Code) {
				return letter + "!"
			}
			return letter
		}
	}
	if is.Message == "" {
		return "e"
	}
	return "d"
}

func b01(b bool) string {
	if b {
		return "1"
	}
	return "0"
}

// depCells emits the `c18 dep` family and returns the lines of seen.txt (leaf → features of the raw issue the maps see).
func depCells(c hx.Config, o *hx.Out, lvs []leaf, one []wrapper, visible map[string]bool) []string {
	r := hx.NewRng(c.Seed ^ 0xdeb)
	var seenLines []string
	perSite := 10
	if c.Thorough() {
		perSite = 60
	}
	for _, lf := range lvs {
		for _, w := range one {
			if !visible[lf.id+"@"+w.id] {
				continue
			}
			// features of the raw issue as the library hands it to a message source AT THIS POSITION; a site that consults
			// no source at all (preset message) has the features of its construction
			seen := captureSeen(lf, w)
			_, inStr := lf.input.(string)
			hasOrigin := false
			if seen != nil {
				_, inStr = seen.Input.(string)
				og, _ := seen.Properties["origin"].(string)
				hasOrigin = og != ""
			}
			seenLines = append(seenLines, fmt.Sprintf("%s@%s\t%s\t%s\t%s\t%s", lf.id, w.id, lf.code, b01(inStr), b01(hasOrigin), b01(seen != nil)))
			appl := []bool{lf.chk, lf.sch, true, true, true}
			for k := 0; k < perSite; k++ {
				spec := make([]byte, 5)
				any := false
				for i := range spec {
					spec[i] = '-'
					if appl[i] && r.Chance(55) {
						spec[i] = depKinds[r.Intn(len(depKinds))]
						any = true
					}
				}
				if !any {
					spec[2+r.Intn(3)] = depKinds[r.Intn(len(depKinds))]
				}
				win := runDep(lf, w, string(spec))
				o.Emit(fmt.Sprintf("c18 dep %s@%s %s # %s with S = %s; sources c,s,p,g,l are maps of kind %s (K always, T only invalid_type, N not invalid_type, I only string input, O only with an origin, Z only too_small/too_big, F only invalid_format, E never, - not configured); a map that does not answer returns \"\"",
					lf.id, w.id, spec, w.desc, lf.repro, spec), win)
				o.Count("dep:" + lf.kind)
			}
		}
	}
	return seenLines
}

// ---------------------------------------------------------------- locale parameter table

type kindKeys struct{ sizable, formats, types, origins []string }

func readKinds(path string) (kindKeys, error) {
	var k kindKeys
	b, err := os.ReadFile(path)
	if err != nil {
		return k, err
	}
	for _, line := range strings.Split(string(b), "\n") {
		f := strings.SplitN(line, "\t", 2)
		if len(f) != 2 {
			continue
		}
		switch f[0] {
		case "sizable":
			k.sizable = append(k.sizable, f[1])
		case "formats":
			k.formats = append(k.formats, f[1])
		case "types":
			k.types = append(k.types, f[1])
		case "origins":
			k.origins = append(k.origins, f[1])
		}
	}
	return k, nil
}

type fileLike struct{ n int }

// localeParams: every parameter variation that selects another text path of a locale formatter.
//
//	invalid_type   expected (every type the locale dictionaries / the library's creation sites name, "", an unknown one) x kind of input
//	too_small/big  origin (every sizable origin, the numeric ones, "", an unknown one) x threshold (absent, int, float) x inclusive (absent, true, false)
//	invalid_format format (every name of the dictionaries / switch cases / creation sites, "", unknown) x with / without its detail property
//	and keys 0/1/many, values 0/1/many, divisor absent/int/float, origin of invalid_key / invalid_element, every other code bare and with its properties.
func localeParams(k kindKeys) map[string]core.ZodRawIssue {
	cat := map[string]core.ZodRawIssue{}
	inputs := []struct {
		n string
		v any
	}{{"nil", nil}, {"string", "x"}, {"int", 1}, {"slice", []any{1}}, {"struct", fileLike{1}}}
	for _, e := range append([]string{"", "zz_unknown"}, k.types...) {
		for _, in := range inputs {
			p := map[string]any{}
			if e != "" {
				p["expected"] = e
			}
			cat["invalid_type:"+e+":in-"+in.n] = core.ZodRawIssue{Code: core.InvalidType, Input: in.v, Properties: p}
		}
	}
	origins := append([]string{"", "zz_unknown", "float", "record", "tuple"}, k.sizable...)
	for _, og := range origins {
		for ti, th := range []any{nil, 5, 2.5} {
			for ii, inc := range []any{nil, true, false} {
				for _, small := range []bool{true, false} {
					p := map[string]any{}
					if og != "" {
						p["origin"] = og
					}
					code, key := core.TooBig, "maximum"
					if small {
						code, key = core.TooSmall, "minimum"
					}
					if th != nil {
						p[key] = th
					}
					if inc != nil {
						p["inclusive"] = inc
					}
					cat[fmt.Sprintf("%s:%s:th%d:inc%d", code, og, ti, ii)] = core.ZodRawIssue{Code: code, Input: "x", Properties: p}
				}
			}
		}
	}
	// exact length: minimum = maximum (CreateFixedLengthArrayIssue)
	for _, small := range []bool{true, false} {
		code := core.TooBig
		if small {
			code = core.TooSmall
		}
		cat[string(code)+":array:exact"] = core.ZodRawIssue{Code: code, Input: []any{1}, Properties: map[string]any{"origin": "array", "minimum": 2, "maximum": 2, "inclusive": true}}
	}
	for _, f := range append([]string{"", "zz_unknown"}, k.formats...) {
		for _, det := range []bool{false, true} {
			p := map[string]any{}
			if f != "" {
				p["format"] = f
			}
			if det {
				p["prefix"], p["suffix"], p["includes"], p["pattern"], p["algorithm"] = "q", "q", "q", "^q$", "HS256"
			}
			cat[fmt.Sprintf("invalid_format:%s:det%s", f, b01(det))] = core.ZodRawIssue{Code: core.InvalidFormat, Input: "x", Properties: p}
		}
	}
	for i, d := range []any{nil, 3, 0.5} {
		p := map[string]any{"origin": "number"}
		if d != nil {
			p["divisor"] = d
		}
		cat[fmt.Sprintf("not_multiple_of:div%d", i)] = core.ZodRawIssue{Code: core.NotMultipleOf, Input: 4, Properties: p}
	}
	for i, ks := range [][]string{nil, {"a"}, {"a", "b", "c"}} {
		p := map[string]any{}
		if ks != nil {
			p["keys"] = ks
		}
		cat[fmt.Sprintf("unrecognized_keys:n%d", i)] = core.ZodRawIssue{Code: core.UnrecognizedKeys, Input: map[string]any{}, Properties: p}
	}
	for i, vs := range [][]any{nil, {"a"}, {"a", 1, true}} {
		p := map[string]any{}
		if vs != nil {
			p["values"] = vs
		}
		cat[fmt.Sprintf("invalid_value:n%d", i)] = core.ZodRawIssue{Code: core.InvalidValue, Input: "zz", Properties: p}
	}
	for _, og := range append([]string{"", "map", "record", "set", "array", "array rest", "zz_unknown"}, k.origins...) {
		p := map[string]any{"key": "k", "index": 0}
		if og != "" {
			p["origin"] = og
		}
		cat["invalid_key:"+strings.ReplaceAll(og, " ", "_")] = core.ZodRawIssue{Code: core.InvalidKey, Input: "k", Properties: p}
		cat["invalid_element:"+strings.ReplaceAll(og, " ", "_")] = core.ZodRawIssue{Code: core.InvalidElement, Input: 1, Properties: p}
	}
	cat["invalid_union:bare"] = core.ZodRawIssue{Code: core.InvalidUnion, Input: true}
	cat["invalid_union:errors"] = core.ZodRawIssue{Code: core.InvalidUnion, Input: true, Properties: map[string]any{"errors": []core.ZodRawIssue{{Code: core.InvalidType}}, "error_count": 1}}
	cat["invalid_union:xor"] = core.ZodRawIssue{Code: core.InvalidUnion, Input: true, Properties: map[string]any{"errors": []core.ZodRawIssue{}, "inclusive": false, "match_count": 2}}
	withProps := map[core.IssueCode]map[string]any{
		core.MissingRequired:      {"field_name": "f", "field_type": "field"},
		core.TypeConversion:       {"from_type": "string", "to_type": "int"},
		core.InvalidSchema:        {"reason": "r"},
		core.InvalidDiscriminator: {"field": "t"},
		core.IncompatibleTypes:    {"conflict_type": "object"},
		core.Custom:               {"message": "m", "params": map[string]any{"a": 1}},
		core.NilPointer:           {},
	}
	for _, code := range []core.IssueCode{core.InvalidType, core.InvalidValue, core.InvalidFormat, core.InvalidUnion, core.InvalidKey,
		core.InvalidElement, core.TooBig, core.TooSmall, core.NotMultipleOf, core.UnrecognizedKeys, core.Custom, core.InvalidSchema,
		core.InvalidDiscriminator, core.IncompatibleTypes, core.MissingRequired, core.TypeConversion, core.NilPointer} {
		cat[string(code)+":bare"] = core.ZodRawIssue{Code: code}
		if p, ok := withProps[code]; ok {
			cat[string(code)+":props"] = core.ZodRawIssue{Code: code, Input: "x", Properties: p}
		}
	}
	cat["zz_unknown_code:bare"] = core.ZodRawIssue{Code: core.IssueCode("zz_unknown_code")}
	return cat
}

func localeCells(o *hx.Out, cat map[string]core.ZodRawIssue, outDir string) (int, int, error) {
	kinds := make([]string, 0, len(cat))
	for k := range cat {
		kinds = append(kinds, k)
	}
	sort.Strings(kinds)
	locs := make([]string, 0, len(locales.DefaultLocales))
	for l := range locales.DefaultLocales {
		locs = append(locs, l)
	}
	sort.Strings(locs)
	var lines []string
	for _, l := range locs {
		f := locales.DefaultLocales[l]
		for _, k := range kinds {
			var msg string
			if p := hx.Safely(func() { msg = f(cat[k]) }); p != "" {
				msg = ""
			}
			ok := strings.TrimSpace(msg) != ""
			o.Emit(fmt.Sprintf("c18 loc %s %s # locales.DefaultLocales[%q](raw issue %s: code=%s input=%T properties=%v)", l, k, l, k, cat[k].Code, cat[k].Input, propsStr(cat[k].Properties)), hx.B01(ok))
			o.Count("locale:" + l)
			lines = append(lines, fmt.Sprintf("%s\t%s\t%s", l, k, hx.B01(ok)))
		}
	}
	return len(locs), len(kinds), os.WriteFile(outDir+"/locales.txt", []byte(strings.Join(lines, "\n")+"\n"), 0o644)
}

func propsStr(p map[string]any) string {
	ks := make([]string, 0, len(p))
	for k := range p {
		ks = append(ks, k)
	}
	sort.Strings(ks)
	var b strings.Builder
	for _, k := range ks {
		if k == "errors" {
			fmt.Fprintf(&b, "%s=[…] ", k)
			continue
		}
		fmt.Fprintf(&b, "%s=%v ", k, p[k])
	}
	return strings.ReplaceAll(strings.TrimSpace(b.String()), "\n", " ")
}
