/-
  Gozod.Model.StrSpec — the DOCUMENTED meaning of the string checks, written as propositions on byte strings
  (Go strings are byte sequences; `len`, `strings.HasPrefix/HasSuffix/Contains` are byte-level), independently of
  the executable model `Str.holds`. `Proofs/C01StrSpec.lean` proves `Str.holds p b = true ↔ Spec p b` per check, so
  the model is tied to this readable statement by theorem, and restates the acceptance theorem with it.

  docs (docs/api.md "String"): Min(n) / Max(n) / Length(n) "at least / at most / exactly n characters" — bytes in this
  library (DESIGN §3.6); StartsWith / EndsWith / Includes "starts with / ends with / contains the given text";
  Lowercase / Uppercase "no upper-case / no lower-case letters" (the exported patterns `^[^A-Z]*$`, `^[^a-z]*$`: ASCII
  letters); Regex(p) "matches p" (RE2, unanchored search).
-/
import Gozod.Model.Str
import Gozod.Model.Regex
namespace Gozod.Str

/-- Documented meaning of every string check. -/
def Spec : SPred → Bytes → Prop
  | .minLen n, b => n ≤ b.length
  | .maxLen n, b => b.length ≤ n
  | .lenEq n, b => b.length = n
  | .startsWith p, b => ∃ t, b = p ++ t
  | .endsWith p, b => ∃ s, b = s ++ p
  | .includes p, b => ∃ s t, b = s ++ p ++ t
  | .lowercase, b => ∀ c ∈ b, ¬ (65 ≤ c ∧ c ≤ 90)          -- no byte 'A'..'Z'
  | .uppercase, b => ∀ c ∈ b, ¬ (97 ≤ c ∧ c ≤ 122)         -- no byte 'a'..'z'
  | .regex k, b => regexFamily k b = true                   -- four fixed patterns: hand-written meaning, tied to RE2 by the run
  | .relit mode lit, b =>                                   -- a pure-literal pattern, by anchoring
    match mode with
    | 0 => ∃ s t, b = s ++ lit ++ t                         -- `lit`: found somewhere
    | 1 => ∃ t, b = lit ++ t                                -- `^lit`
    | 2 => ∃ s, b = s ++ lit                                -- `lit$`
    | _ => b = lit                                          -- `^lit$`, `\Alit\z`, `^(?:lit)$`
  | .custom k, b => customPred k b = true                   -- a user predicate means itself

/-- A check fails on the value it is given, under the documented meaning. -/
def SpecFails : Check SPred SOw → Bytes → Prop
  | .pred p _ none, x => ¬ Spec p x
  | .pred p _ (some w), x => Spec w x ∧ ¬ Spec p x
  | .overwrite _, _ => False

/-! ### the spec oracle the driver evaluates: the same meanings decided by other means than `Str.holds`
    (the derivative matcher of Model/Regex.lean on the check's language) -/

def anyBytes : Re := Re.star (Re.cls [(0, 255)])
def litRe (l : Bytes) : Re := Re.seqs (l.map Re.byte)

/-- The fixed pattern family as regular expressions read off the pattern texts:
      0 `^[a-z]+$`   1 `[0-9]`   2 `^a.*z$` (`.` = any byte but newline)   3 `^(ab)*$` -/
def familyRe (k : Nat) : Re :=
  match k % 4 with
  | 0 => Re.seq (Re.cls [(97, 122)]) (Re.star (Re.cls [(97, 122)]))
  | 1 => Re.seq anyBytes (Re.seq (Re.cls [(48, 57)]) anyBytes)
  | 2 => Re.seq (Re.byte 97) (Re.seq (Re.star (Re.cls [(0, 9), (11, 255)])) (Re.byte 122))
  | _ => Re.star (Re.seq (Re.byte 97) (Re.byte 98))

def specHolds : SPred → Bytes → Bool
  | .minLen n, b => decide (n ≤ b.length)
  | .maxLen n, b => decide (b.length ≤ n)
  | .lenEq n, b => decide (b.length = n)
  | .startsWith p, b => Re.accepts (Re.seq (litRe p) anyBytes) b
  | .endsWith p, b => Re.accepts (Re.seq anyBytes (litRe p)) b
  | .includes p, b => Re.accepts (Re.seq anyBytes (Re.seq (litRe p) anyBytes)) b
  | .lowercase, b => Re.accepts (Re.star (Re.cls [(0, 64), (91, 255)])) b
  | .uppercase, b => Re.accepts (Re.star (Re.cls [(0, 96), (123, 255)])) b
  | .regex k, b => Re.accepts (familyRe k) b
  | .relit mode lit, b =>
    match mode with
    | 0 => Re.accepts (Re.seq anyBytes (Re.seq (litRe lit) anyBytes)) b
    | 1 => Re.accepts (Re.seq (litRe lit) anyBytes) b
    | 2 => Re.accepts (Re.seq anyBytes (litRe lit)) b
    | _ => Re.accepts (litRe lit) b
  | .custom k, b => customPred k b

end Gozod.Str
