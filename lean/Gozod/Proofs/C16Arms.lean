/-
  C16, tie by translation for the three leaf functions of `pkg/validate`'s numeric comparison:
  `cmpFloats`, `cmpInts`, `multipleOfInts`.  `harness/numgen` (arms.go) translates every clause of
  their switches — conditions and statements — into terms of `Gozod.Model.Arms`
  (`Gen.NumDispatch.cmpFloats_ast`, `cmpInts_ast`, `multipleOfInts_ast`, regenerated on every run);
  the interpreter `Arms.runArms` gives them Go's machine semantics (int64/uint64 wrap-around on
  conversion, negation and addition, truncated `%`, typed constants, IEEE comparisons).

  * `cmpFloats_table`      — the regenerated body computes `F.cmp` (NaN unordered, −1/0/+1);
  * `cmpInts_table`        — … computes the hand model's `cmpInts` for every pair of integer
                             payloads (all four signed/unsigned pairings) in the 64-bit ranges;
  * `multipleOfInts_table` — … computes the hand model's `multipleOfInts` (incl. `uint64(-(d+1))+1`
                             for |MinInt64| and the divisor-above-MaxInt64 branch);
  * `cmpInts_table_exact`, `multipleOfInts_table_exact` — composed with `cmpInts_exact` /
    `multipleOfInts_exact`: the regenerated bodies decide the mathematical order / divisibility.

  An edit of a body (a dropped sign test, `%` against the wrong operand, a conversion removed)
  makes one of these fail; a re-spelling that keeps the meaning keeps them true.
-/
import Gozod.Gen.NumDispatch
import Gozod.Proofs.C16

set_option linter.unusedSimpArgs false
namespace Gozod.C16A
open Gozod Gozod.Dispatch Gozod.Arms Gozod.Gen.NumDispatch

def env (a b : Num) (x y : F) : Arms.Env := ⟨a, b, x, y, []⟩

/-- `cmpFloats`' result as the model states it: unordered with a NaN, else the sign. -/
def floatsRet (x y : F) : Ret :=
  match F.cmp x y with
  | none => .pair 0 false
  | some o => .pair (ordInt o) true

/-- **`cmpFloats`, as it stands in the source, is `F.cmp`.** -/
theorem cmpFloats_table (a b : Num) (x y : F) :
    runArms (env a b x y) cmpFloats_ast = some (floatsRet x y) := by
  cases x <;> cases y <;>
    simp [cmpFloats_ast, runArms, BE.eval, IE.eval, unify, F.isNaN, F.cmp, Rel.holds, execList, St.exec, asInt,
      ordInt, env, floatsRet, Option.bind]
  rename_i p k q l
  rcases Int.lt_trichotomy (p * 2 ^ l) (q * 2 ^ k) with h | h | h
  · simp [Int.compare_eq_lt.mpr h, Rel.holds, ordInt]
  · simp [Int.compare_eq_eq.mpr h, Rel.holds, ordInt]
  · simp [Int.compare_eq_gt.mpr h, Rel.holds, ordInt]

theorem r63 : (-(2 ^ 63) : Int) ≤ 0 ∧ (0 : Int) < 2 ^ 63 := by decide
theorem r64 : (0 : Int) ≤ 0 ∧ (0 : Int) < 2 ^ 64 := by decide

/-- **`cmpInts`, as it stands in the source, is the model's `cmpInts`** — for every pair of integer
    payloads. -/
theorem cmpInts_table (a b : Num) (x y : F) (hfa : C16.isInt a = true) (hfb : C16.isInt b = true) :
    runArms (env a b x y) cmpInts_ast = some (.int (ordInt (cmpInts a b))) := by
  cases a with
  | f _ => simp [C16.isInt] at hfa
  | i v =>
    cases b with
    | f _ => simp [C16.isInt] at hfb
    | i w =>
      simp [cmpInts_ast, runArms, BE.eval, IE.eval, kindIs, unify, execList, St.exec, asInt, env, fieldI, fieldU,
        Option.bind, cmpInts, lookup, holds_compare, r63, r64]
      all_goals (try simp [Rel.holds])
    | u w =>
      by_cases h : v < 0 <;>
        simp [cmpInts_ast, runArms, BE.eval, IE.eval, kindIs, unify, execList, St.exec, asInt, env, fieldI, fieldU,
          Option.bind, cmpInts, lookup, holds_compare, r63, r64, h, ordInt]
      all_goals (try simp [Rel.holds, h, ordInt])
      all_goals (try omega)
  | u v =>
    cases b with
    | f _ => simp [C16.isInt] at hfb
    | u w =>
      simp [cmpInts_ast, runArms, BE.eval, IE.eval, kindIs, unify, execList, St.exec, asInt, env, fieldI, fieldU,
        Option.bind, cmpInts, lookup, holds_compare, r63, r64]
      all_goals (try simp [Rel.holds])
    | i w =>
      by_cases h : w < 0 <;>
        simp [cmpInts_ast, runArms, BE.eval, IE.eval, kindIs, unify, execList, St.exec, asInt, env, fieldI, fieldU,
          Option.bind, cmpInts, lookup, holds_compare, r63, r64, h, ordInt]
      all_goals (try simp [Rel.holds, h, ordInt])
      all_goals (try omega)

/-- The regenerated `cmpInts` decides the mathematical order of the two integers. -/
theorem cmpInts_table_exact (a b : Num) (x y : F) (ha : C16.Num.wf a) (hb : C16.Num.wf b)
    (hfa : C16.isInt a = true) (hfb : C16.isInt b = true) :
    runArms (env a b x y) cmpInts_ast = some (.int (ordInt (compare (C16.ival a) (C16.ival b)))) := by
  rw [cmpInts_table a b x y hfa hfb, C16.cmpInts_exact a b ha hb hfa hfb]

/-! ## `multipleOfInts` -/

theorem p63 : (2 : Int) ^ 63 = 9223372036854775808 := by decide
theorem p64 : (2 : Int) ^ 64 = 18446744073709551616 := by decide

theorem wrapI_id (v : Int) (h : -(2 ^ 63) ≤ v ∧ v < 2 ^ 63) : wrapI v = v := by
  unfold wrapI; rw [p63] at *; rw [p64]; omega

theorem castU64_id (v : Int) (h : 0 ≤ v ∧ v < 2 ^ 64) : castU64 v = v := by
  unfold castU64; rw [p64] at *; omega

/-- `uint64(-(d + 1)) + 1` is `|d|` for every negative int64 `d` (no overflow at MinInt64). -/
theorem absNeg (d : Int) (hlo : -(2 ^ 63) ≤ d) (hneg : d < 0) :
    castU64 (castU64 (wrapI (-wrapI (d + 1))) + 1) = -d ∧ castU64 (-(d + 1)) + 1 = -d := by
  rw [p63] at hlo
  have h1 : wrapI (d + 1) = d + 1 := wrapI_id _ (by rw [p63]; omega)
  have h2 : wrapI (-(d + 1)) = -(d + 1) := wrapI_id _ (by rw [p63]; omega)
  have h3 : castU64 (-(d + 1)) = -(d + 1) := castU64_id _ (by rw [p64]; omega)
  rw [h1, h2, h3]
  exact ⟨by rw [castU64_id _ (by rw [p64]; omega)]; omega, by omega⟩

theorem dec_beq (a b : Int) : decide (a = b) = (a == b) := by
  by_cases h : a = b <;> simp [h]

/-- **`multipleOfInts`, as it stands in the source, is the model's `multipleOfInts`** — for every
    pair of integer payloads in the 64-bit ranges. -/
theorem multipleOfInts_table (a b : Num) (x y : F) (ha : C16.Num.wf a) (hb : C16.Num.wf b)
    (hfa : C16.isInt a = true) (hfb : C16.isInt b = true) :
    runArms (env a b x y) multipleOfInts_ast = some (.bool (multipleOfInts a b)) := by
  cases a with
  | f _ => simp [C16.isInt] at hfa
  | i v =>
    cases b with
    | f _ => simp [C16.isInt] at hfb
    | i d =>
      by_cases hd : d = 0
      · subst hd
        simp [multipleOfInts_ast, runArms, BE.eval, IE.eval, kindIs, unify, execList, St.exec, asInt, env, fieldI, fieldU,
          Option.bind, multipleOfInts, holds_compare, lookup, r63, r64]
        all_goals (try simp [Rel.holds])
        all_goals (try exact dec_beq _ _)
        all_goals (try omega)
      · simp [multipleOfInts_ast, runArms, BE.eval, IE.eval, kindIs, unify, execList, St.exec, asInt, env, fieldI, fieldU,
          Option.bind, multipleOfInts, holds_compare, lookup, r63, r64, hd, goRem]
        all_goals (try simp [Rel.holds])
        all_goals (try exact dec_beq _ _)
        all_goals (try omega)
    | u d =>
      have hd0 : 0 ≤ d ∧ d < 2 ^ 64 := by
        simp [C16.Num.wf, IntTy.inRange, IntTy.lo, IntTy.hi, IntTy.signed, IntTy.bits] at hb; rw [p64]; omega
      have hv : -(2 ^ 63) ≤ v ∧ v < 2 ^ 63 := by
        simp [C16.Num.wf, IntTy.inRange, IntTy.lo, IntTy.hi, IntTy.signed, IntTy.bits] at ha; rw [p63]; omega
      have c1 : (0 : Int) ≤ 9223372036854775807 ∧ (9223372036854775807 : Int) < 2 ^ 64 := by decide
      have c2 : (-(2 ^ 63) : Int) ≤ -9223372036854775808 ∧ (-9223372036854775808 : Int) < 2 ^ 63 := by decide
      have c3 : (0 : Int) ≤ 9223372036854775808 ∧ (9223372036854775808 : Int) < 2 ^ 64 := by decide
      by_cases hd : d = 0
      · subst hd
        simp [multipleOfInts_ast, runArms, BE.eval, IE.eval, kindIs, unify, execList, St.exec, asInt, env, fieldI, fieldU,
          Option.bind, multipleOfInts, holds_compare, lookup, r63, r64]
        all_goals (try simp [Rel.holds])
        all_goals (try exact dec_beq _ _)
        all_goals (try omega)
      · by_cases hbig : d > 2 ^ 63 - 1
        · have hbig' : (9223372036854775807 : Int) < d := by rw [p63] at hbig; omega
          by_cases h0 : v = 0 <;> by_cases h1 : v = -9223372036854775808 <;> by_cases h2 : d = 9223372036854775808 <;>
          simp [h0, h1, h2, multipleOfInts_ast, runArms, BE.eval, IE.eval, kindIs, unify, execList, St.exec, asInt, env, fieldI, fieldU,
            Option.bind, multipleOfInts, holds_compare, lookup, r63, r64, hd, hbig, hbig', c1, c2, c3, p63]
          all_goals (try simp [Rel.holds])
          all_goals (try exact dec_beq _ _)
          all_goals (try omega)
        · have hsmall : ¬ (9223372036854775807 : Int) < d := by rw [p63] at hbig; omega
          have hw : wrapI d = d := wrapI_id d (by rw [p63] at *; omega)
          simp [multipleOfInts_ast, runArms, BE.eval, IE.eval, kindIs, unify, execList, St.exec, asInt, env, fieldI, fieldU,
            Option.bind, multipleOfInts, holds_compare, lookup, r63, r64, hd, hbig, hsmall, c1, c2, c3, hw, goRem]
          all_goals (try simp [Rel.holds])
          all_goals (try exact dec_beq _ _)
          all_goals (try omega)
  | u v =>
    cases b with
    | f _ => simp [C16.isInt] at hfb
    | u d =>
      by_cases hd : d = 0
      · subst hd
        simp [multipleOfInts_ast, runArms, BE.eval, IE.eval, kindIs, unify, execList, St.exec, asInt, env, fieldI, fieldU,
          Option.bind, multipleOfInts, holds_compare, lookup, r63, r64]
        all_goals (try simp [Rel.holds])
        all_goals (try exact dec_beq _ _)
        all_goals (try omega)
      · simp [multipleOfInts_ast, runArms, BE.eval, IE.eval, kindIs, unify, execList, St.exec, asInt, env, fieldI, fieldU,
          Option.bind, multipleOfInts, holds_compare, lookup, r63, r64, hd]
        all_goals (try simp [Rel.holds])
        all_goals (try exact dec_beq _ _)
        all_goals (try omega)
    | i d =>
      have hdr : -(2 ^ 63) ≤ d ∧ d < 2 ^ 63 := by
        simp [C16.Num.wf, IntTy.inRange, IntTy.lo, IntTy.hi, IntTy.signed, IntTy.bits] at hb; rw [p63]; omega
      have c1 : (-(2 ^ 63) : Int) ≤ 1 ∧ (1 : Int) < 2 ^ 63 := by decide
      have c4 : (0 : Int) ≤ 1 ∧ (1 : Int) < 2 ^ 64 := by decide
      by_cases hd : d = 0
      · subst hd
        simp [multipleOfInts_ast, runArms, BE.eval, IE.eval, kindIs, unify, execList, St.exec, asInt, env, fieldI, fieldU,
          Option.bind, multipleOfInts, holds_compare, lookup, r63, r64]
        all_goals (try simp [Rel.holds])
        all_goals (try exact dec_beq _ _)
        all_goals (try omega)
      · by_cases hneg : d < 0
        · have ⟨e1, e2⟩ := absNeg d hdr.1 hneg
          have hm : ¬ (-d = 0) := by omega
          simp [multipleOfInts_ast, runArms, BE.eval, IE.eval, kindIs, unify, execList, St.exec, asInt, env, fieldI, fieldU,
            Option.bind, multipleOfInts, holds_compare, r63, r64, hd, hneg, c1, c4, lookup, e1, e2, hm]
          all_goals (try simp [Rel.holds])
          all_goals (try exact dec_beq _ _)
          all_goals (try omega)
        · have hc : castU64 d = d := castU64_id d (by rw [p63] at hdr; rw [p64]; omega)
          simp [multipleOfInts_ast, runArms, BE.eval, IE.eval, kindIs, unify, execList, St.exec, asInt, env, fieldI, fieldU,
            Option.bind, multipleOfInts, holds_compare, r63, r64, hd, hneg, c1, c4, lookup, hc]
          all_goals (try simp [Rel.holds])
          all_goals (try exact dec_beq _ _)
          all_goals (try omega)

/-- The regenerated `multipleOfInts` decides exact divisibility (`d ≠ 0 ∧ d ∣ v`). -/
theorem multipleOfInts_table_exact (a b : Num) (x y : F) (ha : C16.Num.wf a) (hb : C16.Num.wf b)
    (hfa : C16.isInt a = true) (hfb : C16.isInt b = true) :
    runArms (env a b x y) multipleOfInts_ast = some (.bool (specMultipleOfInt (C16.ival a) (C16.ival b))) := by
  rw [multipleOfInts_table a b x y ha hb hfa hfb, C16.multipleOfInts_exact a b ha hb hfa hfb]

end Gozod.C16A
