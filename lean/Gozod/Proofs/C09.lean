/-
  C09 — all parse entry points agree (primitive engine path): `ParsePrimitiveStrict` against
  `ParsePrimitive` on every input of the static type StrictParse requires.
-/
import Gozod.Model.Prim
import Gozod.Proofs.C10

namespace Gozod.C09
open Gozod Gozod.Prim

variable {P O T V : Type}

/-- An input has the static type `StrictParse` requires: `T` for value schemas, `*T` (possibly
    nil) for pointer schemas. -/
def wellTyped (i : Internals P O V) : Input V → Bool
  | .val _ => !i.ptrSchema
  | .ptr _ => i.ptrSchema
  | .nilPtr => i.ptrSchema
  | _ => false

/-- The verdict, value and issue positions of the checks do not depend on whether the input was
    handed over as a pointer: the extra pass of `validatePointer` only adds callback invocations. -/
theorem checked_ptr_irrelevant (env : Env P O T V) (i : Internals P O V) (v : V) :
    checked env i true v = checked env i false v := by
  unfold checked
  have h1 := C10.c10_runOn_issues env i.ptrSchema true i.checks v
  have h2 := C10.c10_runOn_issues env i.ptrSchema false i.checks v
  simp only
  rw [h1.1, h2.1]
  by_cases h : (runChecks env i.checks v).issues = []
  · simp only [h, ↓reduceIte]; rw [h1.2 h, h2.2 h]
  · simp only [h, ↓reduceIte]

theorem checked_no_checks (env : Env P O T V) (i : Internals P O V) (pin : Bool) (v : V)
    (h : i.checks.isEmpty = true) : checked env i pin v = .okVal v := by
  have : i.checks = [] := by simpa using h
  unfold checked runChecksOn
  simp [this, hasOverwrite, runChecks, runFrom]

/-- **C09 (primitives).** For every schema configuration (any checks, overwrites, refinements,
    Optional/Nilable/NonOptional, Default/DefaultFunc, Prefault/PrefaultFunc) and every input of
    the static type StrictParse requires — including nil pointers — `StrictParse` and `Parse` both
    fail with the same issues or both succeed with equal results. -/
theorem c09_strict_eq_parse (env : Env P O T V) (i : Internals P O V) (x : Input V)
    (_hx : wellTyped i x = true) : strictParse env i x = parse env i x := by
  cases x with
  | nil => rfl
  | nilPtr => rfl
  | foreign => rfl
  | val v =>
    simp only [strictParse, parse]
    by_cases hf : strictFast i = true
    · rw [if_pos hf]
      have : i.checks.isEmpty = true := by
        simp only [strictFast, Bool.and_eq_true] at hf; exact hf.1.1.1.1.1.1
      rw [checked_no_checks env i false v this]
    · rw [if_neg hf]
      by_cases hc : i.checks.isEmpty = true
      · rw [if_pos hc, checked_no_checks env i false v hc]
      · rw [if_neg hc]
  | ptr v =>
    simp only [strictParse, parse]
    rw [checked_ptr_irrelevant]
    by_cases hf : strictFast i = true
    · rw [if_pos hf]
      have : i.checks.isEmpty = true := by
        simp only [strictFast, Bool.and_eq_true] at hf; exact hf.1.1.1.1.1.1
      rw [checked_no_checks env i false v this]
    · rw [if_neg hf]
      by_cases hc : i.checks.isEmpty = true
      · rw [if_pos hc, checked_no_checks env i false v hc]
      · rw [if_neg hc]

/-! ## Histories (round 2): every entry point, called in any order and any number of times on schemas
    derived by any route, answers what a cold `Parse` of the schema's current configuration answers. -/

/-- The strict path with an arbitrary fast-path answer `b` agrees with `Parse` as soon as `b` is only
    ever `true` for a check-less configuration — the one fact the fast path relies on. -/
theorem strictParseWith_sound (env : Env P O T V) (i : Internals P O V) (b : Bool) (x : Input V)
    (hb : b = true → i.checks.isEmpty = true) : strictParseWith env i b x = parse env i x := by
  cases x with
  | nil => rfl
  | nilPtr => rfl
  | foreign => rfl
  | val v =>
    simp only [strictParseWith, parse]
    by_cases hf : b = true
    · rw [if_pos hf, checked_no_checks env i false v (hb hf)]
    · rw [if_neg hf]
      by_cases hc : i.checks.isEmpty = true
      · rw [if_pos hc, checked_no_checks env i false v hc]
      · rw [if_neg hc]
  | ptr v =>
    simp only [strictParseWith, parse]
    rw [checked_ptr_irrelevant]
    by_cases hf : b = true
    · rw [if_pos hf, checked_no_checks env i false v (hb hf)]
    · rw [if_neg hf]
      by_cases hc : i.checks.isEmpty = true
      · rw [if_pos hc, checked_no_checks env i false v hc]
      · rw [if_neg hc]

theorem strictFast_checks_empty (i : Internals P O V) (h : strictFast i = true) : i.checks.isEmpty = true := by
  simp only [strictFast, Bool.and_eq_true] at h; exact h.1.1.1.1.1.1

/-- The hypotheses about per-schema state that the harness ties to the code: in every reachable
    state the answer the strict entry points use equals the fast-path condition *recomputed from the
    schema's own configuration*. It is preserved when (`run_ok`) parsing leaves it intact — in
    particular when parsing writes nothing, which is what the harness observes on the real internals —
    and when (`init_ok`, `clone_ok`) every derivation route yields a schema whose answer is that of its
    own fields. -/
structure Faithful {H : Type} (m : Impl P O V H) : Prop where
  init_ok : ∀ c, m.fast c (m.init c) = strictFast c
  run_ok : ∀ ep c h x, m.fast c h = strictFast c → m.fast c (m.onRun ep c h x) = strictFast c
  clone_ok : ∀ k (d s : Cell P O V H), m.fast d.cfg d.hid = strictFast d.cfg → m.fast s.cfg s.hid = strictFast s.cfg →
    m.fast (cloneCfg k d.cfg s.cfg) (m.onClone k d s) = strictFast (cloneCfg k d.cfg s.cfg)

/-- Read-only parsing is the special case of `run_ok` the frame observation establishes. -/
theorem run_ok_of_read_only {H : Type} (m : Impl P O V H) (h : ∀ ep c hid x, m.onRun ep c hid x = hid) :
    ∀ ep c hid x, m.fast c hid = strictFast c → m.fast c (m.onRun ep c hid x) = strictFast c := by
  intro ep c hid x hh; rw [h]; exact hh

theorem pinned_faithful : Faithful (pinned : Impl P O V Unit) :=
  ⟨fun _ => rfl, fun _ _ _ _ _ => rfl, fun _ _ _ _ _ => rfl⟩

def Good {H : Type} (m : Impl P O V H) (h : List (Cell P O V H)) : Prop :=
  ∀ c ∈ h, m.fast c.cfg c.hid = strictFast c.cfg

theorem runEP_eq_parse {H : Type} (m : Impl P O V H) (env : Env P O T V) (ep : EP) (c : Cell P O V H) (x : Input V)
    (hc : m.fast c.cfg c.hid = strictFast c.cfg) : runEP m env ep c x = parse env c.cfg x := by
  unfold runEP
  by_cases hs : ep.isStrict = true
  · rw [if_pos hs]
    apply strictParseWith_sound
    intro hb; rw [hc] at hb; exact strictFast_checks_empty _ hb
  · rw [if_neg hs]

theorem good_set {H : Type} {m : Impl P O V H} {h : List (Cell P O V H)} {j : Nat} {c : Cell P O V H}
    (hg : Good m h) (hc : m.fast c.cfg c.hid = strictFast c.cfg) : Good m (h.set j c) := by
  intro c' hm
  rcases List.mem_or_eq_of_mem_set hm with h1 | h1
  · exact hg c' h1
  · rw [h1]; exact hc

theorem good_snoc {H : Type} {m : Impl P O V H} {h : List (Cell P O V H)} {c : Cell P O V H}
    (hg : Good m h) (hc : m.fast c.cfg c.hid = strictFast c.cfg) : Good m (h ++ [c]) := by
  intro c' hm
  rcases List.mem_append.mp hm with h1 | h1
  · exact hg c' h1
  · rw [List.mem_singleton.mp h1]; exact hc

theorem set_self {α : Type} {l : List α} {j : Nat} {a : α} (h : l[j]? = some a) : l.set j a = l := by
  induction l generalizing j with
  | nil => rfl
  | cons b l ih =>
    cases j with
    | zero => simp at h; simp [h]
    | succ j => simp at h; simp [ih h]

/-- One step: the invariant is kept, the configurations evolve as in the reference, and a `run`
    step answers what `Parse` answers on the configuration. -/
theorem step_spec {H : Type} (m : Impl P O V H) (hf : Faithful m) (env : Env P O T V)
    (h : List (Cell P O V H)) (hg : Good m h) (op : Op P O V) :
    Good m (step m env h op).1 ∧ (step m env h op).1.map (·.cfg) = cfgStep (h.map (·.cfg)) op ∧
      (step m env h op).2 = specOut env (h.map (·.cfg)) op := by
  cases op with
  | mk c =>
    refine ⟨good_snoc hg (hf.init_ok c), ?_, rfl⟩
    simp [step, cfgStep]
  | chain j f =>
    simp only [step, cfgStep, specOut, List.getElem?_map]
    cases hj : h[j]? with
    | none => simp [hg]
    | some c =>
      refine ⟨good_snoc hg (hf.init_ok _), ?_, rfl⟩
      simp
  | cloneFrom k d s =>
    simp only [step, cfgStep, specOut, List.getElem?_map]
    cases hd : h[d]? with
    | none => simp [hg]
    | some cd =>
      cases hs : h[s]? with
      | none => simp [hg]
      | some cs =>
        simp only [Option.map_some]
        by_cases ht : sameGoType cd.cfg cs.cfg = true
        · rw [if_pos ht, if_pos ht]
          refine ⟨good_set hg (hf.clone_ok k cd cs (hg cd (List.mem_of_getElem? hd)) (hg cs (List.mem_of_getElem? hs))), ?_, rfl⟩
          simp [List.map_set]
        · rw [if_neg ht, if_neg ht]
          exact ⟨hg, rfl, rfl⟩
  | run ep j x =>
    simp only [step, cfgStep, specOut, List.getElem?_map]
    cases hj : h[j]? with
    | none => simp [hg]
    | some c =>
      have hc := hg c (List.mem_of_getElem? hj)
      refine ⟨good_set hg (hf.run_ok ep c.cfg c.hid x hc), ?_, ?_⟩
      · simp only [List.map_set]
        exact set_self (by simp [hj])
      · simp only [Option.map_some]
        rw [runEP_eq_parse m env ep c x hc]

/-- **C09 over histories.** For an implementation whose per-schema state is `Faithful`, every run of
    every entry point in every history — constructors, copy-on-write methods, `CloneFrom` of either
    flavour in either direction, entry points called any number of times in any order — returns what
    `Parse` returns on the schema's current configuration, and the configurations evolve independently
    of the parses. -/
theorem c09_history {H : Type} (m : Impl P O V H) (hf : Faithful m) (env : Env P O T V)
    (ops : List (Op P O V)) (h : List (Cell P O V H)) (hg : Good m h) :
    (exec m env h ops).2 = (execSpec env (h.map (·.cfg)) ops).2 ∧
    (exec m env h ops).1.map (·.cfg) = (execSpec env (h.map (·.cfg)) ops).1 := by
  induction ops generalizing h with
  | nil => exact ⟨rfl, rfl⟩
  | cons op ops ih =>
    obtain ⟨g1, g2, g3⟩ := step_spec m hf env h hg op
    have := ih (step m env h op).1 g1
    simp only [exec, execSpec]
    rw [← g2, ← g3]
    exact ⟨by rw [this.1], this.2⟩

/-- The pinned code, from the empty heap. -/
theorem c09_history_pinned (env : Env P O T V) (ops : List (Op P O V)) :
    (exec (pinned : Impl P O V Unit) env [] ops).2 = (execSpec env [] ops).2 :=
  (c09_history pinned pinned_faithful env ops [] (by intro c hc; cases hc)).1

/-- In any reachable heap the six entry points of any schema agree on any input. -/
theorem c09_history_entrypoints_agree {H : Type} (m : Impl P O V H) (hf : Faithful m) (env : Env P O T V)
    (ops : List (Op P O V)) (j : Nat) (c : Cell P O V H) (hj : (exec m env [] ops).1[j]? = some c)
    (ep ep' : EP) (x : Input V) : runEP m env ep c x = runEP m env ep' c x := by
  have hg : Good m (exec m env [] ops).1 := by
    have key : ∀ (ops : List (Op P O V)) (h : List (Cell P O V H)), Good m h → Good m (exec m env h ops).1 := by
      intro ops
      induction ops with
      | nil => intro h hg; exact hg
      | cons op ops ih =>
        intro h hg
        simp only [exec]
        exact ih _ (step_spec m hf env h hg op).1
    exact key ops [] (by intro c hc; cases hc)
  have hc := hg c (List.mem_of_getElem? hj)
  rw [runEP_eq_parse m env ep c x hc, runEP_eq_parse m env ep' c x hc]

/-- History independence: earlier parses are irrelevant to the configurations (hence, with
    `c09_history`, to every later answer) — the warm schema and its never-parsed twin agree. -/
theorem c09_parses_do_not_matter (env : Env P O T V) (ops : List (Op P O V)) (h : List (Internals P O V)) :
    (execSpec env h ops).1 = (execSpec env h (ops.filter (fun o => !o.isRun))).1 := by
  induction ops generalizing h with
  | nil => rfl
  | cons op ops ih =>
    cases op with
    | run ep j x => simp only [List.filter, Op.isRun, Bool.not_true, execSpec, cfgStep]; exact ih h
    | mk c => simp only [List.filter, Op.isRun, Bool.not_false, execSpec]; exact ih _
    | chain j f => simp only [List.filter, Op.isRun, Bool.not_false, execSpec]; exact ih _
    | cloneFrom k d s => simp only [List.filter, Op.isRun, Bool.not_false, execSpec]; exact ih _

/-! ### A cache that can go stale is a counterexample to `Faithful.clone_ok` -/

def wEnv : Env Nat Nat Nat Nat := { holds := fun p v => decide (p ≤ v), apply := fun o v => v + o, trans := fun _ v => v }
/-- A: `Int()`;  B: `Int().Min(10)`;  `A.StrictParse(7)`;  `B.CloneFrom(A)`;  `B.StrictParse(7)`, `B.Parse(7)`. -/
def wOps : List (Op Nat Nat Nat) :=
  [.mk {}, .mk { checks := [Check.pred 10 false none] }, .run .strict 0 (.val 7), .cloneFrom .keepChecks 1 0,
   .run .strict 1 (.val 7), .run .parse 1 (.val 7)]

/-- With the memoising implementation the history above makes `StrictParse` accept what `Parse`
    rejects; with the pinned one both reject. -/
theorem memoising_stale_witness :
    (exec memoising wEnv [] wOps).2 = [.okVal 7, .okVal 7, .errChecks [0]] ∧
    (exec pinned wEnv [] wOps).2 = [.okVal 7, .errChecks [0], .errChecks [0]] := by decide

theorem memoising_not_faithful : ¬ Faithful (memoising : Impl Nat Nat Nat (Option Bool)) := by
  intro hf
  have h := hf.clone_ok .keepChecks ⟨{ checks := [Check.pred 10 false none] }, none⟩ ⟨{}, some true⟩ rfl rfl
  revert h; decide

/-- Non-vacuity of `c09_history`: a history with both `CloneFrom` flavours and every entry point. -/
example : (exec pinned wEnv [] (wOps ++ [.cloneFrom .copyAll 0 1, .run .mustStrict 0 (.val 12), .run .parseAny 0 (.val 3),
    .chain 0 (fun c => { c with optional := true, ptrSchema := true }),   .run .mustParseAny 2 .nilPtr, .run .mustParse 2 (.ptr 30)])).2
    = [.okVal 7, .errChecks [0], .errChecks [0], .okVal 12, .errChecks [0], .okNil, .okVal 30] := by decide

/-- Non-vacuity: a configuration exercising the non-fast paths. -/
example : wellTyped ({ ptrSchema := true, optional := true, checks := [Check.pred 5 false none] } : Internals Nat Nat Nat)
    (.ptr 3) = true := rfl

end Gozod.C09
