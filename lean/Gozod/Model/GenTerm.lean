/-
  C13 — "gozodgen terminates": the analyzer's only unbounded recursion.

  `(*StructAnalyzer).typesToReflectType` (cmd/gozodgen/analyzer.go) converts the go/types type of every field of
  every struct declaration; everything else in the analyzer and the writer is a loop over a finite list or a
  recursion on a proper suffix of a string (`baseConstructor`, modelled with its length as fuel in `GenEmit`).
  Model of go/types: named types are indices into an environment that gives their underlying type.

      convF env fuel t     the function AS WRITTEN (no visited set), with fuel; `none` = fuel exhausted
      convV env rem t      the function with the proposed fix (pending/C13-recursive-named.diff): a named type that is
                           already on the conversion stack becomes `any`; `rem` = the names not on the stack
-/
namespace Gozod.GenTerm

/-- go/types.Type as far as the type switch of `typesToReflectType` distinguishes -/
inductive GT
  | basic                               -- *types.Basic
  | pointer (e : GT) | slice (e : GT) | array (e : GT) | map (k v : GT)
  | named (n : Nat)                     -- *types.Named (not time.Time): `env[n]` is its Underlying()
  | time                                -- the *types.Named `time.Time`
  | struct | iface | other              -- *types.Struct (reached through Named → Underlying), *types.Interface, default
  deriving DecidableEq, Repr

/-- reflect.Type built by the conversion -/
inductive RT
  | basic | ptr (e : RT) | slice (e : RT) | map (k v : RT) | timeMarker | any
  deriving DecidableEq, Repr

abbrev Env := List GT

/-- `typesToReflectType`, as written -/
def convF (env : Env) : Nat → GT → Option RT
  | 0, _ => none
  | _ + 1, .basic => some .basic
  | f + 1, .pointer e => (convF env f e).map .ptr
  | f + 1, .slice e => (convF env f e).map .slice
  | f + 1, .array e => (convF env f e).map .slice
  | f + 1, .map k v =>
    match convF env f k, convF env f v with
    | some a, some b => some (.map a b)
    | _, _ => none
  | f + 1, .named n =>
    match env[n]? with
    | some u => convF env f u           -- return a.typesToReflectType(typ.Underlying())
    | none => some .any
  | _ + 1, .time => some .timeMarker
  | _ + 1, .struct => some .any
  | _ + 1, .iface => some .any
  | _ + 1, .other => some .any

def GT.size : GT → Nat
  | .pointer e | .slice e | .array e => e.size + 1
  | .map k v => k.size + v.size + 1
  | _ => 1

set_option linter.unusedVariables false in
/-- the conversion with a stack check: a named type already being converted becomes `any` -/
def convV (env : Env) (rem : List Nat) (t : GT) : RT :=
  match t with
  | .basic => .basic
  | .pointer e => .ptr (convV env rem e)
  | .slice e => .slice (convV env rem e)
  | .array e => .slice (convV env rem e)
  | .map k v => .map (convV env rem k) (convV env rem v)
  | .named n =>
    if h : n ∈ rem then
      match env[n]? with
      | some u => convV env (rem.erase n) u
      | none => .any
    else .any
  | .time => .timeMarker
  | .struct | .iface | .other => .any
termination_by (rem.length, t.size)
decreasing_by
  all_goals simp_wf
  all_goals first
    | (apply Prod.Lex.right; simp [GT.size]; try omega)
    | (apply Prod.Lex.left; rw [List.length_erase_of_mem h]; exact Nat.sub_lt (List.length_pos_of_mem h) (by decide))

/-- a program: the environment of named types, and the field types of its struct declarations -/
structure Prog where
  env : Env
  fields : List GT

/-- what the analyzer does with a program (as written): every field of every struct is converted -/
def analyzeF (p : Prog) (fuel : Nat) : Bool := p.fields.all fun t => (convF p.env fuel t).isSome

end Gozod.GenTerm
