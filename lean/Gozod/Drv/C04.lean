/-
  Line handlers for C04.
    c04 m CFG NODE V TABLE   → "<model>\t-"   model = ok | err(wf) | err(malformed:<why>)
                               (shape of the error the model of the container code builds from its
                                members' recorded answers)
    c04 x <anything>         → "total\t-"     cross-product case: the model is total, so the only
                               prediction is that the call returns normally with ok or a well-formed error
-/
import Gozod.Model.Containers
import Gozod.Drv.ContParse
namespace Gozod.Drv.C04
open Gozod.Cont Gozod.Drv.ContParse

def why (i : Issue) : Option String :=
  if !i.code.known then some "unknown-code"
  else if !i.hasMsg then some "empty-message"
  else if !i.hasPath then some "nil-path"
  else none

def handle : List String → String
  | "x" :: _ => "total\t-"
  | "m" :: ts =>
    (match parseCase ts with
     | none => "bad-op"
     | some c =>
       match run c.cfg c.env c.node c.input with
       | .ok => "ok\t-"
       | .err [] => "err(malformed:no-issues)\t-"
       | .err is =>
         match is.findSome? why with
         | some w => s!"err(malformed:{w})\t-"
         | none => "err(wf)\t-")
  | _ => "bad-op"

end Gozod.Drv.C04
