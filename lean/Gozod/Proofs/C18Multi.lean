/-
  C18, round 5 — multi-issue checks: the message of EVERY issue a check reported is the first non-empty answer FOR THAT ISSUE.
-/
import Gozod.Model.MsgMulti
import Gozod.Proofs.C18
namespace Gozod.C18
open Gozod.Msg

/-- **multi_per_issue**: for a check that reported any number of issues, below any chain of positions, for arbitrary message
    functions (the check's own message included) — with the sources of the raiser's listed gap unconfigured — the message
    of every issue is the first non-empty answer of check, schema, per-parse, custom, locale FOR THAT ISSUE, else built-in -/
theorem multi_per_issue {ρ : Type} (drops : SrcSet) (chain : List String) (fs : FnSources ρ) (issues : List ρ)
    (h : ∀ iss ∈ issues, fs.dflt iss ≠ "")
    (hc : drops.check = true → fs.check = none) (hs : drops.schema = true → fs.inst = none)
    (hp : drops.parse = true → fs.parse = none) (hg : drops.custom = true → fs.custom = none)
    (hl : drops.locale = true → fs.locale = none) :
    multiMessages drops chain fs issues = multiSpec fs issues := by
  unfold multiMessages multiSpec
  apply List.map_congr_left
  intro iss hi
  rw [expected_message_eq _ _ _ _ (by simpa [FnSources.at] using h iss hi),
      dropSources_unconfigured _ _ (by intro hd; simp [FnSources.at, hc hd, app]) hs hp hg hl, finalize_priority]
  rfl

/-- the `multi` cells of the run are instances: `depSources` (what the driver hands to `expectedMessage`) is `depFnSources … .at` -/
theorem dep_fn_sources_at (spec : List Char) (f : RawFeat) : (depFnSources spec).at f = depSources spec f := rfl

/-- … and their spec column is `multiSpec` -/
theorem multi_spec_dep (spec : List Char) (fs : List RawFeat) :
    multiSpec (depFnSources spec) fs = fs.map (specDep spec) := by
  unfold multiSpec
  apply List.map_congr_left
  intro f _
  simp only [depFnSources, specDep, app_depMap]

-- non-trivial instance: a check message that answers for too_small only, a global map that answers always
example : multiMessages SrcSet.empty ["object-field"] (depFnSources ['Z', '-', '-', 'K', '-'])
    [⟨"too_small", true, true⟩, ⟨"invalid_format", true, false⟩] = ["c", "g"] := by decide

/-- **stamped_first_breaks_multi** (witness, the seeded change C18e): resolving the check message once, from the first issue,
    gives the second issue the check's text although the check's function declines it -/
theorem stamped_first_breaks_multi :
    multiMessagesStamped SrcSet.empty [] (depFnSources ['Z', '-', '-', 'K', '-'])
        [⟨"too_small", true, true⟩, ⟨"invalid_format", true, false⟩] = ["c", "c"] ∧
    multiSpec (depFnSources ['Z', '-', '-', 'K', '-'])
        [⟨"too_small", true, true⟩, ⟨"invalid_format", true, false⟩] = ["c", "g"] := by decide

end Gozod.C18
