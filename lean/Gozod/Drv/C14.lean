/-
  Line handler for C14:  c14 race <scenario>  →  "norace ok<TAB>norace ok".
  The model's prediction is the theorem's content: no unsynchronised conflicting accesses (outside the
  locations listed in `Gozod.C14.knownRacy`), results equal to the run-alone results.
-/
import Gozod.Model.LockSet
import Gozod.Gen.LockSets
import Gozod.Model.LockOrder
import Gozod.Gen.LockOrder
import Gozod.Model.Conc
namespace Gozod.Drv.C14
open Gozod.LockSet

/-! `c14 hist <kind> <id>/<op>/<res>/<inv>/<ret> …` — a history recorded from the real registry / configuration by
    harness/racex.  Model column: does `Conc.linearizable` find a linearization against the sequential specification
    `Conc.apply` (from the empty registry and the zero configuration), AND can the code model `Conc.stepC` produce the history
    (`Conc.replayable`: the machine is run on the recorded calls)?  Spec column: `lin` — the property. -/

def nat (s : String) : Nat := s.toNat?.getD 0

def parseOp (s : String) : Option Conc.Op :=
  match s.splitOn "." with
  | ["A", k, v] => some (.add (nat k) (nat v))
  | ["G", k] => some (.get (nat k))
  | ["H", k] => some (.has (nat k))
  | ["R", k] => some (.remove (nat k))
  | ["K"] => some .rangeKeys
  | ["C"] => some .cfgGet
  | ["Z"] => some .cfgReset
  | ["S", c, l] => some (.cfgSet (nat c) (nat l))
  | _ => none

def parseRes (s : String) : Option Conc.Res :=
  match s.splitOn "." with
  | ["u"] => some .unit
  | ["f", v] => some (.found (nat v))
  | ["m"] => some .missing
  | ["b", b] => some (.bool (b == "1"))
  | ["c", c, l] => some (.cfg (nat c) (nat l))
  | "k" :: ks => some (.keys (ks.map nat))
  | _ => none

def parseCall (s : String) : Option Conc.Call :=
  match s.splitOn "/" with
  | [id, op, res, inv, ret] =>
    match parseOp op, parseRes res with
    | some o, some r => some ⟨nat id, o, r, nat inv, nat ret⟩
    | _, _ => none
  | _ => none

def histVerdict (calls : List String) : String :=
  match calls.mapM parseCall with
  | none => "bad-history"
  | some h =>
    if !(h.all (fun c => c.inv ≤ c.ret)) then "bad-history"
    else
      -- (1) the specification: is there a linearization against `Conc.apply`?  (2) the code model: can the machine
      -- `Conc.stepC` (registry calls atomic; SetConfig = Load, then CompareAndSwap until one succeeds) produce the
      -- recorded results by interleaving the calls' atomic steps within their recorded windows?  By
      -- C14.replay_linearizable (2) implies (1); a linearizable history the machine cannot produce means the code
      -- model is not the code.
      let spec := Conc.linearizable Conc.St.init h
      let mach := Conc.replayable Conc.St.init h
      if spec && !mach then "machine-cannot-produce"
      else if mach && !spec then "machine-not-linearizable"
      else if spec then "lin" else "nonlin"

/-- `lockorder`: what the lock-order model computes on the regenerated table (shown in the evidence) -/
def lockOrderLine : String :=
  let t := Gen.LockOrder.table
  s!"order={LockOrder.order t} edges={LockOrder.edges t} callbacks-under-lock={LockOrder.cbUnderLock t} disciplined={LockOrder.disciplined t []}"

/-- `conflicts`: the cells of the regenerated table (outside `knownRacy`) that are not `ok`, as
    `<loc>=<fn>+<fn>` joined by `,` — used to aim the race harness when the table proof breaks. -/
def conflictLine : String :=
  let cs := conflicts (without knownRacy Gen.LockSets.table)
  let locs := (cs.map (·.1)).eraseDups
  ",".intercalate (locs.map (fun l =>
    let fns := ((cs.filter (·.1 == l)).flatMap (fun c => [c.2.1, c.2.2])).eraseDups
    s!"{l}={"+".intercalate fns}"))

def handle : List String → String
  | ["conflicts"] => s!"conflicts:{conflictLine}"
  | ["race", _] => "norace ok\tnorace ok"
  | "hist" :: _ :: calls => s!"{histVerdict calls}\tlin"
  | ["lockorder"] => lockOrderLine
  | _ => "bad-op"

end Gozod.Drv.C14
