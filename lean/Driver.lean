/-
  Line-protocol driver: one op per input line, one observation per output line.
  Tokens are space-separated; everything from a token starting with `#` on is a comment
  (the harness uses it to record how the case was run against the implementation).
  The first token selects the property module.
-/
import Gozod.Drv.C16

def stripComment : List String → List String
  | [] => []
  | t :: ts => if t.startsWith "#" then [] else t :: stripComment ts

def dispatch (line : String) : String :=
  let toks := stripComment ((line.splitOn " ").filter (· ≠ ""))
  match toks with
  | "c16" :: rest => Gozod.Drv.C16.handle rest
  | _ => "bad-op"

partial def loop (hin hout : IO.FS.Stream) : IO Unit := do
  let line ← hin.getLine
  if line.isEmpty then return ()
  let l := (line.dropRightWhile (fun c => c == '\n' || c == '\r'))
  hout.putStrLn (dispatch l)
  loop hin hout

def main : IO Unit := do
  let hin ← IO.getStdin
  let hout ← IO.getStdout
  loop hin hout
