/-
  C13, round 4 — "the generated file type-checks against the library" as theorems over the WHOLE regenerated
  method table (`Gozod.Gen.methodTable`: reflection over the library, harness/cmd/c13/methods.go).

  * `wellTyped_of_allowed` (any table): a chain whose constructor has a table type τ₀ and whose calls are drawn — in
    any number and order — from a finite list of call shapes is well typed, provided the set of types reachable
    from τ₀ is closed under those shapes (`closedB`, a finite check over the table).
  * `c13_welltyped_partial`: for every scalar field type (the 14 basic kinds gozodgen has a constructor for, and
    pointers to them), every struct name and EVERY rule list whose emitted calls have the shapes of the kind
    (`typedRegion`), the expression `emitChain` produces is well typed against `Gen.methodTable`.
    Renaming or removing a library method gozodgen emits, or changing a parameter kind, breaks the `closedB` obligation.
  * `c13_welltyped_full` is FALSE: witnesses for `url`, `enum`+`min`, slices, maps, `*[]T`+`min`, self references,
    `*time.Time`, an integer bound beyond the parameter's range, unused imports.
  * `c13_emitted_names`: the method / constructor names the model can emit are exactly the names found in the string
    literals of writer.go.
-/
import Gozod.Model.GenTyped
import Gozod.Gen.MethodTable
namespace Gozod.C13
open Gozod.GenEmit Gozod.GenTyped Gozod.TagParser

/-! ## call shapes -/

inductive AShape | int64Lit | floatLit | strLit | regexp | boolLit
  deriving DecidableEq, Repr

/-- the shape of a classified argument (`none`: no shape — not a literal, or an integer outside int64) -/
def absOf : ArgClass → Option AShape
  | .intLit n => if -(2 ^ 63) ≤ n ∧ n ≤ 2 ^ 63 - 1 then some .int64Lit else none
  | .floatLit _ _ => some .floatLit
  | .strLit => some .strLit | .regexp => some .regexp | .boolLit => some .boolLit
  | .other => none

/-- assignability of EVERY argument of the shape -/
def absFits : AShape → PK → Bool
  | _, .any => true
  | _, .other => false
  | .int64Lit, .basic b => b == .int || b == .int64 || isFloaty b
  | .floatLit, .basic b => isFloaty b
  | .strLit, .basic b => b == .string
  | .boolLit, .basic b => b == .bool
  | .regexp, .regexp => true
  | .regexp, .basic _ => false
  | _, .regexp => false

def absFitsAll : List AShape → List PK → Bool
  | [], [] => true
  | a :: as, p :: ps => absFits a p && absFitsAll as ps
  | _, _ => false

abbrev Shape := String × List AShape

def absStep (T : MethodTable) (ty : Nat) (sh : Shape) : Option Nat :=
  match T.method? ty sh.1 with
  | some m => if absFitsAll sh.2 m.params then m.result else none
  | none => none

def closedB (T : MethodTable) (R : List Nat) (shapes : List Shape) : Bool :=
  R.all fun ty => shapes.all fun sh => match absStep T ty sh with | some ty' => R.contains ty' | none => false

/-- types reachable from `R` through the shapes, `n` rounds -/
def closure (T : MethodTable) (shapes : List Shape) : Nat → List Nat → List Nat
  | 0, R => R
  | n + 1, R => closure T shapes n (shapes.foldl (fun acc sh => R.foldl (fun acc ty =>
      match absStep T ty sh with | some ty' => if acc.contains ty' then acc else acc ++ [ty'] | none => acc) acc) R)

def shapeOf (c : Call) : Option Shape :=
  (c.args.mapM fun a => absOf a.cls).map fun as => (c.name, as)

def allowed (shapes : List Shape) (c : Call) : Bool :=
  match shapeOf c with | some sh => shapes.contains sh | none => false

theorem fits_of_abs (a : ArgClass) (s : AShape) (p : PK) (ha : absOf a = some s) (hf : absFits s p = true) :
    fits a p = some true := by
  cases a with
  | other => simp [absOf] at ha
  | intLit n =>
    simp only [absOf] at ha
    split at ha
    · rename_i hr
      cases ha
      cases p with
      | any => rfl
      | other => simp [absFits] at hf
      | regexp => simp [absFits] at hf
      | basic b =>
        simp only [absFits, Bool.or_eq_true, beq_iff_eq] at hf
        simp only [fits, intFits]
        rcases hf with (h | h) | h
        · subst h; have e : (2:Int)^63 = 9223372036854775808 := by decide
          simp [intRange]; omega
        · subst h; have e : (2:Int)^63 = 9223372036854775808 := by decide
          simp [intRange]; omega
        · cases b <;> simp [isFloaty] at h <;> simp [intRange, isFloaty]
    · cases ha
  | floatLit i w =>
    simp only [absOf] at ha; cases ha
    cases p with
    | any => rfl
    | other => simp [absFits] at hf
    | regexp => simp [absFits] at hf
    | basic b => simp only [absFits] at hf; simp [fits, hf]
  | strLit =>
    simp only [absOf] at ha; cases ha
    cases p with
    | any => rfl
    | other => simp [absFits] at hf
    | regexp => simp [absFits] at hf
    | basic b => simp only [absFits] at hf; simp [fits, hf]
  | boolLit =>
    simp only [absOf] at ha; cases ha
    cases p with
    | any => rfl
    | other => simp [absFits] at hf
    | regexp => simp [absFits] at hf
    | basic b => simp only [absFits] at hf; simp [fits, hf]
  | regexp =>
    simp only [absOf] at ha; cases ha
    cases p with
    | any => rfl
    | other => simp [absFits] at hf
    | regexp => rfl
    | basic b => simp [absFits] at hf

theorem fitsAll_of_abs : ∀ (as : List ArgClass) (ss : List AShape) (ps : List PK),
    as.mapM absOf = some ss → absFitsAll ss ps = true → fitsAll as ps = some true
  | [], ss, ps, h, hf => by
    simp at h; subst h
    cases ps with
    | nil => rfl
    | cons _ _ => simp [absFitsAll] at hf
  | a :: as, ss, ps, h, hf => by
    simp only [List.mapM_cons, Option.bind_eq_bind, Option.pure_def] at h
    cases ha : absOf a with
    | none => simp [ha] at h
    | some s =>
      cases has : as.mapM absOf with
      | none => simp [ha, has] at h
      | some ss' =>
        simp [ha, has] at h; subst h
        cases ps with
        | nil => simp [absFitsAll] at hf
        | cons p ps =>
          simp only [absFitsAll, Bool.and_eq_true] at hf
          simp [fitsAll, fits_of_abs a s p ha hf.1, fitsAll_of_abs as ss' ps has hf.2, and3]

theorem step_of_allowed (T : MethodTable) (shapes : List Shape) (R : List Nat) (hc : closedB T R shapes = true)
    (ty : Nat) (hty : ty ∈ R) (c : Call) (ha : allowed shapes c = true) : ∃ ty' ∈ R, GenTyped.step T ty c = .ok ty' := by
  unfold allowed at ha
  cases hs : shapeOf c with
  | none => simp [hs] at ha
  | some sh =>
    simp only [hs] at ha
    have hmem : sh ∈ shapes := by simpa using ha
    have h1 := List.all_eq_true.mp (List.all_eq_true.mp hc ty hty) sh hmem
    unfold shapeOf at hs
    cases hm : c.args.mapM (fun a => absOf a.cls) with
    | none => simp [hm] at hs
    | some as =>
      simp [hm] at hs; subst hs
      simp only [absStep] at h1
      cases hmeth : T.method? ty c.name with
      | none => simp [hmeth] at h1
      | some m =>
        simp only [hmeth] at h1
        by_cases hfit : absFitsAll as m.params = true
        · simp only [hfit, if_true] at h1
          cases hr : m.result with
          | none => simp [hr] at h1
          | some r =>
            simp only [hr] at h1
            refine ⟨r, by simpa using h1, ?_⟩
            have hmm : (c.args.map Arg.cls).mapM absOf = some as := by
              rw [List.mapM_map]; exact hm
            simp [GenTyped.step, stepCls, hmeth, fitsAll_of_abs _ as m.params hmm hfit, hr]
        · simp [hfit] at h1

theorem runCalls_of_allowed (T : MethodTable) (shapes : List Shape) (R : List Nat) (hc : closedB T R shapes = true) :
    ∀ (cs : List Call) (ty : Nat), ty ∈ R → cs.all (allowed shapes) = true → ∃ ty' ∈ R, runCalls T ty cs = .ok ty'
  | [], ty, hty, _ => ⟨ty, hty, rfl⟩
  | c :: cs, ty, hty, hall => by
    simp only [List.all_cons, Bool.and_eq_true] at hall
    obtain ⟨ty', hty', hs⟩ := step_of_allowed T shapes R hc ty hty c hall.1
    obtain ⟨ty'', hty'', hr⟩ := runCalls_of_allowed T shapes R hc cs ty' hty' hall.2
    exact ⟨ty'', hty'', by simp [runCalls, hs, hr]⟩

/-- **Typing of arbitrary chains over a closed set of types** (any table, any number and order of calls). -/
theorem wellTyped_of_allowed (T : MethodTable) (shapes : List Shape) (R : List Nat) (c : Chain) (ty₀ : Nat)
    (h0 : ctorType T c.ctor = some ty₀) (hin : ty₀ ∈ R) (hc : closedB T R shapes = true)
    (hall : c.calls.all (allowed shapes) = true) : wellTyped T c = some true := by
  obtain ⟨ty', _, hr⟩ := runCalls_of_allowed T shapes R hc c.calls ty₀ hin hall
  simp [wellTyped, h0, hr]

/-! ## the shapes gozodgen emits per kind of field, against `Gen.methodTable` -/

def modShapes : List Shape := [("Nilable", []), ("Optional", [])]
def numNames : List String := ["Min", "Max", "Gt", "Gte", "Lt", "Lte", "Default", "Prefault"]

inductive KindClass | str | int | float | bool | enum | none
  deriving DecidableEq, Repr

def _root_.Gozod.GenEmit.Basic.cls : Basic → KindClass
  | .string => .str
  | .int | .int8 | .int16 | .int32 | .int64 | .uint | .uint8 | .uint16 | .uint32 | .uint64 => .int
  | .float32 | .float64 => .float
  | .bool => .bool
  | _ => .none

/-- the call shapes of the documented rules, per class of schema -/
def shapesOf : KindClass → List Shape
  | .str => [("Min", [.int64Lit]), ("Max", [.int64Lit]), ("Email", []), ("Regex", [.regexp]),
             ("Default", [.strLit]), ("Prefault", [.strLit])] ++ modShapes
  | .int => numNames.map (·, [.int64Lit]) ++ modShapes
  | .float => numNames.map (·, [.int64Lit]) ++ numNames.map (·, [.floatLit]) ++ modShapes
  | .bool => [("Default", [.boolLit]), ("Prefault", [.boolLit])] ++ modShapes
  | .enum => [("Default", [.strLit]), ("Prefault", [.strLit])] ++ modShapes
  | .none => []

/-- scalar field types: a basic kind with a documented constructor, or a pointer to one -/
def scalarOf : Ty → Option Basic
  | .basic b => if b.cls = .none then none else some b
  | .ptr (.basic b) => if b.cls = .none then none else some b
  | _ => none

def classOfCtor (b : Basic) : CExpr → KindClass
  | .prim _ => b.cls
  | .uuid => .str
  | .enum _ => .enum
  | _ => .none

/-- the region: the tag is accepted, and every emitted call has one of the shapes of its schema class
    (decidable from the tag; `enum` with no member is outside) -/
def typedRegion (t : Ty) (sn : Str) (rs : List Rule) : Bool :=
  match scalarOf t, emitChain t sn rs with
  | some b, some c =>
    c.calls.all (allowed (shapesOf (classOfCtor b c.ctor))) &&
    (match c.ctor with | .enum vals => !vals.isEmpty | _ => true)
  | _, _ => false

def T := Gozod.Gen.methodTable

def startOK (e : CExpr) (k : KindClass) : Bool :=
  match ctorType T e with
  | some ty =>
    let R := closure T (shapesOf k) 3 [ty]
    R.contains ty && closedB T R (shapesOf k)
  | none => false

/-- THE OBLIGATION OVER THE WHOLE TABLE: for every basic constructor, `gozod.UUID()` and `gozod.Enum(…)`, the types
    reachable through the shapes of its class exist, carry every method of the class with parameters that accept
    every argument of the shape, and are closed under them. -/
theorem c13_table_closed :
    (Basic.all.all fun b => b.cls == .none || startOK (.prim b) b.cls) = true ∧
    startOK .uuid .str = true ∧ startOK (.enum [[0x22, 0x61, 0x22]]) .enum = true := by
  refine ⟨by decide +kernel, by decide +kernel, by decide +kernel⟩

theorem ctorType_enum_irrel (v w : List Str) (hv : v ≠ []) (hw : w ≠ []) : ctorType T (.enum v) = ctorType T (.enum w) := by
  cases v with
  | nil => exact absurd rfl hv
  | cons a as =>
    cases w with
    | nil => exact absurd rfl hw
    | cons b bs => simp [ctorType]

theorem wellTyped_of_startOK (c : Chain) (k : KindClass) (hs : startOK c.ctor k = true)
    (hall : c.calls.all (allowed (shapesOf k)) = true) : wellTyped T c = some true := by
  unfold startOK at hs
  cases h0 : ctorType T c.ctor with
  | none => simp [h0] at hs
  | some ty =>
    simp only [h0, Bool.and_eq_true] at hs
    exact wellTyped_of_allowed T (shapesOf k) _ c ty h0 (by simpa using hs.1) hs.2 hall

/-- Full statement: every expression gozodgen emits for a scalar field type-checks against the library. -/
def c13_welltyped_full : Prop :=
  ∀ (t : Ty) (sn : Str) (rs : List Rule) (c : Chain), (scalarOf t).isSome → emitChain t sn rs = some c → wellTyped T c = some true

theorem baseCtor_scalar (t : Ty) (sn : Str) (b : Basic) (hb : scalarOf t = some b) : baseCtor t sn = .prim b := by
  cases t with
  | basic b0 =>
    simp only [scalarOf] at hb
    split at hb
    · cases hb
    · cases hb; cases b <;> first | rfl | simp_all [Basic.cls]
  | ptr t' =>
    cases t' with
    | basic b0 =>
      simp only [scalarOf] at hb
      split at hb
      · cases hb
      · cases hb; cases b <;> first | rfl | simp_all [Basic.cls]
    | _ => simp [scalarOf] at hb
  | _ => simp [scalarOf] at hb

theorem scalar_cls (t : Ty) (b : Basic) (hb : scalarOf t = some b) : b.cls ≠ .none := by
  cases t with
  | basic b0 => simp only [scalarOf] at hb; split at hb <;> simp_all
  | ptr t' =>
    cases t' with
    | basic b0 => simp only [scalarOf] at hb; split at hb <;> simp_all
    | _ => simp [scalarOf] at hb
  | _ => simp [scalarOf] at hb

/-- the three shapes of `generateFieldSchemaCode` -/
theorem emitChain_ctor (t : Ty) (sn : Str) (rs : List Rule) (c : Chain) (he : emitChain t sn rs = some c) :
    c.ctor = baseCtor t sn ∨ c.ctor = .uuid ∨ ∃ vals, c.ctor = .enum vals := by
  unfold emitChain at he
  simp only at he
  split at he
  · simp only [Option.map_eq_some_iff] at he; obtain ⟨_, _, rfl⟩ := he; exact Or.inr (Or.inl rfl)
  · split at he
    · split at he
      · cases he
      · simp only [Option.map_eq_some_iff] at he; obtain ⟨_, _, rfl⟩ := he; exact Or.inr (Or.inr ⟨_, rfl⟩)
    · simp only [Option.map_eq_some_iff] at he; obtain ⟨_, _, rfl⟩ := he; exact Or.inl rfl

/-- **Every emitted expression of the region type-checks against the whole regenerated method table** —
    all scalar field types, all struct names, all rule lists (any length, any order, any parameters of the shapes). -/
theorem c13_welltyped_partial (t : Ty) (sn : Str) (rs : List Rule) (c : Chain)
    (hr : typedRegion t sn rs = true) (he : emitChain t sn rs = some c) : wellTyped T c = some true := by
  unfold typedRegion at hr
  cases hb : scalarOf t with
  | none => simp [hb] at hr
  | some b =>
    simp only [hb, he, Bool.and_eq_true] at hr
    obtain ⟨hall, hen⟩ := hr
    have hcl := c13_table_closed
    have hbcls := scalar_cls t b hb
    rcases emitChain_ctor t sn rs c he with hct | hct | ⟨vals, hct⟩
    · rw [baseCtor_scalar t sn b hb] at hct
      have hst : startOK (.prim b) b.cls = true := by
        have := List.all_eq_true.mp hcl.1 b (by cases b <;> decide)
        simpa [hbcls] using this
      rw [hct] at hall; simp only [classOfCtor] at hall
      exact wellTyped_of_startOK c b.cls (by rw [hct]; exact hst) hall
    · rw [hct] at hall; simp only [classOfCtor] at hall
      exact wellTyped_of_startOK c .str (by rw [hct]; exact hcl.2.1) hall
    · rw [hct] at hall hen; simp only [classOfCtor] at hall
      have hv : vals ≠ [] := by intro h; subst h; simp at hen
      have hst : startOK (.enum vals) .enum = true := by
        have h := hcl.2.2
        unfold startOK at h ⊢
        rw [ctorType_enum_irrel vals [[0x22, 0x61, 0x22]] hv (by simp)]
        exact h
      exact wellTyped_of_startOK c .enum (by rw [hct]; exact hst) hall

/-! ## the full statement is false; the region is inhabited -/

def rule (n : String) (ps : List String := []) : Rule := ⟨asc n, if ps.isEmpty then none else some (ps.map asc)⟩

/-- the judgement on what gozodgen emits for `F <t> \`gozod:"…"\`` in `type <sn> struct` -/
def wt (t : Ty) (sn : String) (rs : List Rule) : Option Bool := (emitChain t (asc sn) rs).bind (wellTyped T)

/-- one witness per class of generated file that does not type-check (each re-derived by `go build` in the tie) -/
theorem c13_illtyped_witnesses :
    wt (.basic .string) "C" [rule "url"] = some false ∧                                   -- ZodString has no method URL
    wt (.basic .string) "C" [rule "enum" ["a", "b"], rule "min" ["2"]] = some false ∧     -- gozod.Enum("a", "b").Min(2)
    wt (.slice (.basic .string)) "C" [rule "required"] = some false ∧                     -- gozod.Slice(elem): T cannot be inferred
    wt (.map (.basic .string) (.basic .int)) "C" [rule "required"] = some false ∧         -- gozod.Record(value): one argument short
    wt (.ptr (.slice (.basic .int))) "C" [rule "min" ["1"]] = some false ∧                -- gozod.FromStruct[[]int]().Min(1)
    wt (.ptr (.named (asc "C"))) "C" [rule "required"] = some false ∧                     -- gozod.Lazy(func() gozod.ZodType[any] { return gozod.FromStruct[C]() })
    wt (.slice (.ptr (.named (asc "C")))) "C" [] = some false ∧
    wt (.ptr .time) "C" [rule "required"] = some false ∧                                  -- gozod.FromStruct[time.Time](): package time is not imported
    wt (.basic .uint64) "C" [rule "max" ["18446744073709551615"]] = some false ∧          -- Max takes an int64
    wt (.basic .int) "C" [rule "gt" ["2.5"]] = some false ∧                               -- constant 2.5 truncated
    wt (.basic .string) "C" [rule "gt" ["2"]] = some false ∧                              -- ZodString has no Gt
    wt (.basic .bool) "C" [rule "min" ["1"]] = some false := by
  decide +kernel

theorem c13_welltyped_full_false : ¬ c13_welltyped_full := by
  intro h
  have w := c13_illtyped_witnesses.1
  unfold wt at w
  cases he : emitChain (.basic .string) (asc "C") [rule "url"] with
  | none => rw [he] at w; cases w
  | some c =>
    rw [he] at w
    have := h (.basic .string) (asc "C") [rule "url"] c (by decide) he
    simp only [Option.bind] at w
    rw [this] at w; cases w

/-- unused imports: `trim` / `lowercase` / `uppercase` write `import "strings"`, `url` writes `net/url`, `ipv4` `net`,
    `refine` the core package, and a `regex` rule without parameter `regexp` — no emitted expression uses them -/
theorem c13_unused_import_witnesses :
    (["trim", "lowercase", "uppercase", "url", "ipv4", "ipv6", "refine", "check", "regex"].all fun n =>
      match emitChain (.basic .string) (asc "C") [rule n] with
      | some c => !importsUsed [[rule n]] [c]
      | none => false) = true ∧
    (match emitChain (.basic .string) (asc "C") [rule "regex" ["^a$"]] with
      | some c => importsUsed [[rule "regex" ["^a$"]]] [c]
      | none => false) = true := by
  decide +kernel

/-- the region is inhabited by long mixed tags of every class, and well-typed emissions exist outside the scalar types -/
example : typedRegion (.basic .string) (asc "C") [rule "required", rule "min" ["2"], rule "regex" ["^[a-z]{2,4}$"], rule "email", rule "max" ["9"], rule "default" ["he\"llo"]] = true := by decide +kernel
example : typedRegion (.ptr (.basic .string)) (asc "C") [rule "uuid", rule "max" ["40"], rule "nilable"] = true := by decide +kernel
example : typedRegion (.basic .string) (asc "C") [rule "enum" ["red", "green"], rule "default" ["red"]] = true := by decide +kernel
example : typedRegion (.basic .int8) (asc "C") [rule "gte" ["-5"], rule "lt" ["100"], rule "default" ["3"]] = true := by decide +kernel
example : typedRegion (.ptr (.basic .float32)) (asc "C") [rule "gt" ["0.5"], rule "max" ["10"], rule "required"] = true := by decide +kernel
example : typedRegion (.basic .bool) (asc "C") [rule "default" ["true"]] = true := by decide +kernel
example : wt .time "C" [rule "required"] = some true ∧ wt (.named (asc "Inner")) "C" [] = some true ∧
    wt (.ptr (.named (asc "Inner"))) "C" [rule "required"] = some true := by decide +kernel

/-! ## the names the model can emit are the names in the string literals of writer.go -/

def modelMethods : List String :=
  ["Check", "Default", "Email", "Gt", "Gte", "IPv4", "IPv6", "Lt", "Lte", "Max", "Min", "Nilable", "Optional", "Prefault",
   "Refine", "Regex", "ToLowerCase", "ToUpperCase", "Trim", "URL"]

def modelCtors : List String :=
  ["Any", "Enum", "FromStruct", "Lazy", "Record", "Slice", "Time", "UUID"] ++ Basic.all.map Basic.ctorName

/-- go/ast over writer.go finds exactly the `.Name(` and `gozod.Name(` literals the transcription emits (sorted lists) -/
theorem c13_emitted_names :
    T.emittedMethods = modelMethods ∧ (∀ c ∈ T.emittedCtors, c ∈ modelCtors) ∧ (∀ c ∈ modelCtors, c ∈ T.emittedCtors) := by
  decide +kernel

end Gozod.C13
