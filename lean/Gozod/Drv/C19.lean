/-
  Line handler for C19 (error formatters).

    c19 <n> issue*          → "<model>\t<spec>"
    issue  := I <code> <npath> seg* <msg> <nbranches> branch* <nissues> issue*
    branch := <n> issue*
    seg    := k<hex of the key's UTF-8 bytes> | i<decimal>
    code   := invalid_type | … (the 17 constants) | ?<hex>   (any other code string)
    msg    := m<hex>

  A report line is `flat=… tree=… fmt=… pretty=…` (canonical: map entries sorted by key, all
  strings in hex):
    list      [h,h,…]
    flat      F[form]{key:[msgs];…}
    tree      T[errors]{key:tree;…}(tree;…)
    fmt       M[errors]{key:fmt;…}
    pretty    P<hex>
-/
import Gozod.Model.Issues
import Gozod.Model.IssuesSpec
namespace Gozod.Drv.C19
open Gozod.Issues

/-! ### hex -/

def hexDigit (n : Nat) : Char :=
  if n < 10 then Char.ofNat (48 + n) else Char.ofNat (87 + n)

def hex (s : String) : String :=
  String.ofList (s.toUTF8.toList.flatMap (fun b => [hexDigit (b.toNat / 16), hexDigit (b.toNat % 16)]))

def unhexDigit (c : Char) : Option Nat :=
  if '0' ≤ c && c ≤ '9' then some (c.toNat - 48)
  else if 'a' ≤ c && c ≤ 'f' then some (c.toNat - 87)
  else none

def unhexBytes : List Char → Option (List UInt8)
  | [] => some []
  | [_] => none
  | a :: b :: r => do
    let x ← unhexDigit a
    let y ← unhexDigit b
    let rest ← unhexBytes r
    pure (UInt8.ofNat (16 * x + y) :: rest)

def unhex (s : String) : Option String := do
  let bs ← unhexBytes s.toList
  String.fromUTF8? (ByteArray.mk bs.toArray)

/-! ### parsing -/

def parseCode (t : String) : Option Code :=
  match t with
  | "invalid_type" => some .invalidType
  | "invalid_value" => some .invalidValue
  | "invalid_format" => some .invalidFormat
  | "invalid_union" => some .invalidUnion
  | "invalid_key" => some .invalidKey
  | "invalid_element" => some .invalidElement
  | "too_big" => some .tooBig
  | "too_small" => some .tooSmall
  | "not_multiple_of" => some .notMultipleOf
  | "unrecognized_keys" => some .unrecognizedKeys
  | "custom" => some .custom
  | "invalid_schema" => some .invalidSchema
  | "invalid_discriminator" => some .invalidDiscriminator
  | "incompatible_types" => some .incompatibleTypes
  | "missing_required" => some .missingRequired
  | "type_conversion" => some .typeConversion
  | "nil_pointer" => some .nilPointer
  | t => if t.startsWith "?" then (unhex (t.drop 1).toString).map Code.other else none

def parseSeg (t : String) : Option Seg :=
  if t.startsWith "k" then (unhex (t.drop 1).toString).map Seg.key
  else if t.startsWith "i" then ((t.drop 1).toString.toNat?).map Seg.idx
  else none

def parseSegs : Nat → List String → Option (List Seg × List String)
  | 0, ts => some ([], ts)
  | n + 1, t :: ts => do
    let s ← parseSeg t
    let (r, ts') ← parseSegs n ts
    pure (s :: r, ts')
  | _ + 1, [] => none

mutual
partial def parseIssue : List String → Option (Issue × List String)
  | "I" :: c :: np :: ts => do
    let code ← parseCode c
    let n ← np.toNat?
    let (path, ts) ← parseSegs n ts
    match ts with
    | m :: nb :: ts =>
      if !m.startsWith "m" then none else do
      let msg ← unhex (m.drop 1).toString
      let nb ← nb.toNat?
      let (brs, ts) ← parseBranches nb ts
      match ts with
      | ni :: ts => do
        let ni ← ni.toNat?
        let (subs, ts) ← parseIssues ni ts
        pure (Issue.mk code path msg brs subs, ts)
      | [] => none
    | _ => none
  | _ => none
partial def parseIssues : Nat → List String → Option (List Issue × List String)
  | 0, ts => some ([], ts)
  | n + 1, ts => do
    let (i, ts) ← parseIssue ts
    let (r, ts) ← parseIssues n ts
    pure (i :: r, ts)
partial def parseBranches : Nat → List String → Option (List (List Issue) × List String)
  | 0, ts => some ([], ts)
  | n + 1, ts =>
    match ts with
    | c :: ts => do
      let c ← c.toNat?
      let (b, ts) ← parseIssues c ts
      let (r, ts) ← parseBranches n ts
      pure (b :: r, ts)
    | [] => none
end

/-! ### canonical rendering -/

def rList (ms : List String) : String := "[" ++ ",".intercalate (ms.map hex) ++ "]"

def sortByKey {α : Type} (l : List (String × α)) : List (String × α) :=
  l.mergeSort (fun a b => !(b.1 < a.1))

def rFlat (f : Flat) : String :=
  let fs := sortByKey (f.fields.map (fun (k, ms) => (hex k, rList ms)))
  "F" ++ rList f.form ++ "{" ++ ";".intercalate (fs.map (fun (k, v) => k ++ ":" ++ v)) ++ "}"

mutual
partial def rTree : Tree → String
  | .node e p i =>
    let ps := sortByKey (p.map (fun (k, t) => (hex k, rTree t)))
    "T" ++ rList e ++ "{" ++ ";".intercalate (ps.map (fun (k, v) => k ++ ":" ++ v)) ++ "}("
      ++ ";".intercalate (i.map rTree) ++ ")"
end

mutual
partial def rFmt : Fmt → String
  | .node e k =>
    let ks := sortByKey (k.map (fun (k, t) => (hex k, rFmt t)))
    "M" ++ rList e ++ "{" ++ ";".intercalate (ks.map (fun (k, v) => k ++ ":" ++ v)) ++ "}"
end

def report (fl : Flat) (tr : Tree) (fm : Fmt) (pr : String) : String :=
  s!"flat={rFlat fl} tree={rTree tr} fmt={rFmt fm} pretty=P{hex pr}"

def handle : List String → String
  | n :: ts =>
    match n.toNat? with
    | none => "bad-op"
    | some n =>
      match parseIssues n ts with
      | some (is, []) =>
        report (flatten is) (treeify is) (formatError is) (prettify is) ++ "\t" ++
        report (Spec.specFlat is) (Spec.specTree is) (Spec.specFmt is) (Spec.specPretty is)
      | _ => "bad-op"
  | _ => "bad-op"

end Gozod.Drv.C19
