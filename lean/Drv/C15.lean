import Gozod.Drv.Loop
import Gozod.Drv.C15
def main : IO Unit := Gozod.Drv.runTokens Gozod.Drv.C15.handle
