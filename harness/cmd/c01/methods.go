// Translators of the C01 harness (run by vlib/c01.py before the proofs are built):
//
//	-gen-methods <out.lean> -repo <root>   go/ast table of every exported method of the six primitive schema types
//	                                       with what it delegates to (check factory / receiver method / constants)
//	-gen-casetable <out.lean>              unicode.ToLower / ToUpper / IsSpace of the Go toolchain as range tables
package main

import (
	"fmt"
	"go/ast"
	"go/parser"
	"go/token"
	"os"
	"path/filepath"
	"sort"
	"strings"
	"unicode"
)

var primFiles = []struct{ file, recv string }{
	{"types/string.go", "ZodString"}, {"types/integer.go", "ZodIntegerTyped"}, {"types/float.go", "ZodFloatTyped"},
	{"types/bool.go", "ZodBool"}, {"types/enum.go", "ZodEnum"}, {"types/literal.go", "ZodLiteral"},
}

var delegPkgs = map[string]bool{"checks": true, "validate": true, "engine": true, "strings": true, "math": true, "core": true, "utils": true, "transform": true}

func recvName(fd *ast.FuncDecl) (typ, name string) {
	if fd.Recv == nil || len(fd.Recv.List) != 1 {
		return "", ""
	}
	f := fd.Recv.List[0]
	if len(f.Names) == 1 {
		name = f.Names[0].Name
	}
	t := f.Type
	if s, ok := t.(*ast.StarExpr); ok {
		t = s.X
	}
	switch x := t.(type) {
	case *ast.IndexExpr:
		t = x.X
	case *ast.IndexListExpr:
		t = x.X
	}
	if id, ok := t.(*ast.Ident); ok {
		typ = id.Name
	}
	return
}

// delegates: the calls a method body makes, in source order: pkg.Func for the library's helper packages,
// z.Method for exported methods of the receiver, .Method for a call chained on a call, and the literal
// arguments of receiver-method calls (Positive = z.Gt(0)).
func delegates(fd *ast.FuncDecl, recv string) string {
	var out []string
	seen := map[string]bool{}
	add := func(s string) {
		if !seen[s] {
			seen[s] = true
			out = append(out, s)
		}
	}
	ast.Inspect(fd.Body, func(n ast.Node) bool {
		ce, ok := n.(*ast.CallExpr)
		if !ok {
			return true
		}
		fun := ce.Fun
		switch x := fun.(type) {
		case *ast.IndexExpr:
			fun = x.X
		case *ast.IndexListExpr:
			fun = x.X
		}
		sel, ok := fun.(*ast.SelectorExpr)
		if !ok {
			return true
		}
		lits := func() string {
			var ls []string
			for _, a := range ce.Args {
				switch b := a.(type) {
				case *ast.BasicLit:
					ls = append(ls, b.Value)
				case *ast.Ident:
					if b.Obj != nil && b.Obj.Kind == ast.Con {
						ls = append(ls, b.Name)
					}
				}
			}
			if len(ls) == 0 {
				return ""
			}
			return "(" + strings.Join(ls, ",") + ")"
		}
		switch x := sel.X.(type) {
		case *ast.Ident:
			if delegPkgs[x.Name] {
				add(x.Name + "." + sel.Sel.Name)
			} else if x.Name == recv && ast.IsExported(sel.Sel.Name) {
				add("z." + sel.Sel.Name + lits())
			} else if x.Name == recv && (sel.Sel.Name == "withCheck" || sel.Sel.Name == "withInternals" || sel.Sel.Name == "withPtrInternals") {
				add("z." + sel.Sel.Name)
			}
		case *ast.CallExpr:
			if ast.IsExported(sel.Sel.Name) {
				add("." + sel.Sel.Name + lits())
			}
		}
		return true
	})
	return strings.Join(out, "+")
}

func genPrimMethods(repo string) (string, error) {
	var rows []string
	n := 0
	for _, pf := range primFiles {
		fset := token.NewFileSet()
		f, err := parser.ParseFile(fset, filepath.Join(repo, pf.file), nil, 0)
		if err != nil {
			return "", err
		}
		var ms []string
		for _, d := range f.Decls {
			fd, ok := d.(*ast.FuncDecl)
			if !ok || fd.Body == nil || !ast.IsExported(fd.Name.Name) {
				continue
			}
			typ, rn := recvName(fd)
			if typ != pf.recv {
				continue
			}
			ms = append(ms, fmt.Sprintf("  (%q, %q, %q)", pf.recv, fd.Name.Name, delegates(fd, rn)))
		}
		if len(ms) == 0 {
			return "", fmt.Errorf("%s: no exported method of %s found", pf.file, pf.recv)
		}
		sort.Strings(ms)
		rows = append(rows, ms...)
		n += len(ms)
	}
	var b strings.Builder
	b.WriteString("-- REGENERATED on every `./check C01` run by harness/cmd/c01 -gen-methods (go/ast over types/{string,integer,float,bool,enum,literal}.go). DO NOT EDIT.\n")
	b.WriteString("namespace Gozod.Gen\n\n/-- (receiver type, exported method, what its body delegates to) -/\ndef primMethods : List (String × String × String) := [\n")
	b.WriteString(strings.Join(rows, ",\n"))
	fmt.Fprintf(&b, "\n]\n\ndef primMethodCount : Nat := %d\n\nend Gozod.Gen\n", n)
	return b.String(), nil
}

// ---- case / white-space tables of the Go toolchain's unicode package ----

type crange struct{ lo, hi, stride, to rune }

func caseRanges(f func(rune) rune) []crange {
	var rs []crange
	for r := rune(0); r <= unicode.MaxRune; r++ {
		t := f(r)
		if t == r {
			continue
		}
		if k := len(rs) - 1; k >= 0 {
			c := &rs[k]
			d := c.to - c.lo
			if t-r == d {
				if c.hi == c.lo && (r-c.lo == 1 || r-c.lo == 2) {
					c.stride = r - c.lo
					c.hi = r
					continue
				}
				if c.hi > c.lo && r-c.hi == c.stride {
					c.hi = r
					continue
				}
			}
		}
		rs = append(rs, crange{r, r, 1, t})
	}
	return rs
}

func genCaseTable() string {
	var b strings.Builder
	b.WriteString("-- REGENERATED by harness/cmd/c01 -gen-casetable from the Go toolchain's unicode.ToLower / ToUpper / IsSpace (behavioural, all runes). DO NOT EDIT.\n")
	b.WriteString("namespace Gozod.Gen\n\n")
	emit := func(name string, rs []crange) {
		fmt.Fprintf(&b, "/-- (lo, hi, stride, image of lo): runes lo, lo+stride, … ≤ hi map with the same offset -/\ndef %s : List (Nat × Nat × Nat × Nat) := [\n", name)
		for i, c := range rs {
			sep := ","
			if i == len(rs)-1 {
				sep = ""
			}
			fmt.Fprintf(&b, "  (%d, %d, %d, %d)%s\n", c.lo, c.hi, c.stride, c.to, sep)
		}
		b.WriteString("]\n\n")
	}
	emit("lowerRanges", caseRanges(unicode.ToLower))
	emit("upperRanges", caseRanges(unicode.ToUpper))
	var sp []string
	for r := rune(0); r <= unicode.MaxRune; r++ {
		if unicode.IsSpace(r) {
			sp = append(sp, fmt.Sprint(r))
		}
	}
	fmt.Fprintf(&b, "/-- unicode.IsSpace -/\ndef spaceRunes : List Nat := [%s]\n\nend Gozod.Gen\n", strings.Join(sp, ", "))
	return b.String()
}

func writeIfChanged(path, content string) error {
	if old, err := os.ReadFile(path); err == nil && string(old) == content {
		return nil
	}
	return os.WriteFile(path, []byte(content), 0o644)
}
