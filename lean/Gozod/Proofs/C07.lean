/-
  C07 — ToJSONSchema describes exactly what Parse accepts.
  Model: Gozod/Model/JsonSchema.lean (accepts/out = Parse, toJS = jsonschema/to.go, jsValid = Draft 2020-12).
-/
import Gozod.Proofs.C07Lemmas
namespace Gozod.C07
open Gozod.Jsc

/-! ### instance-side helpers -/

theorem all_congr_list (f g : Json → Bool) (h : ∀ x, instOK x = true → f x = g x) :
    (xs : JsonList) → instListOK xs = true → xs.all f = xs.all g
  | .nil, _ => rfl
  | .cons x xs, hx => by
    simp only [instListOK, Bool.and_eq_true] at hx
    simp [JsonList.all, h x hx.1, all_congr_list f g h xs hx.2]

theorem all_congr_fields (f g : Str → Json → Bool)
    (h : ∀ k v, asciiStr k = true → instOK v = true → f k v = g k v) :
    (fs : JsonFields) → instFieldsOK fs = true → fs.all f = fs.all g
  | .nil, _ => rfl
  | .cons k v fs, hx => by
    simp only [instFieldsOK, Bool.and_eq_true] at hx
    simp [JsonFields.all, h k v hx.1.1 hx.1.2, all_congr_fields f g h fs hx.2]

theorem find_instOK (k : Str) (v : Json) :
    (fs : JsonFields) → instFieldsOK fs = true → fs.find k = some v → instOK v = true
  | .nil, _, h => by simp [JsonFields.find] at h
  | .cons k' v' fs, hx, h => by
    simp only [instFieldsOK, Bool.and_eq_true] at hx
    simp only [JsonFields.find] at h
    split at h
    · cases h; exact hx.1.2
    · exact find_instOK k v fs hx.2 h

theorem drop_instOK : (n : Nat) → (xs : JsonList) → instListOK xs = true → instListOK (xs.drop n) = true
  | 0, xs, hx => by simpa [JsonList.drop] using hx
  | n + 1, .nil, _ => by simp [JsonList.drop, instListOK]
  | n + 1, .cons x xs, hx => by
    simp only [instListOK, Bool.and_eq_true] at hx
    simpa [JsonList.drop] using drop_instOK n xs hx.2

theorem isNull_iff (x : Json) : x.isNull = true ↔ x = .null := by
  cases x <;> simp [Json.isNull]

/-! ### schema-side helpers -/

theorem nilType_acceptsNull (s : S) (h : s.isNilType = true) : s.acceptsNull = true := by
  cases s <;> simp_all [S.isNilType, S.acceptsNull]

theorem acceptsNull_accepts (s : S) (h : s.acceptsNull = true) : accepts s .null = true := by
  cases s <;> simp_all [S.acceptsNull, accepts, Json.isNull]

theorem docNullable_accepts (s : S) (h : s.docNullable = true) : accepts s .null = true := by
  cases s <;> simp_all [S.docNullable, accepts, Json.isNull]

theorem nilOrAny_accepts (s : S) (h : (s.isNilType || s.isAnyType) = true) : accepts s .null = true := by
  cases s <;> simp_all [S.isNilType, S.isAnyType, accepts, Json.isNull]

theorem litHomog_not_null (vs : List Prim) (h : litHomog vs = true) : vs.any (fun p => Json.isPrim .null p) = false := by
  cases vs with
  | nil => simp
  | cons v vs =>
    simp only [litHomog, Bool.and_eq_true, List.all_eq_true] at h
    simp only [List.any_eq_false]
    intro p hp
    cases hp with
    | head => cases v <;> simp_all [Prim.sameKind, Json.isPrim]
    | tail _ hm => have := h.2 p hm; cases v <;> cases p <;> simp_all [Prim.sameKind, Json.isPrim]

/-- a representable schema that does not admit nil rejects `null`. -/
theorem accepts_null_false (top : Bool) (s : S) (h1 : s.acceptsNull = false) (h2 : reprP top s = true) :
    accepts s .null = false := by
  cases s <;> simp_all [S.acceptsNull, accepts, Json.isNull, reprP]
  case lit vs => have := litHomog_not_null vs h2; simpa using this

theorem propsJS_keys : (shape : Shape) → (propsJS shape).keys = shape.keys
  | .nil => by simp [propsJS, JSProps.keys, Shape.keys]
  | .cons k s rest => by simp [propsJS, JSProps.keys, Shape.keys, propsJS_keys rest]

theorem listJS_length : (ss : SList) → (listJS ss).length = ss.length
  | .nil => by simp [listJS, JSList.length, SList.length]
  | .cons s ss => by simp [listJS, JSList.length, SList.length, listJS_length ss]

theorem members_null : (ms : SList) → reprMembers ms = true →
    anyAccepts ms .null = false ∧ countAccepts ms .null = 0
  | .nil, _ => by simp [anyAccepts, countAccepts]
  | .cons s ss, h => by
    simp only [reprMembers, Bool.and_eq_true, Bool.not_eq_true'] at h
    have h0 := accepts_null_false false s h.1.1 h.1.2
    have ih := members_null ss h.2
    simp [anyAccepts, countAccepts, h0, ih.1, ih.2]

theorem members_noSpecial (ms : SList) (h : reprMembers ms = true) : unionNilSpecial ms = none := by
  unfold unionNilSpecial
  split
  · rename_i a b
    simp only [reprMembers, Bool.and_eq_true, Bool.not_eq_true'] at h
    have ha : a.isNilType = false := by
      cases hh : a.isNilType
      · rfl
      · have := nilType_acceptsNull a hh; simp_all
    have hb : b.isNilType = false := by
      cases hh : b.isNilType
      · rfl
      · have := nilType_acceptsNull b hh; simp_all
    simp [ha, hb]
  · rfl

theorem mem_insertStr (a x : Str) (l : List Str) : a ∈ insertStr x l ↔ a = x ∨ a ∈ l := by
  induction l with
  | nil => simp [insertStr]
  | cons y ys ih =>
    simp only [insertStr]
    split
    · simp only [List.mem_cons, ih]
      constructor <;> intro h <;> rcases h with h | h | h <;> simp_all
    · simp

theorem mem_sortStrs (a : Str) (vs : List Str) : a ∈ sortStrs vs ↔ a ∈ vs := by
  induction vs with
  | nil => simp [sortStrs]
  | cons v vs ih =>
    simp only [sortStrs, List.foldr_cons] at ih ⊢
    rw [mem_insertStr, ih]; simp

theorem sortStrs_contains (vs : List Str) (s : Str) : (sortStrs vs).contains s = vs.contains s := by
  rw [Bool.eq_iff_iff]; simp [mem_sortStrs]

/-! ### the homomorphism theorem on the value-preserving fragment -/

theorem bool_case (x : Json) : jsValid (.node (KwList.ofList [.type .boolean])) x = accepts .bool x := by
  cases x <;> simp [jsValid_node, kwValid, typeOk, accepts]

theorem nil_case (x : Json) : jsValid nullJS x = accepts .nil x := by
  cases x <;> simp [nullJS, jsValid, kwsValid, kwValid, typeOk, accepts, Json.isNull]

theorem nullJS_valid (x : Json) : jsValid nullJS x = x.isNull := by
  cases x <;> simp [nullJS, jsValid, kwsValid, kwValid, typeOk, Json.isNull]

theorem enum_case (vs : List Str) (x : Json) :
    jsValid (.node (KwList.ofList [.enum ((sortStrs vs).map .str), .type .string])) x = accepts (.enum vs) x := by
  cases x with
  | str s =>
    simp only [jsValid_node, List.all_cons, List.all_nil, kwValid, typeOk, accepts, Bool.and_true]
    rw [← sortStrs_contains vs s, Bool.eq_iff_iff]
    simp [Json.isPrim]
  | _ => simp [jsValid_node, kwValid, typeOk, accepts]

theorem litVal_valid (vs : List Prim) (c : Ctx) (x : Json) :
    (litVal vs).all (fun k => kwValid k c x) = vs.any (fun p => x.isPrim p) := by
  match vs with
  | [] => simp [litVal, kwValid]
  | [v] => simp [litVal, kwValid]
  | v :: w :: vs => simp [litVal, kwValid]

theorem lit_case (vs : List Prim) (x : Json) (h : litHomog vs = true) :
    jsValid (.node (KwList.ofList (litType vs ++ litVal vs))) x = accepts (.lit vs) x := by
  cases vs with
  | nil => simp [litHomog] at h
  | cons v vs =>
    rw [jsValid_node]
    simp only [List.all_append, accepts, litVal_valid]
    simp only [litHomog, Bool.and_eq_true, List.all_eq_true] at h
    by_cases hany : (v :: vs).any (fun p => x.isPrim p) = true
    · rw [hany, Bool.and_true]
      simp only [List.any_eq_true] at hany
      obtain ⟨p, hp, hx⟩ := hany
      have hk : v.sameKind p = true := by
        cases hp with
        | head => exact h.1
        | tail _ hm => exact h.2 p hm
      cases v <;> cases p <;> cases x <;> simp_all [Prim.sameKind, Json.isPrim, litType, kwValid, typeOk]
    · have : (v :: vs).any (fun p => x.isPrim p) = false := by simpa using hany
      rw [this, Bool.and_false]

theorem szOk_nil (l : Nat) : szOk [] l = true := by simp [szOk]

theorem length_zero_nil (ss : SList) (h : (ss.length == 0) = true) : ss = .nil := by
  cases ss <;> simp_all [SList.length]

theorem fields_all_true : (fs : JsonFields) → fs.all (fun _ _ => true) = true
  | .nil => rfl
  | .cons _ _ fs => by simp [JsonFields.all, fields_all_true fs]

theorem props_kw_valid (shape : Shape) (c : Ctx) (fs : JsonFields) :
    (if shape.keys.isEmpty then [] else [Kw.properties (propsJS shape)]).all (fun k => kwValid k c (.obj fs))
      = propsValid (propsJS shape) fs := by
  by_cases hk : shape.keys.isEmpty = true
  · have : shape = .nil := by cases shape <;> simp_all [Shape.keys]
    subst this; simp [Shape.keys, propsJS, propsValid]
  · simp [hk, kwValid]

theorem req_kw_valid (req : List Str) (c : Ctx) (fs : JsonFields) :
    (if req.isEmpty then [] else [Kw.required req]).all (fun k => kwValid k c (.obj fs))
      = req.all (fun k => fs.hasKey k) := by
  by_cases hk : req.isEmpty = true
  · have : req = [] := by simpa using hk
    simp [this]
  · simp [hk, kwValid]

theorem propKeys_append_noprops (a b : List Kw) (hb : ∀ k ∈ a, ∀ ps, k ≠ Kw.properties ps) :
    (KwList.ofList (a ++ b)).propKeys = (KwList.ofList b).propKeys := by
  induction a with
  | nil => rfl
  | cons k ks ih =>
    have hk := hb k (by simp)
    have := ih (fun k' hk' => hb k' (by simp [hk']))
    cases k <;> simp_all [KwList.ofList, KwList.propKeys]

theorem propsKws_noprops (b : SzBag) : ∀ k ∈ propsKws b, ∀ ps, k ≠ Kw.properties ps := by
  intro k hk ps
  obtain ⟨mn, mx⟩ := b
  cases mn <;> cases mx <;> simp [propsKws, optKw] at hk <;> (try rcases hk with rfl | rfl) <;> simp_all

theorem propsKws_propKeys (b : SzBag) (pre : List Kw) (hp : ∀ k ∈ pre, ∀ ps, k ≠ Kw.properties ps) :
    (KwList.ofList (pre ++ propsKws b)).propKeys = [] := by
  rw [propKeys_append_noprops pre _ hp, ← List.append_nil (propsKws b),
    propKeys_append_noprops _ [] (propsKws_noprops b)]
  rfl

theorem lenBag_nil : lengthKws (lenBag []) = [] := by simp [lenBag, lengthKws, optKw]

theorem obj_propKeys (shape : Shape) (req : List Str) (j : JS) (tail : List Kw)
    (ht : ∀ k ∈ tail, ∀ ps, k ≠ Kw.properties ps) :
    (KwList.ofList ([Kw.type .object] ++ (if shape.keys.isEmpty then [] else [Kw.properties (propsJS shape)])
        ++ (if req.isEmpty then [] else [Kw.required req])
        ++ [Kw.additionalProperties j] ++ tail)).propKeys = shape.keys := by
  by_cases hk : shape.keys.isEmpty = true
  · have hk' : shape.keys = [] := by simpa using hk
    simp only [hk, if_true, List.append_nil, List.append_assoc]
    rw [propKeys_append_noprops]
    · rw [propKeys_append_noprops]
      · rw [propKeys_append_noprops _ tail (by simp)]
        rw [← List.append_nil tail, propKeys_append_noprops tail [] ht]
        simp [KwList.ofList, KwList.propKeys, hk']
      · intro k hk2 ps; split at hk2 <;> simp_all
    · simp
  · simp [hk, KwList.ofList, KwList.propKeys, propsJS_keys]

theorem nPrefix_none (t : List Kw) (ht : ∀ k ∈ t, ∀ js, k ≠ Kw.prefixItems js) : (KwList.ofList t).nPrefix = 0 := by
  induction t with
  | nil => rfl
  | cons k ks ih =>
    have h1 := ht k (by simp)
    have h2 := ih (fun k' hk' => ht k' (by simp [hk']))
    cases k <;> simp_all [KwList.ofList, KwList.nPrefix]

theorem prefix_nPrefix (items : SList) (tail : List Kw) (ht : ∀ k ∈ tail, ∀ js, k ≠ Kw.prefixItems js) :
    (KwList.ofList ([Kw.type .array] ++ ((if (items.length == 0) = true then [] else [Kw.prefixItems (listJS items)])
      ++ tail))).nPrefix = items.length := by
  by_cases h0 : (items.length == 0) = true
  · have hz : items.length = 0 := by simpa using h0
    simp only [h0, if_true, List.nil_append, hz]
    refine nPrefix_none _ ?_
    intro k hk
    rcases List.mem_append.1 hk with hk | hk
    · intro js; simp at hk; subst hk; simp
    · exact ht k hk
  · simp [h0, KwList.ofList, KwList.nPrefix, listJS_length]

theorem prefix_kw_valid (items : SList) (xs : JsonList) (c : Ctx)
    (hit : prefixValid (listJS items) xs = itemsAccept items xs) :
    (if (items.length == 0) = true then [] else [Kw.prefixItems (listJS items)]).all
      (fun k => kwValid k c (.arr xs)) = itemsAccept items xs := by
  by_cases h0 : (items.length == 0) = true
  · have hnil := length_zero_nil items h0
    subst hnil; simp [itemsAccept, SList.length]
  · simp [h0, kwValid, hit]

mutual
theorem eqv : (s : S) → (top o n : Bool) → (x : Json) → reprP top s = true → instOK x = true →
    jsValid (toJS top o n s) x = accepts s x
  | .str cks, top, o, n, x, h, hx => by
    simp only [reprP, Bool.and_eq_true] at h
    simpa [toJS] using str_case cks x h.1 h.2 hx
  | .int k cks, top, o, n, x, h, hx => by
    simp only [reprP, Bool.and_eq_true] at h
    simpa [toJS] using int_case top k cks x h.1 h.2 hx
  | .flt cks, top, o, n, x, h, hx => by
    simp only [reprP] at h
    simpa [toJS] using flt_case top cks x h hx
  | .bool, top, o, n, x, h, hx => by simpa [toJS] using bool_case x
  | .nil, top, o, n, x, h, hx => by simpa [toJS] using nil_case x
  | .any, top, o, n, x, h, hx => by
    simp [toJS, jsValid_node, kwValid, anyValid, jsValid, kwsValid, accepts]
  | .never, top, o, n, x, h, hx => by
    simp [toJS, jsValid_node, kwValid, jsValid, accepts]
  | .enum vs, top, o, n, x, h, hx => by simpa [toJS] using enum_case vs x
  | .lit vs, top, o, n, x, h, hx => by
    simp only [reprP] at h
    simpa [toJS] using lit_case vs x h
  | .opt s, top, o, n, x, h, hx => by
    simp only [reprP, Bool.and_eq_true] at h
    have ih := eqv s top true n x h.2 hx
    simp only [toJS, accepts, ih]
    cases hn : x.isNull
    · simp
    · have := (isNull_iff x).1 hn; subst this
      simp [docNullable_accepts s h.1]
  | .nul s, top, o, n, x, h, hx => by
    simp only [reprP] at h
    have ih := eqv s top o true x h hx
    simp only [toJS, accepts]
    split
    · rename_i hs
      rw [ih]
      cases hn : x.isNull
      · simp
      · have := (isNull_iff x).1 hn; subst this
        simp [nilOrAny_accepts s hs]
    · simp [jsValid_node, kwValid, anyValid, ih, nullJS_valid, Bool.or_comm]
  | .obj mode ca part cks shape, top, o, n, x, h, hx => by
    simp only [reprP, Bool.and_eq_true, Bool.not_eq_true'] at h
    obtain ⟨⟨⟨⟨hm, hsc⟩, hsz⟩, hca⟩, hsh⟩ := h
    cases x with
    | obj fs =>
      have hfs : instFieldsOK fs = true := by simpa [instOK] using hx
      have hshape := eqvShape part shape hsh fs hfs
      have hadd : ∀ keys : List Str, fs.all (fun k v => keys.contains k || jsValid (caJS ca mode.isLoose) v)
          = (match mode with
              | .strict => fs.all (fun k _ => keys.contains k)
              | .strip => true
              | .loose => catchAccepts ca keys fs) := by
        intro keys
        cases mode with
        | strip => simp [Mode.isStrip] at hm
        | strict =>
          cases ca with
          | some c => simp [Mode.isStrict, SOpt.isSome] at hsc
          | none => simp [caJS, jsValid, Mode.isLoose]
        | loose =>
          cases ca with
          | none =>
            simp only [caJS, jsValid, Bool.or_true, catchAccepts, Mode.isLoose]
            exact fields_all_true fs
          | some c =>
            simp only [caJS, catchAccepts]
            exact all_congr_fields _ _ (fun k v _ hv => by
              rw [eqv c false false false v (by simpa [reprCa] using hca) hv]) fs hfs
      have hk := obj_propKeys shape (reqKeysP part shape) (caJS ca mode.isLoose) (propsKws (szBag cks)) (propsKws_noprops _)
      simp only [toJS, jsValid_node]
      rw [hk]
      simp only [List.all_append, List.all_cons, List.all_nil, Bool.and_true, kwValid, typeOk, Bool.true_and,
        propsKws_valid cks _ fs hsz, accepts, props_kw_valid, req_kw_valid, hadd]
      rw [← hshape]
      cases mode with
      | strip => simp [Mode.isStrip] at hm
      | strict => simp [Bool.and_assoc]
      | loose => simp [Bool.and_assoc]
    | _ => simp [toJS, jsValid_node, kwValid, typeOk, accepts]
  | .slice e cks, top, o, n, x, h, hx => by
    simp only [reprP, Bool.and_eq_true] at h
    cases x with
    | arr xs =>
      have hxs : instListOK xs = true := by simpa [instOK] using hx
      simp only [toJS, jsValid_node]
      simp only [List.all_append, List.all_cons, List.all_nil, Bool.and_true, kwValid, typeOk, Bool.true_and,
        itemsKws_valid cks _ xs h.1, accepts]
      have hnp : (KwList.ofList ([Kw.type .array, Kw.items (toJS false false false e)] ++ itemsKws (szBag cks))).nPrefix = 0 := by
        simp [itemsKws, optKw, KwList.ofList, KwList.nPrefix]
        cases (szBag cks).minN <;> cases (szBag cks).maxN <;> simp [KwList.ofList, KwList.nPrefix]
      rw [hnp]
      simp only [JsonList.drop]
      rw [all_congr_list _ _ (fun v hv => eqv e false false false v h.2 hv) xs hxs, Bool.and_comm]
    | _ => simp [toJS, jsValid_node, kwValid, typeOk, accepts]
  | .arr rest cks items, top, o, n, x, h, hx => by
    simp only [reprP, Bool.and_eq_true] at h
    obtain ⟨⟨⟨hck, hlen⟩, hrest⟩, hitems⟩ := h
    have hck' : cks = [] := by simpa using hck
    subst hck'
    cases x with
    | arr xs =>
      have hxs : instListOK xs = true := by simpa [instOK] using hx
      have hit := eqvItems items hitems xs hxs
      cases rest with
      | some r =>
        have hr : reprP false r = true := by simpa [reprCa] using hrest
        have hz : items.length = 0 := by simpa using hlen
        simp only [toJS, lenBag_nil, List.append_nil, List.append_assoc, jsValid_node]
        rw [prefix_nPrefix items [Kw.items (toJS false false false r)] (by simp)]
        simp only [List.all_append, List.all_cons, List.all_nil, Bool.and_true, kwValid, typeOk, Bool.true_and,
          prefix_kw_valid items xs _ hit, accepts, szOk_nil, restAccepts]
        rw [all_congr_list _ _ (fun v hv => eqv r false false false v hr hv) _ (drop_instOK _ xs hxs)]
        simp [hz]
      | none =>
        have hne : (items.length == 1) = false := by simpa using hlen
        simp only [toJS, lenBag_nil, List.append_nil, List.append_assoc, jsValid_node, hne]
        simp only [List.all_append, List.all_cons, List.all_nil, Bool.and_true, kwValid, typeOk, Bool.true_and,
          prefix_kw_valid items xs _ hit, accepts, szOk_nil, restAccepts, Bool.false_eq_true, if_false]
        rw [Bool.eq_iff_iff]; simp; constructor
        · rintro ⟨h1, h2, h3⟩; exact ⟨by omega, h1⟩
        · rintro ⟨h1, h2⟩; exact ⟨h2, by omega, by omega⟩
    | _ => cases rest <;> simp [toJS, jsValid_node, kwValid, typeOk, accepts]
  | .tup rest cks items, top, o, n, x, h, hx => by
    simp only [reprP, Bool.and_eq_true] at h
    obtain ⟨⟨⟨hck, hreq⟩, hrest⟩, hitems⟩ := h
    have hck' : cks = [] := by simpa using hck
    subst hck'
    cases x with
    | arr xs =>
      have hxs : instListOK xs = true := by simpa [instOK] using hx
      have hit := eqvItems items hitems xs hxs
      cases rest with
      | some r =>
        have hr : reprP false r = true := by simpa [reprCa] using hrest
        have hrq : reqCount items = 0 := by simpa using hreq
        simp only [toJS, lenBag_nil, List.append_nil, List.append_assoc, jsValid_node]
        rw [prefix_nPrefix items [Kw.items (toJS false false false r)] (by simp)]
        simp only [List.all_append, List.all_cons, List.all_nil, Bool.and_true, kwValid, typeOk, Bool.true_and,
          prefix_kw_valid items xs _ hit, accepts, hrq, szOk_nil, restAccepts]
        rw [all_congr_list _ _ (fun v hv => eqv r false false false v hr hv) _ (drop_instOK _ xs hxs)]
        simp
      | none =>
        simp only [toJS, lenBag_nil, List.append_nil, List.append_assoc, jsValid_node]
        simp only [List.all_append, List.all_cons, List.all_nil, Bool.and_true, kwValid, typeOk, Bool.true_and,
          prefix_kw_valid items xs _ hit, accepts, szOk_nil, restAccepts]
        rw [Bool.eq_iff_iff]; simp; constructor
        · rintro ⟨h1, h2, h3⟩; exact ⟨⟨h2, h3⟩, h1⟩
        · rintro ⟨⟨h1, h2⟩, h3⟩; exact ⟨h3, h1, h2⟩
    | _ => cases rest <;> simp [toJS, jsValid_node, kwValid, typeOk, accepts]
  | .record key val cks, top, o, n, x, h, hx => by
    simp only [reprP, Bool.and_eq_true] at h
    obtain ⟨⟨⟨hks, hkey⟩, hsz⟩, hval⟩ := h
    cases x with
    | obj fs =>
      have hfs : instFieldsOK fs = true := by simpa [instOK] using hx
      have hpk := propsKws_propKeys (szBag cks)
        [Kw.type .object, Kw.propertyNames (toJS false false false key), Kw.additionalProperties (toJS false false false val)]
        (by simp)
      simp only [toJS, jsValid_node]
      rw [hpk]
      simp only [List.all_append, List.all_cons, List.all_nil, Bool.and_true, kwValid, typeOk, Bool.true_and,
        propsKws_valid cks _ fs hsz, accepts]
      have h1 : fs.all (fun k _ => jsValid (toJS false false false key) (.str k)) = fs.all (fun k _ => accepts key (.str k)) :=
        all_congr_fields _ _ (fun k v hk _ => eqv key false false false (.str k) hkey (by simpa [instOK] using hk)) fs hfs
      have h2 : fs.all (fun k v => ([] : List Str).contains k || jsValid (toJS false false false val) v)
          = fs.all (fun _ v => accepts val v) :=
        all_congr_fields _ _ (fun k v _ hv => by simp [eqv val false false false v hval hv]) fs hfs
      rw [h1, h2]
      cases key <;> simp [S.isStrSchema] at hks
      simp only [accepts]
      generalize szOk cks fs.size = A
      generalize JsonFields.all (fun x v => accepts val v) fs = B
      generalize JsonFields.all _ fs = C
      cases A <;> cases B <;> cases C <;> rfl
    | _ => simp [toJS, jsValid_node, kwValid, typeOk, accepts]
  | .union ms, top, o, n, x, h, hx => by
    simp only [reprP, Bool.and_eq_true] at h
    have hsp := members_noSpecial ms h.2
    have hnull := members_null ms h.2
    simp only [toJS, hsp, jsValid_node, List.all_cons, List.all_nil, kwValid, Bool.and_true, accepts,
      eqvAny ms h.2 x hx]
    cases hn : x.isNull
    · simp
    · have := (isNull_iff x).1 hn; subst this
      simp [hnull.1]
  | .xor ms, top, o, n, x, h, hx => by
    simp only [reprP, Bool.and_eq_true] at h
    have hnull := members_null ms h.2
    simp only [toJS, jsValid_node, List.all_cons, List.all_nil, kwValid, Bool.and_true, accepts,
      eqvCount ms h.2 x hx]
    cases hn : x.isNull
    · simp
    · have := (isNull_iff x).1 hn; subst this
      simp [hnull.2]
  | .and l r, top, o, n, x, h, hx => by
    simp only [reprP, Bool.and_eq_true, Bool.not_eq_true'] at h
    obtain ⟨⟨⟨⟨⟨hl, hr⟩, _⟩, _⟩, hpl⟩, hpr⟩ := h
    simp only [toJS, jsValid_node, List.all_cons, List.all_nil, kwValid, Bool.and_true, accepts, allValid,
      eqv l false false false x hpl hx, eqv r false false false x hpr hx]
    cases hn : x.isNull
    · simp
    · have := (isNull_iff x).1 hn; subst this
      simp [accepts_null_false false l hl hpl]

theorem eqvItems : (items : SList) → reprList items = true → (xs : JsonList) → instListOK xs = true →
    prefixValid (listJS items) xs = itemsAccept items xs
  | .nil, _, _, _ => by simp [listJS, prefixValid, itemsAccept]
  | .cons s ss, h, .nil, _ => by simp [listJS, prefixValid, itemsAccept]
  | .cons s ss, h, .cons x xs, hx => by
    simp only [reprList, Bool.and_eq_true] at h
    simp only [instListOK, Bool.and_eq_true] at hx
    simp [listJS, prefixValid, itemsAccept, eqv s false false false x h.1 hx.1, eqvItems ss h.2 xs hx.2]

theorem eqvAny : (ms : SList) → reprMembers ms = true → (x : Json) → instOK x = true →
    anyValid (listJS ms) x = anyAccepts ms x
  | .nil, _, _, _ => by simp [listJS, anyValid, anyAccepts]
  | .cons s ss, h, x, hx => by
    simp only [reprMembers, Bool.and_eq_true] at h
    simp [listJS, anyValid, anyAccepts, eqv s false false false x h.1.2 hx, eqvAny ss h.2 x hx]

theorem eqvCount : (ms : SList) → reprMembers ms = true → (x : Json) → instOK x = true →
    countValid (listJS ms) x = countAccepts ms x
  | .nil, _, _, _ => by simp [listJS, countValid, countAccepts]
  | .cons s ss, h, x, hx => by
    simp only [reprMembers, Bool.and_eq_true] at h
    simp [listJS, countValid, countAccepts, eqv s false false false x h.1.2 hx, eqvCount ss h.2 x hx]

theorem eqvShape : (part : Bool) → (shape : Shape) → reprShape shape = true → (fs : JsonFields) → instFieldsOK fs = true →
    (propsValid (propsJS shape) fs && (reqKeysP part shape).all (fun k => fs.hasKey k)) = shapeAccepts part shape fs
  | part, .nil, _, _, _ => by cases part <;> simp [propsJS, propsValid, requiredKeys, shapeAccepts]
  | part, .cons k s rest, h, fs, hfs => by
    simp only [reprShape, Bool.and_eq_true] at h
    have ih := eqvShape part rest h.2 fs hfs
    cases part with
    | false =>
      simp only [reqKeysP_false] at ih
      simp only [propsJS, propsValid, requiredKeys, shapeAccepts, Bool.false_or, reqKeysP_false]
      rw [← ih]
      cases hf : fs.find k with
      | none =>
        cases ho : s.isOpt <;> simp [hf, ho, JsonFields.hasKey]
      | some v =>
        have hv := find_instOK k v fs hfs hf
        have he := eqv s false false false v h.1 hv
        cases ho : s.isOpt <;> simp [hf, ho, he, JsonFields.hasKey] <;>
          cases accepts s v <;> cases propsValid (propsJS rest) fs <;> simp
    | true =>
      simp only [reqKeysP_true, List.all_nil, Bool.and_true] at ih
      simp only [propsJS, propsValid, shapeAccepts, Bool.true_or, reqKeysP_true, List.all_nil, Bool.and_true]
      rw [← ih]
      cases hf : fs.find k with
      | none => simp
      | some v =>
        have hv := find_instOK k v fs hfs hf
        simp [eqv s false false false v h.1 hv]
end

/-! ### value preservation: on `reprP` schemas Parse returns its input -/

theorem filter_notHas : (a b : JsonFields) → (∀ k, b.hasKey k = true → a.hasKey k = true) →
    b.filter (fun k => !a.hasKey k) = .nil
  | _, .nil, _ => rfl
  | a, .cons k v b, h => by
    have hk : a.hasKey k = true := h k (by simp [JsonFields.hasKey, JsonFields.find])
    have ih := filter_notHas a b (fun k' hk' => h k' (by
      simp only [JsonFields.hasKey, JsonFields.find] at hk' ⊢
      split <;> simp_all))
    simp [JsonFields.filter, hk, ih]

theorem append_nil_fields : (a : JsonFields) → a.append .nil = a
  | .nil => rfl
  | .cons k v a => by simp [JsonFields.append, append_nil_fields a]

theorem mergeOut_self (x : Json) : mergeOut x x = x := by
  cases x <;> simp [mergeOut]
  rename_i fs
  rw [filter_notHas fs fs (fun _ h => h), append_nil_fields]

theorem map_eq_self (f : Json → Json) (p : Json → Bool) (hf : ∀ x, p x = true → f x = x) :
    (xs : JsonList) → xs.all p = true → xs.map f = xs
  | .nil, _ => rfl
  | .cons x xs, h => by
    simp only [JsonList.all, Bool.and_eq_true] at h
    simp [JsonList.map, hf x h.1, map_eq_self f p hf xs h.2]

theorem list_all_true : (xs : JsonList) → xs.all (fun _ => true) = true
  | .nil => rfl
  | .cons _ xs => by simp [JsonList.all, list_all_true xs]

mutual
theorem pres : (s : S) → (top : Bool) → (x : Json) → reprP top s = true → accepts s x = true → out s x = x
  | .str cks, top, x, h, ha => by
    simp only [reprP, Bool.and_eq_true] at h
    cases x <;> simp [accepts] at ha
    rename_i t
    simp only [out]
    rw [runStr_noTrim cks t h.2] at ha ⊢
    split at ha <;> simp_all
  | .opt s, top, x, h, ha => by
    simp only [reprP, Bool.and_eq_true] at h
    simp only [out]
    split
    · rfl
    · rename_i hn
      simp only [accepts, Bool.or_eq_true] at ha
      exact pres s top x h.2 (by rcases ha with ha | ha <;> simp_all)
  | .nul s, top, x, h, ha => by
    simp only [reprP] at h
    simp only [out]
    split
    · rfl
    · rename_i hn
      simp only [accepts, Bool.or_eq_true] at ha
      exact pres s top x h (by rcases ha with ha | ha <;> simp_all)
  | .obj mode ca part cks shape, top, x, h, ha => by
    simp only [reprP, Bool.and_eq_true] at h
    cases mode <;> simp_all [out, Mode.isStrip]
  | .tup rest cks items, top, x, h, ha => by
    simp only [reprP, Bool.and_eq_true] at h
    cases x <;> simp [accepts] at ha
    rename_i xs
    simp only [out]
    congr 1
    exact presItems items (outRest rest) xs h.2 ha.1.1.2 (presRest rest _ h.1.2 ha.1.2)
  | .union ms, top, x, h, ha => by
    simp only [reprP, Bool.and_eq_true] at h
    simp only [out]
    exact presUnion ms x none h.2 (Or.inl rfl)
  | .xor ms, top, x, h, ha => by
    simp only [reprP, Bool.and_eq_true] at h
    simp only [out]
    exact presFirst ms x h.2
  | .and l r, top, x, h, ha => by
    simp only [reprP, Bool.and_eq_true] at h
    simp only [accepts, Bool.and_eq_true] at ha
    simp only [out]
    rw [pres l false x h.1.2 ha.1.2, pres r false x h.2 ha.2, mergeOut_self]
  | .int _ _, _, _, _, _ => rfl
  | .flt _, _, _, _, _ => rfl
  | .bool, _, _, _, _ => rfl
  | .nil, _, _, _, _ => rfl
  | .any, _, _, _, _ => rfl
  | .never, _, _, _, _ => rfl
  | .enum _, _, _, _, _ => rfl
  | .lit _, _, _, _, _ => rfl
  | .slice _ _, _, _, _, _ => rfl
  | .arr _ _ _, _, _, _, _ => rfl
  | .record _ _ _, _, _, _, _ => rfl

theorem presItems : (items : SList) → (f : Json → Json) → (xs : JsonList) → reprList items = true →
    itemsAccept items xs = true → (xs.drop items.length).map f = xs.drop items.length →
    outItems items f xs = xs
  | .nil, f, xs, _, _, hra => by
    simpa [outItems, SList.length, JsonList.drop] using hra
  | .cons s ss, f, .nil, _, _, _ => rfl
  | .cons s ss, f, .cons x xs, h, ha, hra => by
    simp only [reprList, Bool.and_eq_true] at h
    simp only [itemsAccept, Bool.and_eq_true] at ha
    simp only [SList.length, JsonList.drop] at hra
    simp [outItems, pres s false x h.1 ha.1, presItems ss f xs h.2 ha.2 hra]

theorem presRest : (rest : SOpt) → (xs : JsonList) → reprCa rest = true → restAccepts rest xs = true →
    xs.map (outRest rest) = xs
  | .none, xs, _, _ => map_eq_self _ (fun _ => true) (fun _ _ => rfl) xs (list_all_true xs)
  | .some r, xs, h, ha =>
    map_eq_self _ (accepts r) (fun x hx => pres r false x (by simpa [reprCa] using h) hx) xs
      (by simpa [restAccepts] using ha)

theorem presUnion : (ms : SList) → (x : Json) → (fb : Option Json) → reprMembers ms = true →
    (fb = none ∨ fb = some x) → outUnion ms x fb = x
  | .nil, x, fb, _, hfb => by rcases hfb with rfl | rfl <;> simp [outUnion]
  | .cons s ss, x, fb, h, hfb => by
    simp only [reprMembers, Bool.and_eq_true] at h
    simp only [outUnion]
    split
    · rename_i ha
      have hp := pres s false x h.1.2 ha
      split
      · exact hp
      · refine presUnion ss x _ h.2 (Or.inr ?_)
        rcases hfb with rfl | rfl <;> simp [hp]
    · exact presUnion ss x fb h.2 hfb

theorem presFirst : (ms : SList) → (x : Json) → reprMembers ms = true → outFirst ms x = x
  | .nil, _, _ => rfl
  | .cons s ss, x, h => by
    simp only [reprMembers, Bool.and_eq_true] at h
    simp only [outFirst]
    split
    · rename_i ha; exact pres s false x h.1.2 ha
    · exact presFirst ss x h.2
end

/-! ### strip-mode object at the top: the two directions speak about different values -/

theorem filter_instOK (p : Str → Bool) : (fs : JsonFields) → instFieldsOK fs = true → instFieldsOK (fs.filter p) = true
  | .nil, _ => rfl
  | .cons k v fs, h => by
    simp only [instFieldsOK, Bool.and_eq_true] at h
    simp only [JsonFields.filter]
    split
    · simp [instFieldsOK, h.1.1, h.1.2, filter_instOK p fs h.2]
    · exact filter_instOK p fs h.2

theorem find_filter (p : Str → Bool) (k : Str) (hk : p k = true) : (fs : JsonFields) → (fs.filter p).find k = fs.find k
  | .nil => rfl
  | .cons k' v fs => by
    simp only [JsonFields.filter]
    split
    · simp [JsonFields.find, find_filter p k hk fs]
    · rename_i hp
      have : k' ≠ k := by intro h; subst h; simp_all
      simp [JsonFields.find, this, find_filter p k hk fs]

theorem filter_all (p : Str → Bool) (q : Str → Json → Bool) (h : ∀ k v, p k = true → q k v = true) :
    (fs : JsonFields) → (fs.filter p).all q = true
  | .nil => rfl
  | .cons k v fs => by
    simp only [JsonFields.filter]
    split
    · rename_i hp; simp [JsonFields.all, h k v hp, filter_all p q h fs]
    · exact filter_all p q h fs

theorem filter_id (p : Str → Bool) : (fs : JsonFields) → fs.all (fun k _ => p k) = true → fs.filter p = fs
  | .nil, _ => rfl
  | .cons k v fs, h => by
    simp only [JsonFields.all, Bool.and_eq_true] at h
    simp [JsonFields.filter, h.1, filter_id p fs h.2]

theorem shapeAccepts_filter (part : Bool) (p : Str → Bool) (fs : JsonFields) :
    (sh : Shape) → (∀ k ∈ sh.keys, p k = true) → shapeAccepts part sh (fs.filter p) = shapeAccepts part sh fs
  | .nil, _ => rfl
  | .cons k s rest, h => by
    have hk : p k = true := h k (by simp [Shape.keys])
    have ih := shapeAccepts_filter part p fs rest (fun k' hk' => h k' (by simp [Shape.keys, hk']))
    simp [shapeAccepts, find_filter p k hk fs, ih]

/-- the document of a strip-mode object on an object instance. -/
theorem strip_doc (part : Bool) (ca : SOpt) (cks : List SzCk) (shape : Shape) (top o n : Bool) (fs : JsonFields)
    (hsz : szSimple cks = true) (hca : reprCa ca = true) (hsh : reprShape shape = true)
    (hfs : instFieldsOK fs = true) :
    jsValid (toJS top o n (.obj .strip ca part cks shape)) (.obj fs)
      = (shapeAccepts part shape fs
         && fs.all (fun k v => shape.keys.contains k || jsValid (caJS ca false) v)
         && szOk cks fs.size) := by
  have hk := obj_propKeys shape (reqKeysP part shape) (caJS ca Mode.strip.isLoose) (propsKws (szBag cks)) (propsKws_noprops _)
  simp only [toJS, jsValid_node]
  rw [hk]
  simp only [List.all_append, List.all_cons, List.all_nil, Bool.and_true, kwValid, typeOk, Bool.true_and,
    propsKws_valid cks _ fs hsz, props_kw_valid, req_kw_valid, Mode.isLoose]
  rw [← eqvShape part shape hsh fs hfs]

theorem sound_strip (part : Bool) (ca : SOpt) (cks : List SzCk) (shape : Shape) (top o n : Bool) (x : Json)
    (hsz : szSimple cks = true) (hca : reprCa ca = true) (hsh : reprShape shape = true)
    (hx : instOK x = true) (ha : accepts (.obj .strip ca part cks shape) x = true) :
    jsValid (toJS top o n (.obj .strip ca part cks shape)) (out (.obj .strip ca part cks shape) x) = true := by
  cases x <;> simp [accepts] at ha
  rename_i fs
  have hfs : instFieldsOK fs = true := by simpa [instOK] using hx
  simp only [out]
  rw [strip_doc part ca cks shape top o n _ hsz hca hsh (filter_instOK _ fs hfs)]
  rw [shapeAccepts_filter part _ fs shape (by intro k hk; simpa using hk)]
  rw [filter_all _ _ (by intro k v hk; simp only [Bool.or_eq_true]; exact Or.inl hk) fs]
  simp [ha.1.1]
  simpa using ha.2

theorem complete_strip (part : Bool) (ca : SOpt) (cks : List SzCk) (shape : Shape) (top o n : Bool) (x : Json)
    (hsz : szSimple cks = true) (hcs : (!ca.isSome || cks.isEmpty) = true)
    (hca : reprCa ca = true) (hsh : reprShape shape = true)
    (hx : instOK x = true) (hv : jsValid (toJS top o n (.obj .strip ca part cks shape)) x = true) :
    accepts (.obj .strip ca part cks shape) x = true := by
  cases x with
  | obj fs =>
    have hfs : instFieldsOK fs = true := by simpa [instOK] using hx
    rw [strip_doc part ca cks shape top o n fs hsz hca hsh hfs] at hv
    simp only [Bool.and_eq_true] at hv
    simp only [accepts, Bool.and_eq_true, hv.1.1, true_and, Bool.and_true]
    cases ca with
    | none =>
      have : fs.all (fun k _ => shape.keys.contains k) = true := by
        have := hv.1.2; simpa [caJS, jsValid] using this
      rw [filter_id _ fs this]; exact ⟨by simp [catchAccepts], hv.2⟩
    | some c =>
      have : cks = [] := by simpa [SOpt.isSome] using hcs
      subst this
      refine ⟨?_, by simp [szOk]⟩
      have h2 := hv.1.2
      simp only [caJS] at h2
      simp only [catchAccepts]
      have hcg : fs.all (fun k v => shape.keys.contains k || jsValid (toJS false false false c) v)
          = fs.all (fun k v => shape.keys.contains k || accepts c v) :=
        all_congr_fields _ _ (fun k v _ hv' => by
          rw [eqv c false false false v (by simpa [reprCa] using hca) hv']) fs hfs
      rw [← hcg]; exact h2
  | _ => simp [toJS, jsValid_node, kwValid, typeOk] at hv

/-! ## the property -/

/-- C07 at full strength: for every schema and instance, what Parse returns validates and what
    validates is accepted.  FALSE on the pinned tree (witnesses below). -/
def c07_full : Prop :=
  ∀ (s : S) (x : Json),
    (∀ r, parse s x = some r → jsValid (toDoc s) r = true)
    ∧ (jsValid (toDoc s) x = true → (parse s x).isSome = true)

/-- on the value-preserving representable fragment validity and acceptance coincide. -/
theorem c07_equiv_partial (s : S) (x : Json) (h : reprP true s = true) (hx : instOK x = true) :
    jsValid (toDoc s) x = accepts s x := eqv s true false false x h hx

/-- … and Parse returns its input there. -/
theorem c07_pres (s : S) (x : Json) (h : reprP true s = true) (ha : accepts s x = true) : out s x = x :=
  pres s true x h ha

/-- sound: the value Parse returns validates against the emitted document. -/
theorem c07_sound (s : S) (x r : Json) (h : reprTop true s = true) (hx : instOK x = true)
    (hp : parse s x = some r) : jsValid (toDoc s) r = true := by
  unfold parse at hp
  split at hp
  · rename_i ha
    cases hp
    unfold reprTop at h
    split at h
    · simp only [Bool.and_eq_true, Bool.not_eq_true'] at h
      obtain ⟨⟨⟨hsz, _⟩, hca⟩, hsh⟩ := h
      exact sound_strip _ _ _ _ true false false x hsz hca hsh hx ha
    · rw [pres _ true x h ha, toDoc, eqv _ true false false x h hx, ha]
  · simp at hp

/-- complete: an instance that validates against the emitted document is accepted. -/
theorem c07_complete (s : S) (x : Json) (h : reprTop true s = true) (hx : instOK x = true)
    (hv : jsValid (toDoc s) x = true) : (parse s x).isSome = true := by
  have ha : accepts s x = true := by
    unfold reprTop at h
    split at h
    · simp only [Bool.and_eq_true, Bool.not_eq_true'] at h
      obtain ⟨⟨⟨hsz, hcs⟩, hca⟩, hsh⟩ := h
      exact complete_strip _ _ _ _ true false false x hsz hcs hca hsh hx hv
    · rw [← eqv _ true false false x h hx]; exact hv
  simp [parse, ha]

/-- the hypotheses are satisfiable by non-trivial values. -/
example : reprTop true (.obj .strip .none false [.min 1]
      (.cons [97] (.str [.min 2, .max 3]) (.cons [98] (.opt (.nul (.int .int [.gte 0]))) .nil))) = true
    ∧ instOK (.obj (.cons [97] (.str [109, 109]) (.cons [122] (.num 4) .nil))) = true := by decide

example : reprP true (.union (.cons (.slice (.str [.sw [97]]) [.max 2]) (.cons (.tup .none [] (.cons .bool .nil)) .nil))) = true := by
  decide

/-! ### conversion histories: the theorems hold at every call of every call sequence -/

theorem runHistory_get (st : Persist) (h : List Conv) (i : Nat) (c : Conv) (hc : h[i]? = some c) :
    (runHistory st h)[i]? = some (convertO c.opts c.dup c.schema) := by
  induction h generalizing st i with
  | nil => simp at hc
  | cons d ds ih =>
    cases i with
    | zero => simp at hc; subst hc; simp [runHistory, convertCall]
    | succ n => simp at hc; simp [runHistory]; exact ih _ n hc

/-- whatever was converted before (other schemas, relatives of this one, this one itself, under any
    options), the document of the i-th call validates exactly what Parse accepts. -/
theorem c07_history_equiv (st : Persist) (h : List Conv) (i : Nat) (c : Conv) (j : JS) (x : Json)
    (hc : h[i]? = some c) (hd : (runHistory st h)[i]? = some (some j))
    (hr : reprP true c.schema = true) (hx : instOK x = true) :
    jsValid j x = accepts c.schema x := by
  rw [runHistory_get st h i c hc] at hd
  simp only [Option.some.injEq, convertO] at hd
  split at hd
  · cases hd
  · cases hd; exact c07_equiv_partial _ _ hr hx

theorem c07_history_sound (st : Persist) (h : List Conv) (i : Nat) (c : Conv) (j : JS) (x r : Json)
    (hc : h[i]? = some c) (hd : (runHistory st h)[i]? = some (some j))
    (hr : reprTop true c.schema = true) (hx : instOK x = true) (hp : parse c.schema x = some r) :
    jsValid j r = true := by
  rw [runHistory_get st h i c hc] at hd
  simp only [Option.some.injEq, convertO] at hd
  split at hd
  · cases hd
  · cases hd; exact c07_sound _ _ _ hr hx hp

theorem c07_history_complete (st : Persist) (h : List Conv) (i : Nat) (c : Conv) (j : JS) (x : Json)
    (hc : h[i]? = some c) (hd : (runHistory st h)[i]? = some (some j))
    (hr : reprTop true c.schema = true) (hx : instOK x = true) (hv : jsValid j x = true) :
    (parse c.schema x).isSome = true := by
  rw [runHistory_get st h i c hc] at hd
  simp only [Option.some.injEq, convertO] at hd
  split at hd
  · cases hd
  · cases hd; exact c07_complete _ _ hr hx hv

/-- the document is a function of (options, sharing, schema): two calls on the same arguments, anywhere
    in any two histories, from any two states, give the same document. -/
theorem c07_history_stable (st st' : Persist) (h h' : List Conv) (i k : Nat) (c : Conv)
    (hi : h[i]? = some c) (hk : h'[k]? = some c) :
    (runHistory st h)[i]? = (runHistory st' h')[k]? := by
  rw [runHistory_get st h i c hi, runHistory_get st' h' k c hk]

/-- a non-trivial history: a string schema with two pattern checks is converted, then a parent holding
    it (reused:"ref"), then the string schema again under other options — the third document is still
    the first one, and still rejects what Parse rejects. -/
def exChild : S := .str [.sw [97], .re .lw]
def exParent : S := .obj .strict .none false [] (.cons [107] exChild .nil)
def exHistory : List Conv :=
  [⟨{}, false, exChild⟩, ⟨{ reusedRef := true }, false, exParent⟩, ⟨{ ioInput := true }, false, exChild⟩]

example : (runHistory {} exHistory)[2]? = some (some (toDoc exChild))
    ∧ jsValid (toDoc exChild) (.str [98]) = false ∧ accepts exChild (.str [98]) = false
    ∧ reprP true exChild = true := ⟨rfl, by decide⟩

/-! ### well-formedness of the emitted document -/

theorem wfKws_ofList (l : List Kw) : wfKws (KwList.ofList l) = l.all wfKw := by
  induction l with
  | nil => rfl
  | cons k ks ih => simp [KwList.ofList, wfKws, ih]

theorem wf_optKw {α} (o : Option α) (f : α → Kw) (h : ∀ a, wfKw (f a) = true) : (optKw o f).all wfKw = true := by
  cases o <;> simp [optKw, h]

theorem wf_patKws (ps : List Pat) : (patKws ps).all wfKw = true := by
  have hl : ∀ qs : List Pat, wfList (qs.foldr (fun p acc => JSList.cons (.node (.cons (.pattern p) .nil)) acc) .nil) = true := by
    intro qs; induction qs with
    | nil => rfl
    | cons q qs ih => simp [wfList, wfJS, wfKws, wfKw, ih]
  match ps with
  | [] => rfl
  | [p] => simp [patKws, wfKw]
  | p :: q :: ps =>
    have := hl (p :: q :: ps)
    simp only [patKws, List.all_cons, List.all_nil, wfKw, this, Bool.and_true, Bool.true_and]
    simp [JSList.length]

theorem wf_numKws (u : Int) (cks : List NumCk) (top : Bool) (d : Int × Int) : (numKws u cks top d).all wfKw = true := by
  unfold numKws
  simp only [List.all_append, Bool.and_eq_true]
  refine ⟨⟨⟨⟨⟨?_, ?_⟩, ?_⟩, ?_⟩, ?_⟩, ?_⟩ <;> first | (split <;> simp [wfKw]) | (apply wf_optKw; intro a; simp [wfKw])

mutual
theorem wf : (s : S) → (top o n : Bool) → reprP top s = true → wfJS (toJS top o n s) = true
  | .str cks, _, _, _, _ => by
    simp only [toJS, wfJS, wfKws_ofList, strKws, List.all_append, Bool.and_eq_true]
    exact ⟨⟨⟨by simp [wfKw], wf_patKws _⟩, wf_optKw _ _ (by simp [wfKw])⟩, wf_optKw _ _ (by simp [wfKw])⟩
  | .int k cks, _, _, _, _ => by simp [toJS, wfJS, wfKws_ofList, wfKw, wf_numKws]
  | .flt cks, _, _, _, _ => by simp [toJS, wfJS, wfKws_ofList, wfKw, wf_numKws]
  | .bool, _, _, _, _ => by simp [toJS, wfJS, wfKws_ofList, wfKw]
  | .nil, _, _, _, _ => by simp [toJS, nullJS, wfJS, wfKws, wfKw]
  | .any, _, _, _, _ => by simp [toJS, nullJS, wfJS, wfKws_ofList, wfKws, wfKw, wfList, JSList.length]
  | .never, _, _, _, _ => by simp [toJS, wfJS, wfKws_ofList, wfKw]
  | .enum vs, _, _, _, _ => by simp [toJS, wfJS, wfKws_ofList, wfKw]
  | .lit vs, _, _, _, _ => by
    simp only [toJS, wfJS, wfKws_ofList, List.all_append, Bool.and_eq_true]
    constructor
    · cases vs with
      | nil => rfl
      | cons v vs => cases v <;> simp [litType, wfKw]
    · match vs with
      | [] => simp [litVal, wfKw]
      | [v] => simp [litVal, wfKw]
      | v :: w :: vs => simp [litVal, wfKw]
  | .opt s, top, o, n, h => by
    simp only [reprP, Bool.and_eq_true] at h
    simpa [toJS] using wf s top true n h.2
  | .nul s, top, o, n, h => by
    simp only [reprP] at h
    have ih := wf s top o true h
    simp only [toJS]
    split
    · exact ih
    · simp [wfJS, wfKws_ofList, wfKw, wfList, ih, nullJS, wfKws, JSList.length]
  | .obj mode ca part cks shape, top, o, n, h => by
    simp only [reprP, Bool.and_eq_true] at h
    have hs := wfShape shape h.2
    have hc : wfJS (caJS ca mode.isLoose) = true := by
      cases ca with
      | none => simp [caJS, wfJS]
      | some c => simpa [caJS] using wf c false false false (by simpa [reprCa] using h.1.2)
    simp only [toJS, wfJS, wfKws_ofList, List.all_append, List.all_cons, List.all_nil, Bool.and_eq_true, Bool.and_true]
    refine ⟨⟨⟨⟨by simp [wfKw], ?_⟩, ?_⟩, by simpa [wfKw] using hc⟩, ?_⟩
    · split <;> simp [wfKw, hs]
    · split <;> simp [wfKw]
    · unfold propsKws; simp only [List.all_append, Bool.and_eq_true]
      exact ⟨wf_optKw _ _ (by simp [wfKw]), wf_optKw _ _ (by simp [wfKw])⟩
  | .slice e cks, top, o, n, h => by
    simp only [reprP, Bool.and_eq_true] at h
    have ih := wf e false false false h.2
    simp only [toJS, wfJS, wfKws_ofList, List.all_append, List.all_cons, List.all_nil, Bool.and_eq_true, Bool.and_true]
    refine ⟨⟨by simp [wfKw], by simpa [wfKw] using ih⟩, ?_⟩
    unfold itemsKws; simp only [List.all_append, Bool.and_eq_true]
    exact ⟨wf_optKw _ _ (by simp [wfKw]), wf_optKw _ _ (by simp [wfKw])⟩
  | .arr rest cks items, top, o, n, h => by
    simp only [reprP, Bool.and_eq_true] at h
    obtain ⟨⟨⟨hck, hlen⟩, hrest⟩, hitems⟩ := h
    have hck' : cks = [] := by simpa using hck
    subst hck'
    have hl := wfListS items hitems
    cases rest with
    | some r =>
      have hr := wf r false false false (by simpa [reprCa] using hrest)
      simp only [toJS, lenBag_nil, wfJS, wfKws_ofList, List.append_nil, List.all_append, List.all_cons, List.all_nil]
      split <;> simp [wfKw, hr, hl]
    | none =>
      have hne : (items.length == 1) = false := by simpa using hlen
      simp only [toJS, lenBag_nil, wfJS, wfKws_ofList, List.append_nil, List.all_append, List.all_cons, List.all_nil, hne]
      simp only [Bool.false_eq_true, if_false]
      split <;> simp [wfKw, hl]
  | .tup rest cks items, top, o, n, h => by
    simp only [reprP, Bool.and_eq_true] at h
    obtain ⟨⟨⟨hck, _⟩, hrest⟩, hitems⟩ := h
    have hck' : cks = [] := by simpa using hck
    subst hck'
    have hl := wfListS items hitems
    cases rest with
    | some r =>
      have hr := wf r false false false (by simpa [reprCa] using hrest)
      simp only [toJS, lenBag_nil, wfJS, wfKws_ofList, List.append_nil, List.all_append, List.all_cons, List.all_nil]
      split <;> simp [wfKw, hr, hl]
    | none =>
      simp only [toJS, lenBag_nil, wfJS, wfKws_ofList, List.append_nil, List.all_append, List.all_cons, List.all_nil]
      split <;> simp [wfKw, hl]
  | .record key val cks, top, o, n, h => by
    simp only [reprP, Bool.and_eq_true] at h
    have hk := wf key false false false h.1.1.2
    have hv := wf val false false false h.2
    simp only [toJS, wfJS, wfKws_ofList, List.all_append, List.all_cons, List.all_nil, Bool.and_eq_true, Bool.and_true]
    refine ⟨by simp [wfKw, hk, hv], ?_⟩
    unfold propsKws; simp only [List.all_append, Bool.and_eq_true]
    exact ⟨wf_optKw _ _ (by simp [wfKw]), wf_optKw _ _ (by simp [wfKw])⟩
  | .union ms, top, o, n, h => by
    simp only [reprP, Bool.and_eq_true] at h
    have hsp := members_noSpecial ms h.2
    have hl := wfMembers ms h.2
    have hne : 0 < (listJS ms).length := by
      rw [listJS_length]; cases ms <;> simp_all [SList.length]
    simp [toJS, hsp, wfJS, wfKws_ofList, wfKw, hl, hne]
  | .xor ms, top, o, n, h => by
    simp only [reprP, Bool.and_eq_true] at h
    have hl := wfMembers ms h.2
    have hne : 0 < (listJS ms).length := by
      rw [listJS_length]; cases ms <;> simp_all [SList.length]
    simp [toJS, wfJS, wfKws_ofList, wfKw, hl, hne]
  | .and l r, top, o, n, h => by
    simp only [reprP, Bool.and_eq_true] at h
    simp [toJS, wfJS, wfKws_ofList, wfKw, wfList, wf l false false false h.1.2, wf r false false false h.2, JSList.length]

theorem wfListS : (ss : SList) → reprList ss = true → wfList (listJS ss) = true
  | .nil, _ => rfl
  | .cons s ss, h => by
    simp only [reprList, Bool.and_eq_true] at h
    simp [listJS, wfList, wf s false false false h.1, wfListS ss h.2]

theorem wfMembers : (ss : SList) → reprMembers ss = true → wfList (listJS ss) = true
  | .nil, _ => rfl
  | .cons s ss, h => by
    simp only [reprMembers, Bool.and_eq_true] at h
    simp [listJS, wfList, wf s false false false h.1.2, wfMembers ss h.2]

theorem wfShape : (sh : Shape) → reprShape sh = true → wfProps (propsJS sh) = true
  | .nil, _ => rfl
  | .cons k s rest, h => by
    simp only [reprShape, Bool.and_eq_true] at h
    simp [propsJS, wfProps, wf s false false false h.1, wfShape rest h.2]
end

/-- the emitted document is well formed (and, having no `$ref`, has no unresolved reference). -/
theorem c07_wellformed (s : S) (h : reprP true s = true) : wfJS (toDoc s) = true := wf s true false false h

/-! ## witnesses: outside `reprTop` / `instOK` the full statement fails on the pinned code
    (each is replayed on the real code by the correspondence; class names as in known-findings.txt) -/

/-- complete fails. -/
def Incomplete (s : S) (x : Json) : Prop := jsValid (toDoc s) x = true ∧ accepts s x = false
/-- sound fails. -/
def Unsound (s : S) (x : Json) : Prop := accepts s x = true ∧ jsValid (toDoc s) (out s x) = false

instance (s : S) (x : Json) : Decidable (Incomplete s x) := by unfold Incomplete; infer_instance
instance (s : S) (x : Json) : Decidable (Unsound s x) := by unfold Unsound; infer_instance

def o1 (k : Str) (v : Json) : Json := .obj (.cons k v .nil)

theorem witness_bytes_vs_codepoints : Incomplete (.str [.len 1]) (.str [233]) ∧ Unsound (.str [.min 3]) (.str [233, 233]) := by decide
theorem witness_trim_before_min : Incomplete (.str [.trim, .min 2]) (.str [32, 32]) := by decide
theorem witness_optional_null : Unsound (.opt (.str [])) .null := by decide
-- `witness_partial_required` (the converter before the fix C07-object-optionality) is in Proofs/C07Lazy.lean
theorem witness_array_single_item : Incomplete (.arr .none [] (.cons (.str []) .nil)) (.arr .nil) := by decide
theorem witness_rest_without_min_items :
    Incomplete (.arr (.some .bool) [] (.cons (.str []) .nil)) (.arr .nil) := by decide
theorem witness_array_length_keyword : Incomplete (.arr (.some .bool) [.min 2] .nil) (.arr .nil) := by decide
theorem witness_record_enum_exhaustive : Incomplete (.record (.enum [[97]]) .bool []) (.obj .nil) := by decide
theorem witness_union_nil : Incomplete (.union (.cons (.str []) (.cons .nil .nil))) .null := by decide
theorem witness_num_bound_merge : Incomplete (.int .int [.gt 5, .gte 5]) (.num 20) := by decide
theorem witness_length_overwrites : Incomplete (.str [.min 5, .len 3]) (.str [109, 109, 109]) := by decide
theorem witness_size_overwrites :
    Incomplete (.slice .bool [.len 2, .max 4])
      (.arr (.cons (.bool true) (.cons (.bool true) (.cons (.bool true) .nil)))) := by decide
theorem witness_int_kind_range : Incomplete (.int .u8 [.lte 1]) (.num (-4)) := by decide
theorem witness_strict_catchall :
    Incomplete (.obj .strict (.some .bool) false [] .nil) (o1 [122] (.bool true)) := by decide
theorem witness_nested_strip :
    Unsound (.slice (.obj .strip .none false [] .nil) []) (.arr (.cons (o1 [119] (.num 4)) .nil)) := by decide
theorem witness_strip_size_after_strip :
    Incomplete (.obj .strip (.some (.int .int [])) false [.min 2] (.cons [97] (.str []) .nil))
      (.obj (.cons [97] (.str [109]) (.cons [122] (.num 4) .nil))) := by decide
theorem witness_literal_mixed_kinds : Unsound (.lit [.str [97], .num 4]) (.num 4) := by decide

/-- the full statement is false for the code as it stands. -/
theorem c07_full_false : ¬ c07_full := by
  intro h
  have h1 := (h (.str [.len 1]) (.str [233])).2 (by decide)
  revert h1; decide

end Gozod.C07
