/-
  C06 — nested struct fields, the same struct type reached several times, recursive types.

  Part C (type graphs, all environments and all finite values): theorems about `Graph.Code`, the
  transcription of the cycle-detection walk of types/struct.go, against `Graph.Spec`.
  Part D (the regenerated table `Gen.graphTable`): the table IS the model on every probe
  (`decide +kernel`), hence — through the general theorems — the documented meaning wherever the
  type graph is acyclic and the value touches no known deviation.
-/
import Gozod.Model.TagGraph
import Gozod.Gen.TagGraph
set_option linter.unusedSimpArgs false
set_option linter.unusedVariables false

namespace Gozod.C06
open Gozod.Tags.Graph

/-- the type graph is acyclic and numbered topologically: every edge goes to a larger index -/
def Ranked (env : Env) : Prop := ∀ t, ∀ e ∈ (decl env t).edges, t < e.target

def rankedB (env : Env) : Bool :=
  (List.range env.length).all fun t => (decl env t).edges.all fun e => decide (t < e.target)

theorem ranked_of_rankedB (env : Env) (h : rankedB env = true) : Ranked env := by
  intro t e he
  by_cases ht : t < env.length
  · have := List.all_eq_true.mp h t (List.mem_range.mpr ht)
    have := List.all_eq_true.mp this e he
    simpa using this
  · have : decl env t = ⟨none, []⟩ := by
      unfold decl
      simp [List.getD, List.getElem?_eq_none (Nat.le_of_not_lt ht)]
    rw [this] at he
    cases he

/-! ### (A) on an acyclic type graph the cycle test never fires -/

theorem contains_false_of_lt (visited : List Nat) (t : Nat) (h : ∀ u ∈ visited, u < t) : visited.contains t = false := by
  cases hc : visited.contains t with
  | false => rfl
  | true =>
    have := List.contains_iff_mem.mp hc
    exact absurd (h t this) (Nat.lt_irrefl t)

theorem onPath_false (cyc : Bool) (visited : List Nat) (t : Nat) (h : ∀ u ∈ visited, u < t) :
    Code.onPath cyc visited t = false := by
  rw [Code.onPath, contains_false_of_lt visited t h, Bool.and_false]

/-- the fields of a struct value of type `t` (body of `cStruct` / of one container element) -/
def kidsOf (cyc : Bool) (env : Env) (visited : List Nat) (t : Nat) : GVal → Bool
  | .node _ kids => Code.cEdges cyc env (t :: visited) (decl env t).edges kids
  | _ => true

/-- motive for values: as the value of one edge field, and as a struct value of type `t` -/
def PA1 (env : Env) (x : GVal) : Prop :=
  (∀ visited w e, (∀ u ∈ visited, u < e.target) → Code.cEdge true env visited e x = Code.cEdge false env w e x) ∧
  (∀ visited w t, (∀ u ∈ visited, u < t) → kidsOf true env visited t x = kidsOf false env w t x)

/-- motive for value lists: the edge fields of a struct, and the elements of a container -/
def PA2 (env : Env) (xs : List GVal) : Prop :=
  (∀ visited w es, (∀ e ∈ es, ∀ u ∈ visited, u < e.target) → Code.cEdges true env visited es xs = Code.cEdges false env w es xs) ∧
  (∀ visited w tagged t, (∀ u ∈ visited, u < t) → Code.cAll true env visited tagged t xs = Code.cAll false env w tagged t xs)

theorem onPath_off (visited : List Nat) (t : Nat) : Code.onPath false visited t = false := by simp [Code.onPath]

theorem ranked_step (env : Env) (hr : Ranked env) (visited : List Nat) (t : Nat) (hv : ∀ u ∈ visited, u < t) :
    ∀ e' ∈ (decl env t).edges, ∀ u ∈ t :: visited, u < e'.target := by
  intro e' he' u hu
  have := hr t e' he'
  rcases List.mem_cons.mp hu with h | h
  · omega
  · have := hv u h; omega

theorem code_acyclic_aux (env : Env) (hr : Ranked env) (x : GVal) : PA1 env x := by
  refine GVal.rec (motive_1 := PA1 env) (motive_2 := PA2 env) ?_ ?_ ?_ ?_ ?_ x
  · -- nil
    refine ⟨?_, ?_⟩
    · intro visited w e hv
      simp only [Code.cEdge, onPath_false true visited e.target hv, onPath_off]
    · intro visited w t _; rfl
  · -- node
    intro v kids ih
    have hk : ∀ visited w t, (∀ u ∈ visited, u < t) →
        Code.cEdges true env (t :: visited) (decl env t).edges kids = Code.cEdges false env (t :: w) (decl env t).edges kids := by
      intro visited w t hv
      exact ih.1 _ _ _ (ranked_step env hr visited t hv)
    refine ⟨?_, ?_⟩
    · intro visited w e hv
      simp only [Code.cEdge, onPath_false true visited e.target hv, onPath_off]
      rw [hk visited w e.target hv]
    · intro visited w t hv
      simp only [kidsOf]
      exact hk visited w t hv
  · -- list
    intro xs ih
    refine ⟨?_, ?_⟩
    · intro visited w e hv
      simp only [Code.cEdge, onPath_false true visited e.target hv, onPath_off]
      simp only [Bool.false_eq_true, if_false]
      rw [ih.2 visited w _ _ hv]
    · intro visited w t _; rfl
  · -- []
    refine ⟨?_, ?_⟩
    · intro visited w es _
      cases es <;> simp [Code.cEdges]
    · intro visited w tagged t _
      simp [Code.cAll]
  · -- x :: xs
    intro x xs ihx ihxs
    refine ⟨?_, ?_⟩
    · intro visited w es hes
      cases es with
      | nil => simp [Code.cEdges]
      | cons e es =>
        simp only [Code.cEdges]
        rw [ihx.1 visited w e (hes e (by simp)), ihxs.1 visited w es (fun e' he' => hes e' (by simp [he']))]
    · intro visited w tagged t hv
      cases x with
      | nil => simp only [Code.cAll]; rw [ihxs.2 visited w tagged t hv]
      | list ys => simp [Code.cAll]
      | node v kids =>
        simp only [Code.cAll]
        have := ihx.2 visited w t hv
        simp only [kidsOf] at this
        rw [ihxs.2 visited w tagged t hv, this]

/-- **(A) The cycle test never fires on an acyclic type graph**: whatever is in `visited` below the
    root, however often and in whatever order a struct type occurs among the fields (siblings,
    `T` and `*T` and `[]T`, under several branches), the verdict of the schema FromStruct builds
    is the verdict of the same walk with the Lazy path removed. -/
theorem c06_graph_no_lazy_on_dag (env : Env) (hr : Ranked env) (v : GVal) :
    Code.cStruct true env [] 0 v = Code.cStruct false env [] 0 v := by
  cases v with
  | nil => rfl
  | list xs => rfl
  | node x kids =>
    have := (code_acyclic_aux env hr (.node x kids)).2 [] [] 0 (by intro u hu; cases hu)
    simp only [kidsOf] at this
    simp only [Code.cStruct, this]

/-! ### (B) without the Lazy path the walk computes the documented meaning, except at the listed deviations -/

theorem vEdges_untagged (env : Env) (es : List Edge) (h : ∀ e ∈ es, e.tagged = false) (xs : List GVal) :
    Spec.vEdges env es xs = true := by
  induction es generalizing xs with
  | nil => cases xs <;> simp [Spec.vEdges]
  | cons e es ih =>
    cases xs with
    | nil => simp [Spec.vEdges]
    | cons x xs =>
      simp only [Spec.vEdges, h e (by simp), Bool.not_false, Bool.true_or, Bool.true_and]
      exact ih (fun e' he' => h e' (by simp [he'])) xs

/-- a struct type without any gozod tag puts no constraint on its values -/
theorem plain_valid (env : Env) (d : SDecl) (h : Code.hasTags d = false) (v : Int) (kids : List GVal) :
    scalarOK d v = true ∧ Spec.vEdges env d.edges kids = true := by
  simp only [Code.hasTags, Bool.or_eq_false_iff] at h
  refine ⟨?_, ?_⟩
  · cases hv : d.vmin with
    | none => simp [scalarOK, hv]
    | some k => simp [hv] at h
  · apply vEdges_untagged
    intro e he
    have := h.2
    simp only [List.any_eq_false] at this
    simpa using this e he

def kidsC (env : Env) (w : List Nat) (t : Nat) : GVal → Bool
  | .node _ kids => Code.cEdges false env (t :: w) (decl env t).edges kids
  | _ => true
def kidsS (env : Env) (t : Nat) : GVal → Bool
  | .node _ kids => Spec.vEdges env (decl env t).edges kids
  | _ => true
def kidsD (env : Env) (t : Nat) : GVal → Bool
  | .node _ kids => Dev.devEdges env (decl env t).edges kids
  | _ => false

def PB1 (env : Env) (x : GVal) : Prop :=
  (∀ w e, Dev.devEdge env e x = false → Code.cEdge false env w e x = Spec.vEdge env e x) ∧
  (∀ w t, kidsD env t x = false → kidsC env w t x = kidsS env t x)

def PB2 (env : Env) (xs : List GVal) : Prop :=
  (∀ w es, Dev.devEdges env es xs = false → Code.cEdges false env w es xs = Spec.vEdges env es xs) ∧
  (∀ w t, Dev.devAll env (Code.hasTags (decl env t)) t xs = false →
      Code.cAll false env w (Code.hasTags (decl env t)) t xs = Spec.vAll env t xs)

theorem code_spec_aux (env : Env) (x : GVal) : PB1 env x := by
  refine GVal.rec (motive_1 := PB1 env) (motive_2 := PB2 env) ?_ ?_ ?_ ?_ ?_ x
  · -- nil
    refine ⟨?_, ?_⟩
    · intro w e hd
      simp only [Dev.devEdge, Dev.nilDev] at hd
      simp only [Code.cEdge, Spec.vEdge, onPath_off]
      cases hw : e.wrap <;> simp [hw] at hd ⊢ <;> (try simp [hd])
      -- `.ptr`: spec = ¬required; code = ¬hasTags ∧ ¬required; no deviation means required ∨ ¬hasTags
      all_goals (cases hr : (e.tag == ETag.required) <;> cases ht : Code.hasTags (decl env e.target) <;> simp_all)
    · intro w t _; rfl
  · -- node
    intro v kids ih
    refine ⟨?_, ?_⟩
    · intro w e hd
      simp only [Dev.devEdge] at hd
      simp only [Code.cEdge, Spec.vEdge, onPath_off]
      by_cases hc : (e.wrap.isSlice || e.wrap.isMap) = true
      · simp [hc]
      · have hc' : (e.wrap.isSlice || e.wrap.isMap) = false := by simpa using hc
        simp only [hc', Bool.not_false, Bool.true_and, Bool.false_eq_true, if_false] at hd ⊢
        by_cases ht : Code.hasTags (decl env e.target) = true
        · simp only [ht, Bool.true_and, if_true] at hd ⊢
          rw [ih.1 _ _ hd]
        · have ht' : Code.hasTags (decl env e.target) = false := by simpa using ht
          have := plain_valid env _ ht' v kids
          simp [ht', this.1, this.2]
    · intro w t hd
      simp only [kidsD] at hd
      simp only [kidsC, kidsS]
      exact ih.1 _ _ hd
  · -- list
    intro xs ih
    refine ⟨?_, ?_⟩
    · intro w e hd
      simp only [Dev.devEdge, Bool.or_eq_false_iff] at hd
      simp only [Code.cEdge, Spec.vEdge]
      by_cases hm : e.wrap.isMap = true
      · have h1 : lenOK e.tag xs.length = true := by simpa [hm] using hd.1
        have h2 := hd.2
        simp only [hm, Bool.or_true, Bool.true_and] at h2
        simp only [hm, if_true, Bool.or_true, Bool.true_and, h1]
        exact ih.2 _ _ h2
      · have hm' : e.wrap.isMap = false := by simpa using hm
        by_cases hs : e.wrap.isSlice = true
        · have h2 := hd.2
          simp only [hs, Bool.true_or, Bool.true_and] at h2
          simp only [hm', hs, onPath_off, Bool.false_eq_true, if_false, if_true, Bool.true_or, Bool.true_and]
          rw [ih.2 _ _ h2]
        · have hs' : e.wrap.isSlice = false := by simpa using hs
          simp [hm', hs']
    · intro w t _; rfl
  · -- []
    refine ⟨?_, ?_⟩
    · intro w es _
      cases es <;> simp [Code.cEdges, Spec.vEdges]
    · intro w t _
      simp [Code.cAll, Spec.vAll]
  · -- x :: xs
    intro x xs ihx ihxs
    refine ⟨?_, ?_⟩
    · intro w es hd
      cases es with
      | nil => simp [Code.cEdges, Spec.vEdges]
      | cons e es =>
        simp only [Dev.devEdges, Bool.or_eq_false_iff] at hd
        simp only [Code.cEdges, Spec.vEdges]
        rw [ihxs.1 w es hd.2]
        by_cases ht : e.tagged = true
        · have : Dev.devEdge env e x = false := by simpa [ht] using hd.1
          rw [ihx.1 w e this]
        · have ht' : e.tagged = false := by simpa using ht
          simp [ht']
    · intro w t hd
      cases x with
      | nil =>
        simp only [Dev.devAll, Bool.or_eq_false_iff] at hd
        have h1 := hd.1
        have h2 := ihxs.2 w t hd.2
        rw [h1] at h2
        simp only [Code.cAll, Spec.vAll, h1, Bool.not_false, Bool.true_and]
        exact h2
      | list ys => simp [Code.cAll, Spec.vAll]
      | node v kids =>
        simp only [Dev.devAll, Bool.or_eq_false_iff] at hd
        simp only [Code.cAll, Spec.vAll]
        rw [ihxs.2 w t hd.2]
        by_cases ht : Code.hasTags (decl env t) = true
        · have hk : kidsD env t (.node v kids) = false := by simpa [kidsD, ht] using hd.1
          have := ihx.2 w t hk
          simp only [kidsC, kidsS] at this
          simp [ht, this, Bool.and_assoc]
        · have ht' : Code.hasTags (decl env t) = false := by simpa using ht
          have := plain_valid env _ ht' v kids
          simp [ht', this.1, this.2]

/-- **(B)** the walk without the Lazy path computes the documented meaning on every value that touches
    none of the listed deviations (`Dev.dev`). -/
theorem c06_graph_walk_is_spec (env : Env) (v : GVal) (hd : Dev.dev env v = false) :
    Code.cStruct false env [] 0 v = Spec.vStruct env 0 v := by
  cases v with
  | nil => rfl
  | list xs => rfl
  | node x kids =>
    have := (code_spec_aux env (.node x kids)).2 [] 0 (by simpa [kidsD, Dev.dev] using hd)
    simp only [kidsC, kidsS] at this
    simp only [Code.cStruct, Spec.vStruct, this]

/-- Full statement (false on the current code, see the witnesses below): FromStruct's schema accepts a
    value of the root type iff every tagged field, nested ones included, satisfies its rules. -/
def c06_graph_full : Prop := ∀ env v, Code.builds env = true → Code.check env v = Spec.vStruct env 0 v

/-- **Nested struct fields (partial)**: on an acyclic type graph — however often and in whatever order a
    struct type is reached: two sibling fields of one type, `T` and `*T` and `[]T`, the same type under two
    branches — the verdict of the outer struct is the conjunction over all tagged fields including the
    nested ones, for every finite value that touches none of the listed deviations. -/
theorem c06_graph_partial (env : Env) (hr : Ranked env) (v : GVal) (hd : Dev.dev env v = false) :
    Code.check env v = Spec.vStruct env 0 v := by
  unfold Code.check
  rw [c06_graph_no_lazy_on_dag env hr v, c06_graph_walk_is_spec env v hd]

/-! ### witnesses: the full statement is false on the current code -/

/-- `type Node struct { V int "min=3"; Next *Node "required" }` -/
def envNode : Env := [⟨some 3, [⟨.ptr, 0, .required⟩]⟩]
/-- `type Tree struct { V int "min=3"; Kids []*Tree "max=2" }` -/
def envTree : Env := [⟨some 3, [⟨.sliceptr, 0, .maxLen 2⟩]⟩]
/-- `type R struct { V int "min=3"; X L "required"; Y []L "max=2" }; type L struct { V int "min=3" }` -/
def envTwice : Env := [⟨some 3, [⟨.val, 1, .required⟩, ⟨.slice, 1, .maxLen 2⟩]⟩, ⟨some 3, []⟩]

/-- a recursive type: the second level is never validated — `Tree{V:5, Kids:{&Tree{V:1}}}` is accepted -/
theorem c06_graph_recursive_unchecked :
    Code.builds envTree = true ∧
    Code.check envTree (.node 5 [.list [.node 1 [.list []]]]) = true ∧
    Spec.vStruct envTree 0 (.node 5 [.list [.node 1 [.list []]]]) = false := by decide

/-- below the first level a `required` pointer may be nil and a rule may be violated:
    `Node{V:5, Next:&Node{V:1, Next:nil}}` is accepted (the first level rejects a nil `Next` since bc2d4fc) -/
theorem c06_graph_recursive_required_nil :
    Code.check envNode (.node 5 [.nil]) = false ∧
    Code.check envNode (.node 5 [.node 1 [.nil]]) = true ∧ Spec.vStruct envNode 0 (.node 5 [.node 1 [.nil]]) = false := by decide

/-- a nil slice in a field that is not `required` is rejected: `R{V:5, X:L{V:5}, Y:nil}` -/
theorem c06_graph_nil_slice_rejected :
    Code.check envTwice (.node 5 [.node 5 [], .nil]) = false ∧ Spec.vStruct envTwice 0 (.node 5 [.node 5 [], .nil]) = true := by decide

theorem c06_graph_full_false : ¬ c06_graph_full := by
  intro h
  have := h envTree (.node 5 [.list [.node 1 [.list []]]]) (by decide)
  revert this
  decide

/-- `type R struct { V int "min=3"; M map[string]R "required" }` -/
def envMapRec : Env := [⟨some 3, [⟨.map, 0, .required⟩]⟩]

/-- a type recursive through a map value: the construction returns (the map walk shares `visited`), and the type
    joins the recursive class — `R{V:5, M:{"a": R{V:1, M:{}}}}` is accepted -/
theorem c06_graph_map_recursion_builds :
    Code.builds envMapRec = true ∧
    Code.check envMapRec (.node 5 [.list [.node 1 [.list []]]]) = true ∧
    Spec.vStruct envMapRec 0 (.node 5 [.list [.node 1 [.list []]]]) = false := by decide

-- the hypotheses of `c06_graph_partial` are inhabited: the same tagged type reached by value and as a slice
-- element, a value whose second occurrence violates its rule
example : Ranked envTwice ∧ Dev.dev envTwice (.node 5 [.node 5 [], .list [.node 5 [], .node 1 []]]) = false ∧
    Code.check envTwice (.node 5 [.node 5 [], .list [.node 5 [], .node 1 []]]) = false :=
  ⟨ranked_of_rankedB _ (by decide), by decide, by decide⟩

/-! ## Part D — the regenerated table of type graphs -/
section Table
open Gozod.Gen

def rowModelOK (r : GRow) : Bool :=
  (r.built == Code.builds r.env) &&
  r.probes.all fun p => p.2 == Obs.ofBool (Code.check r.env p.1)

/-- **The table is the model**: for every root of the regenerated table (type graph read back by
    reflection from the compiled Go types), FromStruct returns iff `Code.builds`, and the verdict of
    `FromStruct[Root]().Parse` on every probe value is `Code.check`. -/
theorem c06_graph_table_is_model : ∀ r ∈ graphTable, rowModelOK r = true := by
  have h : graphTable.all rowModelOK = true := by decide +kernel
  exact fun r hr => List.all_eq_true.mp h r hr

/-- Full statement over the table (false, see `C06W`): every root builds and every probe gets the documented verdict. -/
def c06_graph_table_full : Prop :=
  ∀ r ∈ graphTable, r.built = true ∧ ∀ p ∈ r.probes, p.2 = Obs.ofBool (Spec.vStruct r.env 0 p.1)

/-- **Nested struct fields over the table (partial)**: on every acyclic root — nested by value, pointer,
    slice element, map value, embedded; the same type twice, thrice, under two branches — the real
    schema's verdict on every probe that touches no listed deviation is the documented one.
    Derived from the table being the model and the general theorem, not decided cell by cell. -/
theorem c06_graph_table_partial :
    ∀ r ∈ graphTable, rankedB r.env = true → ∀ p ∈ r.probes, Dev.dev r.env p.1 = false →
      p.2 = Obs.ofBool (Spec.vStruct r.env 0 p.1) := by
  intro r hr hrk p hp hd
  have hm := c06_graph_table_is_model r hr
  simp only [rowModelOK, Bool.and_eq_true, List.all_eq_true] at hm
  have := hm.2 p hp
  rw [← c06_graph_partial r.env (ranked_of_rankedB _ hrk) p.1 hd]
  simpa using this

def allWraps : List Wrap := [.val, .ptr, .slice, .sliceptr, .map, .mapptr, .emb]

/-- some root reaches one tagged struct type through two tagged fields with these wraps, in this order -/
def hasTwice (w₁ w₂ : Wrap) : Bool :=
  graphTable.any fun r =>
    match r.env with
    | d :: _ =>
      (match d.edges with
       | [e₁, e₂] => e₁.wrap == w₁ && e₂.wrap == w₂ && e₁.target == e₂.target && e₁.tagged && e₂.tagged &&
                     Code.hasTags (decl r.env e₁.target) && rankedB r.env && r.probes.length ≥ 4
       | _ => false)
    | [] => false

/-- some struct type of the graph reaches itself or an earlier type through a map value (`map[string]R`, `map[string]*R`) -/
def hasMapBackEdge (env : Env) : Bool :=
  (List.range env.length).any fun t => (decl env t).edges.any fun e => e.wrap.isMap && decide (e.target ≤ t)

/-- a root whose type graph has a cycle, that builds, and that has probes -/
def isRecursiveRow (r : GRow) : Bool := !rankedB r.env && r.built && r.probes.length ≥ 4

/-- **Coverage of the table**: every ordered pair of wraps (except two embeddings of one type, which Go
    rejects) occurs as two sibling fields of one tagged struct type; there are roots with three
    occurrences, diamond-shaped graphs (a type of index ≥ 2 with two incoming edges from different types),
    recursive roots, and roots that are recursive through a map value (whose construction did not return before
    the map walk shared the visited set). -/
theorem c06_graph_table_covers :
    (allWraps.all fun w₁ => allWraps.all fun w₂ => (w₁ == .emb && w₂ == .emb) || hasTwice w₁ w₂) = true ∧
    (graphTable.filter isRecursiveRow).length ≥ 8 ∧
    (graphTable.filter fun r => hasMapBackEdge r.env).length ≥ 3 ∧
    (graphTable.filter fun r => rankedB r.env && decide (r.env.length ≥ 3)).length ≥ 6 := by
  decide +kernel

end Table

end Gozod.C06
