"""Translator step shared by C16 and C17: run harness/numgen (inside the property's harness binary,
`-gen DIR -repo TREE`) over the library's working tree and regenerate the dispatch table
(lean/Gozod/Gen/NumDispatch.lean or CoerceDispatch.lean; rewritten only when its content changes)."""
import os, subprocess
from . import common as C

GEN = os.path.join(C.LEAN, "Gozod", "Gen")

def regenerate(res, prop, leanfile):
    """Returns (ok, detail, changed_vs_committed). A translator that cannot find what it looks for
    is a broken tie (BUILDING.md section 2)."""
    ok, out = C.build_harness(prop)
    if not ok:
        return False, "harness (with the translator) does not build against the working tree:\n" + out[-3000:], ""
    tmp = os.path.join(C.BUILD, "run", "%s-gen-%d" % (prop, os.getpid()))
    os.makedirs(tmp, exist_ok=True)
    with C.Lock(prop.lower() + "gen"):
        rc, out = C.run([C.harness_bin(prop), "-out", tmp, "-gen", GEN, "-repo", C.REPO], env=C.goenv(), timeout=300)
    if rc != 0:
        return False, "translator failed (rc=%d): %s" % (rc, out[-3000:]), ""
    res.coverage["translator"] = "harness/numgen (go/ast) -> lean/Gozod/Gen/%s: %s" % (leanfile, out.strip())
    # what differs from the committed table (= the table the proofs were last checked against): aims the search
    p = subprocess.run(["git", "-C", C.VERIF, "diff", "--no-color", "-U0", "--", os.path.join("lean", "Gozod", "Gen", leanfile)],
                       capture_output=True, text=True)
    diff = "\n".join(l for l in p.stdout.split("\n") if (l.startswith("+") or l.startswith("-")) and not l.startswith(("+++", "---")))
    return True, "", diff

def explain(diff):
    if not diff:
        return ""
    return ("\nthe regenerated table differs from the committed one in these entries (the clause / constant to aim at):\n"
            + diff[:3000] + "\n")
