/-
  C02 — container-level checks of every kind (round 4): size checks, Refine, Overwrite.

  `Cont.runOw` is `Parse` of a container including `engine.validatePointer`'s overwrite pre-pass and the checks
  `processModifiersCore` applies to an accepted nil.  Since /repo 49e6e91 (`Cfg.owValidates`) the validator runs
  before the pre-pass: `runOw` IS `run` on every non-nil input, so every composition law of `Proofs/C02.lean`
  (whose size condition `sizeOK cs n` now ranges over Refine and Overwrite checks too) holds for `runOw`.
  The code before the fix is kept as `Cfg.owValidates = false` with a witness theorem.
-/
import Gozod.Proofs.C02

namespace Gozod.C02
open Gozod.Cont

/-- after the fix, on a non-nil input, the checks change nothing about HOW the container is validated. -/
theorem runOw_eq_run (cfg : Cfg) (env : Env) (n : Node) (v : V) (hc : cfg.owValidates = true)
    (hv : v.isNilLike = false) : runOw cfg env n v = run cfg env n v := by
  simp [runOw, owBypass, hc]

/-- without an overwrite check the pre-pass never fires, whatever the tree. -/
theorem runOw_eq_run_noOverwrite (cfg : Cfg) (env : Env) (n : Node) (v : V)
    (ho : hasOverwrite (nodeChecks n) = false) (hv : v.isNilLike = false) : runOw cfg env n v = run cfg env n v := by
  simp [runOw, owBypass, ho]

/-- a failing `Refine` rejects, wherever it stands among the checks and whatever the members say. -/
theorem sizeOK_custom_false (cs : List SizeCk) (n : Nat) (h : SizeCk.custom false ∈ cs) : sizeOK cs n = false := by
  cases hs : sizeOK cs n with
  | false => rfl
  | true =>
    have := (List.all_eq_true.1 hs) _ h
    simp [SizeCk.holds] at this

/-- an `Overwrite` (identity) and a `Refine` that holds do not change the size condition. -/
theorem sizeOK_cons_overwrite (cs : List SizeCk) (n : Nat) : sizeOK (.overwrite :: cs) n = sizeOK cs n := by
  simp [sizeOK, SizeCk.holds]

theorem sizeOK_cons_custom_true (cs : List SizeCk) (n : Nat) : sizeOK (.custom true :: cs) n = sizeOK cs n := by
  simp [sizeOK, SizeCk.holds]

/-- **slice with checks of every kind** (the code after 49e6e91): accepted iff it extracts, every check holds
    (size checks on the length, refinements) and every element is accepted. -/
theorem c02_slice_checks (cfg : Cfg) (env : Env) (m : Mods) (t : Ty) (e : Mid) (cs : List SizeCk) (v : V)
    (hc : cfg.owValidates = true) (hv : v.isNilLike = false) :
    (runOw cfg env (.slice m t e cs) v).isOk = true ↔
      ∃ xs, extractSlice t v = some xs ∧ sizeOK cs xs.length = true ∧ ∀ x ∈ xs, acc env e x = true := by
  rw [runOw_eq_run cfg env _ v hc hv]; exact c02_slice cfg env m t e cs v hv

def c02_overwrite_full : Prop :=
  ∀ (cfg : Cfg) (env : Env) (m : Mods) (t : Ty) (e : Mid) (cs : List SizeCk) (v : V), v.isNilLike = false →
    ((runOw cfg env (.slice m t e cs) v).isOk = true ↔
      ∃ xs, extractSlice t v = some xs ∧ sizeOK cs xs.length = true ∧ ∀ x ∈ xs, acc env e x = true)

/-- **witness for the code before 49e6e91**: `Slice[string](String().Min(3)).Overwrite(id).Min(5).Parse([]string{"ab"})`
    was accepted — neither the size check nor the element schema was consulted. -/
theorem c02_overwrite_skipped_legacy : ¬ c02_overwrite_full := by
  intro h
  have := (h { owValidates := false } (fun _ _ => .err (mk .tooSmall []) []) {} .str 0 [.overwrite, .min 5]
    (.slice .str (some [.atom .str 1])) rfl).1 (by decide)
  obtain ⟨xs, hx, hs, _⟩ := this
  simp only [extractSlice, ↓reduceIte, Option.some.injEq] at hx
  subst hx
  revert hs; decide

/-- the bypass never produces issues: the path theorems of C05 about `run` carry over to `runOw` on non-nil inputs. -/
theorem runOw_issues_sub (cfg : Cfg) (env : Env) (n : Node) (v : V) (hv : v.isNilLike = false) :
    ∀ i ∈ (runOw cfg env n v).issues, i ∈ (run cfg env n v).issues := by
  intro i hi
  unfold runOw at hi
  by_cases hb : owBypass cfg n v = true
  · simp [hb, Res.issues] at hi
  · simpa [hb] using hi

/-- **witness for the code before /repo 7db47f1** (refinements ran on an accepted nil):
    `Map(K, V).Refine(func(map[any]any) bool { return true }).Nilable().Parse(nil)` was rejected, `Object{}.Refine(false)` let nil through. -/
theorem c02_refine_on_nil_legacy :
    (runOwNilLegacy {} (fun _ v => .ok v) (.map { nilable := true } none none [.custom true]) .nil).isOk = false
      ∧ (runOwNilLegacy {} (fun _ v => .ok v) (.map { nilable := true } none none []) .nil).isOk = true
      ∧ (runOwNilLegacy {} (fun _ v => .ok v) (.object { nilable := true } [] .strip none {} [.custom false]) .nil).isOk = true := by
  decide

/-- since 7db47f1: a nil the container lets through is accepted whatever refinements are attached. -/
theorem c02_nil_ignores_refinements (cfg : Cfg) (env : Env) (n : Node) (v : V) (hv : v.isNilLike = true) :
    runOw cfg env n v = run cfg env n v := by
  simp [runOw, owBypass, hv]

end Gozod.C02

namespace Gozod.C02
open Gozod.Cont

/-! ### `Object.Required` -/

/-- **after C02-object-required**: a field the call names (every field for `Required()`) may not be absent, whatever its
    schema's Optional flag and whatever an earlier `Partial` said. -/
theorem required_fixed_named (r : ReqCall) (shape : List Field) (p : Partial) (f' : Field)
    (hf : f' ∈ (requiredFixed r shape p).1) (hn : (r.names shape).contains f'.name = true) :
    fieldOptional (requiredFixed r shape p).2 f' = false := by
  simp only [requiredFixed] at hf ⊢
  obtain ⟨g, _, hg⟩ := List.mem_map.1 hf
  have hname : f'.name = g.name := by
    rw [← hg]
    by_cases hc : (r.names shape).contains g.name = true
    · rw [if_pos hc]
    · rw [if_neg hc]
  have hopt : f'.optional = false := by
    rw [← hg, if_pos (hname ▸ hn)]
  have hmem : f'.name ∈ r.names shape := by simpa using hn
  unfold fieldOptional
  by_cases hp : p.on = true
  · simp [hp, hopt, hmem]
  · simp [hp, hopt]

/-- … and a field it does not name keeps its state. -/
theorem required_fixed_other (r : ReqCall) (shape : List Field) (p : Partial) (f : Field)
    (hn : (r.names shape).contains f.name = false) :
    fieldOptional (requiredFixed r shape p).2 f = fieldOptional p f := by
  have hmem : f.name ∉ r.names shape := by simpa using hn
  simp only [requiredFixed]
  unfold fieldOptional
  by_cases hp : p.on = true
  · cases p.exceptions <;> simp [hp, hmem]
  · simp [hp]

/-- **witness for the code before the fix**: `Required()` made EVERY field optional, `Required(ks)` every field not in `ks`. -/
theorem required_legacy_all_optional (shape : List Field) (p : Partial) (f : Field) :
    fieldOptional (requiredLegacy .all shape p).2 f = true := by
  simp [requiredLegacy, fieldOptional]

theorem required_legacy_others_optional (ks : List Nat) (shape : List Field) (p : Partial) (f : Field)
    (h : ks.contains f.name = false) : fieldOptional (requiredLegacy (.keys ks) shape p).2 f = true := by
  have hmem : f.name ∉ ks := by simpa using h
  simp [requiredLegacy, fieldOptional, hmem]

/-- `Object{a: String()}.Required().Parse({})`: rejected by the fixed code, accepted before. -/
theorem c02_required_witness :
    let sh : List Field := [{ name := 1, m := 0 }]
    (let (s, p) := applyRequired { reqFix := true } (some .all) sh {}
     (run {} (fun _ v => .ok v) (.object {} s .strip none p []) (.map .str .any (some []))).isOk) = false
    ∧ (let (s, p) := applyRequired { reqFix := false } (some .all) sh {}
       (run {} (fun _ v => .ok v) (.object {} s .strip none p []) (.map .str .any (some []))).isOk) = true := by
  decide

end Gozod.C02
