package main

// C13, round 4 — the METHOD TABLE translator.  "The generated file type-checks against the library"
// was decided by `go build` only; this file extracts, from the library the harness is linked against
// (reflection) and from its sources (go/ast: which type parameters of a generic constructor can be
// inferred from the arguments), what the Lean typing judgement `GenTyped.wellTyped` needs:
//
//   - for every constructor name `gozod.X` that appears in a string literal of cmd/gozodgen/writer.go:
//     type parameters (and whether each is inferable), parameter kinds, variadic?, result type
//   - for every schema type such a constructor returns, and every type reachable from there through a
//     method whose name appears as `.Name(` in a string literal of writer.go:  ALL exported methods
//     (name, parameter kinds, variadic?, result type), and whether the type implements core.ZodType[any]
//
// Written as methodtable.json into the output directory; vlib/c13.py renders Gen/MethodTable.lean.
import (
	"encoding/json"
	"go/ast"
	"go/parser"
	"go/token"
	"os"
	"path/filepath"
	"reflect"
	"regexp"
	"sort"
	"strconv"
	"strings"

	"github.com/kaptinlin/gozod"
	"github.com/kaptinlin/gozod/core"
	"github.com/kaptinlin/gozod/types"
)

type mtMethod struct {
	Name     string   `json:"name"`
	Params   []string `json:"params"` // kinds of the fixed parameters
	Variadic bool     `json:"variadic"`
	Result   int      `json:"result"` // type id, -1 = not a table type
}

type mtType struct {
	ID         int        `json:"id"`
	Go         string     `json:"go"`
	ZodTypeAny bool       `json:"zodTypeAny"`
	Methods    []mtMethod `json:"methods"`
}

type mtCtor struct {
	Name       string   `json:"name"`
	TypeParams int      `json:"typeParams"`
	Inferable  bool     `json:"inferable"` // every type parameter occurs in the type of some parameter
	Params     []string `json:"params"`
	Variadic   bool     `json:"variadic"`
	Result     int      `json:"result"`
	Out        string   `json:"out"` // the Go type T of the core.ZodType[T] the result implements (first result of Parse); "$1" = the last type argument
}

type methodTable struct {
	EmittedMethods []string `json:"emittedMethods"`
	EmittedCtors   []string `json:"emittedCtors"`
	LazyGetterOK   bool     `json:"lazyGetterOK"` // core.ZodType[any] satisfies the constraint of gozod.Lazy's type parameter
	Ctors          []mtCtor `json:"ctors"`
	Types          []mtType `json:"types"`
}

type mtInner struct{ A string }

// mtMark instantiates the generic constructors once more, to read off how the output type of the schema depends on
// the type argument ("[]$1" for gozod.Slice, "map[string]$1" for gozod.Record[string, V], "*$1" for FromStructPtr)
type mtMark struct{ A string }

// instances of the constructors gozodgen can name (generic ones instantiated; the instantiation does not
// change parameter kinds that do not mention the type parameter, and result types are keyed by instance)
func ctorInstances() map[string]any {
	return map[string]any{
		"String": gozod.String, "Int": gozod.Int, "Int8": gozod.Int8, "Int16": gozod.Int16, "Int32": gozod.Int32, "Int64": gozod.Int64,
		"Uint": gozod.Uint, "Uint8": gozod.Uint8, "Uint16": gozod.Uint16, "Uint32": gozod.Uint32, "Uint64": gozod.Uint64,
		"Float32": gozod.Float32, "Float64": gozod.Float64, "Bool": gozod.Bool, "Complex64": gozod.Complex64, "Complex128": gozod.Complex128,
		"UUID": gozod.UUID, "Time": gozod.Time, "Any": gozod.Any,
		"Enum":       gozod.Enum[string],
		"FromStruct": gozod.FromStruct[mtInner],
		"Slice":      gozod.Slice[string],
		"Record":     gozod.Record[string, string],
		"Lazy":       gozod.Lazy[core.ZodType[any]],
		// round 4b: the constructors of the repaired writer (typedConstructor, the URL special case)
		"URL": gozod.URL, "TimePtr": gozod.TimePtr,
		"StringPtr": gozod.StringPtr, "IntPtr": gozod.IntPtr, "Int8Ptr": gozod.Int8Ptr, "Int16Ptr": gozod.Int16Ptr, "Int32Ptr": gozod.Int32Ptr, "Int64Ptr": gozod.Int64Ptr,
		"UintPtr": gozod.UintPtr, "Uint8Ptr": gozod.Uint8Ptr, "Uint16Ptr": gozod.Uint16Ptr, "Uint32Ptr": gozod.Uint32Ptr, "Uint64Ptr": gozod.Uint64Ptr,
		"Float32Ptr": gozod.Float32Ptr, "Float64Ptr": gozod.Float64Ptr, "BoolPtr": gozod.BoolPtr, "Complex64Ptr": gozod.Complex64Ptr, "Complex128Ptr": gozod.Complex128Ptr,
		"FromStructPtr": gozod.FromStructPtr[mtInner],
		"SlicePtr":      gozod.SlicePtr[string],
		"RecordPtr":     gozod.RecordPtr[string, string],
	}
}

// the generic constructors instantiated with the marker type
func markInstances() map[string]any {
	return map[string]any{
		"FromStruct": gozod.FromStruct[mtMark], "FromStructPtr": gozod.FromStructPtr[mtMark],
		"Slice": gozod.Slice[mtMark], "SlicePtr": gozod.SlicePtr[mtMark],
		"Record": gozod.Record[string, mtMark], "RecordPtr": gozod.RecordPtr[string, mtMark],
	}
}

// outPattern: the first result type of the Parse method of the schema a constructor returns
func outPattern(fn any) string {
	ft := reflect.TypeOf(fn)
	if ft.NumOut() == 0 {
		return ""
	}
	m, ok := ft.Out(0).MethodByName("Parse")
	if !ok || m.Type.NumOut() == 0 {
		return ""
	}
	s := m.Type.Out(0).String()
	s = strings.ReplaceAll(s, "main.mtMark", "$1")
	s = strings.ReplaceAll(s, "interface {}", "any")
	return s
}

var basicCtorNames = map[string]bool{"String": true, "Int": true, "Int8": true, "Int16": true, "Int32": true, "Int64": true, "Uint": true, "Uint8": true, "Uint16": true,
	"Uint32": true, "Uint64": true, "Float32": true, "Float64": true, "Bool": true, "Complex64": true, "Complex128": true}

var (
	litMethod = regexp.MustCompile(`^\.([A-Z][A-Za-z0-9]*)\(`)
	litCtor   = regexp.MustCompile(`gozod\.([A-Z][A-Za-z0-9]*)[\[(]`)
)

// emittedNames reads every string literal of cmd/gozodgen/writer.go: `.Name(` at the start of a literal is a
// method gozodgen can emit, `gozod.Name(` / `gozod.Name[` anywhere in a literal a constructor.
func emittedNames(repo string) (methods, ctors []string) {
	fset := token.NewFileSet()
	f, err := parser.ParseFile(fset, filepath.Join(repo, "cmd", "gozodgen", "writer.go"), nil, 0)
	if err != nil {
		die("method table: %v", err)
	}
	ms, cs := map[string]bool{}, map[string]bool{}
	ptrSuffix := false
	ast.Inspect(f, func(n ast.Node) bool {
		bl, ok := n.(*ast.BasicLit)
		if !ok || bl.Kind != token.STRING {
			return true
		}
		s, err := strconv.Unquote(bl.Value)
		if err != nil {
			return true
		}
		if m := litMethod.FindStringSubmatch(s); m != nil {
			ms[m[1]] = true
		}
		if strings.HasPrefix(s, ".%s(") { // generateTypedValue: the method name is "Default" / "Prefault"
			ms["Default"], ms["Prefault"] = true, true
		}
		if s == "Ptr()" { // typedConstructor: basicTypeConstructor(base) with "()" replaced by "Ptr()"
			ptrSuffix = true
		}
		for _, pre := range []string{"gozod.RecordPtr", "gozod.SlicePtr"} { // typedConstructor / baseConstructor: prefix swapped in front of the rest of the text
			if s == pre {
				cs[strings.TrimPrefix(pre, "gozod.")] = true
			}
		}
		for _, m := range litCtor.FindAllStringSubmatch(s, -1) {
			cs[m[1]] = true
		}
		return true
	})
	if ptrSuffix {
		for c := range cs {
			if _, ok := basicCtorNames[c]; ok {
				cs[c+"Ptr"] = true
			}
		}
	}
	delete(cs, "ZodType")      // a type name (gozod.ZodType[any]), not a constructor
	delete(cs, "StructSchema") // the composite literal of the template
	delete(cs, "Struct")       // gozod.Struct[T](…) of the template: typed below as part of the file frame
	delete(cs, "ZodStruct")
	for m := range ms {
		methods = append(methods, m)
	}
	for c := range cs {
		ctors = append(ctors, c)
	}
	sort.Strings(methods)
	sort.Strings(ctors)
	if len(methods) < 10 || len(ctors) < 10 {
		die("method table: only %d method and %d constructor names found in the string literals of writer.go", len(methods), len(ctors))
	}
	return
}

// genericFacts: for the func declarations of the library's root package, the number of type parameters and
// whether all of them occur in the parameter types (so that a call without explicit instantiation can be inferred)
func genericFacts(repo string) map[string][2]int {
	res := map[string][2]int{}
	fset := token.NewFileSet()
	pkgs, err := parser.ParseDir(fset, repo, func(fi os.FileInfo) bool { return !strings.HasSuffix(fi.Name(), "_test.go") }, 0)
	if err != nil {
		die("method table: %v", err)
	}
	for _, p := range pkgs {
		for _, f := range p.Files {
			for _, d := range f.Decls {
				fd, ok := d.(*ast.FuncDecl)
				if !ok || fd.Recv != nil || fd.Type.TypeParams == nil {
					continue
				}
				var tps []string
				for _, fl := range fd.Type.TypeParams.List {
					for _, n := range fl.Names {
						tps = append(tps, n.Name)
					}
				}
				used := map[string]bool{}
				for _, fl := range fd.Type.Params.List {
					ast.Inspect(fl.Type, func(n ast.Node) bool {
						if id, ok := n.(*ast.Ident); ok {
							used[id.Name] = true
						}
						return true
					})
				}
				inf := 1
				for _, tp := range tps {
					if !used[tp] {
						inf = 0
					}
				}
				res[fd.Name.Name] = [2]int{len(tps), inf}
			}
		}
	}
	return res
}

var regexpPtr = reflect.TypeFor[*regexp.Regexp]()

func paramKind(t reflect.Type) string {
	switch t.Kind() { //nolint:exhaustive
	case reflect.String, reflect.Bool, reflect.Int, reflect.Int8, reflect.Int16, reflect.Int32, reflect.Int64,
		reflect.Uint, reflect.Uint8, reflect.Uint16, reflect.Uint32, reflect.Uint64, reflect.Float32, reflect.Float64,
		reflect.Complex64, reflect.Complex128:
		return "basic:" + t.Kind().String()
	case reflect.Interface:
		if t.NumMethod() == 0 {
			return "any"
		}
	}
	if t == regexpPtr {
		return "regexp"
	}
	if t.Kind() == reflect.Interface && strings.HasPrefix(t.String(), "core.ZodType[") {
		return "schemaOf" // a schema whose output type is the constructor's last type argument
	}
	return "other:" + t.String()
}

func buildMethodTable(repo string) methodTable {
	var mt methodTable
	mt.EmittedMethods, mt.EmittedCtors = emittedNames(repo)
	gen := genericFacts(repo)
	inst := ctorInstances()
	follow := map[string]bool{}
	for _, m := range mt.EmittedMethods {
		follow[m] = true
	}
	ids := map[reflect.Type]int{}
	var order []reflect.Type
	idOf := func(t reflect.Type, add bool) int {
		if id, ok := ids[t]; ok {
			return id
		}
		if !add {
			return -1
		}
		ids[t] = len(order)
		order = append(order, t)
		return ids[t]
	}
	isSchema := func(t reflect.Type) bool {
		return t.Kind() == reflect.Pointer && t.Elem().Kind() == reflect.Struct && strings.HasSuffix(t.Elem().PkgPath(), "gozod/types")
	}
	sig := func(ft reflect.Type, skipRecv bool) ([]string, bool, reflect.Type) {
		var ps []string
		start := 0
		if skipRecv {
			start = 1
		}
		n := ft.NumIn()
		if ft.IsVariadic() {
			n--
		}
		for i := start; i < n; i++ {
			ps = append(ps, paramKind(ft.In(i)))
		}
		var res reflect.Type
		if ft.NumOut() > 0 {
			res = ft.Out(0)
		}
		return ps, ft.IsVariadic(), res
	}
	for _, name := range mt.EmittedCtors {
		fn, ok := inst[name]
		if !ok {
			die("method table: writer.go names the constructor gozod.%s, for which the harness has no instance (harness/cmd/c13/methods.go: ctorInstances)", name)
		}
		ft := reflect.TypeOf(fn)
		ps, variadic, res := sig(ft, false)
		c := mtCtor{Name: name, Params: ps, Variadic: variadic, Result: -1, Inferable: true}
		if g, ok := gen[name]; ok {
			c.TypeParams, c.Inferable = g[0], g[1] == 1
		}
		if res != nil && isSchema(res) {
			c.Result = idOf(res, true)
		}
		if c.Params == nil {
			c.Params = []string{}
		}
		c.Out = outPattern(fn)
		if mk, ok := markInstances()[name]; ok {
			c.Out = outPattern(mk)
		}
		mt.Ctors = append(mt.Ctors, c)
	}
	zta := reflect.TypeFor[core.ZodType[any]]()
	mt.LazyGetterOK = zta.Implements(reflect.TypeFor[types.ZodSchemaType]())
	for i := 0; i < len(order); i++ { // closure through the methods gozodgen can emit
		t := order[i]
		for j := 0; j < t.NumMethod(); j++ {
			m := t.Method(j)
			if !follow[m.Name] {
				continue
			}
			if _, _, res := sig(m.Type, true); res != nil && isSchema(res) {
				idOf(res, true)
			}
		}
	}
	for i, t := range order {
		e := mtType{ID: i, Go: t.String(), ZodTypeAny: t.Implements(zta)}
		for j := 0; j < t.NumMethod(); j++ {
			m := t.Method(j)
			ps, variadic, res := sig(m.Type, true)
			if ps == nil {
				ps = []string{}
			}
			r := -1
			if res != nil {
				r = idOf(res, false)
			}
			e.Methods = append(e.Methods, mtMethod{Name: m.Name, Params: ps, Variadic: variadic, Result: r})
		}
		mt.Types = append(mt.Types, e)
	}
	return mt
}

func writeMethodTable(path, repo string) {
	mt := buildMethodTable(repo)
	b, err := json.Marshal(mt)
	if err != nil {
		die("%v", err)
	}
	if err := os.WriteFile(path, b, 0o644); err != nil {
		die("%v", err)
	}
}
