/-
  C02 — the INDEPENDENT law `Spec.accepts` (ContainersSpec.lean: `shapeOf` = which (location, member, value) triples a
  container must ask + its own conditions) related to the model of the code `Cont.run` BY THEOREM, per container
  (audit C02 LOW): `c02_<container>_spec : (run cfg env n v).isOk = Spec.accepts env n v` on inputs that are not nil-like
  (nil-like inputs: `c02_nil_spec`, with the open finding typed-nil-container-rejected as the explicit exclusion).
-/
import Gozod.Proofs.C02
import Gozod.Model.ContainersSpec

namespace Gozod.C02
open Gozod.Cont

theorem bool_eq_of_iff {a b : Bool} (h : a = true ↔ b = true) : a = b := by
  cases a <;> cases b <;> simp_all

theorem extractSlice_eq_sh (t : Ty) (v : V) (hv : v.isNilLike = false) : extractSlice t v = Spec.sliceSh t v := by
  cases v with
  | slice e xs =>
    cases xs with
    | none => simp [V.isNilLike] at hv
    | some xs =>
      simp only [extractSlice, Spec.sliceSh, Spec.allOf, Option.getD_some]
      by_cases h : e = t <;> simp [h]
  | ptr t' p =>
    cases p with
    | none => simp [V.isNilLike] at hv
    | some w =>
      cases t' <;> try rfl
      cases w <;> try rfl
      rename_i e e' xs
      cases xs with
      | none => simp only [extractSlice, Spec.sliceSh]; by_cases h : e = t <;> simp [h]
      | some xs =>
        simp only [extractSlice, Spec.sliceSh, Spec.allOf, Option.getD_some]
        by_cases h : e = t <;> simp [h]
  | _ => first | rfl | simp [V.isNilLike] at hv

theorem idxFrom_all (env : Env) (e : Mid) (k : Nat) (xs : List V) :
    ((Spec.idxFrom k xs).map (fun (ix : Nat × V) => (([Seg.idx ix.1], e, ix.2) : List Seg × Mid × V))).all
        (fun a => acc env a.2.1 a.2.2) = xs.all (fun x => acc env e x) := by
  induction xs generalizing k with
  | nil => rfl
  | cons x xs ih => simp [Spec.idxFrom, ih]

/-- **slice**: the model of the code = the independent law. -/
theorem c02_slice_spec (cfg : Cfg) (env : Env) (m : Mods) (t : Ty) (e : Mid) (cs : List SizeCk) (v : V)
    (hv : v.isNilLike = false) :
    (run cfg env (.slice m t e cs) v).isOk = Spec.accepts env (.slice m t e cs) v := by
  apply bool_eq_of_iff
  rw [c02_slice cfg env m t e cs v hv, extractSlice_eq_sh t v hv]
  cases h : Spec.sliceSh t v with
  | none => simp [Spec.accepts, Spec.shapeOf, hv, h]
  | some xs =>
    simp only [Spec.accepts, Spec.shapeOf, hv, h, Option.map_some, Bool.false_and, Bool.false_or, Bool.not_false,
      Bool.true_or, Bool.true_and, Bool.and_eq_true]
    rw [idxFrom_all]
    simp [List.all_eq_true]

/-! ### set, map -/

theorem extractSet_eq_sh (t : Ty) (v : V) (hv : v.isNilLike = false) : extractSet t v = Spec.setSh t v := by
  cases v with
  | slice e xs =>
    cases xs with
    | none => simp [V.isNilLike] at hv
    | some xs =>
      simp only [extractSet, Spec.setSh, Spec.allOf, Option.getD_some]
      by_cases h : e = t <;> simp [h]
  | map k e es =>
    cases es with
    | none => simp [V.isNilLike] at hv
    | some es =>
      cases e <;> try rfl
      simp only [extractSet, Spec.setSh, Spec.allOf, Option.getD_some, List.all_map]
      by_cases h : k = t
      · simp [h]
      · have hd : decide (k = t) = false := decide_eq_false h
        simp only [if_neg h, hd, Bool.false_or]
        rfl
  | ptr t' p =>
    cases p with
    | none => simp [V.isNilLike] at hv
    | some w =>
      cases t' <;> try rfl
      rename_i k e
      cases e <;> try rfl
      cases w <;> try rfl
      rename_i k' e' es
      cases es <;> simp [extractSet, Spec.setSh]
  | _ => first | rfl | simp [V.isNilLike] at hv

/-- **set**: the model of the code = the independent law. -/
theorem c02_set_spec (cfg : Cfg) (env : Env) (m : Mods) (t : Ty) (e : Mid) (cs : List SizeCk) (v : V)
    (hv : v.isNilLike = false) :
    (run cfg env (.set m t e cs) v).isOk = Spec.accepts env (.set m t e cs) v := by
  apply bool_eq_of_iff
  rw [c02_set cfg env m t e cs v hv, extractSet_eq_sh t v hv]
  cases h : Spec.setSh t v with
  | none => simp [Spec.accepts, Spec.shapeOf, hv, h]
  | some xs =>
    simp [Spec.accepts, Spec.shapeOf, hv, h, List.all_map, Function.comp_def, List.all_eq_true]

theorem extractMap_eq_sh (v : V) (hv : v.isNilLike = false) : extractMap v = Spec.mapSh v := by
  cases v with
  | map k e es =>
    cases es with
    | none => simp [V.isNilLike] at hv
    | some es => rfl
  | ptr t' p =>
    cases p with
    | none => simp [V.isNilLike] at hv
    | some w =>
      cases w <;> try rfl
      rename_i k e es
      cases es <;> rfl
  | _ => first | rfl | simp [V.isNilLike] at hv

theorem mapAsked_all (env : Env) (km vm : Option Mid) (es : List (V × V)) :
    (es.flatMap (fun (kx : V × V) =>
        ((match km with | some m => [([kx.1.seg], m, kx.1)] | none => [])
          ++ (match vm with | some m => [([kx.1.seg], m, kx.2)] | none => []) : List (List Seg × Mid × V)))).all
        (fun a => acc env a.2.1 a.2.2) = true ↔
      ∀ e ∈ es, optAcc env km e.1 = true ∧ optAcc env vm e.2 = true := by
  induction es with
  | nil => simp
  | cons e es ih =>
    simp only [List.flatMap_cons, List.all_append, Bool.and_eq_true, ih, List.mem_cons, forall_eq_or_imp]
    cases km <;> cases vm <;> simp [optAcc]

/-- **map**: the model of the code = the independent law. -/
theorem c02_map_spec (cfg : Cfg) (env : Env) (m : Mods) (km vm : Option Mid) (cs : List SizeCk) (v : V)
    (hv : v.isNilLike = false) :
    (run cfg env (.map m km vm cs) v).isOk = Spec.accepts env (.map m km vm cs) v := by
  apply bool_eq_of_iff
  rw [c02_map cfg env m km vm cs v hv, extractMap_eq_sh v hv]
  cases h : Spec.mapSh v with
  | none => simp [Spec.accepts, Spec.shapeOf, hv, h]
  | some es =>
    cases km <;> cases vm <;>
      simp [Spec.accepts, Spec.shapeOf, hv, h, optAcc, List.all_flatMap, List.all_eq_true]

/-! ### union, xor, intersection, lazy -/

/-- **union**: the model of the code = the independent law (non-nil-like inputs; nil-like: `c02_union_full_false`). -/
theorem c02_union_spec (cfg : Cfg) (env : Env) (m : Mods) (opts : List Mid) (v : V) (hv : v.isNilLike = false) :
    (run cfg env (.union m opts) v).isOk = Spec.accepts env (.union m opts) v := by
  apply bool_eq_of_iff
  rw [c02_union cfg env m opts v hv]
  simp [Spec.accepts, hv, List.any_eq_true]

/-- **xor**. -/
theorem c02_xor_spec (cfg : Cfg) (env : Env) (m : Mods) (opts : List Mid) (v : V) (hv : v.isNilLike = false) :
    (run cfg env (.xor m opts) v).isOk = Spec.accepts env (.xor m opts) v := by
  apply bool_eq_of_iff
  rw [c02_xor cfg env m opts v hv]
  simp [Spec.accepts, hv]

/-- **intersection** (partial: neither side reports top-level unrecognized keys — open finding
    `unrecognized-keys-merged:inter`, witness `c02_inter_full_false`). -/
theorem c02_inter_spec_partial (cfg : Cfg) (env : Env) (m : Mods) (l r : Mid) (v : V) (hv : v.isNilLike = false)
    (hl : ∀ i ∈ errs env l v, isUnrec i = false) (hr : ∀ i ∈ errs env r v, isUnrec i = false) :
    (run cfg env (.inter m l r) v).isOk = Spec.accepts env (.inter m l r) v := by
  apply bool_eq_of_iff
  rw [c02_inter_partial cfg env m l r v hv hl hr]
  simp [Spec.accepts, hv, and_assoc]

/-- **lazy** (partial: the exclusions of `c02_lazy_partial`). -/
theorem c02_lazy_spec_partial (cfg : Cfg) (env : Env) (m : Mods) (direct : Bool) (t : Mid) (v : V)
    (hv : lazyNil v = false) (hask : (cfg.lazyWrap || direct) = true)
    (hph : ∀ i ∈ errs env t v, (i.code == .invalidType && i.expLazy) = false) :
    (run cfg env (.lazy m direct t) v).isOk = Spec.accepts env (.lazy m direct t) v := by
  apply bool_eq_of_iff
  rw [c02_lazy_partial cfg env m direct t v hv hask hph]
  simp [Spec.accepts, hv]

/-! ### struct -/

theorem extractStruct_eq_sh (sid : Nat) (v : V) : extractStruct sid v = Spec.structSh sid v := by
  cases v with
  | ptr t' p =>
    cases p with
    | none => rfl
    | some w => cases t' <;> cases w <;> rfl
  | _ => rfl

theorem structAsked_all (env : Env) (fs : List (Nat × V)) (shape : List Field) :
    ((shape.filter (fun (f : Field) => (lookupField f.name fs).isNone && !f.optional)).isEmpty &&
      (shape.filterMap (fun (f : Field) =>
          (lookupField f.name fs).map (fun x => (([Seg.key f.name], f.m, x) : List Seg × Mid × V)))).all
        (fun a => acc env a.2.1 a.2.2)) = true ↔ ∀ f ∈ shape, structFieldOK env fs f = true := by
  simp only [Bool.and_eq_true, List.isEmpty_iff, List.filter_eq_nil_iff, List.all_eq_true, List.mem_filterMap]
  constructor
  · rintro ⟨h1, h2⟩ f hf
    unfold structFieldOK
    cases hk : lookupField f.name fs with
    | none => have := h1 f hf; simpa [hk] using this
    | some x => exact h2 ([Seg.key f.name], f.m, x) ⟨f, hf, by simp [hk]⟩
  · intro h
    refine ⟨?_, ?_⟩
    · intro f hf
      have := h f hf
      unfold structFieldOK at this
      cases hk : lookupField f.name fs with
      | none => simpa [hk] using this
      | some x => simp
    · rintro a ⟨f, hf, ha⟩
      have := h f hf
      unfold structFieldOK at this
      cases hk : lookupField f.name fs with
      | none => simp [hk] at ha
      | some x => simp only [hk, Option.map_some, Option.some.injEq] at ha; subst ha; simpa [hk] using this

/-- **struct**: the model of the code = the independent law. -/
theorem c02_struct_spec (cfg : Cfg) (env : Env) (m : Mods) (ptrC : Bool) (sid : Nat) (shape : List Field) (v : V)
    (hv : v.isNilLike = false) :
    (run cfg env (.struct m ptrC sid shape) v).isOk = Spec.accepts env (.struct m ptrC sid shape) v := by
  apply bool_eq_of_iff
  rw [c02_struct cfg env m ptrC sid shape v hv, extractStruct_eq_sh sid v]
  cases h : Spec.structSh sid v with
  | none => simp [Spec.accepts, Spec.shapeOf, hv, h]
  | some fs =>
    simp only [Spec.accepts, Spec.shapeOf, hv, h, Option.map_some, Bool.false_and, Bool.false_or, Bool.not_false,
      Bool.true_or, Bool.true_and]
    rw [structAsked_all]
    simp

/-! ### array, tuple: positional items, then the rest schema -/

def positionalFrom (items : List Mid) (rest : Option Mid) (k : Nat) (xs : List V) : List (List Seg × Mid × V) :=
  (Spec.idxFrom k xs).filterMap (fun (ix : Nat × V) =>
    match items[ix.1]? with
    | some m => some ([Seg.idx ix.1], m, ix.2)
    | none => rest.map (fun r => ([Seg.idx ix.1], r, ix.2)))

theorem positional_eq (items : List Mid) (rest : Option Mid) (xs : List V) :
    Spec.positional items rest xs = positionalFrom items rest 0 xs := rfl

theorem posOK_nil_none (env : Env) (xs : List V) : posOK env [] none xs = true := by
  cases xs <;> rfl

theorem positionalFrom_cons (items : List Mid) (rest : Option Mid) (k : Nat) (x : V) (xs : List V) :
    positionalFrom items rest k (x :: xs) =
      (match items[k]? with
       | some m => [([Seg.idx k], m, x)]
       | none => match rest with
         | some r => [([Seg.idx k], r, x)]
         | none => []) ++ positionalFrom items rest (k + 1) xs := by
  unfold positionalFrom
  simp only [Spec.idxFrom, List.filterMap_cons]
  cases items[k]? <;> cases rest <;> rfl

theorem positionalFrom_all (env : Env) (items : List Mid) (rest : Option Mid) (k : Nat) (items' : List Mid)
    (xs : List V) (hsh : ∀ j, items[k + j]? = items'[j]?) :
    (positionalFrom items rest k xs).all (fun a => acc env a.2.1 a.2.2) = posOK env items' rest xs := by
  induction xs generalizing k items' with
  | nil => cases items' <;> rfl
  | cons x xs ih =>
    have h0 : items[k]? = items'[0]? := by simpa using hsh 0
    rw [positionalFrom_cons, List.all_append]
    cases items' with
    | nil =>
      have hn : items[k]? = none := by simpa using h0
      rw [ih (k + 1) [] (by intro j; have := hsh (j + 1); simpa [Nat.add_assoc, Nat.add_comm 1 j] using this), hn]
      cases rest with
      | none => simp [posOK_nil_none]
      | some r => simp [posOK]
    | cons m ms =>
      have hs : items[k]? = some m := by simpa using h0
      rw [ih (k + 1) ms (by intro j; have := hsh (j + 1); simpa [Nat.add_assoc, Nat.add_comm 1 j] using this), hs]
      simp [posOK]

theorem positional_all (env : Env) (items : List Mid) (rest : Option Mid) (xs : List V) :
    (Spec.positional items rest xs).all (fun a => acc env a.2.1 a.2.2) = posOK env items rest xs := by
  rw [positional_eq]; exact positionalFrom_all env items rest 0 items xs (by intro j; simp)

theorem extractArray_eq_sh (v : V) (hv : v.isNilLike = false) : extractArray v = Spec.seqElems v := by
  cases v with
  | slice e xs =>
    cases xs with
    | none => simp [V.isNilLike] at hv
    | some xs => rfl
  | ptr t' p =>
    cases p with
    | none => simp [V.isNilLike] at hv
    | some w =>
      cases w <;> try rfl
      rename_i e xs
      cases xs <;> rfl
  | _ => first | rfl | simp [V.isNilLike] at hv

/-- **array**: the model of the code = the independent law. -/
theorem c02_array_spec (cfg : Cfg) (env : Env) (m : Mods) (items : List Mid) (rest : Option Mid) (cs : List SizeCk)
    (v : V) (hv : v.isNilLike = false) :
    (run cfg env (.array m items rest cs) v).isOk = Spec.accepts env (.array m items rest cs) v := by
  apply bool_eq_of_iff
  rw [c02_array cfg env m items rest cs v hv, extractArray_eq_sh v hv]
  cases h : Spec.seqElems v with
  | none => simp [Spec.accepts, Spec.shapeOf, hv, h]
  | some xs =>
    simp only [Spec.accepts, Spec.shapeOf, hv, h, Option.map_some, Bool.false_and, Bool.false_or, Bool.not_false,
      Bool.true_or, Bool.true_and, Bool.and_eq_true]
    rw [positional_all]
    simp [arrayLenOK, and_assoc]

theorem extractTuple_eq_sh (v : V) (hv : v.isNilLike = false) : extractTuple v = Spec.tupleSh v := by
  cases v with
  | slice e xs =>
    cases xs with
    | none => simp [V.isNilLike] at hv
    | some xs => rfl
  | _ => first | rfl | simp [V.isNilLike] at hv

/-- **tuple**: the model of the code = the independent law. -/
theorem c02_tuple_spec (cfg : Cfg) (env : Env) (m : Mods) (items : List Mid) (req : Nat) (rest : Option Mid)
    (cs : List SizeCk) (v : V) (hv : v.isNilLike = false) :
    (run cfg env (.tuple m items req rest cs) v).isOk = Spec.accepts env (.tuple m items req rest cs) v := by
  apply bool_eq_of_iff
  rw [c02_tuple cfg env m items req rest cs v hv, extractTuple_eq_sh v hv]
  cases h : Spec.tupleSh v with
  | none => simp [Spec.accepts, Spec.shapeOf, hv, h]
  | some xs =>
    simp only [Spec.accepts, Spec.shapeOf, hv, h, Option.map_some, Bool.false_and, Bool.false_or, Bool.not_false,
      Bool.true_or, Bool.true_and, Bool.and_eq_true]
    rw [positional_all]
    simp [tupleLenOK, and_assoc, and_comm, and_left_comm]

/-! ### intersection: what exclusion remains after /repo 05acb23 -/

/-- **intersection, "iff both sides do"** (partial).  Two exclusions remain: (1) a side reports TOP-LEVEL unrecognized keys
    (open finding `unrecognized-keys-merged:inter`, witness `c02_inter_full_false`); (2) the two results do not merge
    (`mergeValues`: after following pointers — /repo 05acb23 — neither is nil, they are not deeply equal and not
    key-wise compatible maps / structs: `Intersection(String().Transform(upper), String()).Parse("a")` — no witness
    THEOREM, the derived `BEq V` inside `mergeable` does not reduce in proofs; seen in the run). -/
theorem c02_inter_both_partial (cfg : Cfg) (env : Env) (m : Mods) (l r : Mid) (v : V) (hv : v.isNilLike = false)
    (hl : ∀ i ∈ errs env l v, isUnrec i = false) (hr : ∀ i ∈ errs env r v, isUnrec i = false)
    (hmerge : mergeable (mresVal (env l v)) (mresVal (env r v)) = true) :
    (run cfg env (.inter m l r) v).isOk = true ↔ acc env l v = true ∧ acc env r v = true := by
  rw [c02_inter_partial cfg env m l r v hv hl hr]; simp [hmerge]

/-- /repo 05acb23: a nil pointer answer is a nil result and merges with anything (`derefMergeOperand`).  (That a non-nil
    pointer answer merges with the value it points to — `Intersection(Int().Nilable(), Int()).Parse(3)` — rests on the
    derived `BEq V`, which does not reduce in proofs: decided by the run, classes `inter valid` / `inter shape`.) -/
theorem c02_inter_pointer_sides (t : Ty) (b : V) : mergeable (.ptr t none) b = true := by
  simp [mergeable, derefMerge, derefMergeN, mergeable0]

/-! ### object -/

theorem extractObject_eq_sh (v : V) (hv : v.isNilLike = false) : extractObject v = Spec.objectSh v := by
  cases v with
  | map k e es =>
    cases es with
    | none => simp [V.isNilLike] at hv
    | some es => cases k <;> cases e <;> rfl
  | ptr t' p =>
    cases p with
    | none => simp [V.isNilLike] at hv
    | some w =>
      cases t' <;> try rfl
      rename_i k e
      cases k <;> cases e <;> try rfl
      cases w <;> try rfl
      rename_i k' e' es
      cases es <;> rfl
  | _ => first | rfl | simp [V.isNilLike] at hv

theorem fieldAsked_length (es : List (V × V)) (shape : List Field) :
    (shape.filterMap (fun (f : Field) =>
        (lookupKey f.name es).map (fun x => (([Seg.key f.name], f.m, x) : List Seg × Mid × V)))).length
      = (shape.filter (fun f => (lookupKey f.name es).isSome)).length := by
  induction shape with
  | nil => rfl
  | cons f rest ih =>
    cases hk : lookupKey f.name es <;> simp [hk, ih]

theorem filter_length_of_all {α : Type} (q : α → Bool) (l : List α) (h : l.all q = true) :
    (l.filter q).length = l.length := by
  rw [List.filter_eq_self.2 (by simpa [List.all_eq_true] using h)]

/-- **object**: the model of the code = the independent law. -/
theorem c02_object_spec (cfg : Cfg) (env : Env) (m : Mods) (shape : List Field) (mode : Mode) (c : Option Mid)
    (p : Partial) (cs : List SizeCk) (v : V) (hv : v.isNilLike = false) :
    (run cfg env (.object m shape mode c p cs) v).isOk = Spec.accepts env (.object m shape mode c p cs) v := by
  apply bool_eq_of_iff
  rw [c02_object cfg env m shape mode c p cs v hv, extractObject_eq_sh v hv]
  cases h : Spec.objectSh v with
  | none => simp [Spec.accepts, Spec.shapeOf, hv, h]
  | some es =>
    simp only [Spec.accepts, Spec.shapeOf, hv, h, Option.map_some, Bool.false_and, Bool.false_or, Bool.not_false,
      Bool.true_or, Bool.true_and, Bool.and_eq_true, List.all_append, Option.some.injEq, exists_eq_left']
    have hK : (shape.filterMap (fun (f : Field) =>
            (lookupKey f.name es).map (fun x => (([Seg.key f.name], f.m, x) : List Seg × Mid × V)))).all
            (fun x => acc env x.2.1 x.2.2) = true →
        ((match mode, c with
            | .strict, _ => []
            | _, some c => (es.filter (fun (e : V × V) => !isKnown shape e.1)).map
                (fun (kx : V × V) => (([kx.1.seg], c, kx.2) : List Seg × Mid × V))
            | _, none => []).all (fun x => acc env x.2.1 x.2.2)) = true →
        ((shape.filterMap (fun (f : Field) =>
            (lookupKey f.name es).map (fun x => (([Seg.key f.name], f.m, x) : List Seg × Mid × V)))).filter
            (fun a => acc env a.2.1 a.2.2)).length +
          (if (mode == Mode.passthrough) = true then
            ((es.filter (fun (e : V × V) => !isKnown shape e.1)).filter
              (fun (kx : V × V) => match c with | some c => acc env c kx.2 | none => true)).length
           else 0) = keptCount shape mode es := by
      intro a3 b2
      unfold keptCount
      rw [filter_length_of_all _ _ a3, fieldAsked_length]
      congr 1
      cases mode with
      | strip => simp
      | strict => simp
      | passthrough =>
        cases c with
        | none => simp
        | some cm =>
          simp only [List.all_map] at b2
          simp only [beq_self_eq_true, ↓reduceIte]
          exact filter_length_of_all _ _ (by simpa [Function.comp_def] using b2)
    -- the field part
    have hF : (∀ f ∈ shape, objFieldOK env p es f = true) ↔
        ((shape.filter (fun f => !Spec.has es f.name && !fieldOptional p f)).isEmpty = true ∧
         (shape.filter (fun f => f.exactOptional && (match lookupKey f.name es with
                                                      | some x => x.isNil | none => false))).isEmpty = true ∧
         (shape.filterMap (fun (f : Field) =>
            (lookupKey f.name es).map (fun x => (([Seg.key f.name], f.m, x) : List Seg × Mid × V)))).all
            (fun x => acc env x.2.1 x.2.2) = true) := by
      simp only [List.isEmpty_iff, List.filter_eq_nil_iff, List.all_eq_true, List.mem_filterMap]
      constructor
      · intro hh
        refine ⟨?_, ?_, ?_⟩
        · intro f hf; have := hh f hf; unfold objFieldOK at this
          cases hk : lookupKey f.name es <;> simp_all [Spec.has]
        · intro f hf; have := hh f hf; unfold objFieldOK at this
          cases hk : lookupKey f.name es with
          | none => simp
          | some x =>
            rw [hk] at this
            cases he : f.exactOptional <;> cases hn : x.isNil <;> simp_all
        · rintro a ⟨f, hf, ha⟩; have := hh f hf; unfold objFieldOK at this
          cases hk : lookupKey f.name es with
          | none => simp [hk] at ha
          | some x => simp only [hk, Option.map_some, Option.some.injEq] at ha; subst ha; simp_all
      · rintro ⟨h1, h2, h3⟩ f hf
        unfold objFieldOK
        cases hk : lookupKey f.name es with
        | none => have := h1 f hf; simp_all [Spec.has]
        | some x =>
          have a := h2 f hf
          have b := h3 ([Seg.key f.name], f.m, x) ⟨f, hf, by simp [hk]⟩
          rw [hk] at a
          cases he : f.exactOptional <;> cases hn : x.isNil <;> simp_all
    have hU : (∀ e ∈ es, isKnown shape e.1 = false → unkOK env mode c e.2 = true) ↔
        ((!(mode == Mode.strict && !(es.filter (fun (e : V × V) => !isKnown shape e.1)).isEmpty)) = true ∧
         ((match mode, c with
            | .strict, _ => []
            | _, some c => (es.filter (fun (e : V × V) => !isKnown shape e.1)).map
                (fun (kx : V × V) => (([kx.1.seg], c, kx.2) : List Seg × Mid × V))
            | _, none => []).all (fun x => acc env x.2.1 x.2.2)) = true) := by
      cases mode <;> cases c <;>
        simp [unkOK, optAcc, List.all_eq_true, List.isEmpty_iff, List.filter_eq_nil_iff] <;>
        (constructor <;> intro hh a b hab <;> have := hh a b hab <;> cases hk : isKnown shape a <;> simp_all)
    constructor
    · rintro ⟨f, u, sz⟩
      obtain ⟨a1, a2, a3⟩ := hF.1 f
      obtain ⟨b1, b2⟩ := hU.1 u
      refine ⟨⟨⟨⟨a1, a2⟩, b1⟩, ?_⟩, a3, b2⟩
      exact (congrArg (fun n => sizeOK cs n) (hK a3 b2)).trans sz
    · rintro ⟨⟨⟨⟨a1, a2⟩, b1⟩, sz⟩, a3, b2⟩
      refine ⟨hF.2 ⟨a1, a2, a3⟩, hU.2 ⟨b1, b2⟩, ?_⟩
      exact (congrArg (fun n => sizeOK cs n) (hK a3 b2)).symm.trans sz

/-! ### record -/

theorem extractRecord_eq_sh (v : V) (hv : v.isNilLike = false) : extractRecord v = Spec.recordSh v := by
  cases v with
  | map k e es =>
    cases es with
    | none => simp [V.isNilLike] at hv
    | some es => rfl
  | ptr t' p =>
    cases p with
    | none => simp [V.isNilLike] at hv
    | some w =>
      cases t' <;> try rfl
      rename_i k e
      cases k <;> cases e <;> try rfl
      cases w <;> try rfl
      rename_i k' e' es
      cases es <;> rfl
  | _ => first | rfl | simp [V.isNilLike] at hv

theorem forall_keyId_eq {P : Nat → Prop} (es : List (V × V)) :
    (∀ (a : Nat) (x y : V), (x, y) ∈ es → keyId x = a → P a) ↔ ∀ x y, (x, y) ∈ es → P (keyId x) :=
  ⟨fun h x y hm => h _ x y hm rfl, fun h _ x y hm e => e ▸ h x y hm⟩

/-- **record**: the model of the code = the independent law. -/
theorem c02_record_spec (cfg : Cfg) (env : Env) (m : Mods) (ks : KeySpec) (vm : Mid) (loose part : Bool)
    (cs : List SizeCk) (v : V) (hv : v.isNilLike = false) :
    (run cfg env (.record m ks vm loose part cs) v).isOk = Spec.accepts env (.record m ks vm loose part cs) v := by
  apply bool_eq_of_iff
  rw [c02_record cfg env m ks vm loose part cs v hv, extractRecord_eq_sh v hv]
  cases h : Spec.recordSh v with
  | none => simp [Spec.accepts, Spec.shapeOf, hv, h]
  | some es =>
    cases ks with
    | none =>
      simp [Spec.accepts, Spec.shapeOf, hv, h, recKeysOK, recSkip, keyMember, Spec.ownP, List.all_eq_true]
    | enum allowed km =>
      cases part <;> cases loose <;>
        simp [-List.all_filterMap, List.mem_filterMap, Spec.accepts, Spec.shapeOf, hv, h, recKeysOK, recSkip, keyMember,
          List.all_eq_true, List.isEmpty_iff, List.filter_eq_nil_iff, and_assoc, forall_keyId_eq] <;>
        (intros; constructor
         · intro hh a a1 b x x1 hm hk e1 e2 e3
           subst e1 e2 e3
           rcases hh x x1 hm with h' | h'
           · simp [hk] at h'
           · exact h'
         · intro hh a b hm
           cases hk : acc env km a
           · exact Or.inl rfl
           · exact Or.inr (hh _ _ _ a b hm hk rfl rfl rfl))
    | schema km =>
      cases loose <;>
        simp [-List.all_filterMap, List.mem_filterMap, Spec.accepts, Spec.shapeOf, hv, h, recKeysOK, recSkip, keyMember,
          List.all_eq_true] <;>
        (intros; constructor
         · intro hh a a1 b x x1 hm hk e1 e2 e3
           subst e1 e2 e3
           rcases hh x x1 hm with h' | h'
           · simp [hk] at h'
           · exact h'
         · intro hh a b hm
           cases hk : acc env km a
           · exact Or.inl rfl
           · exact Or.inr (hh _ _ _ a b hm hk rfl rfl rfl))

end Gozod.C02
