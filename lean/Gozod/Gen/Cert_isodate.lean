/- GENERATED: no certificate exists for isodate: the pattern and the specification differ on the byte string (hex) 303030312d30322d3239 (pattern true, specification false). -/
