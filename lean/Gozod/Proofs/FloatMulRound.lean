/-
  Gozod.Proofs.FloatMulRound — the correctly-rounded subtraction `remainder - |div|` inside the float
  branch of `validate.MultipleOf` never changes the verdict: `implMultF = specMultF` on all pairs of
  binary64 values (finite values whose numerator has at most 53 significant bits; every value decoded
  by `F.ofBits` is one, `ofBits_rep`).

  Shape of the argument, on the common denominator 2^(k+l): A = |a|·2^l, B = |b|·2^k, R = A mod B,
  X = B - R (the exact difference), e = ε.
    * R < e: both verdicts are true.
    * R ≥ e and 2R ≥ B: X ≤ R and X lies on the coarser of the grids of A and B, where R already has
      fewer than 2^53 steps, so X is representable and rounding leaves it alone (`mod_rep`).
    * R ≥ e and 2R < B: X > R ≥ e; ε is representable (`eps_rep`) and rounding never crosses a
      representable threshold from above (`le_roundNat`), so both the exact and the rounded test fail.
  Powers of two in the denominators are moved with `roundNat_mul_pow` (rounding commutes with 2^j).
-/
import Gozod.Model.FloatMul
namespace Gozod.FloatMul
open Gozod

/-- `n` has at most 53 significant bits (it is a fixed point of rounding). -/
def rep (n : Nat) : Prop := roundNat 53 n = n

theorem bitlen_zero : bitlen 0 = 0 := by simp [bitlen]

theorem bitlen_bounds {n : Nat} (h : n ≠ 0) :
    ∃ c, bitlen n = c + 1 ∧ 2 ^ c ≤ n ∧ n < 2 ^ (c + 1) :=
  ⟨n.log2, by simp [bitlen, h], Nat.log2_self_le h, Nat.lt_log2_self⟩

theorem bitlen_unique {n c : Nat} (h1 : 2 ^ c ≤ n) (h2 : n < 2 ^ (c + 1)) : bitlen n = c + 1 := by
  have hn : n ≠ 0 := by have := Nat.two_pow_pos c; omega
  have a := (Nat.le_log2 hn).2 h1
  have b := (Nat.log2_lt hn).2 h2
  simp only [bitlen, hn, if_false]; omega

theorem pow_lt_of {a b : Nat} (h : 2 ^ a < 2 ^ b) : a < b :=
  (Nat.pow_lt_pow_iff_right (by decide)).1 h

/-- unfolding of `roundNat` with the shift named -/
theorem roundNat_zero_sh {n : Nat} (h : bitlen n - 53 = 0) : roundNat 53 n = n := by
  simp [roundNat, h]

theorem roundNat_pos_sh {n : Nat} (h : bitlen n - 53 ≠ 0) :
    roundNat 53 n =
      (if n % 2 ^ (bitlen n - 53) > 2 ^ (bitlen n - 53 - 1) ∨
          (n % 2 ^ (bitlen n - 53) = 2 ^ (bitlen n - 53 - 1) ∧ n / 2 ^ (bitlen n - 53) % 2 = 1)
        then n / 2 ^ (bitlen n - 53) + 1 else n / 2 ^ (bitlen n - 53)) * 2 ^ (bitlen n - 53) := by
  simp [roundNat, h]

/-- the sh > 0 situation, named: n ≠ 0, bitlen n = c + 1 = 53 + sh, sh > 0 -/
theorem sh_data {n : Nat} (h : bitlen n - 53 ≠ 0) :
    ∃ sh, bitlen n - 53 = sh + 1 ∧ 2 ^ 52 * 2 ^ (sh + 1) ≤ n ∧ n < 2 ^ 53 * 2 ^ (sh + 1) := by
  have hn : n ≠ 0 := by
    intro h0; subst h0; simp [bitlen_zero] at h
  obtain ⟨c, hc, h1, h2⟩ := bitlen_bounds hn
  refine ⟨bitlen n - 53 - 1, by omega, ?_, ?_⟩
  · rw [← Nat.pow_add]
    have : 52 + (bitlen n - 53 - 1 + 1) = c := by omega
    rw [this]; exact h1
  · rw [← Nat.pow_add]
    have : 53 + (bitlen n - 53 - 1 + 1) = c + 1 := by omega
    rw [this]; exact h2

theorem rep_of_mul_pow {m t : Nat} (hm : m < 2 ^ 53) : rep (m * 2 ^ t) := by
  unfold rep
  by_cases hsh : bitlen (m * 2 ^ t) - 53 = 0
  · exact roundNat_zero_sh hsh
  · obtain ⟨sh, hs, h1, h2⟩ := sh_data hsh
    rw [roundNat_pos_sh hsh, hs]
    -- sh + 1 ≤ t
    have hle : sh + 1 ≤ t := by
      have h3 : m * 2 ^ t < 2 ^ 53 * 2 ^ t := (Nat.mul_lt_mul_right (Nat.two_pow_pos t)).2 hm
      have h4 : 2 ^ 52 * 2 ^ (sh + 1) < 2 ^ 53 * 2 ^ t := Nat.lt_of_le_of_lt h1 h3
      rw [← Nat.pow_add, ← Nat.pow_add] at h4
      have := pow_lt_of h4
      omega
    have hn : m * 2 ^ t = (m * 2 ^ (t - (sh + 1))) * 2 ^ (sh + 1) := by
      rw [Nat.mul_assoc, Nat.pow_sub_mul_pow 2 hle]
    rw [hn]
    have hP : 0 < 2 ^ (sh + 1) := Nat.two_pow_pos _
    rw [Nat.mul_mod_left, Nat.mul_div_cancel _ hP]
    have hh : 0 < 2 ^ (sh + 1 - 1) := Nat.two_pow_pos _
    have : ¬ (0 > 2 ^ (sh + 1 - 1) ∨ (0 = 2 ^ (sh + 1 - 1) ∧ m * 2 ^ (t - (sh + 1)) % 2 = 1)) := by
      omega
    rw [if_neg this]

theorem lt_of_bitlen_le {n : Nat} (h : bitlen n - 53 = 0) : n < 2 ^ 53 := by
  by_cases hn : n = 0
  · subst hn; exact Nat.two_pow_pos _
  · obtain ⟨c, hc, _, h2⟩ := bitlen_bounds hn
    exact Nat.lt_of_lt_of_le h2 (Nat.pow_le_pow_right (by decide) (by omega))

theorem roundNat_form {n : Nat} (h : bitlen n - 53 ≠ 0) :
    ∃ sh q r, bitlen n - 53 = sh + 1 ∧ n = q * 2 ^ (sh + 1) + r ∧ r < 2 ^ (sh + 1) ∧
      2 ^ 52 ≤ q ∧ q < 2 ^ 53 ∧
      (roundNat 53 n = q * 2 ^ (sh + 1) ∨ roundNat 53 n = (q + 1) * 2 ^ (sh + 1)) := by
  obtain ⟨sh, hs, h1, h2⟩ := sh_data h
  have hP : 0 < 2 ^ (sh + 1) := Nat.two_pow_pos _
  refine ⟨sh, n / 2 ^ (sh + 1), n % 2 ^ (sh + 1), hs, ?_, Nat.mod_lt _ hP, ?_, ?_, ?_⟩
  · rw [Nat.mul_comm]; exact (Nat.div_add_mod _ _).symm
  · exact (Nat.le_div_iff_mul_le hP).2 h1
  · exact (Nat.div_lt_iff_lt_mul hP).2 h2
  · rw [roundNat_pos_sh h, hs]
    split
    · right; rfl
    · left; rfl

theorem rep_roundNat (n : Nat) : rep (roundNat 53 n) := by
  by_cases h : bitlen n - 53 = 0
  · rw [roundNat_zero_sh h]
    have := rep_of_mul_pow (t := 0) (lt_of_bitlen_le h)
    simpa using this
  · obtain ⟨sh, q, r, _, _, _, _, hq, hr⟩ := roundNat_form h
    rcases hr with hr | hr
    · rw [hr]; exact rep_of_mul_pow hq
    · rw [hr]
      by_cases hq' : q + 1 < 2 ^ 53
      · exact rep_of_mul_pow hq'
      · have : q + 1 = 1 * 2 ^ 53 := by omega
        rw [this, Nat.mul_assoc, ← Nat.pow_add]
        exact rep_of_mul_pow (by decide)

theorem rep_exists {n : Nat} (hr : rep n) : ∃ m t, n = m * 2 ^ t ∧ m < 2 ^ 53 := by
  by_cases h : bitlen n - 53 = 0
  · exact ⟨n, 0, by simp, lt_of_bitlen_le h⟩
  · obtain ⟨sh, q, r, _, hn, hrP, _, hq, hro⟩ := roundNat_form h
    unfold rep at hr
    rw [hr] at hro
    rcases hro with h1 | h1
    · exact ⟨q, sh + 1, h1, hq⟩
    · exfalso
      rw [Nat.add_mul] at h1
      omega

theorem rep_iff (n : Nat) : rep n ↔ ∃ m t, n = m * 2 ^ t ∧ m < 2 ^ 53 :=
  ⟨rep_exists, fun ⟨_, _, h, hm⟩ => h ▸ rep_of_mul_pow hm⟩

theorem rep_mul_pow {n : Nat} (h : rep n) (j : Nat) : rep (n * 2 ^ j) := by
  obtain ⟨m, t, hn, hm⟩ := rep_exists h
  rw [hn, Nat.mul_assoc, ← Nat.pow_add]
  exact rep_of_mul_pow hm

/-- rounding is monotone against a representable threshold -/
theorem le_roundNat {T N : Nat} (hT : rep T) (hle : T ≤ N) : T ≤ roundNat 53 N := by
  by_cases h : bitlen N - 53 = 0
  · rw [roundNat_zero_sh h]; exact hle
  · obtain ⟨sh, q, r, _, hn, hrP, hq52, hq, hro⟩ := roundNat_form h
    have hqP : T ≤ q * 2 ^ (sh + 1) := by
      obtain ⟨m, t, hT', hm⟩ := rep_exists hT
      have hP : 0 < 2 ^ (sh + 1) := Nat.two_pow_pos _
      by_cases hts : sh + 1 ≤ t
      · have : T = (m * 2 ^ (t - (sh + 1))) * 2 ^ (sh + 1) := by
          rw [hT', Nat.mul_assoc, Nat.pow_sub_mul_pow 2 hts]
        rw [this]
        apply Nat.mul_le_mul_right
        apply Nat.le_of_lt_succ
        apply Nat.lt_of_mul_lt_mul_right (a := 2 ^ (sh + 1))
        rw [← this, Nat.succ_mul]
        omega
      · have h1 : T < 2 ^ 53 * 2 ^ t := by
          rw [hT']; exact (Nat.mul_lt_mul_right (Nat.two_pow_pos t)).2 hm
        have h2 : 2 ^ 53 * 2 ^ t ≤ 2 ^ 52 * 2 ^ (sh + 1) := by
          rw [← Nat.pow_add, ← Nat.pow_add]
          exact Nat.pow_le_pow_right (by decide) (by omega)
        have h3 : 2 ^ 52 * 2 ^ (sh + 1) ≤ q * 2 ^ (sh + 1) := Nat.mul_le_mul_right _ hq52
        omega
    rcases hro with h1 | h1
    · rw [h1]; exact hqP
    · rw [h1, Nat.add_mul]; omega

theorem bitlen_mul_pow {n : Nat} (hn : n ≠ 0) (j : Nat) : bitlen (n * 2 ^ j) = bitlen n + j := by
  obtain ⟨c, hc, h1, h2⟩ := bitlen_bounds hn
  have : bitlen (n * 2 ^ j) = (c + j) + 1 := by
    apply bitlen_unique
    · rw [Nat.pow_add]; exact Nat.mul_le_mul_right _ h1
    · have : c + j + 1 = (c + 1) + j := by omega
      rw [this, Nat.pow_add]; exact (Nat.mul_lt_mul_right (Nat.two_pow_pos j)).2 h2
  omega

/-- rounding commutes with scaling by a power of two -/
theorem roundNat_mul_pow (n j : Nat) : roundNat 53 (n * 2 ^ j) = roundNat 53 n * 2 ^ j := by
  by_cases hn : n = 0
  · subst hn; simp [roundNat, bitlen_zero]
  by_cases h : bitlen n - 53 = 0
  · have h1 : rep n := roundNat_zero_sh h
    have h2 : rep (n * 2 ^ j) := rep_mul_pow h1 j
    rw [h1, h2]
  · obtain ⟨sh, hs, _, _⟩ := sh_data h
    have hb : bitlen (n * 2 ^ j) - 53 = (sh + 1) + j := by rw [bitlen_mul_pow hn]; omega
    have h' : bitlen (n * 2 ^ j) - 53 ≠ 0 := by omega
    rw [roundNat_pos_sh h', roundNat_pos_sh h, hb, hs]
    have hJ : 0 < 2 ^ j := Nat.two_pow_pos j
    have e1 : n * 2 ^ j / 2 ^ (sh + 1 + j) = n / 2 ^ (sh + 1) := by
      rw [Nat.pow_add, Nat.mul_div_mul_right _ _ hJ]
    have e2 : n * 2 ^ j % 2 ^ (sh + 1 + j) = n % 2 ^ (sh + 1) * 2 ^ j := by
      rw [Nat.pow_add, Nat.mul_mod_mul_right]
    have e3 : 2 ^ (sh + 1 + j - 1) = 2 ^ (sh + 1 - 1) * 2 ^ j := by
      rw [← Nat.pow_add]; congr 1; omega
    rw [e1, e2, e3]
    generalize n % 2 ^ (sh + 1) = r
    generalize 2 ^ (sh + 1 - 1) = hf
    generalize n / 2 ^ (sh + 1) = q
    have c1 : r * 2 ^ j > hf * 2 ^ j ↔ r > hf := Nat.mul_lt_mul_right hJ
    have c2 : r * 2 ^ j = hf * 2 ^ j ↔ r = hf :=
      ⟨fun h => Nat.eq_of_mul_eq_mul_right hJ h, fun h => by rw [h]⟩
    simp only [c1, c2]
    rw [Nat.pow_add, Nat.mul_assoc]

/-- remainder of two representable numbers, on the coarser of the two grids -/
theorem mod_rep {A B : Nat} (hA : rep A) (hB : rep B) (hB0 : 0 < B) :
    ∃ t R' B', A % B = R' * 2 ^ t ∧ B = B' * 2 ^ t ∧ R' < 2 ^ 53 := by
  obtain ⟨mA, tA, hA', hmA⟩ := rep_exists hA
  obtain ⟨mB, tB, hB', hmB⟩ := rep_exists hB
  by_cases hle : tA ≤ tB
  · have hB2 : B = (mB * 2 ^ (tB - tA)) * 2 ^ tA := by
      rw [hB', Nat.mul_assoc, Nat.pow_sub_mul_pow 2 hle]
    refine ⟨tA, mA % (mB * 2 ^ (tB - tA)), mB * 2 ^ (tB - tA), ?_, hB2, ?_⟩
    · rw [hA']
      conv => lhs; rw [hB2]
      exact Nat.mul_mod_mul_right _ _ _
    · exact Nat.lt_of_le_of_lt (Nat.mod_le _ _) hmA
  · have hle' : tB ≤ tA := by omega
    have hA2 : A = (mA * 2 ^ (tA - tB)) * 2 ^ tB := by
      rw [hA', Nat.mul_assoc, Nat.pow_sub_mul_pow 2 hle']
    have hmB0 : 0 < mB := by
      apply Nat.pos_of_ne_zero; intro h0; rw [h0] at hB'; omega
    refine ⟨tB, (mA * 2 ^ (tA - tB)) % mB, mB, ?_, hB', ?_⟩
    · rw [hA2]
      conv => lhs; rw [hB']
      exact Nat.mul_mod_mul_right _ _ _
    · exact Nat.lt_trans (Nat.mod_lt _ hmB0) hmB

theorem round_test_iff {x y k l E ke : Nat} (hx : rep x) (hy : rep y) (hy0 : 0 < y) (hE : rep E)
    (h1 : E * 2 ^ (k + l) ≤ (x * 2 ^ l % (y * 2 ^ k)) * 2 ^ ke) :
    (roundNat 53 (y * 2 ^ (k + l) - (x * 2 ^ l % (y * 2 ^ k)) * 2 ^ l) * 2 ^ ke < E * 2 ^ (l + (k + l))) ↔
    ((y * 2 ^ (k + l) - (x * 2 ^ l % (y * 2 ^ k)) * 2 ^ l) * 2 ^ ke < E * 2 ^ (l + (k + l))) := by
  have hA : rep (x * 2 ^ l) := rep_mul_pow hx l
  have hB : rep (y * 2 ^ k) := rep_mul_pow hy k
  have hB0 : 0 < y * 2 ^ k := Nat.mul_pos hy0 (Nat.two_pow_pos k)
  have hX : y * 2 ^ (k + l) - (x * 2 ^ l % (y * 2 ^ k)) * 2 ^ l
      = (y * 2 ^ k - x * 2 ^ l % (y * 2 ^ k)) * 2 ^ l := by
    rw [Nat.sub_mul, Nat.pow_add, Nat.mul_assoc]
  have hRB : x * 2 ^ l % (y * 2 ^ k) < y * 2 ^ k := Nat.mod_lt _ hB0
  rw [hX]
  have hE2 : E * 2 ^ (l + (k + l)) = E * 2 ^ (k + l) * 2 ^ l := by
    rw [Nat.mul_assoc, ← Nat.pow_add]; congr 2; omega
  rw [hE2]
  generalize hAdef : x * 2 ^ l = A at *
  generalize hBdef : y * 2 ^ k = B at *
  by_cases hc : B ≤ 2 * (A % B)
  · obtain ⟨t, R', B', hR, hBB, hR'⟩ := mod_rep hA hB hB0
    have hrep : rep ((B - A % B) * 2 ^ l) := by
      apply rep_mul_pow
      have : B - A % B = (B' - R') * 2 ^ t := by rw [Nat.sub_mul, ← hR, ← hBB]
      rw [this]
      apply rep_of_mul_pow
      have hT : 0 < 2 ^ t := Nat.two_pow_pos t
      have : B' * 2 ^ t ≤ (2 * R') * 2 ^ t := by
        rw [Nat.mul_assoc, ← hR, ← hBB]; exact hc
      have := Nat.le_of_mul_le_mul_right this hT
      omega
    rw [hrep]
  · have hlt : A % B < B - A % B := by omega
    have hexact : E * 2 ^ (k + l) * 2 ^ l ≤ (B - A % B) * 2 ^ l * 2 ^ ke := by
      have a1 : E * 2 ^ (k + l) * 2 ^ l ≤ (A % B) * 2 ^ ke * 2 ^ l := Nat.mul_le_mul_right _ h1
      have a2 : (A % B) * 2 ^ ke * 2 ^ l ≤ (B - A % B) * 2 ^ ke * 2 ^ l :=
        Nat.mul_le_mul_right _ (Nat.mul_le_mul_right _ (Nat.le_of_lt hlt))
      have a3 : (B - A % B) * 2 ^ ke * 2 ^ l = (B - A % B) * 2 ^ l * 2 ^ ke := by
        rw [Nat.mul_assoc, Nat.mul_comm (2 ^ ke), ← Nat.mul_assoc]
      omega
    have hET : rep (E * 2 ^ (k + l) * 2 ^ l) := rep_mul_pow (rep_mul_pow hE _) _
    have hround := le_roundNat hET hexact
    rw [roundNat_mul_pow] at hround
    constructor <;> intro h <;> omega

theorem rep_of_lt {m : Nat} (hm : m < 2 ^ 53) : rep m := by
  have := rep_of_mul_pow (t := 0) hm
  rwa [Nat.pow_zero, Nat.mul_one] at this

theorem c10_rep : rep c10.n :=
  rep_of_lt (by show 0x1B7CDFD9D7BDBB < 2 ^ 53; decide)

theorem eps_cases (ad : D) : eps ad = c10 ∨ eps ad = rnd (D.mul ad c6) := by
  unfold eps
  simp only []
  split
  · exact Or.inl rfl
  · exact Or.inr rfl

theorem eps_rep (ad : D) : rep (eps ad).n := by
  rcases eps_cases ad with h | h
  · rw [h]; exact c10_rep
  · rw [h]; exact rep_roundNat _

theorem epsRule_rnd_eq_id {x y : Nat} (k l : Nat) (hx : rep x) (hy : rep y) (hy0 : 0 < y) :
    epsRule rnd ⟨(x * 2 ^ l) % (y * 2 ^ k), k + l⟩ ⟨y, l⟩ =
      epsRule id ⟨(x * 2 ^ l) % (y * 2 ^ k), k + l⟩ ⟨y, l⟩ := by
  unfold epsRule
  have hE := eps_rep ⟨y, l⟩
  generalize eps ⟨y, l⟩ = e at *
  obtain ⟨E, ke⟩ := e
  simp only [D.lt, D.sub, rnd, id]
  by_cases h1 : x * 2 ^ l % (y * 2 ^ k) * 2 ^ ke < E * 2 ^ (k + l)
  · simp only [h1, decide_true, Bool.true_or]
  · have h1' : E * 2 ^ (k + l) ≤ x * 2 ^ l % (y * 2 ^ k) * 2 ^ ke := by omega
    have := round_test_iff (k := k) (l := l) hx hy hy0 hE h1'
    simp only [h1, decide_false, Bool.false_or]
    exact decide_eq_decide.2 this

/-- A finite value of the model is a binary64 significand pattern. -/
def F.rep : F → Prop
  | .fin a _ => Gozod.FloatMul.rep a.natAbs
  | _ => True

theorem implMultF_eq_specMultF (v d : F) (hv : F.rep v) (hd : F.rep d) :
    implMultF v d = specMultF v d := by
  cases v <;> cases d <;> try rfl
  rename_i a k b l
  simp only [implMultF, specMultF]
  by_cases hb : b = 0
  · simp only [hb, if_true]
  · simp only [hb, if_false, fmodAbs]
    exact epsRule_rnd_eq_id k l hv hd (Int.natAbs_pos.2 hb)

theorem ofBits_rep (b : Nat) : F.rep (F.ofBits b) := by
  have hfr : b % 2 ^ 52 < 2 ^ 52 := Nat.mod_lt _ (Nat.two_pow_pos _)
  have hsg : ∀ (c : Bool) (n : Nat), (if c then -(n : Int) else (n : Int)).natAbs = n := by
    intro c n; cases c <;> simp
  unfold F.ofBits
  simp only []
  split
  · split
    · split <;> exact True.intro
    · exact True.intro
  · split
    · show rep _
      rw [hsg]
      exact rep_of_lt (Nat.lt_trans hfr (by decide))
    · split
      · show rep _
        rw [hsg]
        exact rep_of_mul_pow (by omega)
      · show rep _
        rw [hsg]
        exact rep_of_lt (by omega)

/-! The hypotheses are inhabited by non-trivial pairs: 0.3 and 0.1. -/

example : F.ofBits 0x3FD3333333333333 = .fin 0x13333333333333 54 := by decide +kernel
example : F.ofBits 0x3FB999999999999A = .fin 0x1999999999999A 56 := by decide +kernel

example : F.rep (F.ofBits 0x3FD3333333333333) ∧ F.rep (F.ofBits 0x3FB999999999999A) :=
  ⟨ofBits_rep _, ofBits_rep _⟩

example : rep 0x13333333333333 ∧ rep 0x1999999999999A := by
  constructor <;> exact rep_of_lt (by decide)

example : implMultF (F.ofBits 0x3FD3333333333333) (F.ofBits 0x3FB999999999999A) =
    specMultF (F.ofBits 0x3FD3333333333333) (F.ofBits 0x3FB999999999999A) :=
  implMultF_eq_specMultF _ _ (ofBits_rep _) (ofBits_rep _)

end Gozod.FloatMul
