import Gozod.Drv.Loop
import Gozod.Drv.C12
def main : IO Unit := Gozod.Drv.runTokens Gozod.Drv.C12.handle
